/-
  C20 — helper lemmas: the Python-int MurmurHash3 of Model.Bloom equals the UInt32 reference of
  Spec.Bloom; bit-level facts about `setBit`/`testBit`; wire round trip of the filter.
-/
import BtcVerif.Model.Bloom
import BtcVerif.Spec.Bloom

namespace BtcVerif.Bloom
open BtcVerif Model.Bloom Model

theorem bind_ok {α β : Type} (a : α) (f : α → Res β) : ((Except.ok a : Res α) >>= f) = f a := rfl
theorem bind_err {α β : Type} (e : Exc) (f : α → Res β) : ((Except.error e : Res α) >>= f) = .error e := rfl
theorem pure_ok {α : Type} (a : α) : (pure a : Res α) = .ok a := rfl

/-! ### masks and UInt32 -/

theorem and_M32 (x : Nat) : x &&& 0xFFFFFFFF = x % 2 ^ 32 := Nat.and_two_pow_sub_one_eq_mod x 32

theorem rotl32_15 (x : UInt32) : rotl32 x.toNat 15 = .ok (Spec.Bloom.rotl32 x 15).toNat := by
  have hx : x.toNat ≤ 0xFFFFFFFF := by have := x.toNat_lt; omega
  simp only [rotl32, hx, if_true, Spec.Bloom.rotl32, UInt32.toNat_or, UInt32.toNat_shiftLeft,
    UInt32.toNat_shiftRight, and_M32]
  rfl

theorem rotl32_13 (x : UInt32) : rotl32 x.toNat 13 = .ok (Spec.Bloom.rotl32 x 13).toNat := by
  have hx : x.toNat ≤ 0xFFFFFFFF := by have := x.toNat_lt; omega
  simp only [rotl32, hx, if_true, Spec.Bloom.rotl32, UInt32.toNat_or, UInt32.toNat_shiftLeft,
    UInt32.toNat_shiftRight, and_M32]
  rfl

theorem mixK1_eq (k : UInt32) : mixK1 k.toNat = .ok (Spec.Bloom.scramble k).toNat := by
  have h1 : (k.toNat * c1) &&& 0xFFFFFFFF = (k * Spec.Bloom.c1).toNat := by
    rw [and_M32, UInt32.toNat_mul]; rfl
  unfold mixK1
  rw [h1]
  show (rotl32 (k * Spec.Bloom.c1).toNat 15 >>= fun k1 => pure ((k1 * c2) &&& 0xFFFFFFFF)) = _
  rw [rotl32_15]
  show Except.ok _ = _
  apply congrArg Except.ok
  rw [and_M32, Spec.Bloom.scramble, UInt32.toNat_mul]; rfl

theorem mixH1_eq (h k : UInt32) :
    mixH1 h.toNat (Spec.Bloom.scramble k).toNat = .ok (Spec.Bloom.mixBlock h k).toNat := by
  unfold mixH1
  rw [← UInt32.toNat_xor]
  show (rotl32 (h ^^^ Spec.Bloom.scramble k).toNat 13 >>= fun h1 =>
      pure ((((h1 * 5) &&& 0xFFFFFFFF) + 0xe6546b64) &&& 0xFFFFFFFF)) = _
  rw [rotl32_13]
  show Except.ok _ = _
  apply congrArg Except.ok
  rw [and_M32, and_M32, Spec.Bloom.mixBlock, UInt32.toNat_add, UInt32.toNat_mul]; rfl

/-! ### finalisation with late masking -/

theorem xorshift_mod (X : Nat) (u s : UInt32) (hu : X % 2 ^ 32 = u.toNat) :
    (X ^^^ ((X &&& 0xFFFFFFFF) >>> (s.toNat % 32))) % 2 ^ 32 = (u ^^^ (u >>> s)).toNat := by
  have hlt : u.toNat >>> (s.toNat % 32) < 2 ^ 32 :=
    Nat.lt_of_le_of_lt (Nat.shiftRight_le _ _) u.toNat_lt
  rw [and_M32, Nat.xor_mod_two_pow, hu, Nat.mod_eq_of_lt hlt, UInt32.toNat_xor, UInt32.toNat_shiftRight]

theorem mul_mod32 (X : Nat) (u c : UInt32) (cn : Nat) (hc : c.toNat = cn) (hu : X % 2 ^ 32 = u.toNat) :
    (X * cn) % 2 ^ 32 = (u * c).toNat := by
  subst hc
  rw [Nat.mul_mod, hu, UInt32.toNat_mul, Nat.mod_eq_of_lt c.toNat_lt]

theorem finalize_eq (h : UInt32) (L : Nat) :
    finalize h.toNat L = (Spec.Bloom.fmix32 (h ^^^ UInt32.ofNat L)).toNat := by
  unfold finalize Spec.Bloom.fmix32
  have h0 : h.toNat ^^^ (L &&& 0xFFFFFFFF) = (h ^^^ UInt32.ofNat L).toNat := by
    rw [and_M32, UInt32.toNat_xor, UInt32.toNat_ofNat']
  simp only [h0]
  generalize h ^^^ UInt32.ofNat L = a
  have ha : a.toNat % 2 ^ 32 = a.toNat := Nat.mod_eq_of_lt a.toNat_lt
  -- step 1 keeps the value below 2^32
  have h1 : a.toNat ^^^ ((a.toNat &&& 0xFFFFFFFF) >>> 16) = (a ^^^ (a >>> 16)).toNat := by
    have := xorshift_mod a.toNat a 16 ha
    have e16 : (16 : UInt32).toNat % 32 = 16 := rfl
    rw [e16] at this
    rw [← this]
    refine (Nat.mod_eq_of_lt ?_).symm
    have h2 : a.toNat &&& 0xFFFFFFFF = a.toNat := by rw [and_M32, ha]
    rw [h2]
    exact Nat.xor_lt_two_pow a.toNat_lt (Nat.lt_of_le_of_lt (Nat.shiftRight_le _ _) a.toNat_lt)
  simp only [h1]
  have e13 : (13 : UInt32).toNat % 32 = 13 := rfl
  have e16 : (16 : UInt32).toNat % 32 = 16 := rfl
  have hb := mul_mod32 (a ^^^ a >>> 16).toNat (a ^^^ a >>> 16) 0x85ebca6b 0x85ebca6b (by rfl)
    (Nat.mod_eq_of_lt (UInt32.toNat_lt _))
  have hc := xorshift_mod _ _ 13 hb
  rw [e13] at hc
  have hd := mul_mod32 _ _ 0xc2b2ae35 0xc2b2ae35 (by rfl) hc
  have he := xorshift_mod _ _ 16 hd
  rw [e16] at he
  rw [and_M32 (_ ^^^ _)]
  exact he

/-! ### tail -/

/-- the tail word of the 0..3 left-over bytes as the reference forms it -/
def tailW : Bytes → UInt32
  | [a] => a.toUInt32
  | [a, b] => (b.toUInt32 <<< 8) ^^^ a.toUInt32
  | [a, b, c] => (c.toUInt32 <<< 16) ^^^ (b.toUInt32 <<< 8) ^^^ a.toUInt32
  | _ => 0

theorem scramble_zero : Spec.Bloom.scramble 0 = 0 := by decide

theorem tailMix_eq (h : UInt32) (t : Bytes) (ht : t.length < 4) :
    Spec.Bloom.tailMix h t = h ^^^ Spec.Bloom.scramble (tailW t) := by
  match t, ht with
  | [], _ => simp [Spec.Bloom.tailMix, tailW, scramble_zero]
  | [a], _ => rfl
  | [a, b], _ => rfl
  | [a, b, c], _ => rfl
  | _ :: _ :: _ :: _ :: _, h => simp at h; omega

theorem blocks_cons4 (h : UInt32) (a b c d : UInt8) (rest : Bytes) :
    Spec.Bloom.blocks h (a :: b :: c :: d :: rest) =
      Spec.Bloom.blocks (Spec.Bloom.mixBlock h (Spec.Bloom.le32 a b c d)) rest := by
  rw [Spec.Bloom.blocks, Spec.Bloom.foldBlocks, Spec.Bloom.blocks]

theorem blocks_short (h : UInt32) (t : Bytes) (ht : t.length < 4) : Spec.Bloom.blocks h t = (h, t) := by
  unfold Spec.Bloom.blocks
  match t, ht with
  | [], _ => rfl
  | [a], _ => rfl
  | [a, b], _ => rfl
  | [a, b, c], _ => rfl
  | _ :: _ :: _ :: _ :: _, h => simp at h; omega

theorem byteAt_append (pre t : Bytes) (i : Nat) : byteAt (pre ++ t) (pre.length + i) = byteAt t i := by
  unfold byteAt
  rw [List.getElem?_append_right (by omega)]
  simp

theorem and3 (n : Nat) : n &&& 3 = n % 4 := Nat.and_two_pow_sub_one_eq_mod n 2

theorem shl_byte_mod (a : UInt8) (s : Nat) (hs : s ≤ 24) : (a.toNat <<< s) % 2 ^ 32 = a.toNat <<< s := by
  apply Nat.mod_eq_of_lt
  rw [Nat.shiftLeft_eq]
  have ha : a.toNat < 2 ^ 8 := a.toNat_lt
  calc a.toNat * 2 ^ s < 2 ^ 8 * 2 ^ s := Nat.mul_lt_mul_of_pos_right ha (Nat.pow_pos (by omega))
    _ = 2 ^ (8 + s) := by rw [Nat.pow_add]
    _ ≤ 2 ^ 32 := Nat.pow_le_pow_right (by omega) (by omega)

theorem shl_byte_lt (a : UInt8) (s : Nat) (hs : s ≤ 24) : a.toNat <<< s < 2 ^ 32 := by
  rw [← shl_byte_mod a s hs]; exact Nat.mod_lt _ (by omega)

theorem byte_lt32 (a : UInt8) : a.toNat < 2 ^ 32 := Nat.lt_trans a.toNat_lt (by omega)

theorem tailWord_eq (pre t : Bytes) (hp : pre.length % 4 = 0) (ht : t.length < 4) :
    tailWord (pre ++ t) = .ok (tailW t).toNat := by
  have hj : ∀ k, k < 4 → (pre.length + k) / 4 * 4 = pre.length := by intro k hk; omega
  have hm : ∀ k, k < 4 → (pre.length + k) % 4 = k := by intro k hk; omega
  match t, ht with
  | [], _ =>
    simp only [tailWord, List.append_nil, and3, hp]
    rfl
  | [a], _ =>
    simp only [tailWord, List.length_append, List.length_cons, List.length_nil, and3, hm 1 (by omega),
      hj 1 (by omega)]
    simp [byteAt, tailW, and_M32, bind, Except.bind, pure, Except.pure]
  | [a, b], _ =>
    simp only [tailWord, List.length_append, List.length_cons, List.length_nil, and3, hm 2 (by omega),
      hj 2 (by omega)]
    simp [byteAt, tailW, and_M32, bind, Except.bind, pure, Except.pure, shl_byte_mod b 8 (by omega)]
    exact Nat.xor_lt_two_pow (shl_byte_lt b 8 (by omega)) (byte_lt32 a)
  | [a, b, c], _ =>
    simp only [tailWord, List.length_append, List.length_cons, List.length_nil, and3, hm 3 (by omega),
      hj 3 (by omega)]
    simp [byteAt, tailW, and_M32, bind, Except.bind, pure, Except.pure,
      shl_byte_mod b 8 (by omega), shl_byte_mod c 16 (by omega)]
    exact Nat.xor_lt_two_pow (Nat.xor_lt_two_pow (shl_byte_lt c 16 (by omega)) (shl_byte_lt b 8 (by omega)))
      (byte_lt32 a)
  | _ :: _ :: _ :: _ :: _, h => simp at h; omega

/-! ### body loop, and the whole function -/

theorem le32_toNat (a b c d : UInt8) : (Spec.Bloom.le32 a b c d).toNat = leNat [a, b, c, d] := by
  unfold Spec.Bloom.le32
  rw [UInt32.toNat_ofNat']
  exact Nat.mod_eq_of_lt (by have := leNat_lt [a, b, c, d]; simpa using this)

theorem finish_unfold (d : Bytes) (h : Nat) :
    finish d h = (tailWord d >>= fun k1 => mixK1 k1 >>= fun k1 => pure (finalize (h ^^^ k1) d.length)) := rfl

theorem finish_eq (pre t : Bytes) (h : UInt32) (hp : pre.length % 4 = 0) (ht : t.length < 4) :
    finish (pre ++ t) h.toNat =
      .ok (Spec.Bloom.fmix32 (Spec.Bloom.tailMix h t ^^^ UInt32.ofNat (pre ++ t).length)).toNat := by
  rw [finish_unfold, tailWord_eq pre t hp ht, bind_ok, mixK1_eq, bind_ok, pure_ok]
  apply congrArg Except.ok
  rw [← UInt32.toNat_xor, finalize_eq, tailMix_eq h t ht]

theorem bodyLoop_step (data : Bytes) (i h1 : Nat)
    (hc : i < data.length - data.length % 4 ∧ data.length - i ≥ 4)
    (hl : ((data.drop i).take 4).length = 4) :
    bodyLoop data i h1 = (mixK1 (leNat ((data.drop i).take 4)) >>= fun k1 => mixH1 h1 k1 >>= fun h1' =>
      bodyLoop data (i + 4) h1') := by
  rw [bodyLoop]
  simp only [hc, and_self, if_true, hl, ne_eq, not_true_eq_false, if_false]

theorem bodyLoop_stop (data : Bytes) (i h1 : Nat)
    (hc : ¬ (i < data.length - data.length % 4 ∧ data.length - i ≥ 4)) :
    bodyLoop data i h1 = .ok h1 := by
  rw [bodyLoop]
  simp only [hc, if_false]
  rfl

theorem murmur_stop (t pre : Bytes) (h : UInt32) (hp : pre.length % 4 = 0) (ht : t.length < 4) :
    (bodyLoop (pre ++ t) pre.length h.toNat >>= finish (pre ++ t)) =
      .ok (Spec.Bloom.finishFrom h t (pre ++ t).length).toNat := by
  rw [bodyLoop_stop _ _ _ (by simp only [List.length_append]; omega), bind_ok, finish_eq pre t h hp ht,
    Spec.Bloom.finishFrom, blocks_short h t ht]

theorem exists_four (rest : Bytes) (h : ¬ rest.length < 4) :
    ∃ a b c d rest', rest = a :: b :: c :: d :: rest' := by
  match rest, h with
  | a :: b :: c :: d :: r, _ => exact ⟨a, b, c, d, r, rfl⟩
  | [], h => simp at h
  | [_], h => simp at h
  | [_, _], h => simp at h
  | [_, _, _], h => simp at h

theorem murmur_step (a b c d : UInt8) (rest' pre : Bytes) (h : UInt32) (hp : pre.length % 4 = 0) :
    (bodyLoop (pre ++ a :: b :: c :: d :: rest') pre.length h.toNat >>= finish (pre ++ a :: b :: c :: d :: rest')) =
    (bodyLoop ((pre ++ [a, b, c, d]) ++ rest') (pre ++ [a, b, c, d]).length
        (Spec.Bloom.mixBlock h (Spec.Bloom.le32 a b c d)).toNat >>= finish ((pre ++ [a, b, c, d]) ++ rest')) := by
  have hcond : pre.length < (pre ++ a :: b :: c :: d :: rest').length
        - (pre ++ a :: b :: c :: d :: rest').length % 4 ∧
      (pre ++ a :: b :: c :: d :: rest').length - pre.length ≥ 4 := by
    simp only [List.length_append, List.length_cons]; omega
  have hsl : ((pre ++ a :: b :: c :: d :: rest').drop pre.length).take 4 = [a, b, c, d] := by
    rw [List.drop_left]; simp
  have e1 : pre ++ a :: b :: c :: d :: rest' = (pre ++ [a, b, c, d]) ++ rest' := by simp
  have e2 : pre.length + 4 = (pre ++ [a, b, c, d]).length := by simp
  rw [bodyLoop_step _ _ _ hcond (by rw [hsl]; simp), hsl, ← le32_toNat, mixK1_eq, bind_ok, mixH1_eq, bind_ok,
    e2, e1]

/-- from any 4-aligned position: the rest of the body loop followed by tail and finalisation -/
theorem murmur_from (n : Nat) : ∀ (rest : Bytes), rest.length = n → ∀ (pre : Bytes) (h : UInt32),
    pre.length % 4 = 0 →
    (bodyLoop (pre ++ rest) pre.length h.toNat >>= finish (pre ++ rest)) =
      .ok (Spec.Bloom.finishFrom h rest (pre ++ rest).length).toNat := by
  induction n using Nat.strongRecOn with
  | _ n ih =>
    intro rest hn pre h hp
    by_cases hlt : rest.length < 4
    · exact murmur_stop rest pre h hp hlt
    · obtain ⟨a, b, c, d, rest', hr⟩ := exists_four rest hlt
      have hlen : rest'.length < n := by rw [← hn, hr]; simp only [List.length_cons]; omega
      have hp' : (pre ++ [a, b, c, d]).length % 4 = 0 := by
        simp only [List.length_append, List.length_cons, List.length_nil]; omega
      have hfin : Spec.Bloom.finishFrom h (a :: b :: c :: d :: rest') (pre ++ [a, b, c, d] ++ rest').length =
          Spec.Bloom.finishFrom (Spec.Bloom.mixBlock h (Spec.Bloom.le32 a b c d)) rest'
            (pre ++ [a, b, c, d] ++ rest').length := by
        simp only [Spec.Bloom.finishFrom, blocks_cons4]
      have e1 : pre ++ a :: b :: c :: d :: rest' = (pre ++ [a, b, c, d]) ++ rest' := by simp
      rw [hr, murmur_step a b c d rest' pre h hp, ih rest'.length hlen rest' rfl (pre ++ [a, b, c, d]) _ hp',
        e1, hfin]

theorem murmurHash3_unfold (seed : Nat) (data : Bytes) (hs : seed ≤ 0xFFFFFFFF) :
    murmurHash3 seed data = (bodyLoop data 0 seed >>= finish data) := by
  unfold murmurHash3
  simp only [hs, not_true_eq_false, if_false]

/-- `MurmurHash3(seed, data)` never fails for a 32-bit seed and equals the UInt32 reference -/
theorem murmurHash3_eq (seed : Nat) (hs : seed < 2 ^ 32) (data : Bytes) :
    murmurHash3 seed data = .ok (Spec.Bloom.murmur3 (UInt32.ofNat seed) data).toNat := by
  have hto : (UInt32.ofNat seed).toNat = seed := by rw [UInt32.toNat_ofNat']; exact Nat.mod_eq_of_lt hs
  have := murmur_from data.length data rfl [] (UInt32.ofNat seed) (by simp)
  simp only [List.nil_append, List.length_nil, hto] at this
  rw [murmurHash3_unfold seed data (by omega), this]; rfl

/-! ### wire form -/

theorem serRead_append (w : Nat) (a rest : Bytes) (hw : w ≤ Wire.MAX_SIZE) (ha : a.length = w) :
    Wire.serRead w (a ++ rest) = .ok (a, rest) := by
  unfold Wire.serRead
  have h1 : ¬ w > Wire.MAX_SIZE := by omega
  have h2 : ¬ (a ++ rest).length < w := by simp [ha]
  simp only [h1, h2, if_false]
  subst ha
  simp

theorem readU_leBytes (w n : Nat) (rest : Bytes) (hw : w ≤ Wire.MAX_SIZE) :
    Wire.readU w (leBytes w n ++ rest) = .ok (n % 256 ^ w, rest) := by
  unfold Wire.readU
  rw [serRead_append w _ rest hw (leBytes_length w n), bind_ok]
  simp only [pure_ok, leNat_leBytes]

theorem maxsize_val : Wire.MAX_SIZE = 33554432 := by decide

theorem packU_ok (w n : Nat) (enc : Bytes) (h : Wire.packU w n = .ok enc) : n < 256 ^ w ∧ enc = leBytes w n := by
  unfold Wire.packU at h
  by_cases hn : n < 256 ^ w
  · simp only [hn, if_true] at h; cases h; exact ⟨hn, rfl⟩
  · simp only [hn, if_false] at h; cases h

theorem map_ok {α β : Type} (f : α → β) (r : Res α) (b : β) (h : r.map f = .ok b) : ∃ a, r = .ok a ∧ b = f a := by
  cases r with
  | ok a => exact ⟨a, rfl, by cases h; rfl⟩
  | error e => cases h

theorem deVarInt_tag (tag : UInt8) (w n : Nat) (rest : Bytes) (ht : tag.toNat ≥ 0xfd)
    (hw : (tag.toNat = 0xfd ∧ w = 2) ∨ (tag.toNat = 0xfe ∧ w = 4) ∨ (tag.toNat = 0xff ∧ w = 8)) (hn : n < 256 ^ w) :
    Wire.deVarInt (tag :: leBytes w n ++ rest) = .ok (n, rest) := by
  have hM := maxsize_val
  unfold Wire.deVarInt
  have e : tag :: leBytes w n ++ rest = [tag] ++ (leBytes w n ++ rest) := by simp
  rw [e, serRead_append 1 [tag] _ (by omega) rfl, bind_ok]
  have hx : leNat [tag] = tag.toNat := by simp [leNat]
  have h1 : ¬ tag.toNat < 0xfd := by omega
  simp only [hx, h1, if_false]
  rcases hw with ⟨h, rfl⟩ | ⟨h, rfl⟩ | ⟨h, rfl⟩
  · simp only [h, if_true]
    rw [readU_leBytes 2 n rest (by omega), Nat.mod_eq_of_lt hn]
  · have : ¬ (0xfe = 0xfd) := by omega
    simp only [h, this, if_false, if_true]
    rw [readU_leBytes 4 n rest (by omega), Nat.mod_eq_of_lt hn]
  · have h2 : ¬ (0xff = 0xfd) := by omega
    have h3 : ¬ (0xff = 0xfe) := by omega
    simp only [h, h2, h3, if_false]
    rw [readU_leBytes 8 n rest (by omega), Nat.mod_eq_of_lt hn]

theorem deVarInt_ser (n : Nat) (enc rest : Bytes) (h : Wire.serVarInt n = .ok enc) :
    Wire.deVarInt (enc ++ rest) = .ok (n, rest) := by
  have hM := maxsize_val
  unfold Wire.serVarInt at h
  by_cases h1 : n < 0xfd
  · simp only [h1, if_true] at h
    cases h
    unfold Wire.deVarInt
    rw [serRead_append 1 [UInt8.ofNat n] rest (by omega) rfl, bind_ok]
    have hx : leNat [UInt8.ofNat n] = n := by
      simp [leNat, UInt8.toNat_ofNat']; omega
    simp only [hx, h1, if_true, pure_ok]
  · simp only [h1, if_false] at h
    by_cases h2 : n ≤ 0xffff
    · simp only [h2, if_true] at h
      obtain ⟨a, ha, rfl⟩ := map_ok _ _ _ h
      obtain ⟨hn, rfl⟩ := packU_ok _ _ _ ha
      exact deVarInt_tag 0xfd 2 n rest (by decide) (Or.inl ⟨by decide, rfl⟩) hn
    · simp only [h2, if_false] at h
      by_cases h3 : n ≤ 0xffffffff
      · simp only [h3, if_true] at h
        obtain ⟨a, ha, rfl⟩ := map_ok _ _ _ h
        obtain ⟨hn, rfl⟩ := packU_ok _ _ _ ha
        exact deVarInt_tag 0xfe 4 n rest (by decide) (Or.inr (Or.inl ⟨by decide, rfl⟩)) hn
      · simp only [h3, if_false] at h
        obtain ⟨a, ha, rfl⟩ := map_ok _ _ _ h
        obtain ⟨hn, rfl⟩ := packU_ok _ _ _ ha
        exact deVarInt_tag 0xff 8 n rest (by decide) (Or.inr (Or.inr ⟨by decide, rfl⟩)) hn

theorem bind_eq_ok {α β : Type} {r : Res α} {f : α → Res β} {b : β} (h : (r >>= f) = .ok b) :
    ∃ a, r = .ok a ∧ f a = .ok b := by
  cases r with
  | ok a => exact ⟨a, rfl, h⟩
  | error e => cases h

theorem ser_unfold (f : Filter) : ser f =
    (Wire.serBytes f.vData >>= fun d => Wire.packU 4 f.nHashFuncs >>= fun k => Wire.packU 4 f.nTweak >>= fun t =>
      Wire.packU 1 f.nFlags >>= fun fl => pure (d ++ k ++ t ++ fl)) := rfl

theorem serBytes_unfold (b : Bytes) : Wire.serBytes b = (Wire.serVarInt b.length >>= fun l => pure (l ++ b)) := rfl

theorem deBytes_unfold (s : Bytes) : Wire.deBytes s = (Wire.deVarInt s >>= fun p => Wire.serRead p.1 p.2) := rfl

theorem de_unfold (s : Bytes) : de s = (Wire.deBytes s >>= fun p => Wire.serRead 9 p.2 >>= fun q =>
    pure ({ vData := p.1, nHashFuncs := leNat (q.1.take 4), nTweak := leNat ((q.1.drop 4).take 4),
            nFlags := leNat (q.1.drop 8) }, q.2)) := rfl

/-- what `ser` produces when it succeeds -/
theorem ser_ok (f : Filter) (enc : Bytes) (h : ser f = .ok enc) :
    f.nHashFuncs < 2 ^ 32 ∧ f.nTweak < 2 ^ 32 ∧ f.nFlags < 2 ^ 8 ∧
    ∃ l, Wire.serVarInt f.vData.length = .ok l ∧
      enc = l ++ f.vData ++ leBytes 4 f.nHashFuncs ++ leBytes 4 f.nTweak ++ leBytes 1 f.nFlags := by
  rw [ser_unfold] at h
  obtain ⟨d, hd, h⟩ := bind_eq_ok h
  obtain ⟨k, hk, h⟩ := bind_eq_ok h
  obtain ⟨t, ht, h⟩ := bind_eq_ok h
  obtain ⟨fl, hfl, h⟩ := bind_eq_ok h
  rw [serBytes_unfold] at hd
  obtain ⟨l, hl, hd⟩ := bind_eq_ok hd
  obtain ⟨hk1, rfl⟩ := packU_ok _ _ _ hk
  obtain ⟨ht1, rfl⟩ := packU_ok _ _ _ ht
  obtain ⟨hf1, rfl⟩ := packU_ok _ _ _ hfl
  rw [pure_ok] at hd h
  cases hd; cases h
  exact ⟨hk1, ht1, hf1, l, hl, rfl⟩

theorem de_ser (f : Filter) (enc rest : Bytes) (h : ser f = .ok enc) (hlen : f.vData.length ≤ Wire.MAX_SIZE) :
    de (enc ++ rest) = .ok (f, rest) := by
  have hM := maxsize_val
  obtain ⟨hk, ht, hf, l, hl, rfl⟩ := ser_ok f enc h
  have e : l ++ f.vData ++ leBytes 4 f.nHashFuncs ++ leBytes 4 f.nTweak ++ leBytes 1 f.nFlags ++ rest =
      l ++ (f.vData ++ ((leBytes 4 f.nHashFuncs ++ leBytes 4 f.nTweak ++ leBytes 1 f.nFlags) ++ rest)) := by
    simp only [List.append_assoc]
  rw [de_unfold, deBytes_unfold, e, deVarInt_ser _ l _ hl, bind_ok]
  simp only []
  rw [serRead_append _ f.vData _ hlen rfl, bind_ok]
  simp only []
  rw [serRead_append 9 _ rest (by omega) (by simp), bind_ok, pure_ok]
  have h4 : (leBytes 4 f.nHashFuncs).length = 4 := leBytes_length _ _
  have h4' : (leBytes 4 f.nTweak).length = 4 := leBytes_length _ _
  have a1 : (leBytes 4 f.nHashFuncs ++ leBytes 4 f.nTweak ++ leBytes 1 f.nFlags).take 4 = leBytes 4 f.nHashFuncs := by
    rw [List.append_assoc, List.take_left' h4]
  have a2 : ((leBytes 4 f.nHashFuncs ++ leBytes 4 f.nTweak ++ leBytes 1 f.nFlags).drop 4).take 4 = leBytes 4 f.nTweak := by
    rw [List.append_assoc, List.drop_left' h4, List.take_left' h4']
  have a3 : (leBytes 4 f.nHashFuncs ++ leBytes 4 f.nTweak ++ leBytes 1 f.nFlags).drop 8 = leBytes 1 f.nFlags := by
    rw [List.drop_left' (by simp)]
  simp only [a1, a2, a3, leNat_leBytes]
  rw [Nat.mod_eq_of_lt (by simpa using hk), Nat.mod_eq_of_lt (by simpa using ht), Nat.mod_eq_of_lt (by simpa using hf)]

/-! ### bits -/

theorem and7 (n : Nat) : 7 &&& n = n % 8 := by
  rw [Nat.and_comm]; exact Nat.and_two_pow_sub_one_eq_mod n 3

theorem mask_table : ∀ m, m < 8 → bitMaskTable[m]? = some (UInt8.ofNat (2 ^ m)) := by decide

theorem mask_lookup (n : Nat) : bitMaskTable[7 &&& n]? = some (UInt8.ofNat (2 ^ (n % 8))) := by
  rw [and7]; exact mask_table _ (Nat.mod_lt _ (by omega))

theorem mask_toNat (m : Nat) (hm : m < 8) : (UInt8.ofNat (2 ^ m)).toNat = 2 ^ m := by
  rw [UInt8.toNat_ofNat']
  apply Nat.mod_eq_of_lt
  calc 2 ^ m < 2 ^ 8 := Nat.pow_lt_pow_right (by omega) hm
    _ = 256 := rfl

theorem shr3 (n : Nat) : n >>> 3 = n / 8 := Nat.shiftRight_eq_div_pow n 3

theorem and_pow_ne_zero (b k : Nat) : (b &&& 2 ^ k ≠ 0) ↔ b.testBit k = true := by
  constructor
  · intro h
    cases hb : b.testBit k with
    | true => rfl
    | false =>
      exfalso; apply h
      apply Nat.eq_of_testBit_eq
      intro i
      rw [Nat.testBit_and, Nat.testBit_two_pow, Nat.zero_testBit]
      by_cases hki : k = i
      · subst hki; simp [hb]
      · simp [hki]
  · intro hb h
    have := congrArg (fun x => x.testBit k) h
    simp only [Nat.testBit_and, Nat.testBit_two_pow, Nat.zero_testBit, hb] at this
    simp at this

theorem byte_test (b : UInt8) (m : Nat) (hm : m < 8) :
    ((b &&& UInt8.ofNat (2 ^ m)) != 0) = b.toNat.testBit m := by
  have h0 : (b &&& UInt8.ofNat (2 ^ m)).toNat = b.toNat &&& 2 ^ m := by
    rw [UInt8.toNat_and, mask_toNat m hm]
  have h1 : ((b &&& UInt8.ofNat (2 ^ m)) != 0) = true ↔ b.toNat.testBit m = true := by
    rw [bne_iff_ne, ← and_pow_ne_zero, ← h0, Ne, Ne, ← UInt8.toNat_inj]
    rfl
  cases hb : b.toNat.testBit m with
  | true => exact h1.mpr hb
  | false =>
    cases hx : ((b &&& UInt8.ofNat (2 ^ m)) != 0) with
    | false => rfl
    | true => rw [h1.mp hx] at hb; cases hb

theorem byte_or (b : UInt8) (m i : Nat) (hm : m < 8) :
    (b ||| UInt8.ofNat (2 ^ m)).toNat.testBit i = (b.toNat.testBit i || decide (m = i)) := by
  rw [UInt8.toNat_or, Nat.testBit_or, mask_toNat m hm, Nat.testBit_two_pow]

open Spec.Bloom in
theorem bitSet_iff (v : Bytes) (n : Nat) (hn : n / 8 < v.length) :
    bitSet v n ↔ v[n / 8].toNat.testBit (n % 8) = true := by
  have hg : v[n / 8]? = some v[n / 8] := List.getElem?_eq_getElem hn
  unfold bitSet
  rw [hg]
  constructor
  · rintro ⟨b, hb, ht⟩; cases hb; exact ht
  · intro h; exact ⟨_, rfl, h⟩

open Spec.Bloom in
/-- `testBit` of the model reads the BIP37 bit -/
theorem testBit_eq (v : Bytes) (n : Nat) (hn : n / 8 < v.length) :
    Model.Bloom.testBit v n = .ok (decide (bitSet v n)) := by
  unfold Model.Bloom.testBit
  rw [shr3, mask_lookup]
  have hg : v[n / 8]? = some v[n / 8] := List.getElem?_eq_getElem hn
  rw [hg]
  simp only []
  apply congrArg Except.ok
  rw [byte_test _ _ (Nat.mod_lt _ (by omega))]
  have key := bitSet_iff v n hn
  cases hb : v[n / 8].toNat.testBit (n % 8) with
  | true => exact (decide_eq_true (key.mpr hb)).symm
  | false =>
    have : ¬ bitSet v n := by rw [key, hb]; simp
    exact (decide_eq_false this).symm

open Spec.Bloom in
/-- `setBit` sets exactly the BIP37 bit `n` and keeps the length -/
theorem setBit_spec (v : Bytes) (n : Nat) (hn : n / 8 < v.length) :
    ∃ v', setBit v n = .ok v' ∧ v'.length = v.length ∧ ∀ j, bitSet v' j ↔ (bitSet v j ∨ j = n) := by
  have hg : v[n / 8]? = some v[n / 8] := List.getElem?_eq_getElem hn
  have hm : n % 8 < 8 := Nat.mod_lt _ (by omega)
  refine ⟨v.set (n / 8) (v[n / 8] ||| UInt8.ofNat (2 ^ (n % 8))), ?_, by simp, ?_⟩
  · unfold setBit
    rw [shr3, mask_lookup, hg]
  · intro j
    unfold bitSet
    rw [List.getElem?_set]
    by_cases hj : n / 8 = j / 8
    · rw [if_pos hj, if_pos hn]
      have hg' : v[j / 8]? = some v[n / 8] := by rw [← hj]; exact hg
      rw [hg']
      constructor
      · rintro ⟨b, hb, ht⟩
        cases hb
        rw [byte_or _ _ _ hm] at ht
        cases h1 : v[n / 8].toNat.testBit (j % 8) with
        | true => exact Or.inl ⟨_, rfl, h1⟩
        | false =>
          rw [h1] at ht
          simp at ht
          right; omega
      · rintro (⟨b, hb, ht⟩ | rfl)
        · cases hb
          exact ⟨_, rfl, by rw [byte_or _ _ _ hm, ht]; rfl⟩
        · exact ⟨_, rfl, by rw [byte_or _ _ _ hm]; simp⟩
    · rw [if_neg hj]
      constructor
      · intro h; exact Or.inl h
      · rintro (h | rfl)
        · exact h
        · exact absurd rfl hj

/-! ### bloom_hash, insert, contains -/

theorem seed_eq (i tweak : Nat) :
    (i * 0xFBA4C795 + tweak) &&& 0xFFFFFFFF = (Spec.Bloom.seedOf i (UInt32.ofNat tweak)).toNat := by
  unfold Spec.Bloom.seedOf
  rw [and_M32, UInt32.toNat_add, UInt32.toNat_mul, UInt32.toNat_ofNat', UInt32.toNat_ofNat']
  have : (0xFBA4C795 : UInt32).toNat = 0xFBA4C795 := by rfl
  rw [this, Nat.add_mod (i * 0xFBA4C795), Nat.mul_mod i]

theorem bloomHash_unfold (f : Filter) (i : Nat) (e : Bytes) : bloomHash f i e =
    (murmurHash3 ((i * 0xFBA4C795 + f.nTweak) &&& 0xFFFFFFFF) e >>= fun h =>
      if f.vData.length * 8 = 0 then throw zeroDivisionError else pure (h % (f.vData.length * 8))) := rfl

theorem bloomHash_eq (f : Filter) (i : Nat) (e : Bytes) (hne : f.vData.length ≠ 0) :
    bloomHash f i e = .ok (Spec.Bloom.bitIndex (f.vData.length * 8) (UInt32.ofNat f.nTweak) i e) := by
  rw [bloomHash_unfold, seed_eq, murmurHash3_eq _ (UInt32.toNat_lt _), bind_ok]
  have : ¬ (f.vData.length * 8 = 0) := by omega
  rw [if_neg this, pure_ok]
  unfold Spec.Bloom.bitIndex
  rw [UInt32.ofNat_toNat]

theorem bitIndex_lt (nbits : Nat) (t : UInt32) (i : Nat) (e : Bytes) (h : nbits ≠ 0) :
    Spec.Bloom.bitIndex nbits t i e < nbits := Nat.mod_lt _ (by omega)

theorem insertLoop_succ (e : Bytes) (n i : Nat) (f : Filter) : insertLoop e (n + 1) i f =
    (bloomHash f i e >>= fun nIndex => setBit f.vData nIndex >>= fun v =>
      insertLoop e n (i + 1) { f with vData := v }) := by
  rw [insertLoop]

theorem insertLoop_spec (e : Bytes) : ∀ (n i : Nat) (f : Filter), f.vData.length ≠ 0 →
    ∃ g, insertLoop e n i f = .ok g ∧ g.vData.length = f.vData.length ∧ g.nHashFuncs = f.nHashFuncs ∧
      g.nTweak = f.nTweak ∧ g.nFlags = f.nFlags ∧
      ∀ j, Spec.Bloom.bitSet g.vData j ↔ (Spec.Bloom.bitSet f.vData j ∨ ∃ i', i ≤ i' ∧ i' < i + n ∧
        j = Spec.Bloom.bitIndex (f.vData.length * 8) (UInt32.ofNat f.nTweak) i' e) := by
  intro n
  induction n with
  | zero =>
    intro i f _
    refine ⟨f, by rw [insertLoop], rfl, rfl, rfl, rfl, ?_⟩
    intro j
    constructor
    · intro h; exact Or.inl h
    · rintro (h | ⟨i', h1, h2, _⟩)
      · exact h
      · omega
  | succ n ih =>
    intro i f hne
    have hidx := bitIndex_lt (f.vData.length * 8) (UInt32.ofNat f.nTweak) i e (by omega)
    obtain ⟨v', hv, hlen, hbits⟩ := setBit_spec f.vData _ (show
      Spec.Bloom.bitIndex (f.vData.length * 8) (UInt32.ofNat f.nTweak) i e / 8 < f.vData.length by omega)
    obtain ⟨g, hg, hl, hk, ht, hfl, hb⟩ := ih (i + 1) { f with vData := v' } (by simpa [hlen] using hne)
    refine ⟨g, ?_, by rw [hl]; exact hlen, hk, ht, hfl, ?_⟩
    · rw [insertLoop_succ, bloomHash_eq f i e hne, bind_ok, hv, bind_ok, hg]
    · intro j
      rw [hb j, hbits j]
      simp only [hlen]
      constructor
      · rintro ((h | h) | ⟨i', h1, h2, h3⟩)
        · exact Or.inl h
        · exact Or.inr ⟨i, by omega, by omega, h⟩
        · exact Or.inr ⟨i', by omega, by omega, h3⟩
      · rintro (h | ⟨i', h1, h2, h3⟩)
        · exact Or.inl (Or.inl h)
        · by_cases hi : i' = i
          · subst hi; exact Or.inl (Or.inr h3)
          · exact Or.inr ⟨i', by omega, by omega, h3⟩

theorem containsLoop_succ (f : Filter) (e : Bytes) (n i : Nat) : containsLoop f e (n + 1) i =
    (bloomHash f i e >>= fun nIndex => Model.Bloom.testBit f.vData nIndex >>= fun b =>
      if !b then pure false else containsLoop f e n (i + 1)) := by
  rw [containsLoop]

theorem containsLoop_spec (f : Filter) (e : Bytes) (hne : f.vData.length ≠ 0) : ∀ (n i : Nat),
    ∃ b, containsLoop f e n i = .ok b ∧ (b = true ↔ ∀ i', i ≤ i' → i' < i + n →
      Spec.Bloom.bitSet f.vData (Spec.Bloom.bitIndex (f.vData.length * 8) (UInt32.ofNat f.nTweak) i' e)) := by
  intro n
  induction n with
  | zero =>
    intro i
    refine ⟨true, by rw [containsLoop], ?_⟩
    simp only [true_iff]
    intro i' h1 h2; omega
  | succ n ih =>
    intro i
    have hidx := bitIndex_lt (f.vData.length * 8) (UInt32.ofNat f.nTweak) i e (by omega)
    have ht := testBit_eq f.vData (Spec.Bloom.bitIndex (f.vData.length * 8) (UInt32.ofNat f.nTweak) i e) (by omega)
    obtain ⟨b, hb, hbi⟩ := ih (i + 1)
    by_cases hset : Spec.Bloom.bitSet f.vData (Spec.Bloom.bitIndex (f.vData.length * 8) (UInt32.ofNat f.nTweak) i e)
    · refine ⟨b, ?_, ?_⟩
      · rw [containsLoop_succ, bloomHash_eq f i e hne, bind_ok, ht, bind_ok, decide_eq_true hset]
        exact hb
      · rw [hbi]
        constructor
        · intro h i' h1 h2
          by_cases hi : i' = i
          · subst hi; exact hset
          · exact h i' (by omega) (by omega)
        · intro h i' h1 h2
          exact h i' (by omega) (by omega)
    · refine ⟨false, ?_, ?_⟩
      · rw [containsLoop_succ, bloomHash_eq f i e hne, bind_ok, ht, bind_ok, decide_eq_false hset]
        rfl
      · constructor
        · intro h; cases h
        · intro h; exact absurd (h i (by omega) (by omega)) hset

/-! ### insert / contains against the BIP37 specification -/

theorem mem_bitsOf (nbits k : Nat) (t : UInt32) (e : Bytes) (j : Nat) :
    j ∈ Spec.Bloom.bitsOf nbits k t e ↔ ∃ i, i < k ∧ j = Spec.Bloom.bitIndex nbits t i e := by
  unfold Spec.Bloom.bitsOf
  rw [List.mem_map]
  constructor
  · rintro ⟨i, hi, rfl⟩; exact ⟨i, List.mem_range.mp hi, rfl⟩
  · rintro ⟨i, hi, rfl⟩; exact ⟨i, List.mem_range.mpr hi, rfl⟩

theorem isFullByte_iff (f : Filter) : isFullByte f = true ↔ f.vData = [0xff] := by
  unfold isFullByte
  constructor
  · intro h
    simp only [Bool.and_eq_true, beq_iff_eq] at h
    match hv : f.vData, h with
    | [b], ⟨_, h2⟩ => simp at h2; rw [h2]
    | [], ⟨h1, _⟩ => simp at h1
    | _ :: _ :: _, ⟨h1, _⟩ => simp at h1
  · intro h; rw [h]; rfl

theorem ff_bits : ∀ m, m < 8 → (255 : Nat).testBit m = true := by decide

theorem full_bitSet (j : Nat) (hj : j < 8) : Spec.Bloom.bitSet [0xff] j := by
  have h0 : j / 8 = 0 := by omega
  have h1 : j % 8 = j := by omega
  refine ⟨0xff, by rw [h0]; rfl, ?_⟩
  rw [h1]; exact ff_bits j hj

/-- `insert` never fails, keeps length and parameters, and sets exactly the scheduled bits -/
theorem insert_spec (f : Filter) (e : Bytes) :
    ∃ g, Model.Bloom.insert f e = .ok g ∧ g.vData.length = f.vData.length ∧ g.nHashFuncs = f.nHashFuncs ∧
      g.nTweak = f.nTweak ∧ g.nFlags = f.nFlags ∧
      ∀ j, Spec.Bloom.bitSet g.vData j ↔ (Spec.Bloom.bitSet f.vData j ∨ (f.vData ≠ [] ∧
        j ∈ Spec.Bloom.bitsOf (f.vData.length * 8) f.nHashFuncs (UInt32.ofNat f.nTweak) e)) := by
  unfold Model.Bloom.insert
  by_cases h0 : f.vData.length = 0
  · rw [if_pos h0]
    refine ⟨f, rfl, rfl, rfl, rfl, rfl, ?_⟩
    intro j
    have : f.vData = [] := List.eq_nil_of_length_eq_zero h0
    simp [this]
  · rw [if_neg h0]
    by_cases hfull : isFullByte f = true
    · rw [if_pos hfull]
      refine ⟨f, rfl, rfl, rfl, rfl, rfl, ?_⟩
      have hv := (isFullByte_iff f).mp hfull
      intro j
      constructor
      · intro h; exact Or.inl h
      · rintro (h | ⟨_, h⟩)
        · exact h
        · rw [mem_bitsOf] at h
          obtain ⟨i, _, rfl⟩ := h
          rw [hv]
          exact full_bitSet _ (by
            have := bitIndex_lt (([0xff] : Bytes).length * 8) (UInt32.ofNat f.nTweak) i e (by simp)
            simpa using this)
    · rw [if_neg hfull]
      obtain ⟨g, hg, hl, hk, ht, hfl, hb⟩ := insertLoop_spec e f.nHashFuncs 0 f h0
      refine ⟨g, hg, hl, hk, ht, hfl, ?_⟩
      intro j
      rw [hb j, mem_bitsOf]
      have hne : f.vData ≠ [] := by intro h; rw [h] at h0; exact h0 rfl
      constructor
      · rintro (h | ⟨i, _, h2, h3⟩)
        · exact Or.inl h
        · exact Or.inr ⟨hne, i, by omega, h3⟩
      · rintro (h | ⟨_, i, h2, h3⟩)
        · exact Or.inl h
        · exact Or.inr ⟨i, by omega, by omega, h3⟩

/-- `contains` never fails and answers exactly the BIP37 membership predicate -/
theorem contains_spec (f : Filter) (e : Bytes) :
    ∃ b, Model.Bloom.contains f e = .ok b ∧
      (b = true ↔ Spec.Bloom.specMatches f.vData f.nHashFuncs (UInt32.ofNat f.nTweak) e) := by
  unfold Model.Bloom.contains Spec.Bloom.specMatches
  by_cases h0 : f.vData.length = 0
  · rw [if_pos h0]
    refine ⟨true, rfl, ?_⟩
    have : f.vData = [] := List.eq_nil_of_length_eq_zero h0
    simp [this]
  · rw [if_neg h0]
    have hne : f.vData ≠ [] := by intro h; rw [h] at h0; exact h0 rfl
    by_cases hfull : isFullByte f = true
    · rw [if_pos hfull]
      refine ⟨true, rfl, ?_⟩
      simp only [true_iff]
      right
      have hv := (isFullByte_iff f).mp hfull
      intro j hj
      rw [mem_bitsOf] at hj
      obtain ⟨i, _, rfl⟩ := hj
      rw [hv]
      exact full_bitSet _ (by
        have := bitIndex_lt (([0xff] : Bytes).length * 8) (UInt32.ofNat f.nTweak) i e (by simp)
        simpa using this)
    · rw [if_neg hfull]
      obtain ⟨b, hb, hbi⟩ := containsLoop_spec f e h0 f.nHashFuncs 0
      refine ⟨b, hb, ?_⟩
      rw [hbi]
      constructor
      · intro h
        right
        intro j hj
        rw [mem_bitsOf] at hj
        obtain ⟨i, hi, rfl⟩ := hj
        exact h i (by omega) (by omega)
      · rintro (h | h)
        · exact absurd h hne
        · intro i _ h2
          exact h _ ((mem_bitsOf _ _ _ _ _).mpr ⟨i, by omega, rfl⟩)

/-! ### sizing -/

theorem min_div8_le (x : Rat) : min x (288000 : Rat) / 8 ≤ (36000 : Rat) := by
  have h : min x (288000 : Rat) ≤ 288000 := by
    rw [Rat.min_def]; split <;> grind
  grind

theorem truncInt_le (v : Rat) (c : Int) (hc : 0 ≤ c) (h : v ≤ (c : Rat)) : truncInt v ≤ c := by
  unfold truncInt
  split
  · have := Rat.floor_monotone h
    rwa [Rat.floor_intCast] at this
  · rename_i hneg
    have h0 : (0 : Rat) ≤ -v := by grind
    have := Rat.floor_monotone h0
    rw [show ((0 : Rat)) = ((0 : Int) : Rat) by rfl, Rat.floor_intCast] at this
    omega

theorem truncInt_mul_le (v : Rat) (hv : 0 ≤ v) : ((truncInt v : Int) : Rat) ≤ v := by
  unfold truncInt
  rw [if_pos hv]
  exact Rat.floor_le v

theorem sizeBytes_le (x : Rat) (n : Nat) (h : sizeBytes x = .ok n) : n ≤ 36000 := by
  unfold sizeBytes at h
  have hv : (min x ((MAX_BLOOM_FILTER_SIZE * 8 : Nat) : Rat)) / 8 ≤ ((36000 : Int) : Rat) := by
    have : ((MAX_BLOOM_FILTER_SIZE * 8 : Nat) : Rat) = 288000 := by
      simp [MAX_BLOOM_FILTER_SIZE, Spec.Bloom.MAX_BLOOM_FILTER_SIZE]
    rw [this]; exact min_div8_le x
  have := truncInt_le _ 36000 (by omega) hv
  simp only [] at h
  split at h
  · cases h
  · cases h; omega

theorem hashFuncs_le (y : Rat) (k : Nat) (h : hashFuncs y = .ok k) : k ≤ 50 := by
  unfold hashFuncs at h
  have hv : min y ((MAX_HASH_FUNCS : Nat) : Rat) ≤ ((50 : Int) : Rat) := by
    have : ((MAX_HASH_FUNCS : Nat) : Rat) = 50 := by simp [MAX_HASH_FUNCS, Spec.Bloom.MAX_HASH_FUNCS]
    rw [this, Rat.min_def]; split <;> grind
  have := truncInt_le _ 50 (by omega) hv
  simp only [] at h
  split at h
  · cases h
  · cases h; omega

/-- the filter built is never larger than the requested number of bits -/
theorem sizeBytes_bits_le (x : Rat) (hx : 0 ≤ x) (n : Nat) (h : sizeBytes x = .ok n) : ((n : Int) : Rat) * 8 ≤ x := by
  unfold sizeBytes at h
  simp only [] at h
  have hC : (0 : Rat) ≤ ((MAX_BLOOM_FILTER_SIZE * 8 : Nat) : Rat) := by
    simp [MAX_BLOOM_FILTER_SIZE, Spec.Bloom.MAX_BLOOM_FILTER_SIZE]; decide
  have hmin0 : 0 ≤ min x ((MAX_BLOOM_FILTER_SIZE * 8 : Nat) : Rat) := by
    rw [Rat.min_def]; split <;> assumption
  have hminx : min x ((MAX_BLOOM_FILTER_SIZE * 8 : Nat) : Rat) ≤ x := by
    rw [Rat.min_def]; split <;> grind
  have hv0 : 0 ≤ min x ((MAX_BLOOM_FILTER_SIZE * 8 : Nat) : Rat) / 8 := by grind
  have hle := truncInt_mul_le _ hv0
  split at h
  · cases h
  · rename_i hneg
    cases h
    have : ((truncInt (min x ((MAX_BLOOM_FILTER_SIZE * 8 : Nat) : Rat) / 8)).toNat : Int) =
        truncInt (min x ((MAX_BLOOM_FILTER_SIZE * 8 : Nat) : Rat) / 8) := by omega
    rw [this]
    grind

/-- the number of hash functions never exceeds the requested one -/
theorem hashFuncs_le_y (y : Rat) (hy : 0 ≤ y) (k : Nat) (h : hashFuncs y = .ok k) : ((k : Int) : Rat) ≤ y := by
  unfold hashFuncs at h
  simp only [] at h
  have hC : (0 : Rat) ≤ ((MAX_HASH_FUNCS : Nat) : Rat) := by
    simp [MAX_HASH_FUNCS, Spec.Bloom.MAX_HASH_FUNCS]; decide
  have hmin0 : 0 ≤ min y ((MAX_HASH_FUNCS : Nat) : Rat) := by
    rw [Rat.min_def]; split <;> assumption
  have hminy : min y ((MAX_HASH_FUNCS : Nat) : Rat) ≤ y := by
    rw [Rat.min_def]; split <;> grind
  have hle := truncInt_mul_le _ hmin0
  split at h
  · cases h
  · cases h
    have : ((truncInt (min y ((MAX_HASH_FUNCS : Nat) : Rat))).toNat : Int) =
        truncInt (min y ((MAX_HASH_FUNCS : Nat) : Rat)) := by omega
    rw [this]
    grind

theorem create_unfold (x : Res Rat) (y : Nat → Res Rat) (t fl : Nat) : create x y t fl =
    (x >>= fun xv => sizeBytes xv >>= fun n => y n >>= fun yv => hashFuncs yv >>= fun k =>
      pure { vData := List.replicate n 0, nHashFuncs := k, nTweak := t, nFlags := fl }) := rfl

/-! ### reload and histories -/

theorem reload_unfold (f : Filter) : reload f = (ser f >>= fun b =>
    match deserialize b with
    | .ok g => pure g
    | .extra _ _ => throw .sererr
    | .err e => throw e) := rfl

theorem deserialize_ser (f : Filter) (enc : Bytes) (h : ser f = .ok enc) (hlen : f.vData.length ≤ Wire.MAX_SIZE) :
    deserialize enc = .ok f := by
  have := de_ser f enc [] h hlen
  rw [List.append_nil] at this
  unfold deserialize Wire.deserialize
  rw [this]
  rfl

theorem reload_eq (f g : Filter) (hlen : f.vData.length ≤ Wire.MAX_SIZE) (h : reload f = .ok g) : g = f := by
  rw [reload_unfold] at h
  obtain ⟨enc, he, h⟩ := bind_eq_ok h
  rw [deserialize_ser f enc he hlen] at h
  cases h; rfl

/-- `g` has the shape of `f` and at least its bits -/
def Sub (f g : Filter) : Prop :=
  g.vData.length = f.vData.length ∧ g.nHashFuncs = f.nHashFuncs ∧ g.nTweak = f.nTweak ∧
    ∀ j, Spec.Bloom.bitSet f.vData j → Spec.Bloom.bitSet g.vData j

theorem Sub.refl (f : Filter) : Sub f f := ⟨rfl, rfl, rfl, fun _ h => h⟩

theorem Sub.trans {f g h : Filter} (a : Sub f g) (b : Sub g h) : Sub f h :=
  ⟨b.1.trans a.1, b.2.1.trans a.2.1, b.2.2.1.trans a.2.2.1, fun j hj => b.2.2.2 j (a.2.2.2 j hj)⟩

theorem nil_iff_length (v : Bytes) : v = [] ↔ v.length = 0 := by
  constructor
  · intro h; rw [h]; rfl
  · exact List.eq_nil_of_length_eq_zero

theorem Sub.matches {f g : Filter} (s : Sub f g) (e : Bytes)
    (h : Spec.Bloom.specMatches f.vData f.nHashFuncs (UInt32.ofNat f.nTweak) e) :
    Spec.Bloom.specMatches g.vData g.nHashFuncs (UInt32.ofNat g.nTweak) e := by
  obtain ⟨hl, hk, ht, hb⟩ := s
  unfold Spec.Bloom.specMatches at *
  rw [hl, hk, ht]
  rcases h with h | h
  · left; rw [nil_iff_length] at *; omega
  · right; intro j hj; exact hb j (h j hj)

theorem insert_sub (f g : Filter) (e : Bytes) (h : Model.Bloom.insert f e = .ok g) :
    Sub f g ∧ Spec.Bloom.specMatches g.vData g.nHashFuncs (UInt32.ofNat g.nTweak) e := by
  obtain ⟨g', hg, hl, hk, ht, _, hb⟩ := insert_spec f e
  rw [hg] at h; cases h
  refine ⟨⟨hl, hk, ht, fun j hj => (hb j).mpr (Or.inl hj)⟩, ?_⟩
  unfold Spec.Bloom.specMatches
  by_cases hne : f.vData = []
  · left; rw [nil_iff_length] at *; omega
  · right
    rw [hl, hk, ht]
    intro j hj
    exact (hb j).mpr (Or.inr ⟨hne, hj⟩)

theorem insertElem_unfold (f : Filter) (x : Elem) :
    insertElem f x = (x.toBytes >>= fun e => Model.Bloom.insert f e) := rfl

theorem containsElem_unfold (f : Filter) (x : Elem) :
    containsElem f x = (x.toBytes >>= fun e => Model.Bloom.contains f e) := rfl

theorem step_sub (f g : Filter) (op : Op) (hlen : f.vData.length ≤ Wire.MAX_SIZE) (h : step f op = .ok g) :
    Sub f g := by
  cases op with
  | insert x =>
    change insertElem f x = .ok g at h
    rw [insertElem_unfold] at h
    obtain ⟨e, _, h⟩ := bind_eq_ok h
    exact (insert_sub f g e h).1
  | reload =>
    change reload f = .ok g at h
    rw [reload_eq f g hlen h]; exact Sub.refl f

theorem run_cons (f : Filter) (op : Op) (ops : List Op) :
    run f (op :: ops) = (step f op >>= fun g => run g ops) := rfl

theorem run_sub : ∀ (ops : List Op) (f g : Filter), f.vData.length ≤ Wire.MAX_SIZE → run f ops = .ok g → Sub f g
  | [], f, g, _, h => by
    change Except.ok f = .ok g at h; cases h; exact Sub.refl f
  | op :: ops, f, g, hlen, h => by
    rw [run_cons] at h
    obtain ⟨f', h1, h2⟩ := bind_eq_ok h
    have s1 := step_sub f f' op hlen h1
    exact s1.trans (run_sub ops f' g (by rw [s1.1]; exact hlen) h2)

/-- the bits set after a history are exactly the initial bits plus the scheduled bits of every
    inserted element -/
theorem bits_after_run : ∀ (ops : List Op) (f0 f : Filter), f0.vData.length ≤ Wire.MAX_SIZE →
    run f0 ops = .ok f → ∀ j, Spec.Bloom.bitSet f.vData j ↔ (Spec.Bloom.bitSet f0.vData j ∨
      ∃ x e, Op.insert x ∈ ops ∧ x.toBytes = .ok e ∧ f0.vData ≠ [] ∧
        j ∈ Spec.Bloom.bitsOf (f0.vData.length * 8) f0.nHashFuncs (UInt32.ofNat f0.nTweak) e)
  | [], f0, f, _, h, j => by
    change Except.ok f0 = .ok f at h; cases h
    constructor
    · intro hj; exact Or.inl hj
    · rintro (hj | ⟨x, e, hm, _⟩)
      · exact hj
      · cases hm
  | op :: ops, f0, f, hlen, h, j => by
    rw [run_cons] at h
    obtain ⟨g, h1, h2⟩ := bind_eq_ok h
    have s1 := step_sub f0 g op hlen h1
    obtain ⟨hl, hk, ht, _⟩ := s1
    have ih := bits_after_run ops g f (by rw [hl]; exact hlen) h2 j
    have hne : g.vData ≠ [] ↔ f0.vData ≠ [] := by
      rw [Ne, Ne, nil_iff_length, nil_iff_length, hl]
    rw [ih, hl, hk, ht, hne]
    cases op with
    | insert x0 =>
      change insertElem f0 x0 = .ok g at h1
      rw [insertElem_unfold] at h1
      obtain ⟨e0, he0, h1⟩ := bind_eq_ok h1
      obtain ⟨g', hg, _, _, _, _, hb⟩ := insert_spec f0 e0
      rw [hg] at h1; cases h1
      rw [hb j]
      constructor
      · rintro ((hj | ⟨hn, hj⟩) | ⟨x, e, hm, he, hn, hj⟩)
        · exact Or.inl hj
        · exact Or.inr ⟨x0, e0, List.mem_cons_self, he0, hn, hj⟩
        · exact Or.inr ⟨x, e, List.mem_cons_of_mem _ hm, he, hn, hj⟩
      · rintro (hj | ⟨x, e, hm, he, hn, hj⟩)
        · exact Or.inl (Or.inl hj)
        · rcases List.mem_cons.mp hm with heq | hin
          · cases heq
            rw [he0] at he; cases he
            exact Or.inl (Or.inr ⟨hn, hj⟩)
          · exact Or.inr ⟨x, e, hin, he, hn, hj⟩
    | reload =>
      change reload f0 = .ok g at h1
      rw [reload_eq f0 g hlen h1]
      constructor
      · rintro (hj | ⟨x, e, hm, he, hn, hj⟩)
        · exact Or.inl hj
        · exact Or.inr ⟨x, e, List.mem_cons_of_mem _ hm, he, hn, hj⟩
      · rintro (hj | ⟨x, e, hm, he, hn, hj⟩)
        · exact Or.inl hj
        · rcases List.mem_cons.mp hm with heq | hin
          · cases heq
          · exact Or.inr ⟨x, e, hin, he, hn, hj⟩

end BtcVerif.Bloom
