/-
  Wire-format lemmas for C01/C02 on top of the codec library:
    * `Model.Wire.ser*` produce the `Spec.Wire` byte strings on well-formed values,
    * `Dec deTx (txBytes t) (normTx t)`, `Dec deHeader …`, `Dec deBlock …` — including the marker/flag
      peek of `CTransaction.stream_deserialize` with its `seek(pos)` fallback,
    * facts about byte 4/5 of an encoding (marker/flag) used by `marker_iff` and C02.
-/
import BtcVerif.Proofs.Codec

namespace BtcVerif.Codec
open BtcVerif BtcVerif.Model.Wire BtcVerif.Spec.Wire

/-! ### small monad facts -/

theorem ok_bind {α β : Type} (x : α) (f : α → Res β) : (Except.ok x : Res α) >>= f = f x := rfl
theorem err_bind {α β : Type} (e : Exc) (f : α → Res β) : (Except.error e : Res α) >>= f = .error e := rfl

theorem dec_deRepeat_id {α : Type} {p : Parser α} {enc : α → Bytes} (xs : List α)
    (h : ∀ x ∈ xs, Dec p (enc x) x) : Dec (deRepeat p xs.length) ((xs.map enc).flatten) xs := by
  have := dec_deRepeat (g := id) xs h
  simpa using this

theorem dec_deVector_id {α : Type} {p : Parser α} {enc : α → Bytes} (xs : List α)
    (hlen : xs.length < 2 ^ 64) (h : ∀ x ∈ xs, Dec p (enc x) x) :
    Dec (deVector p) (vec enc xs) xs := by
  have := dec_deVector (g := id) xs hlen h
  simpa using this

/-! ### serialisers produce the Spec bytes -/

theorem packU_ok {w n : Nat} (h : n < 256 ^ w) : packU w n = .ok (leBytes w n) := by
  simp [packU, h]

theorem packI4_ok {i : Int} (h1 : -(2 ^ 31 : Int) ≤ i) (h2 : i < 2 ^ 31) :
    packI 4 i = .ok (leBytesInt 4 i) := by
  unfold packI
  have : (-(2 ^ (8 * 4 - 1) : Int) ≤ i ∧ i < (2 ^ (8 * 4 - 1) : Int)) := ⟨h1, h2⟩
  simp only [this, and_self, if_true]

theorem packI8_ok {i : Int} (h1 : -(2 ^ 63 : Int) ≤ i) (h2 : i < 2 ^ 63) :
    packI 8 i = .ok (leBytesInt 8 i) := by
  unfold packI
  have : (-(2 ^ (8 * 8 - 1) : Int) ≤ i ∧ i < (2 ^ (8 * 8 - 1) : Int)) := ⟨h1, h2⟩
  simp only [this, and_self, if_true]

theorem serVarInt_ok {n : Nat} (h : n < 2 ^ 64) : serVarInt n = .ok (compactSize n) := by
  unfold serVarInt compactSize
  split
  · rfl
  · split
    · rw [packU_ok (by omega)]; rfl
    · split
      · rw [packU_ok (by omega)]; rfl
      · rw [packU_ok (by omega)]; rfl

theorem serBytes_ok {b : Bytes} (h : b.length < 2 ^ 64) : serBytes b = .ok (varBytes b) := by
  unfold serBytes varBytes
  rw [serVarInt_ok h]; rfl

theorem mapM_ok {α β : Type} {f : α → Res β} {g : α → β} :
    ∀ (xs : List α), (∀ x ∈ xs, f x = .ok (g x)) → xs.mapM f = .ok (xs.map g)
  | [], _ => rfl
  | x :: xs, h => by
      rw [List.mapM_cons, h x List.mem_cons_self,
        mapM_ok xs (fun y hy => h y (List.mem_cons_of_mem _ hy))]
      rfl

theorem serVector_ok {α : Type} {ser : α → Res Bytes} {enc : α → Bytes} (xs : List α)
    (hlen : xs.length < 2 ^ 64) (h : ∀ x ∈ xs, ser x = .ok (enc x)) :
    serVector ser xs = .ok (vec enc xs) := by
  unfold serVector vec
  rw [serVarInt_ok hlen, mapM_ok xs h]; rfl

theorem serOutPoint_ok {o : OutPoint} (h : WFOutPoint o) : serOutPoint o = .ok (outPoint o) := by
  unfold serOutPoint outPoint
  have h1 : ¬ o.hash.length ≠ 32 := by simp [h.1]
  rw [packU_ok (show o.n < 256 ^ 4 by have := h.2; omega)]
  simp only [h1, if_false]
  rfl

theorem serTxIn_ok {i : TxIn} (h : WFTxIn i) : serTxIn i = .ok (txIn i) := by
  unfold serTxIn txIn
  have := maxSize_lt
  rw [serOutPoint_ok h.1, serBytes_ok (by have := h.2.1; omega),
    packU_ok (show i.nSequence < 256 ^ 4 by have := h.2.2; omega)]
  rfl

theorem serTxOut_ok {o : TxOut} (h : WFTxOut o) : serTxOut o = .ok (txOut o) := by
  unfold serTxOut txOut
  have := maxSize_lt
  rw [packI8_ok h.1 h.2.1, serBytes_ok (by have := h.2.2; omega)]
  rfl

theorem serWitStack_ok {s : WitStack} (h : WFWitStack s) : serWitStack s = .ok (witStack s) := by
  unfold serWitStack witStack
  have := maxSize_lt
  exact serVector_ok s h.1 (fun b hb => serBytes_ok (by have := h.2 b hb; omega))

theorem serWitness_ok {w : List WitStack} (h : ∀ s ∈ w, WFWitStack s) :
    serWitness w = .ok ((w.map witStack).flatten) := by
  unfold serWitness
  rw [mapM_ok w (fun s hs => serWitStack_ok (h s hs))]; rfl

theorem hasWitness_wit_ne_nil {t : Tx} (h : t.hasWitness = true) : t.wit ≠ [] := by
  intro h0
  simp [Tx.hasWitness, witIsNull, h0] at h

theorem wit_length_of_hasWitness {t : Tx} (wf : WFTx t) (h : t.hasWitness = true) :
    t.wit.length = t.vin.length := by
  rcases wf.2.2.2.2.2.2.2.1 with h0 | h0
  · exact absurd h0 (hasWitness_wit_ne_nil h)
  · exact h0

theorem serTx_ok {t : Tx} (wf : WFTx t) : serTx t = .ok (txBytes t) := by
  obtain ⟨hv1, hv2, _, hin, hout, hvin, hvout, _, hwit, hlock⟩ := wf
  have e1 := packI4_ok hv1 hv2
  have e2 := serVector_ok (enc := txIn) t.vin hin (fun i hi => serTxIn_ok (hvin i hi))
  have e3 := serVector_ok (enc := txOut) t.vout hout (fun o ho => serTxOut_ok (hvout o ho))
  have e4 := serWitness_ok hwit
  have e5 := packU_ok (show t.nLockTime < 256 ^ 4 by omega)
  unfold serTx txBytes
  by_cases hw : t.hasWitness = true
  · have hlen := wit_length_of_hasWitness
      ⟨hv1, hv2, ‹_›, hin, hout, hvin, hvout, ‹_›, hwit, hlock⟩ hw
    have hn : witIsNull t.wit = false := by
      rw [Tx.hasWitness_eq_not_witIsNull] at hw; simpa using hw
    have hgt : ¬ t.wit.length > t.vin.length := by omega
    simp only [hw, hn, if_true, Bool.true_and, Bool.not_false, hgt, if_false]
    rw [e1]
    simp only [ok_bind, e2, e3, e4, e5, txExtended]
    simp [pure, Except.pure, List.append_assoc, ok_bind]
  · have hw' : t.hasWitness = false := by simpa using hw
    have hn : witIsNull t.wit = true := by
      rw [Tx.hasWitness_eq_not_witIsNull] at hw'; simpa using hw'
    simp only [hw', hn, Bool.true_and, Bool.not_true, if_false, Bool.false_eq_true]
    rw [e1]
    simp only [ok_bind, e2, e3, e5, txLegacy]
    simp [pure, Except.pure, List.append_assoc, ok_bind]

/-- `include_witness=False`: always the legacy form -/
theorem serTx_noWitness_ok {t : Tx} (wf : WFTx t) : serTx t false = .ok (txLegacy t) := by
  obtain ⟨hv1, hv2, _, hin, hout, hvin, hvout, _, hwit, hlock⟩ := wf
  have e1 := packI4_ok hv1 hv2
  have e2 := serVector_ok (enc := txIn) t.vin hin (fun i hi => serTxIn_ok (hvin i hi))
  have e3 := serVector_ok (enc := txOut) t.vout hout (fun o ho => serTxOut_ok (hvout o ho))
  have e5 := packU_ok (show t.nLockTime < 256 ^ 4 by omega)
  unfold serTx
  simp only [Bool.false_and, Bool.false_eq_true, if_false]
  rw [e1]
  simp only [ok_bind, e2, e3, e5, txLegacy]
  simp [pure, Except.pure, List.append_assoc, ok_bind]

theorem serHeader_ok {h : Header} (wf : WFHeader h) : serHeader h = .ok (header h) := by
  obtain ⟨hv1, hv2, hp, hm, ht, hb, hn⟩ := wf
  unfold serHeader header
  have h1 : ¬ h.hashPrevBlock.length ≠ 32 := by simp [hp]
  have h2 : ¬ h.hashMerkleRoot.length ≠ 32 := by simp [hm]
  rw [packI4_ok hv1 hv2, packU_ok (show h.nTime < 256 ^ 4 by omega),
    packU_ok (show h.nBits < 256 ^ 4 by omega), packU_ok (show h.nNonce < 256 ^ 4 by omega)]
  simp only [h1, h2, if_false]
  rfl

theorem serBlock_ok {b : Block} (wf : WFBlock b) : serBlock b = .ok (block b) := by
  unfold serBlock block
  rw [serHeader_ok wf.1,
    serVector_ok (enc := txBytes) b.vtx wf.2.1 (fun t ht => serTx_ok (wf.2.2 t ht))]
  rfl

/-! ### marker / flag position -/

theorem compactSize_head {n : Nat} (h : 1 ≤ n) : ∃ b tl, compactSize n = b :: tl ∧ b ≠ 0 := by
  unfold compactSize
  split
  · refine ⟨UInt8.ofNat n, [], rfl, ?_⟩
    intro h0
    have := congrArg UInt8.toNat h0
    rw [toNat_ofNat_lt (by omega)] at this
    simp at this
    omega
  · split
    · exact ⟨0xfd, _, rfl, by decide⟩
    · split
      · exact ⟨0xfe, _, rfl, by decide⟩
      · exact ⟨0xff, _, rfl, by decide⟩

/-- what follows the version in the legacy form (vin count first) -/
def legacyBody (t : Tx) : Bytes := vec txIn t.vin ++ (vec txOut t.vout ++ leBytes 4 t.nLockTime)

/-- what follows marker and flag in the extended form -/
def extBody (t : Tx) : Bytes :=
  vec txIn t.vin ++ (vec txOut t.vout ++ ((t.wit.map witStack).flatten ++ leBytes 4 t.nLockTime))

theorem txLegacy_eq (t : Tx) : txLegacy t = leBytesInt 4 t.nVersion ++ legacyBody t := by
  simp [txLegacy, legacyBody, List.append_assoc]

theorem txExtended_eq (t : Tx) : txExtended t = leBytesInt 4 t.nVersion ++ ([0x00, 0x01] ++ extBody t) := by
  simp [txExtended, extBody, List.append_assoc]

/-- with at least one input the legacy body starts with a non-zero byte and has a second byte -/
theorem legacyBody_shape (t : Tx) (h : 1 ≤ t.vin.length) :
    ∃ b c E, legacyBody t = b :: c :: E ∧ b ≠ 0 := by
  obtain ⟨b, tl, hb, hne⟩ := compactSize_head h
  unfold legacyBody vec
  rw [hb]
  generalize hX : tl ++ (List.map txIn t.vin).flatten ++ (compactSize t.vout.length ++
    (List.map txOut t.vout).flatten ++ leBytes 4 t.nLockTime) = X
  have hlen : 4 ≤ X.length := by
    rw [← hX]; simp only [List.length_append, leBytes_length]; omega
  match X, hlen with
  | c :: E, _ => exact ⟨b, c, E, by simp [← hX, List.append_assoc], hne⟩

/-! ### `CTransaction.stream_deserialize` -/

/-- the extended branch, as a parser of what follows the flag byte -/
def txExtChain (ver : Int) : Parser Tx := fun r2 => do
  let (vin, r) ← deVector deTxIn r2
  let (vout, r) ← deVector deTxOut r
  let (wit, r) ← deRepeat deWitStack vin.length r
  let (lock, r) ← readU 4 r
  pure ({ nVersion := ver, vin := vin, vout := vout, wit := wit, nLockTime := lock }, r)

/-- the legacy branch, as a parser of what follows the version (after `f.seek(pos)`) -/
def txLegacyChain (ver : Int) : Parser Tx := fun r0 => do
  let (vin, r) ← deVector deTxIn r0
  let (vout, r) ← deVector deTxOut r
  let (lock, r) ← readU 4 r
  pure ({ nVersion := ver, vin := vin, vout := vout, wit := [], nLockTime := lock }, r)

/-- read marker and flag; continue after them (`K`) or seek back and continue from the marker (`L`) -/
def peek (K L : Parser Tx) : Parser Tx := fun r0 => do
  let (marker, r1) ← readU 1 r0
  let (flag, r2) ← readU 1 r1
  if marker = 0 ∧ flag = 1 then K r2 else L r0

theorem deTx_eq : deTx = fun s => readI 4 s >>= fun (ver, r0) =>
    peek (txExtChain ver) (txLegacyChain ver) r0 := by
  funext s
  rfl

theorem readU1_nil : readU 1 [] = .error .trunc := by
  simp [readU, serRead, MAX_SIZE]
  rfl

theorem readU1_cons (b : UInt8) (s : Bytes) : readU 1 (b :: s) = .ok (b.toNat, s) := by
  simp [readU, serRead, MAX_SIZE]
  rfl

theorem dec_peek_ext {K L : Parser Tx} {E : Bytes} {t : Tx} (hK : Dec K E t) :
    Dec (peek K L) ([0x00, 0x01] ++ E) t := by
  constructor
  · intro rest
    simp only [peek, List.cons_append, List.nil_append, readU1_cons, ok_bind]
    have : ((0x00 : UInt8).toNat = 0 ∧ (0x01 : UInt8).toNat = 1) := by decide
    simp only [this, and_self, if_true]
    exact hK.1 rest
  · intro p hp hne
    match p, hp, hne with
    | [], _, _ => simp only [peek, readU1_nil, err_bind]
    | [x], _, _ => simp only [peek, readU1_cons, readU1_nil, ok_bind, err_bind]
    | x :: y :: q, hp, hne =>
      simp only [List.cons_append, List.nil_append, List.cons_prefix_cons] at hp
      obtain ⟨rfl, rfl, hq⟩ := hp
      have hqn : q ≠ E := by
        intro h; apply hne; simp [h]
      simp only [peek, readU1_cons, ok_bind]
      have : ((0x00 : UInt8).toNat = 0 ∧ (0x01 : UInt8).toNat = 1) := by decide
      simp only [this, and_self, if_true]
      exact hK.2 q hq hqn

theorem dec_peek_legacy {K L : Parser Tx} {b c : UInt8} {E : Bytes} {t : Tx} (hb : b ≠ 0)
    (hL : Dec L (b :: c :: E) t) : Dec (peek K L) (b :: c :: E) t := by
  have hb' : ¬ (b.toNat = 0 ∧ c.toNat = 1) := by
    intro h
    apply hb
    exact UInt8.toNat_inj.1 (by simpa using h.1)
  constructor
  · intro rest
    simp only [peek, List.cons_append, readU1_cons, ok_bind, hb', if_false]
    exact hL.1 rest
  · intro p hp hne
    match p, hp, hne with
    | [], _, _ => simp only [peek, readU1_nil, err_bind]
    | [x], _, _ => simp only [peek, readU1_cons, readU1_nil, ok_bind, err_bind]
    | x :: y :: q, hp, hne =>
      have hp' := hp
      simp only [List.cons_prefix_cons] at hp'
      obtain ⟨rfl, rfl, _⟩ := hp'
      simp only [peek, readU1_cons, ok_bind, hb', if_false]
      exact hL.2 _ hp hne

theorem dec_txExtChain (t : Tx) (wf : WFTx t) (hlen : t.wit.length = t.vin.length) :
    Dec (txExtChain t.nVersion) (extBody t) t := by
  obtain ⟨_, _, _, hin, hout, hvin, hvout, _, hwit, hlock⟩ := wf
  unfold txExtChain extBody
  refine Dec.bind (dec_deVector_id t.vin hin (fun i hi => dec_deTxIn i (hvin i hi))) ?_
  refine Dec.bind (dec_deVector_id t.vout hout (fun o ho => dec_deTxOut o (hvout o ho))) ?_
  have hw := dec_deRepeat_id (p := deWitStack) (enc := witStack) t.wit
    (fun s hs => dec_deWitStack s (hwit s hs))
  rw [hlen] at hw
  refine Dec.bind hw ?_
  exact Dec.bind_last (dec_readU 4 t.nLockTime (by omega) hlock) (fun r => rfl)

theorem dec_txLegacyChain (t : Tx) (wf : WFTx t) :
    Dec (txLegacyChain t.nVersion) (legacyBody t) { t with wit := [] } := by
  obtain ⟨_, _, _, hin, hout, hvin, hvout, _, hwit, hlock⟩ := wf
  unfold txLegacyChain legacyBody
  refine Dec.bind (dec_deVector_id t.vin hin (fun i hi => dec_deTxIn i (hvin i hi))) ?_
  refine Dec.bind (dec_deVector_id t.vout hout (fun o ho => dec_deTxOut o (hvout o ho))) ?_
  exact Dec.bind_last (dec_readU 4 t.nLockTime (by omega) hlock) (fun r => rfl)

/-- the transaction codec: the Spec bytes of a well-formed transaction decode to its normal form -/
theorem dec_deTx (t : Tx) (wf : WFTx t) : Dec deTx (txBytes t) (normTx t) := by
  rw [deTx_eq]
  unfold txBytes normTx
  by_cases hw : t.hasWitness = true
  · simp only [hw, if_true]
    rw [txExtended_eq]
    refine Dec.bind (dec_readI4 t.nVersion wf.1 wf.2.1) ?_
    show Dec (peek (txExtChain t.nVersion) (txLegacyChain t.nVersion)) _ _
    exact dec_peek_ext (dec_txExtChain t wf (wit_length_of_hasWitness wf hw))
  · have hw' : t.hasWitness = false := by simpa using hw
    simp only [hw', Bool.false_eq_true, if_false]
    rw [txLegacy_eq]
    refine Dec.bind (dec_readI4 t.nVersion wf.1 wf.2.1) ?_
    show Dec (peek (txExtChain t.nVersion) (txLegacyChain t.nVersion)) _ _
    obtain ⟨b, c, E, hE, hb⟩ := legacyBody_shape t wf.2.2.1
    have hL := dec_txLegacyChain t wf
    rw [hE] at hL ⊢
    exact dec_peek_legacy hb hL

/-! ### headers and blocks -/

theorem dec_deHeader (h : Header) (wf : WFHeader h) : Dec deHeader (header h) h := by
  obtain ⟨hv1, hv2, hp, hm, ht, hb, hn⟩ := wf
  unfold deHeader header
  simp only [List.append_assoc]
  refine Dec.bind (dec_readI4 h.nVersion hv1 hv2) ?_
  dsimp only
  refine Dec.bind (dec_serRead h.hashPrevBlock 32 hp (by decide)) ?_
  dsimp only
  refine Dec.bind (dec_serRead h.hashMerkleRoot 32 hm (by decide)) ?_
  dsimp only
  refine Dec.bind (dec_readU 4 h.nTime (by omega) ht) ?_
  dsimp only
  refine Dec.bind (dec_readU 4 h.nBits (by omega) hb) ?_
  dsimp only
  exact Dec.bind_last (dec_readU 4 h.nNonce (by omega) hn) (fun r => rfl)

/-- a block after a round trip: every transaction in normal form -/
def normBlock (b : Block) : Block := { b with vtx := b.vtx.map normTx }

theorem dec_deBlock (b : Block) (wf : WFBlock b) : Dec deBlock (block b) (normBlock b) := by
  unfold deBlock block normBlock
  refine Dec.bind (dec_deHeader b.hdr wf.1) ?_
  exact Dec.bind_last
    (dec_deVector (g := normTx) b.vtx wf.2.1 (fun t ht => dec_deTx t (wf.2.2 t ht))) (fun r => rfl)

/-! ### `Serializable.deserialize` (the extra-data rule) -/

theorem Dec.deserialize_exact {α : Type} {d : Parser α} {e : Bytes} {a : α} (h : Dec d e a) (pad : Bool) :
    deserialize d e pad = .ok a := by
  unfold deserialize
  rw [h.exact]
  simp

theorem Dec.deserialize_prefix {α : Type} {d : Parser α} {e p : Bytes} {a : α} (h : Dec d e a)
    (hp : p <+: e) (hne : p ≠ e) (pad : Bool) : deserialize d p pad = .err .trunc := by
  unfold deserialize
  rw [h.2 p hp hne]

theorem Dec.deserialize_extra {α : Type} {d : Parser α} {e x : Bytes} {a : α} (h : Dec d e a)
    (hx : x ≠ []) : deserialize d (e ++ x) false = .extra a x := by
  unfold deserialize
  rw [h.1 x]
  have : x.length ≠ 0 := by
    intro h0; exact hx (List.length_eq_zero_iff.1 h0)
  simp [this]

theorem Dec.deserialize_padding {α : Type} {d : Parser α} {e x : Bytes} {a : α} (h : Dec d e a) :
    deserialize d (e ++ x) true = .ok a := by
  unfold deserialize
  rw [h.1 x]
  simp

/-! ### normal forms -/

theorem normTx_of_hasWitness {t : Tx} (h : t.hasWitness = true) : normTx t = t := by
  simp [normTx, h]

theorem normTx_of_not_hasWitness {t : Tx} (h : t.hasWitness = false) : normTx t = { t with wit := [] } := by
  simp [normTx, h]

theorem hasWitness_strip (t : Tx) : ({ t with wit := [] } : Tx).hasWitness = false := by
  simp [Tx.hasWitness]

theorem wf_strip {t : Tx} (wf : WFTx t) : WFTx { t with wit := [] } := by
  obtain ⟨hv1, hv2, h1, hin, hout, hvin, hvout, _, _, hlock⟩ := wf
  exact ⟨hv1, hv2, h1, hin, hout, hvin, hvout, Or.inl rfl, by simp, hlock⟩

theorem wf_normTx {t : Tx} (wf : WFTx t) : WFTx (normTx t) := by
  unfold normTx
  split
  · exact wf
  · exact wf_strip wf

theorem txBytes_strip (t : Tx) : txBytes { t with wit := [] } = txLegacy t := by
  simp [txBytes, hasWitness_strip, txLegacy]

theorem txBytes_normTx (t : Tx) : txBytes (normTx t) = txBytes t := by
  unfold normTx
  split
  · rfl
  · rename_i h
    have h' : t.hasWitness = false := by simpa using h
    rw [txBytes_strip]
    simp [txBytes, h']

theorem normTx_idem (t : Tx) : normTx (normTx t) = normTx t := by
  by_cases h : t.hasWitness = true
  · rw [normTx_of_hasWitness h, normTx_of_hasWitness h]
  · have h' : t.hasWitness = false := by simpa using h
    rw [normTx_of_not_hasWitness h', normTx_of_not_hasWitness (hasWitness_strip t)]

theorem wf_normBlock {b : Block} (wf : WFBlock b) : WFBlock (normBlock b) := by
  refine ⟨wf.1, by simpa [normBlock] using wf.2.1, ?_⟩
  intro t ht
  simp only [normBlock, List.mem_map] at ht
  obtain ⟨t', ht', rfl⟩ := ht
  exact wf_normTx (wf.2.2 t' ht')

theorem block_normBlock (b : Block) : block (normBlock b) = block b := by
  simp [block, normBlock, vec, List.map_map, Function.comp_def, txBytes_normTx]

/-! ### totality on arbitrary input: only `ok`, truncation or the size guard (no stray Python exception) -/

/-- the only errors a result may carry are the two library outcomes of deserialisation -/
def LibErr {α : Type} (r : Res α) : Prop := ∀ e, r = .error e → e = .trunc ∨ e = .sererr

/-- a parser that, on every byte string, succeeds or reports truncation / MAX_SIZE exceeded -/
def Clean {α : Type} (p : Parser α) : Prop := ∀ s, LibErr (p s)

theorem LibErr.ok {α : Type} (a : α) : LibErr (Except.ok a : Res α) := by
  intro e h; cases h

theorem LibErr.pure {α : Type} (a : α) : LibErr (Pure.pure a : Res α) := LibErr.ok a

theorem LibErr.bind {α β : Type} {x : Res α} {f : α → Res β} (hx : LibErr x) (hf : ∀ a, LibErr (f a)) :
    LibErr (x >>= f) := by
  cases x with
  | error e =>
    intro e' h
    have : e' = e := by
      have h' : (Except.error e : Res β) = .error e' := h
      injection h' with h'; exact h'.symm
    rw [this]; exact hx e rfl
  | ok a => exact hf a

theorem LibErr.cases {α : Type} {r : Res α} (h : LibErr r) :
    (∃ a, r = .ok a) ∨ r = .error .trunc ∨ r = .error .sererr := by
  cases r with
  | ok a => exact Or.inl ⟨a, rfl⟩
  | error e =>
    rcases h e rfl with rfl | rfl
    · exact Or.inr (Or.inl rfl)
    · exact Or.inr (Or.inr rfl)

/-- one step of a `do` block: the bound parser is clean, continue with the continuation -/
macro "clean_step " h:term : tactic =>
  `(tactic| (refine LibErr.bind $h ?_; rintro ⟨_, _⟩; try dsimp only))

theorem clean_serRead (n : Nat) : Clean (serRead n) := by
  intro s e h
  unfold serRead at h
  split at h
  · injection h with h; exact Or.inr h.symm
  · split at h
    · injection h with h; exact Or.inl h.symm
    · cases h

theorem clean_readU (w : Nat) : Clean (readU w) := by
  intro s; unfold readU
  clean_step (clean_serRead w s)
  exact LibErr.pure _

theorem clean_readI (w : Nat) : Clean (readI w) := by
  intro s; unfold readI
  clean_step (clean_serRead w s)
  exact LibErr.pure _

theorem clean_deVarInt : Clean deVarInt := by
  intro s; unfold deVarInt
  clean_step (clean_serRead 1 s)
  split
  · exact LibErr.pure _
  · split
    · exact clean_readU 2 _
    · split
      · exact clean_readU 4 _
      · exact clean_readU 8 _

theorem clean_deBytes : Clean deBytes := by
  intro s; unfold deBytes
  clean_step (clean_deVarInt s)
  exact clean_serRead _ _

theorem clean_deRepeat {α : Type} {p : Parser α} (hp : Clean p) : ∀ n, Clean (deRepeat p n)
  | 0 => fun s => LibErr.ok _
  | n + 1 => by
      intro s
      rw [deRepeat_succ]
      clean_step (hp s)
      clean_step (clean_deRepeat hp n _)
      exact LibErr.ok _

theorem clean_deVector {α : Type} {p : Parser α} (hp : Clean p) : Clean (deVector p) := by
  intro s; unfold deVector
  clean_step (clean_deVarInt s)
  exact clean_deRepeat hp _ _

theorem clean_deOutPoint : Clean deOutPoint := by
  intro s; unfold deOutPoint
  clean_step (clean_serRead 32 s)
  clean_step (clean_readU 4 _)
  exact LibErr.pure _

theorem clean_deTxIn : Clean deTxIn := by
  intro s; unfold deTxIn
  clean_step (clean_deOutPoint s)
  clean_step (clean_deBytes _)
  clean_step (clean_readU 4 _)
  exact LibErr.pure _

theorem clean_deTxOut : Clean deTxOut := by
  intro s; unfold deTxOut
  clean_step (clean_readI 8 s)
  clean_step (clean_deBytes _)
  exact LibErr.pure _

theorem clean_deWitStack : Clean deWitStack := clean_deVector clean_deBytes

theorem clean_deTx : Clean deTx := by
  intro s; unfold deTx
  clean_step (clean_readI 4 s)
  clean_step (clean_readU 1 _)
  clean_step (clean_readU 1 _)
  split
  · clean_step (clean_deVector clean_deTxIn _)
    clean_step (clean_deVector clean_deTxOut _)
    clean_step (clean_deRepeat clean_deWitStack _ _)
    clean_step (clean_readU 4 _)
    exact LibErr.pure _
  · clean_step (clean_deVector clean_deTxIn _)
    clean_step (clean_deVector clean_deTxOut _)
    clean_step (clean_readU 4 _)
    exact LibErr.pure _

theorem clean_deHeader : Clean deHeader := by
  intro s; unfold deHeader
  clean_step (clean_readI 4 s)
  clean_step (clean_serRead 32 _)
  clean_step (clean_serRead 32 _)
  clean_step (clean_readU 4 _)
  clean_step (clean_readU 4 _)
  clean_step (clean_readU 4 _)
  exact LibErr.pure _

theorem clean_deBlock : Clean deBlock := by
  intro s; unfold deBlock
  clean_step (clean_deHeader s)
  clean_step (clean_deVector clean_deTx _)
  exact LibErr.pure _

/-- `Serializable.deserialize` of a clean parser: object, extra-data error, truncation or size guard -/
theorem Clean.deserialize {α : Type} {p : Parser α} (hp : Clean p) (buf : Bytes) (pad : Bool) :
    (∃ a, deserialize p buf pad = .ok a) ∨ (∃ a x, x ≠ [] ∧ deserialize p buf pad = .extra a x) ∨
    deserialize p buf pad = .err .trunc ∨ deserialize p buf pad = .err .sererr := by
  unfold Model.Wire.deserialize
  rcases (hp buf).cases with ⟨⟨a, r⟩, h⟩ | h | h
  · rw [h]
    by_cases hc : (!pad && decide (r.length ≠ 0)) = true
    · right; left
      refine ⟨a, r, ?_, by simp only [hc, if_true]⟩
      intro h0; simp [h0] at hc
    · left
      exact ⟨a, by simp only [hc]; rfl⟩
  · right; right; left; rw [h]
  · right; right; right; rw [h]

end BtcVerif.Codec
