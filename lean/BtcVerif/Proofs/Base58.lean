/-
  C10 — helper lemmas for Base58 / Base58Check (Props/C10.lean holds the property theorems).
-/
import BtcVerif.Model.Base58
import Mathlib.Data.List.Induction

namespace BtcVerif.Base58Proofs
open BtcVerif BtcVerif.Spec.Base58 BtcVerif.Model.Base58

theorem head?_append_ne_nil {α : Type} (l m : List α) (h : l ≠ []) : (l ++ m).head? = l.head? := by
  cases l with
  | nil => exact absurd rfl h
  | cons x xs => rfl

/-! ### the alphabet -/

theorem idx_digitChar_fin : ∀ r : Fin 58, alphabetChars.idxOf? (digitChar r.val) = some r.val := by decide

theorem charDigit_digitChar (n : Nat) : charDigit? (digitChar n) = some (n % 58) := by
  have h := idx_digitChar_fin ⟨n % 58, Nat.mod_lt _ (by decide)⟩
  simp only [digitChar, Nat.mod_mod] at h ⊢
  exact h

theorem charDigit_some {c : Char} {d : Nat} (h : charDigit? c = some d) : d < 58 ∧ digitChar d = c := by
  unfold charDigit? at h
  rw [List.idxOf?_eq_some_iff] at h
  obtain ⟨hd, hc, _⟩ := h
  have hd' : d < 58 := by rw [← alphabetChars_length]; exact hd
  refine ⟨hd', ?_⟩
  simp only [digitChar, Nat.mod_eq_of_lt hd']
  exact hc

theorem charDigit_none_iff {c : Char} : charDigit? c = none ↔ c ∉ alphabetChars := by
  unfold charDigit?; exact List.idxOf?_eq_none_iff

theorem charDigit_one : charDigit? '1' = some 0 := by decide

theorem digitChar_zero : digitChar 0 = '1' := by decide

theorem charDigit_zero_iff {c : Char} : charDigit? c = some 0 ↔ c = '1' := by
  constructor
  · intro h; have := (charDigit_some h).2; rw [digitChar_zero] at this; exact this.symm
  · intro h; subst h; exact charDigit_one

/-! ### base-58 numerals -/

/-- one step of `value58` -/
def step (acc : Option Nat) (c : Char) : Option Nat :=
  match acc, charDigit? c with
  | some a, some d => some (a * 58 + d)
  | _, _ => none

theorem value58_eq (s : List Char) : value58 s = s.foldl step (some 0) := rfl

theorem foldl_step_none (s : List Char) : s.foldl step none = none := by
  induction s with
  | nil => rfl
  | cons c cs ih => simpa [List.foldl, step] using ih

theorem value58_nil : value58 [] = some 0 := rfl

theorem value58_append_singleton (s : List Char) (c : Char) :
    value58 (s ++ [c]) = step (value58 s) c := by
  simp [value58_eq, List.foldl_append]

theorem value58_cons_one (s : List Char) : value58 ('1' :: s) = value58 s := by
  simp [value58_eq, List.foldl, step, charDigit_one]

theorem value58_replicate_append (z : Nat) (s : List Char) :
    value58 (List.replicate z '1' ++ s) = value58 s := by
  induction z with
  | zero => simp
  | succ z ih => rw [List.replicate_succ, List.cons_append, value58_cons_one, ih]

theorem numeral58_zero : numeral58 0 = [] := by unfold numeral58; simp

theorem numeral58_pos {n : Nat} (h : n ≠ 0) : numeral58 n = numeral58 (n / 58) ++ [digitChar n] := by
  rw [numeral58]; simp [h]

theorem numeral58_ne_nil {n : Nat} (h : n ≠ 0) : numeral58 n ≠ [] := by
  rw [numeral58_pos h]; simp

theorem value58_numeral58 (n : Nat) : value58 (numeral58 n) = some n := by
  induction n using Nat.strongRecOn with
  | _ n ih =>
    by_cases h : n = 0
    · subst h; rw [numeral58_zero]; rfl
    · rw [numeral58_pos h, value58_append_singleton, ih (n / 58) (by omega)]
      simp only [step, charDigit_digitChar, Option.some.injEq]; omega

/-- a numeral without a leading zero digit -/
def NoLead1 (s : List Char) : Prop := s.head? ≠ some '1'

theorem numeral58_noLead (n : Nat) : NoLead1 (numeral58 n) := by
  induction n using Nat.strongRecOn with
  | _ n ih =>
    by_cases h : n = 0
    · subst h; rw [numeral58_zero]; simp [NoLead1]
    · rw [numeral58_pos h]
      by_cases hq : n / 58 = 0
      · rw [hq, numeral58_zero]
        simp only [NoLead1, List.nil_append, List.head?_cons, ne_eq, Option.some.injEq]
        intro hc
        have h1 := charDigit_digitChar n
        rw [hc, charDigit_one] at h1
        simp only [Option.some.injEq] at h1
        omega
      · have hne := numeral58_ne_nil hq
        have := ih (n / 58) (by omega)
        unfold NoLead1 at *
        rwa [head?_append_ne_nil _ _ hne]

theorem numeral58_value58 (s : List Char) (n : Nat) (hv : value58 s = some n) (hl : NoLead1 s) :
    numeral58 n = s := by
  induction s using List.reverseRecOn generalizing n with
  | nil => simp [value58_nil] at hv; subst hv; exact numeral58_zero
  | append_singleton t c ih =>
    rw [value58_append_singleton] at hv
    cases hm : value58 t with
    | none => simp [hm, step] at hv
    | some m =>
      cases hd : charDigit? c with
      | none => simp [hm, hd, step] at hv
      | some d =>
        simp only [hm, hd, step, Option.some.injEq] at hv
        obtain ⟨hd58, hdc⟩ := charDigit_some hd
        by_cases ht : t = []
        · subst ht
          simp only [value58_nil, Option.some.injEq] at hm
          subst hm
          have hd0 : d ≠ 0 := by
            intro h0; subst h0
            rw [charDigit_zero_iff] at hd; subst hd
            simp [NoLead1] at hl
          have hn : n ≠ 0 := by omega
          rw [numeral58_pos hn]
          have : n / 58 = 0 := by omega
          rw [this, numeral58_zero]
          have hnd : n = d := by omega
          rw [hnd, hdc]
        · have hlt : NoLead1 t := by
            unfold NoLead1 at *; rwa [head?_append_ne_nil _ _ ht] at hl
          have iht := ih m hm hlt
          have hm0 : m ≠ 0 := by
            intro h0; subst h0; rw [numeral58_zero] at iht; exact ht iht.symm
          have hn : n ≠ 0 := by omega
          rw [numeral58_pos hn]
          have h1 : n / 58 = m := by omega
          have h2 : digitChar n = c := by
            rw [← hdc]; unfold digitChar
            have : n % 58 = d % 58 := by omega
            simp only [this]
          rw [h1, h2, iht]

theorem value58_isSome_iff (s : List Char) : (value58 s).isSome ↔ ∀ c ∈ s, c ∈ alphabetChars := by
  induction s using List.reverseRecOn with
  | nil => simp [value58_nil]
  | append_singleton t c ih =>
    rw [value58_append_singleton]
    cases hm : value58 t with
    | none =>
      simp only [step, Option.isSome_none, Bool.false_eq_true, false_iff]
      intro hall
      rw [hm] at ih
      simp only [Option.isSome_none, Bool.false_eq_true, false_iff] at ih
      exact ih (fun c hc => hall c (by simp [hc]))
    | some m =>
      rw [hm] at ih
      simp only [Option.isSome_some, true_iff] at ih
      cases hd : charDigit? c with
      | none =>
        simp only [step, hd, Option.isSome_none, Bool.false_eq_true, false_iff]
        intro hall
        exact (charDigit_none_iff.mp hd) (hall c (by simp))
      | some d =>
        simp only [step, hd, Option.isSome_some, true_iff]
        intro x hx
        rw [List.mem_append, List.mem_singleton] at hx
        rcases hx with hx | hx
        · exact ih x hx
        · subst hx
          by_contra hcon
          rw [← charDigit_none_iff, hd] at hcon
          cases hcon

theorem value58_zero_all_ones (s : List Char) (h : value58 s = some 0) : s = List.replicate s.length '1' := by
  induction s using List.reverseRecOn with
  | nil => rfl
  | append_singleton t c ih =>
    rw [value58_append_singleton] at h
    cases hm : value58 t with
    | none => simp [hm, step] at h
    | some m =>
      cases hd : charDigit? c with
      | none => simp [hm, hd, step] at h
      | some d =>
        simp only [hm, hd, step, Option.some.injEq] at h
        have hm0 : m = 0 := by omega
        have hd0 : d = 0 := by omega
        subst hm0 hd0
        rw [charDigit_zero_iff] at hd
        subst hd
        have := ih hm
        rw [List.length_append, List.length_singleton, List.replicate_succ', ← this]

/-! ### minimal big-endian bytes -/

theorem beNat_append_singleton (b : Bytes) (x : UInt8) : beNat (b ++ [x]) = beNat b * 256 + x.toNat := by
  simp [beNat, List.foldl_append]

theorem beNat_nil : beNat [] = 0 := rfl

theorem beNat_cons_zero (b : Bytes) : beNat (0 :: b) = beNat b := by
  simp [beNat, List.foldl]

theorem beNat_replicate_append (z : Nat) (b : Bytes) : beNat (List.replicate z 0 ++ b) = beNat b := by
  induction z with
  | zero => simp
  | succ z ih => rw [List.replicate_succ, List.cons_append, beNat_cons_zero, ih]

theorem bytesBE_zero : bytesBE 0 = [] := by unfold bytesBE; simp

theorem bytesBE_pos {n : Nat} (h : n ≠ 0) : bytesBE n = bytesBE (n / 256) ++ [UInt8.ofNat (n % 256)] := by
  rw [bytesBE]; simp [h]

theorem bytesBE_ne_nil {n : Nat} (h : n ≠ 0) : bytesBE n ≠ [] := by
  rw [bytesBE_pos h]; simp

theorem toNat_ofNat_mod (n : Nat) : (UInt8.ofNat (n % 256)).toNat = n % 256 := by
  simp [UInt8.toNat_ofNat']

theorem beNat_bytesBE (n : Nat) : beNat (bytesBE n) = n := by
  induction n using Nat.strongRecOn with
  | _ n ih =>
    by_cases h : n = 0
    · subst h; rw [bytesBE_zero]; rfl
    · rw [bytesBE_pos h, beNat_append_singleton, ih (n / 256) (by omega), toNat_ofNat_mod]; omega

/-- a byte string without a leading zero byte -/
def NoLead0 (b : Bytes) : Prop := b.head? ≠ some 0

theorem bytesBE_noLead (n : Nat) : NoLead0 (bytesBE n) := by
  induction n using Nat.strongRecOn with
  | _ n ih =>
    by_cases h : n = 0
    · subst h; rw [bytesBE_zero]; simp [NoLead0]
    · rw [bytesBE_pos h]
      by_cases hq : n / 256 = 0
      · rw [hq, bytesBE_zero]
        simp only [NoLead0, List.nil_append, List.head?_cons, ne_eq, Option.some.injEq]
        intro hc
        have h1 := toNat_ofNat_mod n
        rw [hc] at h1
        simp at h1
        omega
      · have hne := bytesBE_ne_nil hq
        have := ih (n / 256) (by omega)
        unfold NoLead0 at *
        rwa [head?_append_ne_nil _ _ hne]

theorem bytesBE_beNat (b : Bytes) (hl : NoLead0 b) : bytesBE (beNat b) = b := by
  induction b using List.reverseRecOn with
  | nil => exact bytesBE_zero
  | append_singleton t x ih =>
    rw [beNat_append_singleton]
    have hx : x.toNat < 256 := x.toNat_lt
    by_cases ht : t = []
    · subst ht
      have hx0 : x.toNat ≠ 0 := by
        intro h0
        have : x = 0 := by
          have := UInt8.ofNat_toNat (x := x); rw [h0] at this; exact this.symm
        subst this; simp [NoLead0] at hl
      rw [beNat_nil, bytesBE_pos (by omega)]
      have h1 : (0 * 256 + x.toNat) / 256 = 0 := by omega
      have h2 : (0 * 256 + x.toNat) % 256 = x.toNat := by omega
      rw [h1, h2, bytesBE_zero, UInt8.ofNat_toNat]
    · have hlt : NoLead0 t := by
        unfold NoLead0 at *; rwa [head?_append_ne_nil _ _ ht] at hl
      have iht := ih hlt
      have hm0 : beNat t ≠ 0 := by
        intro h0; rw [h0, bytesBE_zero] at iht; exact ht iht.symm
      rw [bytesBE_pos (by omega)]
      have h1 : (beNat t * 256 + x.toNat) / 256 = beNat t := by omega
      have h2 : (beNat t * 256 + x.toNat) % 256 = x.toNat := by omega
      rw [h1, h2, iht, UInt8.ofNat_toNat]

/-! ### leading zero digits -/

theorem takeWhile_eq_replicate {α : Type} [BEq α] [LawfulBEq α] (a : α) (l : List α) :
    l.takeWhile (· == a) = List.replicate (l.takeWhile (· == a)).length a := by
  induction l with
  | nil => rfl
  | cons x xs ih =>
    rw [List.takeWhile_cons]
    by_cases h : (x == a) = true
    · simp only [h, if_true, List.length_cons, List.replicate_succ]
      rw [← ih, eq_of_beq h]
    · simp [h]

theorem dropWhile_head {α : Type} [BEq α] [LawfulBEq α] (a : α) (l : List α) :
    (l.dropWhile (· == a)).head? ≠ some a := by
  induction l with
  | nil => simp
  | cons x xs ih =>
    rw [List.dropWhile_cons]
    by_cases h : (x == a) = true
    · simpa [h] using ih
    · simp only [h]
      simp only [Bool.false_eq_true, if_false, List.head?_cons, ne_eq, Option.some.injEq]
      intro hx; subst hx; simp at h

/-- every byte string is `z` zero bytes followed by a string without a leading zero -/
theorem bytes_split (b : Bytes) :
    ∃ b', b = List.replicate (leadingZeros b) 0 ++ b' ∧ NoLead0 b' := by
  refine ⟨b.dropWhile (· == 0), ?_, dropWhile_head 0 b⟩
  unfold leadingZeros
  rw [← takeWhile_eq_replicate, List.takeWhile_append_dropWhile]

theorem chars_split (s : List Char) :
    ∃ s', s = List.replicate (leadingOnes s) '1' ++ s' ∧ NoLead1 s' := by
  refine ⟨s.dropWhile (· == '1'), ?_, dropWhile_head '1' s⟩
  unfold leadingOnes
  rw [← takeWhile_eq_replicate, List.takeWhile_append_dropWhile]

theorem takeWhile_noLead0 (b : Bytes) (h : NoLead0 b) : b.takeWhile (· == 0) = [] := by
  cases b with
  | nil => rfl
  | cons x xs =>
    have : x ≠ 0 := by simpa [NoLead0] using h
    simp [this]

theorem takeWhile_noLead1 (s : List Char) (h : NoLead1 s) : s.takeWhile (· == '1') = [] := by
  cases s with
  | nil => rfl
  | cons x xs =>
    have : x ≠ '1' := by simpa [NoLead1] using h
    simp [this]

theorem leadingZeros_replicate_append (z : Nat) (b : Bytes) (h : NoLead0 b) :
    leadingZeros (List.replicate z 0 ++ b) = z := by
  unfold leadingZeros
  induction z with
  | zero => simp [takeWhile_noLead0 b h]
  | succ z ih =>
    rw [List.replicate_succ, List.cons_append, List.takeWhile_cons]
    simp only [beq_self_eq_true, if_true, List.length_cons, ih]

theorem leadingOnes_replicate_append (z : Nat) (s : List Char) (h : NoLead1 s) :
    leadingOnes (List.replicate z '1' ++ s) = z := by
  unfold leadingOnes
  induction z with
  | zero => simp [takeWhile_noLead1 s h]
  | succ z ih =>
    rw [List.replicate_succ, List.cons_append, List.takeWhile_cons]
    simp only [beq_self_eq_true, if_true, List.length_cons, ih]

/-! ### the reference codec is a bijection -/

theorem spec_dec_enc (b : Bytes) : dec (enc b) = some b := by
  obtain ⟨b', hb, hl⟩ := bytes_split b
  have hn : beNat b = beNat b' := by
    conv_lhs => rw [hb]
    exact beNat_replicate_append _ _
  unfold dec enc
  rw [value58_replicate_append, hn, value58_numeral58]
  simp only [Option.map_some, Option.some.injEq]
  rw [leadingOnes_replicate_append _ _ (numeral58_noLead _), bytesBE_beNat b' hl]
  exact hb.symm

theorem spec_enc_dec (s : List Char) (b : Bytes) (h : dec s = some b) : enc b = s := by
  obtain ⟨s', hs, hl⟩ := chars_split s
  unfold dec at h
  cases hv : value58 s with
  | none => simp [hv] at h
  | some n =>
    simp only [hv, Option.map_some, Option.some.injEq] at h
    have hv' : value58 s' = some n := by
      rw [hs, value58_replicate_append] at hv; exact hv
    subst h
    unfold enc
    rw [leadingZeros_replicate_append _ _ (bytesBE_noLead n), beNat_replicate_append, beNat_bytesBE,
      numeral58_value58 s' n hv' hl]
    exact hs.symm

/-! ### the model's encoder -/

theorem b58Digit_eq (n : Nat) : b58Digit n = digitChar n := rfl

theorem encodeLoop_eq (n : Nat) (res : List Char) : encodeLoop n res = res ++ (numeral58 n).reverse := by
  induction n using Nat.strongRecOn generalizing res with
  | _ n ih =>
    rw [encodeLoop]
    by_cases h : n = 0
    · subst h; simp [numeral58_zero]
    · have hp : n > 0 := by omega
      simp only [hp, dite_true]
      rw [ih (n / 58) (by omega), numeral58_pos h, b58Digit_eq]
      simp

theorem zeroPrefix_eq (b : Bytes) : zeroPrefix b = leadingZeros b := by
  unfold leadingZeros
  induction b with
  | nil => rfl
  | cons x xs ih =>
    rw [zeroPrefix, List.takeWhile_cons]
    by_cases h : (x == 0) = true
    · simp [h, ih]
    · simp [h]

theorem onePrefix_eq (s : List Char) : onePrefix s = leadingOnes s := by
  unfold leadingOnes
  induction s with
  | nil => rfl
  | cons x xs ih =>
    rw [onePrefix, List.takeWhile_cons]
    by_cases h : (x == '1') = true
    · simp [h, ih]
    · simp [h]

theorem encode_eq_enc (b : Bytes) : encode b = enc b := by
  unfold encode enc
  simp only [encodeLoop_eq, List.nil_append, List.reverse_reverse, zeroPrefix_eq]

/-! ### the model's decoder -/

theorem decodeLoop_eq (s : List Char) (n : Nat) :
    decodeLoop s n = match s.foldl step (some n) with
                     | some m => .ok m
                     | none => .error .b58err := by
  induction s generalizing n with
  | nil => rfl
  | cons c cs ih =>
    rw [decodeLoop, List.foldl_cons]
    cases hd : alphabetChars.idxOf? c with
    | none =>
      have : step (some n) c = none := by simp [step, charDigit?, hd]
      simp [this, foldl_step_none]
    | some d =>
      have : step (some n) c = some (n * 58 + d) := by simp [step, charDigit?, hd]
      simp only [this]
      exact ih _

/-- `'%x' % n`, zero-padded to even length -/
def evenHex (n : Nat) : List Char :=
  let h := hexOfNat n
  if h.length % 2 = 1 then '0' :: h else h

/-- what `unhexlify` yields: the minimal big-endian bytes, one zero byte for zero -/
def bytesBE1 (n : Nat) : Bytes := if n = 0 then [0] else bytesBE n

theorem hexVal_hexDigit_fin : ∀ r : Fin 16, hexVal? (hexDigit r.val) = some r.val := by decide

theorem hexVal_hexDigit {d : Nat} (h : d < 16) : hexVal? (hexDigit d) = some d :=
  hexVal_hexDigit_fin ⟨d, h⟩

theorem ofHexChars_append_pair (l : List Char) (a b : Char) :
    ofHexChars? (l ++ [a, b]) =
      (ofHexChars? l).bind fun r => (hexVal? a).bind fun x => (hexVal? b).bind fun y =>
        some (r ++ [UInt8.ofNat (16 * x + y)]) := by
  induction l using ofHexChars?.induct with
  | case1 =>
    simp only [List.nil_append, ofHexChars?]
    cases hexVal? a <;> cases hexVal? b <;> simp
  | case2 c =>
    simp only [List.cons_append, List.nil_append, ofHexChars?]
    cases hexVal? c <;> cases hexVal? a <;> simp
  | case3 c d rest ih =>
    simp only [List.cons_append, ofHexChars?, ih]
    cases hexVal? c <;> cases hexVal? d <;> cases ofHexChars? rest <;> cases hexVal? a <;> cases hexVal? b <;> simp

theorem hexOfNat_small {n : Nat} (h : n < 16) : hexOfNat n = [hexDigit n] := by
  rw [hexOfNat]; simp [h]

theorem hexOfNat_big {n : Nat} (h : ¬ n < 16) : hexOfNat n = hexOfNat (n / 16) ++ [hexDigit (n % 16)] := by
  rw [hexOfNat]; simp [h]

theorem hexOfNat_256 {n : Nat} (h : 256 ≤ n) :
    hexOfNat n = hexOfNat (n / 256) ++ [hexDigit (n / 16 % 16), hexDigit (n % 16)] := by
  rw [hexOfNat_big (by omega), hexOfNat_big (n := n / 16) (by omega)]
  have : n / 16 / 16 = n / 256 := by omega
  rw [this]; simp

theorem evenHex_256 {n : Nat} (h : 256 ≤ n) :
    evenHex n = evenHex (n / 256) ++ [hexDigit (n / 16 % 16), hexDigit (n % 16)] := by
  unfold evenHex
  simp only [hexOfNat_256 h, List.length_append, List.length_cons, List.length_nil]
  have : (hexOfNat (n / 256)).length + (0 + 1 + 1) = (hexOfNat (n / 256)).length + 2 := by omega
  rw [this, Nat.add_mod_right]
  split <;> simp

theorem unhex_evenHex (n : Nat) : ofHexChars? (evenHex n) = some (bytesBE1 n) := by
  induction n using Nat.strongRecOn with
  | _ n ih =>
    by_cases h16 : n < 16
    · simp only [evenHex, hexOfNat_small h16, List.length_singleton, if_true, ofHexChars?]
      have h0 : hexVal? '0' = some 0 := by decide
      simp only [h0, hexVal_hexDigit h16, Option.bind_eq_bind, Option.bind_some, Option.pure_def]
      unfold bytesBE1
      by_cases hz : n = 0
      · subst hz; simp
      · have h1 : n / 256 = 0 := by omega
        have h2 : n % 256 = n := by omega
        simp [hz, bytesBE_pos hz, h1, h2, bytesBE_zero]
    · by_cases h256 : n < 256
      · have hq : n / 16 < 16 := by omega
        have hr : n % 16 < 16 := by omega
        have hz : n ≠ 0 := by omega
        have h1 : n / 256 = 0 := by omega
        have h2 : n % 256 = n := by omega
        have h3 : 16 * (n / 16) + n % 16 = n := by omega
        simp [evenHex, hexOfNat_big h16, hexOfNat_small hq, ofHexChars?, hexVal_hexDigit hq,
          hexVal_hexDigit hr, bytesBE1, hz, bytesBE_pos hz, h1, h2, bytesBE_zero]
        simpa [UInt8.ofNat_add, UInt8.ofNat_mul] using congrArg UInt8.ofNat h3
      · have h256' : 256 ≤ n := by omega
        have hq : n / 16 % 16 < 16 := by omega
        have hr : n % 16 < 16 := by omega
        rw [evenHex_256 h256', ofHexChars_append_pair, ih (n / 256) (by omega)]
        simp only [hexVal_hexDigit hq, hexVal_hexDigit hr, Option.bind_some]
        have hz : n ≠ 0 := by omega
        have hz' : n / 256 ≠ 0 := by omega
        have h3 : 16 * (n / 16 % 16) + n % 16 = n % 256 := by omega
        simp [bytesBE1, hz, hz', bytesBE_pos hz, h3]

theorem leadingOnes_dropLast (s : List Char) (h : leadingOnes s < s.length) :
    leadingOnes s.dropLast = leadingOnes s := by
  unfold leadingOnes at *
  induction s with
  | nil => rfl
  | cons c cs ih =>
    rw [List.takeWhile_cons] at h ⊢
    by_cases hc : (c == '1') = true
    · simp only [hc, if_true, List.length_cons] at h ⊢
      have hne : cs ≠ [] := by
        intro h0; subst h0; simp at h
      rw [List.dropLast_cons_of_ne_nil hne, List.takeWhile_cons]
      simp only [hc, if_true, List.length_cons]
      rw [ih (by omega)]
    · simp only [hc]
      cases cs with
      | nil => simp
      | cons d ds => simp [List.takeWhile_cons, hc]

theorem leadingOnes_replicate (k : Nat) : leadingOnes (List.replicate k '1') = k := by
  have := leadingOnes_replicate_append k [] (by simp [NoLead1])
  simpa using this

/-- the decoder of the model computes the reference decoder; outside the alphabet it raises
    InvalidBase58Error and nothing else -/
theorem decode_eq_dec (s : List Char) :
    decode s = match dec s with
               | some b => .ok b
               | none => .error .b58err := by
  unfold decode
  by_cases hs : s = []
  · subst hs; simp [dec, value58_nil, leadingOnes, bytesBE_zero]
  · have hne : s.isEmpty = false := by simpa using hs
    simp only [hne, Bool.false_eq_true, if_false]
    rw [decodeLoop_eq, ← value58_eq]
    unfold dec
    cases hv : value58 s with
    | none => simp
    | some n =>
      simp only [Option.map_some]
      have hx := unhex_evenHex n
      unfold evenHex at hx
      simp only at hx
      rw [hx]
      simp only [onePrefix_eq, Except.ok.injEq]
      unfold bytesBE1
      by_cases hz : n = 0
      · subst hz
        have hall := value58_zero_all_ones s hv
        have hlen : 0 < s.length := List.length_pos_iff.mpr hs
        obtain ⟨k, hk⟩ : ∃ k, s.length = k + 1 := ⟨s.length - 1, by omega⟩
        rw [hall, hk]
        have hd : (List.replicate (k + 1) '1').dropLast = List.replicate k '1' := by
          rw [List.replicate_succ']; simp
        rw [hd, leadingOnes_replicate, leadingOnes_replicate, bytesBE_zero]
        simp [List.replicate_succ']
      · simp only [hz, if_false]
        have hlt : leadingOnes s < s.length := by
          obtain ⟨s', hs', hl⟩ := chars_split s
          by_contra hcon
          have hlen : s.length = leadingOnes s + s'.length := by
            conv_lhs => rw [hs']
            simp
          have : s' = [] := List.eq_nil_of_length_eq_zero (by omega)
          subst this
          rw [hs', List.append_nil, ← List.append_nil (List.replicate _ _), value58_replicate_append,
            value58_nil] at hv
          simp only [Option.some.injEq] at hv
          exact hz hv.symm
        rw [leadingOnes_dropLast s hlt]

/-! ### Base58Check -/

theorem checkSplit_iff (H : Bytes → Bytes) (k : Bytes) (v : UInt8) (p : Bytes) :
    checkSplit? H k = some (v, p) ↔ CheckRule H v p k := by
  constructor
  · intro h
    cases k with
    | nil => simp [checkSplit?] at h
    | cons w rest =>
      simp only [checkSplit?] at h
      split at h
      · cases h
      · rename_i hlen
        split at h
        · rename_i hc
          simp only [Option.some.injEq, Prod.mk.injEq] at h
          obtain ⟨hw, hp⟩ := h
          subst hw
          refine ⟨rest.drop (rest.length - 4), ?_, ?_, ?_⟩
          · rw [← hp, List.cons_append, List.take_append_drop]
          · simp only [List.length_drop]; omega
          · rw [← hp]; exact hc
        · cases h
  · rintro ⟨c, hk, hlen, hc⟩
    subst hk
    have h1 : ¬ (p ++ c).length < 4 := by simp only [List.length_append]; omega
    have h2 : (p ++ c).length - 4 = p.length := by simp only [List.length_append]; omega
    simp only [checkSplit?, List.cons_append, h1, if_false, h2, List.take_left', List.drop_left']
    simp [← hc]

/-- `CBase58Data.__new__` of the model = reference decoding followed by the reference rule -/
theorem new_eq_spec (H : Bytes → Bytes) (s : List Char) :
    Model.Base58.new H s =
      match dec s with
      | none => .error .b58err
      | some k => match checkSplit? H k with
                  | some (v, p) => .ok ⟨v, p⟩
                  | none => .error .b58checksum := by
  unfold Model.Base58.new
  rw [decode_eq_dec]
  cases hd : dec s with
  | none => rfl
  | some k =>
    simp only
    cases k with
    | nil => simp [checkSplit?]
    | cons w rest =>
      have hw : (w.toNat : Int) ≤ 255 := by have := w.toNat_lt; omega
      by_cases hlen : rest.length < 4
      · have : (w :: rest).length < 5 := by simp only [List.length_cons]; omega
        rw [if_pos this]
        simp [checkSplit?, hlen]
      · have h5 : ¬ (w :: rest).length < 5 := by simp only [List.length_cons]; omega
        have e1 : (w :: rest).length - 4 = (rest.length - 4) + 1 := by simp only [List.length_cons]; omega
        rw [if_neg h5]
        simp only [e1, List.take_succ_cons, List.drop_succ_cons, List.take_zero,
          List.drop_zero, List.singleton_append, checkSplit?, hlen, if_false]
        by_cases heq : List.drop (rest.length - 4) rest =
              List.take 4 (H (w :: List.take (rest.length - 4) rest))
        · simp only [heq, ne_eq, not_true_eq_false, if_false, if_true]
          simp [fromBytes, UInt8.ofNat_toNat, hw]
        · simp only [ne_eq, heq, not_false_eq_true, if_true, if_false]

end BtcVerif.Base58Proofs
