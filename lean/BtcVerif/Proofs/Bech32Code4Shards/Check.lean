/-
  K0 and K1 of the kernel check (see Defs.lean): the generated table is the table of high parts of the
  orbits of `T`, and every entry is non-zero, has its filter bit set and sits in the search tree under
  its own index.  Both are kernel evaluations of a few thousand steps.
-/
import BtcVerif.Proofs.Bech32Code
import BtcVerif.Proofs.Bech32Code4Shards.Data

namespace BtcVerif.Bech32

/-- `[T c, T² c, …, Tⁿ c]` -/
def orbit : Nat → Nat → List Nat
  | 0, _ => []
  | n + 1, c => T c :: orbit n (T c)

theorem orbit_getElem? (n c j : Nat) (hj : j < n) : (orbit n c)[j]? = some (T^[j + 1] c) := by
  induction n generalizing c j with
  | zero => omega
  | succ n ih =>
    cases j with
    | zero => simp [orbit]
    | succ j =>
      simp only [orbit, List.getElem?_cons_succ]
      rw [ih (T c) j (by omega), Function.iterate_succ_apply (f := T) (n := j + 1)]

namespace Shards

/-- row `i` = high parts of the orbit of the 5-bit value `i + 1` -/
def hiTableC : List (List Nat) :=
  (List.range 31).map fun i => (orbit 88 (i + 1)).map (· / 32)

theorem hiTable_eq : hiTable = hiTableC := by decide +kernel

theorem tableFound_true : tableFound hiTree hiMask hiTable 0 = true := by decide +kernel

end Shards
end BtcVerif.Bech32
