/-
  Kernel-checkable form of the weight-3/4 exhaustive check (C11, `detects_le4`).

  `hi s = s / 32` is the high 25 bits of a state.  With `H v g = hi (Tᵍ v)`:
    K1  the 2728 values `H v g` (v ∈ 1..31, g ∈ 1..88) are non-zero and pairwise distinct;
    K2  for all v, w ∈ 1..31 and 88 ≥ a > b ≥ 1:  `H v a ^^^ H w b` is non-zero and is no `H u g`.
  Membership is decided with a 65536-bit filter (bit `k mod 65536`) backed by a search tree; the only
  verified property of both is "every `H v g` has its filter bit set and is found in the tree under
  its own index" (no ordering invariant is needed for soundness).

  The functions are written with recursors and `Bool`-valued `Nat` primitives because that is what the
  kernel evaluates cheaply (measured: ≈ 0.1 ms per look-up against ≈ 6 ms for the equation-compiler
  versions with `if x < k`).  Definitions only; Mathlib-free.
-/

namespace BtcVerif.Bech32.Shards

inductive Tree where
  | leaf
  | node (l : Tree) (key : Nat) (id : Nat) (r : Tree)

noncomputable def lookup (t : Tree) (x : Nat) : Option Nat :=
  Tree.rec (motive := fun _ => Option Nat) none
    (fun _ k i _ ihl ihr => bif Nat.blt x k then ihl else bif Nat.blt k x then ihr else some i) t

/-- the filter bit of `k` is clear -/
def bitClear (msk k : Nat) : Bool := Nat.beq (Nat.land (Nat.shiftRight msk (Nat.land k 65535)) 1) 0

/-- `k` is neither zero nor one of the stored keys -/
noncomputable def okKey (t : Tree) (msk k : Nat) : Bool :=
  bif Nat.beq k 0 then false else
  bif bitClear msk k then true else
    Option.rec (motive := fun _ => Bool) true (fun _ => false) (lookup t k)

noncomputable def zipOk (t : Tree) (msk : Nat) (ps : List Nat) : List Nat → Bool :=
  List.rec (motive := fun _ => List Nat → Bool) (fun _ => true)
    (fun p _ ih qs => List.rec (motive := fun _ => Bool) true
      (fun q qs' _ => bif okKey t msk (Nat.xor p q) then ih qs' else false) qs) ps

/-- all pairs `(A[i], B[j])` with `j < i` pass `okKey` on their xor -/
noncomputable def shiftsOk (t : Tree) (msk : Nat) (A B : List Nat) : Bool :=
  List.rec (motive := fun _ => Bool) true
    (fun _ as ih => bif zipOk t msk as B then ih else false) A

/-- K1 for one row: entry `j` is non-zero, has its filter bit set, and is stored under index `base + j` -/
noncomputable def rowFound (t : Tree) (msk : Nat) (row : List Nat) : Nat → Bool :=
  List.rec (motive := fun _ => Nat → Bool) (fun _ => true)
    (fun h _ ih j =>
      bif Nat.beq h 0 then false else
      bif bitClear msk h then false else
      bif Option.rec (motive := fun _ => Bool) false (fun i => Nat.beq i j) (lookup t h) then ih (Nat.succ j)
      else false) row

noncomputable def tableFound (t : Tree) (msk : Nat) (tab : List (List Nat)) : Nat → Bool :=
  List.rec (motive := fun _ => Nat → Bool) (fun _ => true)
    (fun r _ ih i => bif rowFound t msk r (88 * i) then ih (Nat.succ i) else false) tab

end BtcVerif.Bech32.Shards
