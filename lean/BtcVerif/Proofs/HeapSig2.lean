/-
  C09 helper lemmas, part 19: the pieces of the `RawSignatureHash` surgery succeed on a cloned
  transaction and only make steps.
-/
import BtcVerif.Proofs.HeapSig

namespace BtcVerif.Model.Heap
open BtcVerif BtcVerif.Spec.ValueSem

def ImmAt (hh : Heap) (c : Addr) : Prop := ∃ oc : Obj, hh[c]? = some oc ∧ oc.isMut = false

theorem step_immAt {h hh hh' : Heap} (st : Step h hh hh') {c : Addr} (hi : ImmAt hh c) : ImmAt hh' c := by
  obtain ⟨oc, hoc, hm⟩ := hi
  cases st with
  | alloc o => exact ⟨oc, getElem?_append_of_some [o] hoc, hm⟩
  | write y oy o' hy hoy hmy =>
    have hcy : c ≠ y := by
      intro e; subst e
      rw [hoc] at hoy; cases hoy
      rw [hm] at hmy; cases hmy
    exact ⟨oc, by rw [List.getElem?_set_ne (fun e => hcy e.symm)]; exact hoc, hm⟩

theorem steps_immAt {h hh hh' : Heap} (st : Steps h hh hh') {c : Addr} (hi : ImmAt hh c) : ImmAt hh' c := by
  induction st with
  | refl => exact hi
  | tail _ s ih => exact step_immAt s ih

/-- the private copy right after `from_tx`: everything the surgery is going to touch is fresh -/
structure Cloned (h h1 : Heap) (c vinL voutL w : Addr) (ins : List Addr) : Prop where
  hc : h.length ≤ c
  oc : ObjIs h1 c 5 3
  parts : ∃ o, txParts h1 c = some (o, vinL, voutL, w)
  vin : ∃ lo : Obj, h1[vinL]? = some lo ∧ lo.refs = ins
  items : ∀ x ∈ ins, h.length ≤ x ∧ ∃ n, ObjIs h1 x 1 n
  vout : voutL < h1.length
  empty : ImmAt h1 emptyTuple
  len : h.length ≤ h1.length

theorem tx_not_seq : ∀ sc : Scalars, sc.kind = 5 → sc.isSeq = false := by
  intro sc h
  cases sc with
  | seq k => cases k <;> simp [Scalars.kind] at h
  | _ => rfl

theorem sigScripts_ok {h hh : Heap} {c : Addr} {ins : List Addr} (sub : Bytes) {inIdx : Nat}
    (hitems : ∀ x ∈ ins, h.length ≤ x ∧ ∃ n, ObjIs hh x 1 n) (hi : inIdx < ins.length) :
    ∃ h3 xi, sigScripts hh ins sub inIdx = some (h3, xi) ∧ Steps h hh h3 ∧ ins[inIdx]? = some xi := by
  obtain ⟨h2, e2, st2⟩ := foldAssign_ok (h := h) [] ins hh hitems
  have hxi : ins[inIdx]? = some ins[inIdx] := List.getElem?_eq_getElem hi
  obtain ⟨hx, n, ho⟩ := hitems ins[inIdx] (List.getElem_mem hi)
  obtain ⟨h3, e3, st3⟩ := assign_txin_ok hx (steps_objIs st2 ho) (.scriptSig sub) (Or.inl ⟨sub, rfl⟩)
  exact ⟨h3, ins[inIdx], by simp [sigScripts, e2, hxi, e3], st2.trans (Steps.one st3), hxi⟩

theorem sigNone_ok {h hh : Heap} {c : Addr} {ins : List Addr} (inIdx : Nat) (hc : h.length ≤ c)
    (hoc : ObjIs hh c 5 3) (hitems : ∀ x ∈ ins, h.length ≤ x ∧ ∃ n, ObjIs hh x 1 n) :
    ∃ h8, sigNone hh c ins inIdx = some h8 ∧ Steps h hh h8 := by
  let lo : Obj := { isMut := true, sc := .seq .outs, refs := [] }
  have st1 : Step h hh (hh ++ [lo]) := .alloc hh lo rfl rfl (fun hh' => by cases hh') (fun hm => by cases hm)
  obtain ⟨h5, e5, st5⟩ := setRef_ok hc (step_objIs st1 hoc) tx_not_seq (by omega : 1 < 3) hh.length
  have hit : ∀ x ∈ ins, h.length ≤ x ∧ ∃ n, ObjIs h5 x 1 n := fun x hx => by
    obtain ⟨a, n, b⟩ := hitems x hx
    exact ⟨a, n, step_objIs st5 (step_objIs st1 b)⟩
  obtain ⟨h8, e8, st8⟩ := zeroSeqs_ok inIdx ins h5 0 hit
  refine ⟨h8, ?_, ((Steps.one st1).trans (Steps.one st5)).trans st8⟩
  simp only [sigNone, alloc]
  rw [show setRef (hh ++ [lo]) c 1 hh.length = some h5 from e5]
  exact e8

theorem sigSingle_ok {h hh : Heap} {c : Addr} {ins : List Addr} (inIdx : Nat) (tmp : Addr) (hc : h.length ≤ c)
    (hlen : h.length ≤ hh.length)
    (hoc : ObjIs hh c 5 3) (hitems : ∀ x ∈ ins, h.length ≤ x ∧ ∃ n, ObjIs hh x 1 n) :
    ∃ h8, sigSingle hh c ins inIdx tmp = some h8 ∧ Steps h hh h8 := by
  let lo : Obj := { isMut := true, sc := .seq .outs, refs := [] }
  have st1 : Step h hh (hh ++ [lo]) := .alloc hh lo rfl rfl (fun hh' => by cases hh') (fun hm => by cases hm)
  have hl : ObjIs (hh ++ [lo]) hh.length 9 0 := ⟨lo, by simp, rfl, rfl, fun hn => by cases hn⟩
  obtain ⟨h5, e5, st5⟩ := setRef_ok hc (step_objIs st1 hoc) tx_not_seq (by omega : 1 < 3) hh.length
  obtain ⟨h6, e6, st6⟩ := appendBlanks_ok (h := h) (l := hh.length) hlen inIdx h5 ⟨0, step_objIs st5 hl⟩
  obtain ⟨o6, ho6, hm6, hk6, _⟩ := steps_objIs st6 (step_objIs st5 hl)
  have st7 := setList_step (h := h) hlen ho6 hm6 (kind_seq_of hk6 (Or.inr rfl)) (o6.refs ++ [tmp])
  have hit : ∀ x ∈ ins, h.length ≤ x ∧ ∃ n, ObjIs (h6.set hh.length { o6 with refs := o6.refs ++ [tmp] }) x 1 n :=
    fun x hx => by
      obtain ⟨a, n, b⟩ := hitems x hx
      exact ⟨a, n, step_objIs st7 (steps_objIs st6 (step_objIs st5 (step_objIs st1 b)))⟩
  obtain ⟨h8, e8, st8⟩ := zeroSeqs_ok inIdx ins _ 0 hit
  refine ⟨h8, ?_, ((((Steps.one st1).trans (Steps.one st5)).trans st6).trans (Steps.one st7)).trans st8⟩
  simp only [sigSingle, alloc]
  rw [show setRef (hh ++ [lo]) c 1 hh.length = some h5 from e5]
  simp only [e6, ho6]
  exact e8

theorem sigAnyone_ok {h hh : Heap} {c : Addr} (xi : Addr) (hc : h.length ≤ c) (hlen : h.length ≤ hh.length)
    (hoc : ObjIs hh c 5 3) : ∃ h10, sigAnyone hh c xi = some h10 ∧ Steps h hh h10 := by
  let lo : Obj := { isMut := true, sc := .seq .ins, refs := [] }
  have st1 : Step h hh (hh ++ [lo]) := .alloc hh lo rfl rfl (fun hh' => by cases hh') (fun hm => by cases hm)
  have hl : ObjIs (hh ++ [lo]) hh.length 8 0 := ⟨lo, by simp, rfl, rfl, fun hn => by cases hn⟩
  obtain ⟨h9, e9, st9⟩ := setRef_ok hc (step_objIs st1 hoc) tx_not_seq (by omega : 0 < 3) hh.length
  obtain ⟨o9, ho9, hm9, hk9, _⟩ := step_objIs st9 hl
  have st10 := setList_step (h := h) hlen ho9 hm9 (kind_seq_of hk9 (Or.inl rfl)) [xi]
  refine ⟨_, ?_, ((Steps.one st1).trans (Steps.one st9)).trans (Steps.one st10)⟩
  simp only [sigAnyone, alloc]
  rw [show setRef (hh ++ [lo]) c 0 hh.length = some h9 from e9]
  simp [setItems, ho9]

theorem sigWit_ok {h hh : Heap} {c : Addr} (hc : h.length ≤ c) (hoc : ObjIs hh c 5 3)
    (hempty : ImmAt hh emptyTuple) : ∃ h12, sigWit hh c = some h12 ∧ Steps h hh h12 := by
  let wo : Obj := { isMut := false, sc := .wit, refs := [emptyTuple] }
  have st1 : Step h hh (hh ++ [wo]) := .alloc hh wo rfl rfl (fun _ => rfl) (fun _ x hx => by
    simp only [wo, List.mem_singleton] at hx; subst hx; exact hempty)
  obtain ⟨h12, e12, st12⟩ := setRef_ok hc (step_objIs st1 hoc) tx_not_seq (by omega : 2 < 3) hh.length
  refine ⟨h12, ?_, (Steps.one st1).trans (Steps.one st12)⟩
  simp only [sigWit, alloc]
  exact e12

/-- the whole surgery on a freshly cloned transaction -/
theorem surgery_ok {h h1 : Heap} {c vinL voutL w : Addr} {ins : List Addr}
    (C : Cloned h h1 c vinL voutL w ins) (sub : Bytes) {inIdx : Nat} (ht : Nat) (hi : inIdx < ins.length) :
    ∃ h' d, surgery h1 c sub inIdx ht = some (h', d) ∧ Steps h h1 h' := by
  obtain ⟨op, hparts⟩ := C.parts
  obtain ⟨lo, hlo, hrefs⟩ := C.vin
  obtain ⟨h3, xi, e3, st3, hxi⟩ := sigScripts_ok (h := h) (hh := h1) (c := c) (ins := ins) sub C.items hi
  have hvo : voutL < h3.length := Nat.lt_of_lt_of_le C.vout (steps_len st3)
  have hoc3 := steps_objIs st3 C.oc
  have hit3 : ∀ x ∈ ins, h.length ≤ x ∧ ∃ n, ObjIs h3 x 1 n := fun x hx => by
    obtain ⟨a, n, b⟩ := C.items x hx
    exact ⟨a, n, steps_objIs st3 b⟩
  have hlen3 : h.length ≤ h3.length := Nat.le_trans C.len (steps_len st3)
  -- the tail common to the branches that do not return early
  have tail : ∀ h8, Steps h h3 h8 →
      ∃ h' d, (match (if ht / 128 % 2 = 1 then sigAnyone h8 c xi else some h8) with
        | none => none
        | some h10 =>
          match sigWit h10 c with
          | none => none
          | some h12 => some (h12, some (sigDigest h12 c ht))) = some (h', d) ∧ Steps h h3 h' := by
    intro h8 st8
    have hoc8 := steps_objIs st8 hoc3
    have hlen8 : h.length ≤ h8.length := Nat.le_trans hlen3 (steps_len st8)
    by_cases hacp : ht / 128 % 2 = 1
    · obtain ⟨h10, e10, st10⟩ := sigAnyone_ok (h := h) xi C.hc hlen8 hoc8
      obtain ⟨h12, e12, st12⟩ := sigWit_ok (h := h) C.hc (steps_objIs st10 hoc8)
        (steps_immAt ((st3.trans st8).trans st10) C.empty)
      exact ⟨h12, some (sigDigest h12 c ht), by simp [hacp, e10, e12], (st8.trans st10).trans st12⟩
    · obtain ⟨h12, e12, st12⟩ := sigWit_ok (h := h) C.hc hoc8 (steps_immAt (st3.trans st8) C.empty)
      exact ⟨h12, some (sigDigest h12 c ht), by simp [hacp, e12], st8.trans st12⟩
  simp only [surgery, hparts, hlo, hrefs, e3, List.getElem?_eq_getElem hvo]
  by_cases h2 : ht % 32 = 2
  · obtain ⟨h8, e8, st8⟩ := sigNone_ok (h := h) inIdx C.hc hoc3 hit3
    obtain ⟨h', d, et, stt⟩ := tail h8 st8
    exact ⟨h', d, by simp only [h2, if_true, e8, Option.map_some]; exact et, st3.trans stt⟩
  · by_cases h3' : ht % 32 = 3
    · cases hout : (h3[voutL]).refs[inIdx]? with
      | none => exact ⟨h3, none, by simp [h2, h3', hout], st3⟩
      | some tmp =>
        obtain ⟨h8, e8, st8⟩ := sigSingle_ok (h := h) inIdx tmp C.hc hlen3 hoc3 hit3
        obtain ⟨h', d, et, stt⟩ := tail h8 st8
        exact ⟨h', d, by simp only [h2, h3', if_true, if_false, hout, e8, Option.map_some]; exact et,
          st3.trans stt⟩
    · obtain ⟨h', d, et, stt⟩ := tail h3 (.refl h3)
      exact ⟨h', d, by simp only [h2, h3', if_false]; exact et, st3.trans stt⟩

end BtcVerif.Model.Heap
