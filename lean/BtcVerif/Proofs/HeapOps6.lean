/-
  C09 helper lemmas, part 15: edits of `tx.vout` (the `tx.vin` proofs of part 14, transposed).
-/
import BtcVerif.Proofs.HeapOps5

namespace BtcVerif.Model.Heap
open BtcVerif BtcVerif.Spec.ValueSem

/-- the list `tx.vout` of a transaction root, as a target -/
structure VoutInfo (s : St) (sp : Store) (r : Nat) (e : Entry) (tv : Tx) (vi : Addr) where
  I : TInfo s sp ⟨r, [1]⟩ vi
  kids : List ATree
  he : I.e = e
  hsc : I.o.sc = .seq .outs
  hmut : I.o.isMut = e.isMut
  htx : I.tx = .node vi I.o.isMut (.seq .outs) kids
  hkids : mapO (unfoldA I.g s.heap) I.o.refs = some kids
  hdec : mapO decode kids = some (tv.vout.map .txout)
  hg : I.g = 5 + 1
  hfl : I.o.isMut = true → flagsOKL true kids

theorem voutInfo {s : St} {sp : Store} (hinv : Inv s) (hrel : Rel s sp) {r : Nat} {e : Entry} {tv : Tx}
    {vi : Addr} (h2 : (sp[r]?).join = some e) (hval : e.val = .tx tv) (t2 : s.target ⟨r, [1]⟩ = some vi) :
    Nonempty (VoutInfo s sp r e tv vi) := by
  obtain ⟨I⟩ := target_some hinv hrel t2
  have he : I.e = e := by have := I.hentry; simp only at this; rw [h2] at this; cases this; rfl
  have hlook := I.hlook
  simp only [lookup, I.hentry, Option.bind_eq_bind, Option.bind_some, he, hval, Val.getM, Val.child] at hlook
  simp only [Val.alwaysImm, Bool.not_false, Bool.and_true, Option.some.injEq, Prod.mk.injEq] at hlook
  obtain ⟨hm, hvx⟩ := hlook
  obtain ⟨o, kids, ho, hk, htx⟩ := unfoldA_succ I.hux
  rw [I.ho] at ho; cases ho
  have hdx := I.hdx
  rw [htx, ← hvx] at hdx
  obtain ⟨vs, hvs, hasm⟩ := decode_inv hdx
  have hkind := assemble_kind hasm
  have hsc : I.o.sc = .seq .outs := by
    exact kind_outs hkind.symm
  rw [hsc] at hasm htx
  simp only [assemble, Option.map_eq_some_iff] at hasm
  obtain ⟨l, hl, hle⟩ := hasm
  cases hle
  have hvs' : vs = tv.vout.map .txout := mapO_asTxOut hl
  refine ⟨{ I := I, kids := kids, he := he, hsc := hsc, hmut := by rw [← I.hom, ← hm], htx := htx,
            hkids := hk, hdec := by rw [← hvs']; exact hvs, hg := ?_, hfl := ?_ }⟩
  · have := I.hD
    simp only [D, List.length_cons, List.length_nil] at this
    omega
  · intro hmu
    have := I.hfx
    rw [htx, hmu] at this
    exact this.2


theorem put_vout (tv : Tx) (l : List TxOut) :
    (Val.tx tv).put [1] (.outs l) = some (.tx { tv with vout := l }) := by
  simp [Val.put, Val.child, Val.putChild]


/-- `tx.vout.append(CMutableTxOut(…))` -/
theorem sim_appendOut {s : St} {sp : Store} (hinv : Inv s) (hrel : Rel s sp) (r : Nat) (v : TxOut) :
    Sim s sp (.appendOut r v) := by
  simp only [Sim, step, Spec.ValueSem.step, withTx, editList]
  cases txRoot hinv hrel r with
  | none h1 h2 => simp only [h1, lookupTx, h2]; exact ⟨inv_skip hinv, rel_skip hrel, by simp⟩
  | other a e h1 h2 h3 h4 => simp only [h1, h3, h4, h2]; exact ⟨inv_skip hinv, rel_skip hrel, by simp⟩
  | tx a e tv o vi vo w h1 h2 hval h3 h4 ho hm t0 t1 t2 =>
    obtain ⟨V⟩ := voutInfo hinv hrel h2 hval t2
    simp only [h1, h3, h4, V.I.ho, V.hmut, Bool.not_true, Bool.false_eq_true, if_false]
    cases hmu : e.isMut with
    | false => exact ⟨inv_skip hinv, rel_skip hrel, by simp⟩
    | true =>
      simp only [Bool.not_true, Bool.false_eq_true, if_false]
      have hom : V.I.o.isMut = true := by rw [V.hmut, hmu]
      have hgood : PlanGood s.heap V.I.g (planTxOut true v) := by rw [V.hg]; exact good_planTxOut s.heap true v 5
      obtain ⟨ee, tc, he, hnew, hic, htc, hpt, hcnt⟩ := alloc_good hinv hgood
      rw [V.hg] at hpt
      obtain ⟨hdc, hfc⟩ := tree_planTxOut hpt
      have hsc : tc.sc.alwaysImm = false := by rw [(PT.root_sc hpt).1]; rfl
      have htx' : V.I.tx = .node vo true V.I.o.sc V.kids := by rw [V.htx, hom, V.hsc]
      have hk' : mapO (unfoldA V.I.g (allocPlan s.heap (planTxOut true v)).1)
          (V.I.o.refs ++ [(allocPlan s.heap (planTxOut true v)).2]) = some (V.kids ++ [tc]) := by
        rw [he]
        apply mapO_append (mapO_ext_heap ee V.hkids)
        rw [← he]; simp [mapO, htc]
      have hres := mutate_kids hinv hrel V.I hom htx' he hnew hic hk'
        (by intro y; rw [cntL_append]; simp only [cntL, Nat.add_zero]; have := hcnt y; omega)
        (flagsOKL_append (V.hfl hom) (by simp [flagsOKL, hsc, hfc]))
        (w := .outs (tv.vout ++ [v])) (v' := .tx { tv with vout := tv.vout ++ [v] })
        (by
          rw [V.hsc, decode_node, mapO_append V.hdec (b2 := [.txout v]) (by simp [mapO, hdc])]
          have hmap : tv.vout.map Val.txout ++ [Val.txout v] = (tv.vout ++ [v]).map Val.txout := by simp
          simp only [Option.bind_some, assemble, hmap, mapO_asTxOut_map, Option.map_some])
        (by rw [V.he, hval]; exact put_vout tv _)
      obtain ⟨k1, k2⟩ := hres
      rw [V.he] at k2
      exact ⟨k1, by simpa [hmu] using k2, trivial⟩


/-- `tx.vout[i] = CMutableTxOut(…)` -/
theorem sim_replaceOut {s : St} {sp : Store} (hinv : Inv s) (hrel : Rel s sp) (r i : Nat) (v : TxOut) :
    Sim s sp (.replaceOut r i v) := by
  simp only [Sim, step, Spec.ValueSem.step, withTx, editList]
  cases txRoot hinv hrel r with
  | none h1 h2 => simp only [h1, lookupTx, h2]; exact ⟨inv_skip hinv, rel_skip hrel, by simp⟩
  | other a e h1 h2 h3 h4 => simp only [h1, h3, h4, h2]; exact ⟨inv_skip hinv, rel_skip hrel, by simp⟩
  | tx a e tv o vi vo w h1 h2 hval h3 h4 ho hm t0 t1 t2 =>
    obtain ⟨V⟩ := voutInfo hinv hrel h2 hval t2
    simp only [h1, h3, h4, V.I.ho, V.hmut]
    cases hmu : e.isMut with
    | false => exact ⟨inv_skip hinv, rel_skip hrel, by simp⟩
    | true =>
      simp only [Bool.not_true, Bool.false_eq_true, if_false]
      have hom : V.I.o.isMut = true := by rw [V.hmut, hmu]
      have hl1 := mapO_length V.hkids
      have hl2 := mapO_length V.hdec
      have hlen : V.I.o.refs.length = tv.vout.length := by simp at hl2; omega
      rw [hlen]
      by_cases hi : i < tv.vout.length
      · simp only [hi, if_true]
        have hgood : PlanGood s.heap V.I.g (planTxOut true v) := by
          rw [V.hg]; exact good_planTxOut s.heap true v 5
        obtain ⟨ee, tc, he, hnew, hic, htc, hpt, hcnt⟩ := alloc_good hinv hgood
        rw [V.hg] at hpt
        obtain ⟨hdc, hfc⟩ := tree_planTxOut hpt
        have hsc : tc.sc.alwaysImm = false := by rw [(PT.root_sc hpt).1]; rfl
        have htx' : V.I.tx = .node vo true V.I.o.sc V.kids := by rw [V.htx, hom, V.hsc]
        have hk' : mapO (unfoldA V.I.g (allocPlan s.heap (planTxOut true v)).1)
            (V.I.o.refs.set i (allocPlan s.heap (planTxOut true v)).2) = some (V.kids.set i tc) := by
          apply mapO_list_set i _ htc
          rw [he]; exact mapO_ext_heap ee V.hkids
        have hki : i < V.kids.length := by omega
        have hres := mutate_kids hinv hrel V.I hom htx' he hnew hic hk'
          (by
            intro y
            have := cntL_set (x := y) (k' := tc) (List.getElem?_eq_getElem hki)
            have := hcnt y
            omega)
          (flagsOKL_set (V.hfl hom) (by simp [hsc, hfc]))
          (w := .outs (tv.vout.set i v)) (v' := .tx { tv with vout := tv.vout.set i v })
          (by
            rw [V.hsc, decode_node, mapO_list_set i V.hdec hdc]
            simp only [Option.bind_some, assemble, ← List.map_set, mapO_asTxOut_map, Option.map_some])
          (by rw [V.he, hval]; exact put_vout tv _)
        obtain ⟨k1, k2⟩ := hres
        rw [V.he] at k2
        exact ⟨k1, by simpa [hmu] using k2, trivial⟩
      · simp only [hi, if_false]
        exact ⟨inv_skip hinv, rel_skip hrel, trivial⟩

/-- `del tx.vout[i]` -/
theorem sim_removeOut {s : St} {sp : Store} (hinv : Inv s) (hrel : Rel s sp) (r i : Nat) :
    Sim s sp (.removeOut r i) := by
  simp only [Sim, step, Spec.ValueSem.step, withTx, editList, withList]
  cases txRoot hinv hrel r with
  | none h1 h2 => simp only [h1, lookupTx, h2]; exact ⟨inv_skip hinv, rel_skip hrel, by simp⟩
  | other a e h1 h2 h3 h4 => simp only [h1, h3, h4, h2]; exact ⟨inv_skip hinv, rel_skip hrel, by simp⟩
  | tx a e tv o vi vo w h1 h2 hval h3 h4 ho hm t0 t1 t2 =>
    obtain ⟨V⟩ := voutInfo hinv hrel h2 hval t2
    simp only [h1, h3, h4, V.I.ho, V.hmut, Bool.not_true, Bool.false_eq_true, if_false]
    cases hmu : e.isMut with
    | false => exact ⟨inv_skip hinv, rel_skip hrel, by simp⟩
    | true =>
      simp only [Bool.not_true, Bool.false_eq_true, if_false]
      have hom : V.I.o.isMut = true := by rw [V.hmut, hmu]
      have hl1 := mapO_length V.hkids
      have hl2 := mapO_length V.hdec
      have hlen : V.I.o.refs.length = tv.vout.length := by simp at hl2; omega
      rw [hlen]
      by_cases hi : i < tv.vout.length
      · simp only [hi, if_true]
        have htx' : V.I.tx = .node vo true V.I.o.sc V.kids := by rw [V.htx, hom, V.hsc]
        have hres := mutate_kids hinv hrel V.I hom htx' (h1 := s.heap) (e := []) (by simp) (by simp)
          hinv.immClosed (mapO_eraseIdx i V.hkids)
          (by intro y; have := cntL_eraseIdx_le (y := y) V.kids i; omega)
          (flagsOKL_eraseIdx i (V.hfl hom))
          (w := .outs (tv.vout.eraseIdx i)) (v' := .tx { tv with vout := tv.vout.eraseIdx i })
          (by
            rw [V.hsc, decode_node, mapO_eraseIdx i V.hdec]
            simp only [Option.bind_some, assemble, map_eraseIdx', mapO_asTxOut_map, Option.map_some])
          (by rw [V.he, hval]; exact put_vout tv _)
        obtain ⟨k1, k2⟩ := hres
        rw [V.he] at k2
        exact ⟨by simpa [hom] using k1, by simpa [hmu, hom] using k2, trivial⟩
      · simp only [hi, if_false]
        exact ⟨inv_skip hinv, rel_skip hrel, trivial⟩


end BtcVerif.Model.Heap
