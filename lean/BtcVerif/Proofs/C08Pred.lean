/-
  Helper lemmas for C08's predicates and signature-operation counts: each loop over the raw
  operations against the list form used by Spec.Script.
-/
import BtcVerif.Proofs.C08Iter

set_option linter.unusedSimpArgs false

namespace BtcVerif
open BtcVerif.Spec.Script BtcVerif.Model.Script

/-! ### CScriptOp lookups -/

theorem cscriptOpNew_signedByte (b : UInt8) : cscriptOpNew (signedByte b) = .ok b.toNat := by
  have := b.toNat_lt
  unfold cscriptOpNew cscriptOpNewSt signedByte
  by_cases h : b.toNat < 128
  · simp only [h, if_true]
    rw [if_pos (by omega)]; simp
  · simp only [h, if_false]
    rw [if_neg (by omega), if_pos (by omega)]
    simp only [Except.ok.injEq]; omega

theorem cscriptOpNew_nat (n : Nat) (h : n < 256) : cscriptOpNew (n : Int) = .ok n := by
  unfold cscriptOpNew cscriptOpNewSt
  rw [if_pos (by omega)]; simp

theorem decodeOpN_small (n : Nat) (h : 0x51 ≤ n ∧ n ≤ 0x60) : decodeOpN n = .ok (decodeOPN n) := by
  unfold decodeOpN decodeOPN
  rw [if_neg (by omega), if_neg (by omega), if_neg (by omega)]
  congr 1; omega

/-! ### push-only -/

theorem pushOnlyLoop_eq (ops : List RawOp) (e : Option IterErr) :
    pushOnlyLoop ops e = (e.isNone && ops.all (fun o => decide (o.opcode ≤ 0x60))) := by
  induction ops with
  | nil => simp [pushOnlyLoop]
  | cons o r ih =>
    simp only [pushOnlyLoop, ih, List.all_cons]
    by_cases h : o.opcode > 0x60
    · have : ¬ o.opcode ≤ 0x60 := by omega
      simp [h, this]
    · have : o.opcode ≤ 0x60 := by omega
      simp [h, this]

/-! ### canonical pushes -/

theorem canonicalStep_eq (o : RawOp) (hw : o.wf) :
    canonicalStep o = .ok (if canonicalPush o.pair then none else some false) := by
  obtain ⟨_, hd⟩ := hw
  unfold canonicalStep canonicalPush RawOp.pair
  by_cases h1 : o.opcode > 0x60
  · simp [h1]
  · simp only [h1, if_false]
    have hsome : o.opcode ≤ 0x4e → ∃ d, o.data = some d := by
      intro h; have := hd.mpr h
      exact Option.isSome_iff_exists.mp this
    by_cases h2 : o.opcode < 0x4c ∧ o.opcode > 0x00
    · obtain ⟨d, hdd⟩ := hsome (by omega)
      simp only [h2, and_self, if_true, hdd, Option.getD_some, true_and]
      have e : lenOneSmall d = oneSmallByte d := by
        rcases d with _ | ⟨x, _ | ⟨y, r⟩⟩ <;> simp [lenOneSmall, oneSmallByte]
      rw [e]
      by_cases h3 : oneSmallByte d
      · simp [h3]
      · have n1 : ¬ o.opcode = 0x4c := by omega
        have n2 : ¬ o.opcode = 0x4d := by omega
        have n3 : ¬ o.opcode = 0x4e := by omega
        simp [h3, n1, n2, n3]
    · simp only [h2, if_false]
      have h2' : ¬ (o.opcode < 0x4c ∧ o.opcode > 0 ∧ oneSmallByte (o.data.getD []) = true) := by
        intro ⟨a, b, _⟩; exact h2 ⟨a, b⟩
      simp only [h2', if_false]
      by_cases h4 : o.opcode = 0x4c
      · obtain ⟨d, hdd⟩ := hsome (by omega)
        simp only [h4, hdd, pyLen, Option.getD_some, true_and, if_true]
        by_cases h5 : d.length < 0x4c <;> simp [h5]
      · simp only [h4, if_false, false_and]
        by_cases h6 : o.opcode = 0x4d
        · obtain ⟨d, hdd⟩ := hsome (by omega)
          simp only [h6, hdd, pyLen, Option.getD_some, true_and, if_true]
          by_cases h5 : d.length ≤ 0xff <;> simp [h5]
        · simp only [h6, if_false, false_and]
          by_cases h7 : o.opcode = 0x4e
          · obtain ⟨d, hdd⟩ := hsome (by omega)
            simp only [h7, hdd, pyLen, Option.getD_some, true_and, if_true]
            by_cases h5 : d.length ≤ 0xffff <;> simp [h5]
          · simp [h7]

theorem canonicalLoop_eq (ops : List RawOp) (e : Option IterErr) (hw : ∀ o ∈ ops, o.wf) :
    canonicalLoop ops e = .ok (e.isNone && ops.all (fun o => canonicalPush o.pair)) := by
  induction ops with
  | nil => simp [canonicalLoop]
  | cons o r ih =>
    have h1 := canonicalStep_eq o (hw o (by simp))
    have h2 := ih (fun x hx => hw x (by simp [hx]))
    simp only [canonicalLoop, h1, List.all_cons]
    by_cases hc : canonicalPush o.pair
    · simp [hc, h2]
    · simp [hc]

/-! ### cooked iteration never raises anything but the tokeniser's error -/

/-- the token `__iter__` yields for a well-formed raw operation -/
def cookTok (o : RawOp) : Token :=
  if o.opcode = 0 then .int 0
  else match o.data with
    | some d => .data d
    | none => if 0x51 ≤ o.opcode ∧ o.opcode ≤ 0x60 then .int ((o.opcode - 0x50 : Nat) : Int) else .op o.opcode

theorem cookOp_eq (o : RawOp) (hw : o.wf) : cookOp o = .ok (cookTok o) := by
  obtain ⟨_, hd⟩ := hw
  unfold cookOp cookTok
  by_cases h0 : o.opcode = 0
  · simp [h0]
  · simp only [h0, if_false]
    rcases hdd : o.data with _ | d
    · simp only
      by_cases hs : 0x51 ≤ o.opcode ∧ o.opcode ≤ 0x60
      · have : isSmallInt o.opcode = true := by simp [isSmallInt, hs]
        simp only [this, if_true, decodeOpN_small _ hs, hs, and_self, decodeOPN, h0, if_false]
      · have : isSmallInt o.opcode = false := by
          simp only [isSmallInt, h0, or_false]; simpa using hs
        simp [this, hs]
    · simp

theorem cookedOps_eq (ops : List RawOp) (e : Option IterErr) (hw : ∀ o ∈ ops, o.wf) :
    cookedOps ops e = (ops.map cookTok, e.map .iter) := by
  induction ops with
  | nil => simp [cookedOps]
  | cons o r ih =>
    simp only [cookedOps, cookOp_eq o (hw o (by simp)), ih (fun x hx => hw x (by simp [hx])), List.map_cons]

theorem cooked_eq (s : Bytes) : cooked s = ((rawIter s).1.map cookTok, (rawIter s).2.map .iter) := by
  unfold cooked
  exact cookedOps_eq _ _ (rawIter_parse s).2.2

/-! ### signature operations -/

theorem sigOpsStep_eq (accurate : Bool) (n last opcode : Nat) (hl : last < 256) :
    sigOpsStep accurate n last opcode =
      .ok (n + (if opcode = 0xac ∨ opcode = 0xad then 1
                else if opcode = 0xae ∨ opcode = 0xaf then
                  (if accurate ∧ 0x51 ≤ last ∧ last ≤ 0x60 then decodeOPN last else 20)
                else 0)) := by
  unfold sigOpsStep
  by_cases h1 : opcode = 0xac ∨ opcode = 0xad
  · simp only [h1, if_true]
  · simp only [h1, if_false]
    by_cases h2 : opcode = 0xae ∨ opcode = 0xaf
    · simp only [h2, if_true]
      by_cases h3 : accurate = true ∧ 0x51 ≤ last ∧ last ≤ 0x60
      · simp only [h3, and_self, if_true, cscriptOpNew_nat _ hl, decodeOpN_small _ h3.2]
      · simp only [h3, if_false]
    · simp only [h2, if_false, Nat.add_zero]

theorem sigOpsLoop_eq (accurate : Bool) (ops : List RawOp) (hw : ∀ o ∈ ops, o.wf) :
    ∀ (n last : Nat), last < 256 →
      sigOpsLoop accurate ops n last = .ok (n + sigOpsFrom accurate last (ops.map RawOp.pair)) := by
  induction ops with
  | nil => intro n last _; simp [sigOpsLoop, sigOpsFrom]
  | cons o r ih =>
    intro n last hl
    have ho : o.opcode < 256 := (hw o (by simp)).1
    have ih' := ih (fun x hx => hw x (by simp [hx]))
    simp only [sigOpsLoop, sigOpsStep_eq _ _ _ _ hl, List.map_cons, RawOp.pair, sigOpsFrom]
    rw [ih' _ _ ho]; congr 1; omega

end BtcVerif
