/-
  C09 helper lemmas, part 10: simulation of `snapshot` and `mutCopy`.
-/
import BtcVerif.Proofs.HeapOps1

namespace BtcVerif.Model.Heap
open BtcVerif BtcVerif.Spec.ValueSem

theorem mapO_some_of_forall {α β : Type} {f : α → Option β} :
    ∀ {l : List α}, (∀ a ∈ l, ∃ b, f a = some b) → ∃ bs, mapO f l = some bs
  | [], _ => ⟨[], rfl⟩
  | a :: as, h => by
    obtain ⟨b, hb⟩ := h a (by simp)
    obtain ⟨bs, hbs⟩ := mapO_some_of_forall (l := as) (fun a' ha' => h a' (by simp [ha']))
    exact ⟨b :: bs, by simp [mapO, hb, hbs]⟩

theorem planClone_some {h : Heap} (tm : Bool) : ∀ {f : Nat} {a : Addr} {t : ATree},
    unfoldA f h a = some t → ∃ p, planClone tm f h a = some p
  | 0, _, _, hu => by simp [unfoldA] at hu
  | f + 1, a, t, hu => by
    obtain ⟨o, kids, ho, hk, rfl⟩ := unfoldA_succ hu
    simp only [planClone, ho]
    split
    · exact ⟨_, rfl⟩
    · obtain ⟨ps, hps⟩ := mapO_some_of_forall (f := planClone tm f h) (l := o.refs) (by
        intro c hc
        obtain ⟨tc, _, htc⟩ := mapO_mem' hk hc
        exact planClone_some tm htc)
      exact ⟨Plan.node tm o.sc ps, by simp [hps]⟩

/-- everything about the allocation of a clone -/
theorem clone_step {s : St} (hinv : Inv s) (tm : Bool) {x : Addr} {tx : ATree}
    (hux : unfoldA D s.heap x = some tx) :
    ∃ p, planClone tm D s.heap x = some p ∧
      ∃ e t', (allocPlan s.heap p).1 = s.heap ++ e ∧
        (∀ o ∈ e, o.cHash = none ∧ o.cPy = none ∧ (o.sc.alwaysImm = true → o.isMut = false)) ∧
        ImmClosed (allocPlan s.heap p).1 ∧
        unfoldA D (allocPlan s.heap p).1 (allocPlan s.heap p).2 = some t' ∧
        decode t' = decode tx ∧ t'.sc = tx.sc ∧ flagsOK (tm && !t'.sc.alwaysImm) t' ∧
        (∀ y, cnt y t' ≤ (if s.heap.length ≤ y then 1 else 0)) := by
  obtain ⟨p, hp⟩ := planClone_some tm hux
  obtain ⟨hfit, hrefs, himm, hall, _⟩ := planClone_ok hinv.kindOK tm hux hp
  have hres := allocPlan_spec s.heap (fun m sc => (sc.alwaysImm = true → m = false)) p D s.heap
    ⟨[], by simp⟩ hfit hall himm
  obtain ⟨e, he, hnew⟩ := hres.ext
  obtain ⟨t', ht', hpt⟩ := hres.tree
  obtain ⟨hd, hsc, hfl⟩ := clone_tree hinv.immClosed hinv.kindOK tm hux hp hpt
  refine ⟨p, hp, e, t', he, hnew, hres.imm hinv.immClosed, ht', hd, hsc, hfl, ?_⟩
  intro y
  have hc := (PT.cnt_le y hpt hrefs).2
  by_cases hy : s.heap.length ≤ y
  · rw [if_pos hy]
    by_cases c : s.heap.length ≤ y ∧ y < (allocPlan s.heap p).1.length
    · rwa [if_pos c] at hc
    · rw [if_neg c] at hc; omega
  · rw [if_neg hy]
    have c : ¬(s.heap.length ≤ y ∧ y < (allocPlan s.heap p).1.length) := fun c => hy c.1
    rwa [if_neg c] at hc

theorem cnt_imm_root {y : Addr} {t : ATree} (h : t.isMut = false) : cnt y t = 0 := by
  cases t with | node a m sc kids => simp only [ATree.isMut] at h; simp [cnt, h]

theorem sim_snapshot {s : St} {sp : Store} (hinv : Inv s) (hrel : Rel s sp) (tg : Target) :
    Sim s sp (.snapshot tg) := by
  simp only [Sim, step, Spec.ValueSem.step]
  cases ht : s.target tg with
  | none =>
    rw [target_none hinv hrel ht]
    exact ⟨inv_skip hinv, rel_skip hrel, rfl⟩
  | some x =>
    obtain ⟨I⟩ := target_some hinv hrel ht
    simp only [I.ho, I.habs, I.hlook]
    have hna : Inv s.skip ∧ Rel s.skip (Spec.ValueSem.bind sp none) ∧ Out.na = Out.na :=
      ⟨inv_skip hinv, rel_skip hrel, rfl⟩
    have hfull : unfoldA D s.heap x = some I.tx := unfoldA_fuel_le (by have := I.hD; omega) I.hux
    -- the branch taken for the six classes that have a `from_*` constructor
    have main :
        let rm : St × Out :=
          if (!I.o.isMut) = true then (s.bind s.heap (some x), Out.created)
          else if validCtor I.vx = true then
            match planClone false D s.heap x with
            | some p => (s.bind (allocPlan s.heap p).1 (some (allocPlan s.heap p).2), Out.created)
            | none => (s.skip, Out.badRef)
          else (s.skip, Out.err Exc.valueerr)
        let rs : Store × Out :=
          if (!I.tx.isMut) = true then (Spec.ValueSem.bind sp (some ⟨false, I.vx⟩), Out.created)
          else if validCtor I.vx = true then (Spec.ValueSem.bind sp (some ⟨false, I.vx⟩), Out.created)
          else (Spec.ValueSem.bind sp none, Out.err Exc.valueerr)
        Inv rm.1 ∧ Rel rm.1 rs.1 ∧ rm.2 = rs.2 := by
      simp only [I.hom]
      cases hm : I.o.isMut with
      | false =>
        simp only [Bool.not_false, if_true]
        have htm : I.tx.isMut = false := by rw [I.hom]; exact hm
        refine ⟨?_, ?_, trivial⟩
        · apply inv_ext hinv (e := []) (by simp) (by simp) (by simpa using hinv.immClosed) (some x)
          intro a ha; cases ha
          refine ⟨I.tx, I.vx, by simpa using hfull, I.hdx, I.hfx, fun y => ?_⟩
          rw [cnt_imm_root htm]; exact Nat.zero_le _
        · apply rel_ext hrel (e := []) (by simp)
          exact ⟨I.tx, by simpa using hfull, I.hdx, htm⟩
      | true =>
        simp only [Bool.not_true, Bool.false_eq_true, if_false]
        cases hv : validCtor I.vx with
        | false => exact ⟨inv_skip hinv, rel_skip hrel, rfl⟩
        | true =>
          simp only [if_true]
          obtain ⟨p, hp, e, t', he, hnew, hic, ht', hd, hsc, hfl, hcnt⟩ := clone_step hinv false hfull
          simp only [hp]
          have hfl' : flagsOK false t' := by simpa using hfl
          have htm' : t'.isMut = false := flagsOK_isMut hfl'
          refine ⟨?_, ?_, trivial⟩
          · apply inv_ext hinv he hnew hic (some _)
            intro a ha; cases ha
            exact ⟨t', I.vx, ht', by rw [hd]; exact I.hdx, by rw [htm']; exact hfl', hcnt⟩
          · apply rel_ext hrel he
            exact ⟨t', ht', by rw [hd]; exact I.hdx, htm'⟩
    have hk : valKind I.vx = I.o.sc.kind := by rw [← I.hosc]; exact decode_kind I.hdx
    have hseq := I.isSeq_eq
    simp only at main
    revert main hk hseq
    generalize I.vx = vx
    generalize I.o.sc = osc
    intro main hk hseq
    cases vx <;> cases osc <;> simp [valKind, Scalars.kind] at hk <;>
      first
        | exact main
        | exact hna
        | (rename_i k; cases k <;> simp [valKind, Scalars.kind] at hk <;> exact hna)

theorem sim_mutCopy {s : St} {sp : Store} (hinv : Inv s) (hrel : Rel s sp) (tg : Target) :
    Sim s sp (.mutCopy tg) := by
  simp only [Sim, step, Spec.ValueSem.step]
  cases ht : s.target tg with
  | none =>
    rw [target_none hinv hrel ht]
    exact ⟨inv_skip hinv, rel_skip hrel, rfl⟩
  | some x =>
    obtain ⟨I⟩ := target_some hinv hrel ht
    simp only [I.ho, I.habs, I.hlook]
    have hna : Inv s.skip ∧ Rel s.skip (Spec.ValueSem.bind sp none) ∧ Out.na = Out.na :=
      ⟨inv_skip hinv, rel_skip hrel, rfl⟩
    have hfull : unfoldA D s.heap x = some I.tx := unfoldA_fuel_le (by have := I.hD; omega) I.hux
    have main : I.o.sc.alwaysImm = false →
        let rm : St × Out :=
          if validCtor I.vx = true then
            match planClone true D s.heap x with
            | some p => (s.bind (allocPlan s.heap p).1 (some (allocPlan s.heap p).2), Out.created)
            | none => (s.skip, Out.badRef)
          else (s.skip, Out.err Exc.valueerr)
        let rs : Store × Out :=
          if validCtor I.vx = true then (Spec.ValueSem.bind sp (some ⟨true, I.vx⟩), Out.created)
          else (Spec.ValueSem.bind sp none, Out.err Exc.valueerr)
        Inv rm.1 ∧ Rel rm.1 rs.1 ∧ rm.2 = rs.2 := by
      intro hai
      cases hv : validCtor I.vx with
      | false => exact ⟨inv_skip hinv, rel_skip hrel, rfl⟩
      | true =>
        simp only [if_true]
        obtain ⟨p, hp, e, t', he, hnew, hic, ht', hd, hsc, hfl, hcnt⟩ := clone_step hinv true hfull
        simp only [hp]
        have hai' : t'.sc.alwaysImm = false := by rw [hsc, I.hosc]; exact hai
        have hfl' : flagsOK true t' := by simpa [hai'] using hfl
        have htm' : t'.isMut = true := flagsOK_isMut hfl'
        refine ⟨?_, ?_, trivial⟩
        · apply inv_ext hinv he hnew hic (some _)
          intro a ha; cases ha
          exact ⟨t', I.vx, ht', by rw [hd]; exact I.hdx, by rw [htm']; exact hfl', hcnt⟩
        · apply rel_ext hrel he
          exact ⟨t', ht', by rw [hd]; exact I.hdx, htm'⟩
    have hk : valKind I.vx = I.o.sc.kind := by rw [← I.hosc]; exact decode_kind I.hdx
    simp only at main
    revert main hk
    generalize I.vx = vx
    generalize I.o.sc = osc
    intro main hk
    cases vx <;> cases osc <;> simp [valKind, Scalars.kind] at hk <;>
      first
        | exact main rfl
        | exact hna
        | (rename_i k; cases k <;> simp [valKind, Scalars.kind] at hk <;> exact hna)

end BtcVerif.Model.Heap
