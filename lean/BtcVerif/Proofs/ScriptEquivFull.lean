/-
  C06 — the simulation for every opcode class: one loop iteration, the loop, `EvalScript`,
  `VerifyScript`, with the signature-checking opcodes included.
-/
import BtcVerif.Proofs.ScriptEquivMulti
import BtcVerif.Proofs.ScriptEquivVerify
import BtcVerif.Proofs.ScriptVerify

namespace BtcVerif.Model.ScriptEval
open BtcVerif BtcVerif.Spec BtcVerif.Spec.Script BtcVerif.Model.Script

/-- one opcode arm, all classes: like `Sim`, but the model may stop with CScriptInvalidError where
    the reference goes on, provided `tailP` (the script has a malformed push further on) -/
def ArmT (tailP : Prop) (code : Bytes) (st : St) (m : M St) (r : Option Ref.State) : Prop :=
  match m with
  | .ok st' => r = some (toRef st' code) ∧ st'.pbegin = st.pbegin ∧ st'.nOpCount ≤ MAX_OPS_PER_SCRIPT
  | .error e => r = none ∨ (tailP ∧ ∃ cap, e = .invalid cap)

theorem armT_of_sim {tailP : Prop} {code : Bytes} {st : St} {m : M St} {r : Option Ref.State}
    (h : Sim code st m r) (hn : st.nOpCount ≤ MAX_OPS_PER_SCRIPT) : ArmT tailP code st m r := by
  cases m with
  | ok st' => obtain ⟨h1, h2, h3⟩ := h; exact ⟨h1, h2, by rw [h3]; exact hn⟩
  | error e => exact Or.inl h

theorem armT_of_simT {tailP : Prop} {code : Bytes} {st : St} {m : M St} {r : Option Ref.State}
    (h : SimT tailP code st m r) : ArmT tailP code st m r := by
  cases m with
  | ok st' => exact h
  | error e =>
    cases e with
    | invalid cap =>
      rcases h with h | h
      · exact Or.inl h
      · exact Or.inr ⟨h, cap, rfl⟩
    | eval cap => exact Or.inl h
    | verify => exact Or.inl h
    | py cls => exact Or.inl h

/-- every arm of the dispatcher except OP_CODESEPARATOR -/
theorem execOp_armT (c : Ctx) (fl : Flags) (script : Bytes) (op : RawOp) (pc code : Bytes) (fExec : Bool)
    (st : St) (hsep : op.opcode ≠ 0xab) (hsh : SigHashOK c) (hcs : CodesepInsensitive c.env)
    (hel : ∀ x ∈ st.stack, x.length < 2 ^ 32) (hcode : CodeRel script st.pbegin code)
    (hnop : st.nOpCount ≤ MAX_OPS_PER_SCRIPT) (hsl : script.length ≤ MAX_SCRIPT_SIZE) :
    ArmT ((rawIter (script.drop st.pbegin)).2.isSome) code st (execOp c fl script op fExec st)
      (Ref.execOp c.env fl op.opcode pc fExec (toRef st code)) := by
  by_cases hcov : op.opcode ∈ uncoveredOps
  · simp only [uncoveredOps, List.mem_cons, List.mem_nil_iff, or_false] at hcov
    have hcs12 : op.opcode = 0xac ∨ op.opcode = 0xad ∨ op.opcode = 0xae ∨ op.opcode = 0xaf := hcov
    by_cases hsig : op.opcode = 0xac ∨ op.opcode = 0xad
    · have hm : execOp c fl script op fExec st = opCheckSig c script op.opcode st := by
        rcases hsig with h | h <;> simp [execOp, h, binaryNumOps, unaryNumOps]
      rw [hm]
      exact armT_of_simT (arm_checksig c fl script pc code fExec st op.opcode hsig hsh hcs hel hcode hnop hsl)
    · have hms : op.opcode = 0xae ∨ op.opcode = 0xaf := by omega
      have hm : execOp c fl script op fExec st = checkMultiSig c fl op.opcode (script.drop st.pbegin) st := by
        rcases hms with h | h <;> simp [execOp, h, binaryNumOps, unaryNumOps]
      have hr : Ref.execOp c.env fl op.opcode pc fExec (toRef st code) =
          Ref.opCheckMultiSig c.env fl (decide (op.opcode = 0xaf)) (toRef st code) := by
        rcases hms with h | h <;> simp [Ref.execOp, h]
      rw [hm, hr]
      exact armT_of_simT (multisig_sim c fl script code st op.opcode hms hsh hcs hel hcode hnop hsl)
  · exact armT_of_sim (execOp_sim c fl script op pc code fExec st hcov hsep) hnop

/-- outcome of one iteration on both sides, all opcode classes -/
def StepSimT (tailP : Prop) (script : Bytes) (pb0 idx0 : Nat) (m : M St) (r : Option Ref.State) : Prop :=
  match m with
  | .ok st' => ∃ code', r = some (toRef st' code') ∧ CodeRel script st'.pbegin code' ∧
      st'.nOpCount ≤ MAX_OPS_PER_SCRIPT ∧ (st'.pbegin = pb0 ∨ st'.pbegin = idx0)
  | .error e => r = none ∨ (tailP ∧ ∃ cap, e = .invalid cap)

theorem tail_simT (tailP : Prop) (script : Bytes) (pb0 idx0 : Nat) (code' : Bytes) (st' : St)
    (hc : CodeRel script st'.pbegin code') (hn : st'.nOpCount ≤ MAX_OPS_PER_SCRIPT)
    (hpb : st'.pbegin = pb0 ∨ st'.pbegin = idx0) :
    StepSimT tailP script pb0 idx0
      (if st'.stack.length + st'.alt.length > MAX_STACK_SIZE then raise st' else .ok st')
      (if st'.stack.length + st'.alt.length > MAX_STACK_SIZE then none else some (toRef st' code')) := by
  by_cases h : st'.stack.length + st'.alt.length > MAX_STACK_SIZE
  · simp [h, StepSimT]
  · simp only [h, if_false]
    exact ⟨code', rfl, hc, hn, hpb⟩

/-- one iteration, every opcode.  `pbegincodehash` always sits at an operation boundary, so the tail
    error of the subscript is the tail error of the script (`htl`) -/
theorem step_simT (c : Ctx) (fl : Flags) (script : Bytes) (op : RawOp) (pc' code : Bytes) (st : St)
    (tailP : Prop)
    (hd1 : op.opcode ≤ 0x4e → op.data.isSome) (hd2 : op.opcode > 0x4e → op.data = none)
    (hsep : op.opcode = 0xab → script.drop op.sopIdx = 0xab :: pc')
    (hcode : CodeRel script st.pbegin code) (hnop : st.nOpCount ≤ MAX_OPS_PER_SCRIPT)
    (hsh : SigHashOK c) (hcs : CodesepInsensitive c.env) (hel : ∀ x ∈ st.stack, x.length < 2 ^ 32)
    (htl : (rawIter (script.drop st.pbegin)).2.isSome → tailP) (hsl : script.length ≤ MAX_SCRIPT_SIZE) :
    StepSimT tailP script st.pbegin op.sopIdx (step c fl script op st)
      (Ref.loopBody c.env fl op.opcode (op.data.getD []) pc' (toRef st code)) := by
  unfold step
  dsimp only
  by_cases hdis : op.opcode ∈ disabledOpcodes
  · rw [if_pos hdis]
    have hgt : op.opcode > 0x4e := by
      simp only [disabledOpcodes, List.mem_cons, List.mem_nil_iff, or_false] at hdis; omega
    simp only [raiseNamed_eq, StepSimT, hd2 hgt, Option.getD_none]
    exact Or.inl (ref_disabled_none c.env fl op.opcode pc' _ hdis)
  rw [if_neg hdis]
  have hnd : op.opcode ∉ Ref.alwaysDisabled := by
    intro h; apply hdis
    simp only [Ref.alwaysDisabled, List.mem_cons, List.mem_nil_iff, or_false] at h
    simp only [disabledOpcodes, List.mem_cons, List.mem_nil_iff, or_false]
    omega
  obtain ⟨s, al, vf, pb, n⟩ := st
  dsimp only at hcode hnop hel htl
  by_cases hpush : op.opcode ≤ 0x4e
  · -- data push
    obtain ⟨d, hd⟩ := Option.isSome_iff_exists.mp (hd1 hpush)
    have hle : ¬ op.opcode > 0x60 := by omega
    have hn63 : ¬ (0x63 ≤ op.opcode ∧ op.opcode ≤ 0x68) := by omega
    have hnop' : ¬ n > MAX_OPS_PER_SCRIPT := by omega
    simp only [countOp, hle, if_false, dispatch, hpush, if_true, hd, Option.getD_some, bind, Except.bind,
      Ref.loopBody, toRef, hnd, checkExec, and_true, hn63, or_false, hnop']
    by_cases hlen : d.length > MAX_SCRIPT_ELEMENT_SIZE
    · simp [hlen, StepSimT]
    · simp only [hlen, if_false]
      by_cases hfe : vf.all id = true
      · simp only [hfe, if_true]
        exact tail_simT tailP script pb op.sopIdx code ⟨d :: s, al, vf, pb, n⟩ hcode hnop (Or.inl rfl)
      · simp only [hfe, if_false]
        exact tail_simT tailP script pb op.sopIdx code ⟨s, al, vf, pb, n⟩ hcode hnop (Or.inl rfl)
  · -- opcode
    have hgt : op.opcode > 0x4e := by omega
    have h520 : ¬ (0 > MAX_SCRIPT_ELEMENT_SIZE) := by simp [MAX_SCRIPT_ELEMENT_SIZE]
    simp only [hd2 hgt, Option.getD_none, Ref.loopBody, toRef, List.length_nil, hnd, if_false, hpush, and_false,
      dispatch, checkExec, h520]
    have hcm : countOp op.opcode ⟨s, al, vf, pb, n⟩ =
        if (if op.opcode > 0x60 then n + 1 else n) > MAX_OPS_PER_SCRIPT then
          raise ⟨s, al, vf, pb, (if op.opcode > 0x60 then n + 1 else n)⟩
        else .ok ⟨s, al, vf, pb, (if op.opcode > 0x60 then n + 1 else n)⟩ := by
      unfold countOp
      by_cases h60 : op.opcode > 0x60
      · simp only [h60, if_true]
      · have : ¬ n > MAX_OPS_PER_SCRIPT := by omega
        simp only [h60, if_false, this]
    rw [hcm]
    generalize (if op.opcode > 0x60 then n + 1 else n) = n'
    by_cases hcnt : n' > MAX_OPS_PER_SCRIPT
    · simp [hcnt, StepSimT, bind, Except.bind]
    · simp only [hcnt, if_false, bind, Except.bind]
      have hn' : n' ≤ MAX_OPS_PER_SCRIPT := by omega
      by_cases hex : vf.all id = true ∨ (0x63 ≤ op.opcode ∧ op.opcode ≤ 0x68)
      · simp only [hex, if_true]
        by_cases hcsep : op.opcode = 0xab
        · -- OP_CODESEPARATOR
          have hm : execOp c fl script op (vf.all id) ⟨s, al, vf, pb, n'⟩ = .ok ⟨s, al, vf, op.sopIdx, n'⟩ := by
            simp [execOp, hcsep, binaryNumOps, unaryNumOps, opCodeSeparator]
          have hr : Ref.execOp c.env fl op.opcode pc' (vf.all id) ⟨s, al, vf, code, n'⟩ =
              some ⟨s, al, vf, pc', n'⟩ := by
            rw [hcsep]; simp [Ref.execOp]
          rw [hm, hr]
          exact tail_simT tailP script pb op.sopIdx pc' ⟨s, al, vf, op.sopIdx, n'⟩ (Or.inr (hsep hcsep)) hn' (Or.inr rfl)
        · have hs := execOp_armT c fl script op pc' code (vf.all id) ⟨s, al, vf, pb, n'⟩ hcsep hsh hcs hel hcode
            hn' hsl
          simp only [toRef] at hs
          cases hm : execOp c fl script op (vf.all id) ⟨s, al, vf, pb, n'⟩ with
          | error e =>
            rw [hm] at hs
            simp only [ArmT] at hs
            rcases hs with hs | ⟨ht, hcap⟩
            · simp [hs, StepSimT]
            · simp only [StepSimT]
              exact Or.inr ⟨htl ht, hcap⟩
          | ok st' =>
            rw [hm] at hs
            obtain ⟨hs1, hs2, hs3⟩ := hs
            rw [hs1]
            have := tail_simT tailP script pb op.sopIdx code st' (by rw [hs2]; exact hcode) hs3 (Or.inl hs2)
            simpa [toRef] using this
      · simp only [hex, if_false]
        exact tail_simT tailP script pb op.sopIdx code ⟨s, al, vf, pb, n'⟩ hcode hn' (Or.inl rfl)

/-- a script with a malformed push fails in the reference, whatever the state -/
theorem evalLoop_tail_fail (env : Env) (fl : Flags) (idx : Nat) (s : Bytes) :
    (rawIterFrom idx s).2.isSome → ∀ st, Ref.evalLoop env fl s st = none := by
  induction idx, s using rawIterFrom.induct with
  | case1 idx s h => intro he; rw [rawIterFrom_none h] at he; simp at he
  | case2 idx s e h =>
    intro _ st
    have hs := rawStep_getOp idx s
    rw [h] at hs
    exact evalLoop_fail _ _ _ _ hs.1 hs.2
  | case3 idx s o rest h ops e heq ih =>
    intro he st
    rw [rawIterFrom_op h] at he
    have hs := rawStep_getOp idx s
    rw [h] at hs
    obtain ⟨hget, _, _, _, ⟨pre, hpre, hprene⟩, _⟩ := hs
    have hne : s ≠ [] := by rw [hpre]; simp [hprene]
    rw [evalLoop_op _ _ _ _ hne hget]
    cases Ref.loopBody env fl o.opcode (o.data.getD []) rest st with
    | none => rfl
    | some st' => exact ih he st'

/-- the loop, every opcode: by induction over the operations `raw_iter` yields, carrying the
    C07 invariants (`Pre`), the relation of the two `pbegincodehash`, and the fact that the model's
    subscript starts at an operation boundary -/
theorem loop_simT (c : Ctx) (fl : Flags) (script : Bytes) (B : Nat) (hB : 520 ≤ B) (hB2 : B < 2 ^ 32)
    (hh : HashesOK c.env.hashes) (hsh : SigHashOK c) (hcs : CodesepInsensitive c.env)
    (hsl : script.length ≤ MAX_SCRIPT_SIZE) (idx : Nat) (s : Bytes) :
    s = script.drop idx →
    ∀ (st : St) (code : Bytes), CodeRel script st.pbegin code → Pre B st →
      (rawIter (script.drop st.pbegin)).2 = (rawIterFrom idx s).2 →
      LoopSim (loop c fl script (rawIterFrom idx s).2 (rawIterFrom idx s).1 st)
        (Ref.evalLoop c.env fl s (toRef st code)) := by
  induction idx, s using rawIterFrom.induct with
  | case1 idx s h =>
    intro _ st code _ _ _
    have hs := rawStep_getOp idx s
    rw [h] at hs
    subst hs
    rw [rawIterFrom_none h]
    simp only [loop, LoopSim, evalLoop_nil]
    exact ⟨code, rfl⟩
  | case2 idx s e h =>
    intro _ st code _ _ _
    have hs := rawStep_getOp idx s
    rw [h] at hs
    rw [rawIterFrom_err h]
    simp only [loop, LoopSim]
    exact evalLoop_fail _ _ _ _ hs.1 hs.2
  | case3 idx s o rest h ops e heq ih =>
    intro hsd st code hcode hpre hinv
    have hs := rawStep_getOp idx s
    rw [h] at hs
    obtain ⟨hget, hidxo, hd1, hd2, ⟨pre, hpre', hprene⟩, hb⟩ := hs
    have hne : s ≠ [] := by rw [hpre']; simp [hprene]
    have htailEq : (rawIterFrom idx s).2 = (rawIterFrom (idx + (s.length - rest.length)) rest).2 := by
      rw [rawIterFrom_op h]
    rw [rawIterFrom_op h]
    simp only [loop, bind, Except.bind]
    rw [evalLoop_op _ _ _ _ hne hget]
    have hlen : s.length - rest.length = pre.length := by rw [hpre']; simp
    have hrest : rest = script.drop (idx + (s.length - rest.length)) := by
      rw [hlen, ← List.drop_drop, ← hsd, hpre', List.drop_left]
    have hsep : o.opcode = 0xab → script.drop o.sopIdx = 0xab :: rest := by
      intro ho
      obtain ⟨b, hb1, hb2⟩ := hb (by omega)
      rw [hidxo, ← hsd, hb1]
      congr 1
      apply UInt8.toNat_inj.mp
      rw [hb2, ho]; rfl
    obtain ⟨p1, p2, p3, p4⟩ := hpre
    have hel : ∀ x ∈ st.stack, x.length < 2 ^ 32 := fun x hx => by have := p3 x hx; omega
    have hstep := step_simT c fl script o rest code st ((rawIterFrom idx s).2.isSome) hd1 hd2 hsep hcode
      (by simp only [MAX_OPS_PER_SCRIPT]; exact p2) hsh hcs hel (by rw [hinv]; exact id) hsl
    have hok := step_ok (c := c) fl script hsl o ⟨p1, p2, p3, p4⟩ hd1 hB hB2 hh
    cases hm : step c fl script o st with
    | error err =>
      rw [hm] at hstep
      simp only [StepSimT] at hstep
      simp only [LoopSim]
      rcases hstep with hnone | ⟨ht, _⟩
      · simp [hnone]
      · cases Ref.loopBody c.env fl o.opcode (o.data.getD []) rest (toRef st code) with
        | none => rfl
        | some st'' =>
          exact evalLoop_tail_fail c.env fl _ rest (by rw [← htailEq]; exact ht) st''
    | ok st' =>
      rw [hm] at hstep hok
      obtain ⟨code', hr, hcode', _, hpb⟩ := hstep
      rw [hr]
      refine ih hrest st' code' hcode' hok ?_
      rw [← htailEq]
      rcases hpb with hpb | hpb
      · rw [hpb]; exact hinv
      · rw [hpb, hidxo, ← hsd]
        exact rawIterFrom_tail_indep idx s 0

/-- `_EvalScript` against the reference `EvalScript`, every opcode -/
theorem evalScriptRaw_simT (c : Ctx) (fl : Flags) (stack : List Bytes) (script : Bytes) (B : Nat)
    (hB : 520 ≤ B) (hB2 : B < 2 ^ 32) (hh : HashesOK c.env.hashes) (hsh : SigHashOK c)
    (hcs : CodesepInsensitive c.env) (hs : stack.length ≤ 1000) (he : ElemsLe B stack) :
    match evalScriptRaw c fl stack script with
    | .ok s' => Ref.evalScript c.env fl stack script = some s'
    | .error _ => Ref.evalScript c.env fl stack script = none := by
  unfold evalScriptRaw Ref.evalScript
  by_cases hsz : script.length > MAX_SCRIPT_SIZE
  · simp [hsz]
  · simp only [hsz, if_false, bind, Except.bind]
    have hpre : Pre B ⟨stack, [], [], 0, 0⟩ := ⟨by simp; omega, by simp, he, fun x hx => by simp at hx⟩
    have hl := loop_simT c fl script B hB hB2 hh hsh hcs (by omega) 0 script (by simp) ⟨stack, [], [], 0, 0⟩ script
      (Or.inl ⟨rfl, rfl⟩) hpre (by simp [rawIter])
    simp only [toRef] at hl
    cases hm : loop c fl script (rawIter script).2 (rawIter script).1 ⟨stack, [], [], 0, 0⟩ with
    | error e =>
      simp only [rawIter] at hm
      rw [hm] at hl
      simp only [LoopSim] at hl
      simp [hl]
    | ok st' =>
      simp only [rawIter] at hm
      rw [hm] at hl
      obtain ⟨code', hr⟩ := hl
      rw [hr]
      by_cases hv : st'.vfExec.length ≠ 0
      · have : st'.vfExec ≠ [] := by intro h; simp [h] at hv
        simp [hv, this, toRef]
      · have : st'.vfExec = [] := by
          cases hvf : st'.vfExec with
          | nil => rfl
          | cons a r => simp [hvf] at hv
        simp [this, toRef]

theorem evalScript_simT (c : Ctx) (fl : Flags) (stack : List Bytes) (script : Bytes) (B : Nat)
    (hB : 520 ≤ B) (hB2 : B < 2 ^ 32) (hh : HashesOK c.env.hashes) (hsh : SigHashOK c)
    (hcs : CodesepInsensitive c.env) (hs : stack.length ≤ 1000) (he : ElemsLe B stack) :
    match evalScript c fl stack script with
    | .ok s' => Ref.evalScript c.env fl stack script = some s'
    | .error _ => Ref.evalScript c.env fl stack script = none := by
  have h := evalScriptRaw_simT c fl stack script B hB hB2 hh hsh hcs hs he
  unfold evalScript
  cases hm : evalScriptRaw c fl stack script with
  | ok s' => rw [hm] at h; exact h
  | error e => rw [hm] at h; cases e <;> exact h

/-- `VerifyScript`, every opcode, the 12 admissible flag sets -/
theorem verifyScript_simT (c : Ctx) (fl : Flags) (sig spk : Bytes) (hf : fl.admissible = true)
    (hh : HashesOK c.env.hashes) (hsh : SigHashOK c) (hcs : CodesepInsensitive c.env) :
    VerSim (verifyScript c fl sig spk) (Ref.verifyScript c.env fl sig spk) := by
  unfold verifyScript Ref.verifyScript
  have hadm : ¬ (¬ fl.admissible = true) := by simp [hf]
  rw [if_neg hadm]
  have hB2 : (520 : Nat) < 2 ^ 32 := by decide
  have h1 := evalScript_simT c fl [] sig 520 (Nat.le_refl _) hB2 hh hsh hcs (by simp) (elemsLe_nil _)
  have e1 := evalScript_ok (c := c) (B := 520) fl [] sig (by simp) (elemsLe_nil _) (Nat.le_refl _) hB2 hh
  cases hm1 : evalScript c fl [] sig with
  | error e => rw [hm1] at h1; simp [h1, VerSim, bind, Except.bind]
  | ok s1 =>
    rw [hm1] at h1
    have f1 : s1.length ≤ 1000 ∧ ElemsLe 520 s1 := by
      have := e1.1; rw [hm1] at this; exact this
    simp only [h1, bind, Except.bind]
    have h2 := evalScript_simT c fl s1 spk 520 (Nat.le_refl _) hB2 hh hsh hcs f1.1 f1.2
    cases hm2 : evalScript c fl s1 spk with
    | error e => rw [hm2] at h2; simp [h2, VerSim]
    | ok s2 =>
      rw [hm2] at h2
      simp only [h2]
      have ht := checkTopTrue_sim s2
      cases hc : checkTopTrue s2 with
      | error e =>
        rw [hc] at ht
        rcases ht with rfl | ⟨top, rest, rfl, hcb⟩
        · simp [VerSim]
        · simp [VerSim, hcb]
      | ok u =>
        rw [hc] at ht
        obtain ⟨top, rest, rfl, hcb⟩ := ht
        simp only [hcb, not_true_eq_false, if_false]
        by_cases hp : fl.p2sh = true ∧ isP2sh spk = true
        · have hp' : fl.p2sh = true ∧ Ref.isPayToScriptHash spk = true := hp
          rw [if_pos hp, if_pos hp', if_pos hp.1]
          unfold verifyP2sh
          rw [isPushOnly_eq]
          by_cases hpo : Ref.isPushOnly sig = true
          · simp only [hpo, Bool.not_true, Bool.false_eq_true, if_false, not_true_eq_false]
            cases s1 with
            | nil => simp [VerSim]
            | cons x r =>
              simp only [List.length_cons, Nat.add_one_ne_zero, if_false, pop?_cons, pyIdx, bind, Except.bind]
              have hr : r.length ≤ 1000 := by have := f1.1; simp only [List.length_cons] at this; omega
              have her : ElemsLe 520 r := fun y hy => f1.2 y (by simp [hy])
              have h3 := evalScript_simT c fl r x 520 (Nat.le_refl _) hB2 hh hsh hcs hr her
              cases hm3 : evalScript c fl r x with
              | error e => rw [hm3] at h3; simp [h3, VerSim]
              | ok s3 =>
                rw [hm3] at h3
                simp only [h3]
                have ht3 := checkTopTrue_sim s3
                cases hc3 : checkTopTrue s3 with
                | error e =>
                  rw [hc3] at ht3
                  rcases ht3 with rfl | ⟨top3, rest3, rfl, hcb3⟩
                  · simp [VerSim]
                  · simp [VerSim, hcb3]
                | ok u3 =>
                  rw [hc3] at ht3
                  obtain ⟨top3, rest3, rfl, hcb3⟩ := ht3
                  simp only [hcb3, if_true]
                  unfold verifyCleanStack
                  by_cases hcl : fl.cleanStack = true
                  · simp only [hcl, if_true, hp.1, Bool.not_true, Bool.false_eq_true, if_false]
                    cases rest3 <;> simp [VerSim]
                  · simp [hcl, VerSim]
          · simp [hpo, VerSim]
        · have hp' : ¬ (fl.p2sh = true ∧ Ref.isPayToScriptHash spk = true) := hp
          rw [if_neg hp, if_neg hp']
          unfold verifyCleanStack
          by_cases hcl : fl.cleanStack = true
          · have hp2 : fl.p2sh = true := by
              simp only [Flags.admissible, hcl, Bool.not_true, Bool.false_or] at hf; exact hf
            simp only [hcl, if_true, hp2, Bool.not_true, Bool.false_eq_true, if_false]
            cases rest <;> simp [VerSim]
          · simp [hcl, VerSim]

end BtcVerif.Model.ScriptEval
