/-
  C11 helper lemmas, part 2: `convertbits` is bit-string regrouping.

  `convertbits d 5 8 False = some p ↔ Spec.Regroup d p` (for 5-bit values `d`), and
  `convertbits p 8 5 True` produces the 5-bit groups of `p` zero-padded at the end.
-/
import BtcVerif.Model.Bech32
import Mathlib.Tactic.IntervalCases
import Mathlib.Tactic.Ring

namespace BtcVerif.Bech32
open BtcVerif.Model.Bech32
open BtcVerif.Spec.Bech32 (beValue beDigits Regroup toBase32)

/-! ### positional values -/

/-- value of the digits `ds` in base `b` appended to the number `a` -/
def beFrom (b a : Nat) (ds : List Nat) : Nat := ds.foldl (fun a d => a * b + d) a

theorem beValue_eq (b : Nat) (ds : List Nat) : beValue b ds = beFrom b 0 ds := rfl

@[simp] theorem beFrom_nil (b a : Nat) : beFrom b a [] = a := rfl
@[simp] theorem beFrom_cons (b a d : Nat) (ds : List Nat) :
    beFrom b a (d :: ds) = beFrom b (a * b + d) ds := rfl

theorem beFrom_append (b a : Nat) (xs ys : List Nat) :
    beFrom b a (xs ++ ys) = beFrom b (beFrom b a xs) ys := by
  simp [beFrom, List.foldl_append]

theorem beFrom_add (b x y : Nat) (ds : List Nat) :
    beFrom b (x + y) ds = x * b ^ ds.length + beFrom b y ds := by
  induction ds generalizing x y with
  | nil => simp
  | cons d ds ih =>
    simp only [beFrom_cons, List.length_cons]
    rw [show (x + y) * b + d = x * b + (y * b + d) by ring, ih]
    ring

theorem beFrom_eq (b a : Nat) (ds : List Nat) : beFrom b a ds = a * b ^ ds.length + beValue b ds := by
  rw [beValue_eq, ← beFrom_add, Nat.add_zero]

theorem beValue_cons (b d : Nat) (ds : List Nat) :
    beValue b (d :: ds) = d * b ^ ds.length + beValue b ds := by
  rw [beValue_eq, beFrom_cons, Nat.zero_mul, Nat.zero_add, beFrom_eq]

theorem beValue_lt (b : Nat) (ds : List Nat) (h : ∀ d ∈ ds, d < b) : beValue b ds < b ^ ds.length := by
  induction ds with
  | nil => simp [beValue]
  | cons d ds ih =>
    rw [beValue_cons, List.length_cons, Nat.pow_succ]
    have h1 := ih (fun x hx => h x (by simp [hx]))
    have h2 : d < b := h d (by simp)
    have : d * b ^ ds.length + b ^ ds.length ≤ b ^ ds.length * b := by
      rw [Nat.mul_comm (b ^ ds.length) b]
      calc d * b ^ ds.length + b ^ ds.length = (d + 1) * b ^ ds.length := by ring
        _ ≤ b * b ^ ds.length := Nat.mul_le_mul_right _ h2
    omega

/-- two digit strings of the same length with the same value are equal -/
theorem beValue_inj (b : Nat) (xs ys : List Nat) (hx : ∀ d ∈ xs, d < b) (hy : ∀ d ∈ ys, d < b)
    (hl : xs.length = ys.length) (h : beValue b xs = beValue b ys) : xs = ys := by
  induction xs generalizing ys with
  | nil =>
    cases ys with
    | nil => rfl
    | cons _ _ => simp at hl
  | cons x xs ih =>
    cases ys with
    | nil => simp at hl
    | cons y ys =>
      have hl' : xs.length = ys.length := by simpa using hl
      rw [beValue_cons, beValue_cons, hl'] at h
      have h1 := beValue_lt b xs (fun d hd => hx d (by simp [hd]))
      have h2 := beValue_lt b ys (fun d hd => hy d (by simp [hd]))
      rw [hl'] at h1
      generalize b ^ ys.length = M at *
      have hM : 0 < M := by omega
      have e1 : (x * M + beValue b xs) / M = x := by
        rw [Nat.mul_comm, Nat.mul_add_div hM, Nat.div_eq_of_lt h1, Nat.add_zero]
      have e2 : (y * M + beValue b ys) / M = y := by
        rw [Nat.mul_comm, Nat.mul_add_div hM, Nat.div_eq_of_lt h2, Nat.add_zero]
      have hxy : x = y := by rw [← e1, ← e2, h]
      subst hxy
      have : beValue b xs = beValue b ys := by omega
      rw [ih ys (fun d hd => hx d (by simp [hd])) (fun d hd => hy d (by simp [hd])) hl' this]

theorem beDigits_length (b n v : Nat) : (beDigits b n v).length = n := by
  induction n generalizing v with
  | zero => rfl
  | succ n ih => simp [beDigits, ih]

theorem beDigits_lt (b n v : Nat) (hb : 0 < b) : ∀ d ∈ beDigits b n v, d < b := by
  induction n generalizing v with
  | zero => simp [beDigits]
  | succ n ih =>
    intro d hd
    simp only [beDigits, List.mem_append, List.mem_singleton] at hd
    rcases hd with hd | rfl
    · exact ih _ d hd
    · exact Nat.mod_lt _ hb

theorem beValue_beDigits (b n v : Nat) (hv : v < b ^ n) : beValue b (beDigits b n v) = v := by
  induction n generalizing v with
  | zero => simp at hv; simp [beDigits, beValue, hv]
  | succ n ih =>
    have hb : 0 < b := by
      rcases Nat.eq_zero_or_pos b with h | h
      · subst h; simp at hv
      · exact h
    rw [beDigits, beValue_eq, beFrom_append, ← beValue_eq, ih]
    · simp only [beFrom_cons, beFrom_nil]
      rw [Nat.mul_comm]; exact Nat.div_add_mod v b
    · rw [Nat.div_lt_iff_lt_mul hb, ← Nat.pow_succ]; exact hv

/-- the digits are determined by their value and count -/
theorem eq_beDigits (b : Nat) (ds : List Nat) (h : ∀ d ∈ ds, d < b) (hb : 0 < b) :
    ds = beDigits b ds.length (beValue b ds) := by
  apply beValue_inj b _ _ h (beDigits_lt b _ _ hb) (beDigits_length _ _ _).symm
  rw [beValue_beDigits _ _ _ (beValue_lt b ds h)]

/-! ### the fuel of `drain` never runs out -/

/-- under the precondition `0 < tobits`, `drain` started with `fuel ≥ bits` leaves through its own
    exit test: the returned `bits` is below `tobits` (CPython's `while bits >= tobits` has terminated) -/
theorem drain_exits (tobits maxv acc : Nat) (htb : 0 < tobits) (fuel bits : Nat) (ret : List Nat)
    (hf : bits ≤ fuel) : (drain tobits maxv acc fuel bits ret).1 < tobits := by
  induction fuel generalizing bits ret with
  | zero =>
    have : bits = 0 := by omega
    subst this
    simpa [drain] using htb
  | succ fuel ih =>
    simp only [drain]
    split
    · exact ih _ _ (by omega)
    · simp only; omega

/-! ### 5 → 8 without padding (`decode`) -/

theorem cb58_unfold (d : List Nat) :
    convertbits d 5 8 false = convertLoop 5 8 false 255 4095 d 0 0 [] := rfl

theorem cb85_unfold (d : List Nat) :
    convertbits d 8 5 true = convertLoop 8 5 true 31 4095 d 0 0 [] := rfl

theorem drain8 (a bits : Nat) (ret : List Nat) (h : bits ≤ 12) :
    drain 8 255 a bits bits ret
      = if 8 ≤ bits then (bits - 8, ret ++ [(a >>> (bits - 8)) &&& 255]) else (bits, ret) := by
  interval_cases bits <;> rfl

theorem powlen {a n k p : Nat} (h : a + 5 * n = 8 * k + p) : 2 ^ a * 32 ^ n = 256 ^ k * 2 ^ p := by
  rw [show (32 : Nat) = 2 ^ 5 by rfl, show (256 : Nat) = 2 ^ 8 by rfl, ← Nat.pow_mul, ← Nat.pow_mul,
    ← Nat.pow_add, ← Nat.pow_add, h]

theorem divmod_unique {M X Y e b : Nat} (hX : X < M) (hY : Y < M) (h : e * M + X = b * M + Y) :
    e = b ∧ X = Y := by
  have hM : 0 < M := by omega
  have e1 : (e * M + X) / M = e := by
    rw [Nat.mul_comm, Nat.mul_add_div hM, Nat.div_eq_of_lt hX, Nat.add_zero]
  have e2 : (b * M + Y) / M = b := by
    rw [Nat.mul_comm, Nat.mul_add_div hM, Nat.div_eq_of_lt hY, Nat.add_zero]
  have : e = b := by rw [← e1, ← e2, h]
  subst this
  exact ⟨rfl, by omega⟩

/-- what `convertbits(·, 5, 8, False)` promises for the pending bit string `r` (of `bits` bits)
    followed by the 5-bit groups `data` -/
def Ok58 (bits r : Nat) (data out : List Nat) (pad : Nat) : Prop :=
  (∀ b ∈ out, b < 256) ∧ pad < 5 ∧ bits + 5 * data.length = 8 * out.length + pad ∧
    beFrom 32 r data = beValue 256 out * 2 ^ pad

theorem beFrom_lt32 {bits r : Nat} (hr : r < 2 ^ bits) (data : List Nat) (hd : ∀ v ∈ data, v < 32) :
    beFrom 32 r data < 2 ^ bits * 32 ^ data.length := by
  rw [beFrom_eq]
  have := beValue_lt 32 data hd
  calc r * 32 ^ data.length + beValue 32 data < r * 32 ^ data.length + 32 ^ data.length := by omega
    _ = (r + 1) * 32 ^ data.length := by ring
    _ ≤ 2 ^ bits * 32 ^ data.length := Nat.mul_le_mul_right _ hr

theorem loop58 (data : List Nat) : ∀ (acc bits : Nat) (ret : List Nat), bits < 8 → (∀ v ∈ data, v < 32) →
    (∀ out, convertLoop 5 8 false 255 4095 data acc bits ret = some out →
        ∃ out' pad, out = ret ++ out' ∧ Ok58 bits (acc % 2 ^ bits) data out' pad) ∧
    (∀ out' pad, Ok58 bits (acc % 2 ^ bits) data out' pad →
        convertLoop 5 8 false 255 4095 data acc bits ret = some (ret ++ out')) := by
  induction data with
  | nil =>
    intro acc bits ret hb _
    simp only [convertLoop, Bool.false_eq_true, if_false]
    constructor
    · intro out h
      split at h
      · exact absurd h (by simp)
      · rename_i hc
        simp only [Bool.or_eq_true, decide_eq_true_eq, bne_iff_ne, ne_eq, not_or, not_not] at hc
        simp only [Option.some.injEq] at h
        subst h
        refine ⟨[], bits, by simp, by simp, by omega, by simp, ?_⟩
        simp only [beFrom_nil, beValue, List.foldl_nil, Nat.zero_mul]
        have h2 := hc.2
        rw [Nat.and_two_pow_sub_one_eq_mod _ 8, Nat.shiftLeft_eq] at h2
        interval_cases bits <;> omega
    · rintro out' pad ⟨_, hp, hl, hv⟩
      simp only [List.length_nil, Nat.mul_zero, Nat.add_zero] at hl
      have h0 : out'.length = 0 := by omega
      have : out' = [] := List.eq_nil_of_length_eq_zero h0
      subst this
      simp only [beFrom_nil, beValue, List.foldl_nil, Nat.zero_mul] at hv
      simp only [List.length_nil, Nat.mul_zero, Nat.zero_add] at hl
      subst hl
      have : ¬ ((decide (bits ≥ 5) || ((acc <<< (8 - bits)) &&& 255 != 0)) = true) := by
        simp only [Bool.or_eq_true, decide_eq_true_eq, bne_iff_ne, ne_eq, not_or, not_not]
        refine ⟨by omega, ?_⟩
        rw [Nat.and_two_pow_sub_one_eq_mod _ 8, Nat.shiftLeft_eq]
        interval_cases bits <;> omega
      rw [if_neg this, List.append_nil]
  | cons v rest ih =>
    intro acc bits ret hb hd
    have hv : v < 32 := hd v (by simp)
    have hrest : ∀ x ∈ rest, x < 32 := fun x hx => hd x (by simp [hx])
    have hshift : (v >>> 5 != 0) = false := by
      rw [Nat.shiftRight_eq_div_pow]
      have : v / 2 ^ 5 = 0 := by omega
      rw [this]; rfl
    simp only [convertLoop, hshift, Bool.false_eq_true, if_false]
    rw [drain8 _ _ _ (by omega)]
    have hacc : ((acc <<< 5) ||| v) &&& 4095 = (acc * 32 + v) % 4096 := by
      rw [← Nat.shiftLeft_add_eq_or_of_lt (by simpa using hv), Nat.shiftLeft_eq,
        Nat.and_two_pow_sub_one_eq_mod _ 12]
    rw [hacc]
    by_cases h8 : 8 ≤ bits + 5
    · -- one byte is emitted
      simp only [h8, if_true]
      set acc1 := (acc * 32 + v) % 4096 with hacc1
      set e := (acc1 >>> (bits + 5 - 8)) &&& 255 with he
      have hb2 : bits + 5 - 8 < 8 := by omega
      have he' : e = acc1 / 2 ^ (bits + 5 - 8) % 256 := by
        rw [he, Nat.and_two_pow_sub_one_eq_mod _ 8, Nat.shiftRight_eq_div_pow]
      have he256 : e < 256 := by rw [he']; exact Nat.mod_lt _ (by omega)
      have hsplit : (acc % 2 ^ bits) * 32 + v
          = e * 2 ^ (bits + 5 - 8) + acc1 % 2 ^ (bits + 5 - 8) := by
        rw [he', hacc1]
        interval_cases bits <;> omega
      have hr2 : acc1 % 2 ^ (bits + 5 - 8) < 2 ^ (bits + 5 - 8) := Nat.mod_lt _ (Nat.two_pow_pos _)
      obtain ⟨ih1, ih2⟩ := ih acc1 (bits + 5 - 8) (ret ++ [e]) hb2 hrest
      constructor
      · intro out h
        obtain ⟨out'', pad, ho, hbytes, hp, hl, hval⟩ := ih1 out h
        refine ⟨e :: out'', pad, by simp [ho], ?_, hp, by simp only [List.length_cons]; omega, ?_⟩
        · intro b hb'
          simp only [List.mem_cons] at hb'
          rcases hb' with rfl | hb'
          · exact he256
          · exact hbytes b hb'
        · rw [beFrom_cons, hsplit, beFrom_add, hval, beValue_cons, Nat.mul_assoc, powlen hl]
          ring
      · rintro out' pad ⟨hbytes, hp, hl, hval⟩
        simp only [List.length_cons] at hl
        cases out' with
        | nil => simp at hl; omega
        | cons b0 out'' =>
          simp only [List.length_cons] at hl
          have hl' : bits + 5 - 8 + 5 * rest.length = 8 * out''.length + pad := by omega
          rw [beFrom_cons, hsplit, beFrom_add, beValue_cons, Nat.mul_assoc, powlen hl'] at hval
          have hX := beFrom_lt32 hr2 rest hrest
          rw [powlen hl'] at hX
          have hY : beValue 256 out'' * 2 ^ pad < 256 ^ out''.length * 2 ^ pad :=
            Nat.mul_lt_mul_of_pos_right
              (beValue_lt 256 out'' (fun d hd' => hbytes d (by simp [hd']))) (Nat.two_pow_pos _)
          have hval' : e * (256 ^ out''.length * 2 ^ pad) + beFrom 32 (acc1 % 2 ^ (bits + 5 - 8)) rest
              = b0 * (256 ^ out''.length * 2 ^ pad) + beValue 256 out'' * 2 ^ pad := by
            rw [hval]; ring
          obtain ⟨heb, hXY⟩ := divmod_unique hX hY hval'
          subst heb
          have := ih2 out'' pad ⟨fun d hd' => hbytes d (by simp [hd']), hp, hl', hXY⟩
          rw [this]
          simp
    · -- nothing is emitted
      simp only [h8, if_false]
      have hmod : (acc * 32 + v) % 4096 % 2 ^ (bits + 5) = (acc % 2 ^ bits) * 32 + v := by
        interval_cases bits <;> omega
      obtain ⟨ih1, ih2⟩ := ih ((acc * 32 + v) % 4096) (bits + 5) ret (by omega) hrest
      rw [hmod] at ih1 ih2
      constructor
      · intro out h
        obtain ⟨out', pad, ho, hbytes, hp, hl, hval⟩ := ih1 out h
        exact ⟨out', pad, ho, hbytes, hp, by simp only [List.length_cons]; omega, by rw [beFrom_cons]; exact hval⟩
      · rintro out' pad ⟨hbytes, hp, hl, hval⟩
        exact ih2 out' pad ⟨hbytes, hp, by simp only [List.length_cons] at hl; omega, by rw [beFrom_cons] at hval; exact hval⟩

/-- `convertbits(d, 5, 8, False)` accepts exactly when the 5-bit groups regroup into bytes with fewer
    than five padding bits, all zero — and returns those bytes -/
theorem convertbits58_iff (d p : List Nat) (hd : ∀ v ∈ d, v < 32) :
    convertbits d 5 8 false = some p ↔ Regroup d p := by
  rw [cb58_unfold]
  obtain ⟨h1, h2⟩ := loop58 d 0 0 [] (by omega) hd
  constructor
  · intro h
    obtain ⟨out', pad, ho, hbytes, hp, hl, hval⟩ := h1 p h
    simp only [List.nil_append] at ho
    subst ho
    exact ⟨hbytes, pad, hp, by omega, by simpa [beValue_eq] using hval⟩
  · rintro ⟨hbytes, pad, hp, hl, hval⟩
    have := h2 p pad ⟨hbytes, hp, by omega, by simpa [beValue_eq] using hval⟩
    simpa using this

/-! ### 8 → 5 with padding (`encode`) -/

theorem drain5 (a bits : Nat) (ret : List Nat) (h : bits ≤ 12) :
    drain 5 31 a bits bits ret
      = if 10 ≤ bits then (bits - 10, ret ++ [(a >>> (bits - 5)) &&& 31] ++ [(a >>> (bits - 10)) &&& 31])
        else if 5 ≤ bits then (bits - 5, ret ++ [(a >>> (bits - 5)) &&& 31])
        else (bits, ret) := by
  interval_cases bits <;> rfl

theorem powlen' {a n k p : Nat} (h : a + 8 * n + p = 5 * k) : 2 ^ a * 256 ^ n * 2 ^ p = 32 ^ k := by
  rw [show (32 : Nat) = 2 ^ 5 by rfl, show (256 : Nat) = 2 ^ 8 by rfl, ← Nat.pow_mul, ← Nat.pow_mul,
    ← Nat.pow_add, ← Nat.pow_add, h]

/-- what `convertbits(·, 8, 5, True)` delivers for the pending bit string `r` (of `bits` bits)
    followed by the bytes `data`: the same bit string followed by `pad < 5` zero bits, in 5-bit groups -/
def Ok85 (bits r : Nat) (data out : List Nat) (pad : Nat) : Prop :=
  (∀ x ∈ out, x < 32) ∧ pad < 5 ∧ bits + 8 * data.length + pad = 5 * out.length ∧
    beFrom 256 r data * 2 ^ pad = beValue 32 out

theorem loop85 (data : List Nat) : ∀ (acc bits : Nat) (ret : List Nat), bits < 5 → (∀ v ∈ data, v < 256) →
    ∃ out' pad, convertLoop 8 5 true 31 4095 data acc bits ret = some (ret ++ out') ∧
      Ok85 bits (acc % 2 ^ bits) data out' pad := by
  induction data with
  | nil =>
    intro acc bits ret hb _
    simp only [convertLoop, if_true]
    by_cases h0 : bits = 0
    · subst h0
      refine ⟨[], 0, by simp, by simp, by omega, by simp, ?_⟩
      simp [beValue, Nat.mod_one]
    · have : (bits != 0) = true := by simpa using h0
      rw [if_pos this]
      refine ⟨[(acc <<< (5 - bits)) &&& 31], 5 - bits, rfl, ?_, by omega, by simp; omega, ?_⟩
      · intro x hx
        simp only [List.mem_singleton] at hx
        subst hx
        rw [Nat.and_two_pow_sub_one_eq_mod _ 5]; exact Nat.mod_lt _ (by omega)
      · simp only [beFrom_nil, beValue, List.foldl_cons, List.foldl_nil, Nat.zero_mul, Nat.zero_add]
        rw [Nat.and_two_pow_sub_one_eq_mod _ 5, Nat.shiftLeft_eq]
        interval_cases bits <;> omega
  | cons v rest ih =>
    intro acc bits ret hb hd
    have hv : v < 256 := hd v (by simp)
    have hrest : ∀ x ∈ rest, x < 256 := fun x hx => hd x (by simp [hx])
    have hshift : (v >>> 8 != 0) = false := by
      rw [Nat.shiftRight_eq_div_pow]
      have : v / 2 ^ 8 = 0 := by omega
      rw [this]; rfl
    simp only [convertLoop, hshift, Bool.false_eq_true, if_false]
    rw [drain5 _ _ _ (by omega)]
    have hacc : ((acc <<< 8) ||| v) &&& 4095 = (acc * 256 + v) % 4096 := by
      rw [← Nat.shiftLeft_add_eq_or_of_lt (by simpa using hv), Nat.shiftLeft_eq,
        Nat.and_two_pow_sub_one_eq_mod _ 12]
    rw [hacc]
    set acc1 := (acc * 256 + v) % 4096 with hacc1
    by_cases h10 : 10 ≤ bits + 8
    · -- two groups are emitted
      simp only [h10, if_true]
      set e1 := (acc1 >>> (bits + 8 - 5)) &&& 31 with he1
      set e2 := (acc1 >>> (bits + 8 - 10)) &&& 31 with he2
      have he1' : e1 = acc1 / 2 ^ (bits + 8 - 5) % 32 := by
        rw [he1, Nat.and_two_pow_sub_one_eq_mod _ 5, Nat.shiftRight_eq_div_pow]
      have he2' : e2 = acc1 / 2 ^ (bits + 8 - 10) % 32 := by
        rw [he2, Nat.and_two_pow_sub_one_eq_mod _ 5, Nat.shiftRight_eq_div_pow]
      have hsplit : (acc % 2 ^ bits) * 256 + v
          = e1 * (32 * 2 ^ (bits + 8 - 10)) + (e2 * 2 ^ (bits + 8 - 10) + acc1 % 2 ^ (bits + 8 - 10)) := by
        rw [he1', he2', hacc1]
        interval_cases bits <;> omega
      obtain ⟨out'', pad, hloop, hx, hp, hl, hval⟩ :=
        ih acc1 (bits + 8 - 10) (ret ++ [e1] ++ [e2]) (by omega) hrest
      refine ⟨e1 :: e2 :: out'', pad, by rw [hloop]; simp, ?_, hp, by simp only [List.length_cons]; omega, ?_⟩
      · intro x hx'
        simp only [List.mem_cons] at hx'
        rcases hx' with rfl | rfl | hx'
        · rw [he1']; exact Nat.mod_lt _ (by omega)
        · rw [he2']; exact Nat.mod_lt _ (by omega)
        · exact hx x hx'
      · rw [beFrom_cons, hsplit, beFrom_add, beFrom_add, beValue_cons, beValue_cons, ← hval,
          List.length_cons, Nat.pow_succ, ← powlen' hl]
        ring
    · simp only [h10, if_false]
      have h5 : 5 ≤ bits + 8 := by omega
      simp only [h5, if_true]
      set e1 := (acc1 >>> (bits + 8 - 5)) &&& 31 with he1
      have he1' : e1 = acc1 / 2 ^ (bits + 8 - 5) % 32 := by
        rw [he1, Nat.and_two_pow_sub_one_eq_mod _ 5, Nat.shiftRight_eq_div_pow]
      have hsplit : (acc % 2 ^ bits) * 256 + v
          = e1 * 2 ^ (bits + 8 - 5) + acc1 % 2 ^ (bits + 8 - 5) := by
        rw [he1', hacc1]
        interval_cases bits <;> omega
      obtain ⟨out'', pad, hloop, hx, hp, hl, hval⟩ :=
        ih acc1 (bits + 8 - 5) (ret ++ [e1]) (by omega) hrest
      refine ⟨e1 :: out'', pad, by rw [hloop]; simp, ?_, hp, by simp only [List.length_cons]; omega, ?_⟩
      · intro x hx'
        simp only [List.mem_cons] at hx'
        rcases hx' with rfl | hx'
        · rw [he1']; exact Nat.mod_lt _ (by omega)
        · exact hx x hx'
      · rw [beFrom_cons, hsplit, beFrom_add, beValue_cons, ← hval, ← powlen' hl]
        ring

/-- `convertbits(p, 8, 5)` of a byte string succeeds and yields 5-bit groups that regroup into `p` -/
theorem convertbits85 (p : List Nat) (hp : ∀ v ∈ p, v < 256) :
    ∃ d, convertbits p 8 5 true = some d ∧ (∀ x ∈ d, x < 32) ∧ Regroup d p ∧
      d.length = (8 * p.length + 4) / 5 := by
  rw [cb85_unfold]
  obtain ⟨out', pad, hloop, hx, hpad, hl, hval⟩ := loop85 p 0 0 [] (by omega) hp
  refine ⟨out', by simpa using hloop, hx, ⟨hp, pad, hpad, by omega, ?_⟩, by omega⟩
  rw [← hval]; simp [beValue_eq]

/-- `convertbits_roundtrip` (list form): regrouping a byte string to 5-bit groups and back is the identity -/
theorem convertbits_roundtrip_nat (p : List Nat) (hp : ∀ v ∈ p, v < 256) :
    ∃ d, convertbits p 8 5 true = some d ∧ (∀ x ∈ d, x < 32) ∧ convertbits d 5 8 false = some p := by
  obtain ⟨d, h1, h2, h3, _⟩ := convertbits85 p hp
  exact ⟨d, h1, h2, (convertbits58_iff d p h2).2 h3⟩

/-- the 5-bit groups produced are the reference ones -/
theorem convertbits85_eq_spec (p : List Nat) (hp : ∀ v ∈ p, v < 256) :
    convertbits p 8 5 true = some (toBase32 p) := by
  obtain ⟨d, h1, h2, ⟨_, pad, hpad, hl, hval⟩, hlen⟩ := convertbits85 p hp
  rw [h1]
  congr 1
  have hpad' : pad = 5 * ((8 * p.length + 4) / 5) - 8 * p.length := by omega
  rw [eq_beDigits 32 d h2 (by omega), hval, hlen, hpad']
  rfl

end BtcVerif.Bech32
