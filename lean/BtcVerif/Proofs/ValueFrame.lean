/-
  C09 helper lemmas, part 24: on the value store, one step changes at most the entry of the mutable
  root it edits; everything else — in particular every immutable entry — stays as it is.
-/
import BtcVerif.Spec.ValueSem

namespace BtcVerif.Spec.ValueSem
open BtcVerif

/-- the name whose entry an operation may rewrite -/
def Op.edits : Op → Option Nat
  | .assign t _ => some t.root
  | .setVin r _ | .setVout r _ | .appendIn r _ | .replaceIn r _ _ | .removeIn r _
  | .appendOut r _ | .replaceOut r _ _ | .removeOut r _ | .setWit r _ => some r
  | _ => none

theorem getM_flag : ∀ {p : List Nat} {v vx : Val} {m : Bool}, v.getM m p = some (true, vx) → m = true
  | [], v, vx, m, h => by simp [Val.getM] at h; exact h.1
  | i :: p, v, vx, m, h => by
    simp only [Val.getM] at h
    cases hc : v.child i with
    | none => simp [hc] at h
    | some c =>
      simp only [hc] at h
      have := getM_flag h
      cases m <;> simp_all

theorem get_bind {sp : Store} {r : Nat} {e : Entry} (x : Option Entry) (h : (sp[r]?).join = some e) :
    (((bind sp x)[r]?).join) = some e := by
  have hlt : r < sp.length := by
    cases hr : sp[r]? with
    | none => simp [hr] at h
    | some _ => exact (List.getElem?_eq_some_iff.mp hr).1
  simp only [bind, List.getElem?_append_left hlt]
  exact h

theorem get_set_bind {sp : Store} {r k : Nat} {e : Entry} (y x : Option Entry) (hk : k ≠ r)
    (h : (sp[r]?).join = some e) : ((bind (sp.set k y) x)[r]?).join = some e := by
  apply get_bind
  rw [List.getElem?_set_ne hk]; exact h

theorem editList_frame {sp : Store} {r k : Nat} {e : Entry} (rhsOk : Bool) (immErr : Exc)
    (f : Tx → Except Exc Tx) (h : (sp[r]?).join = some e) :
    (((editList sp k rhsOk immErr f).1[r]?).join = some e) ∨ (k = r ∧ e.isMut = true) := by
  simp only [editList]
  cases hl : lookupTx sp k with
  | none => exact Or.inl (get_bind _ h)
  | some et =>
    obtain ⟨e', t⟩ := et
    simp only []
    by_cases hr : rhsOk = true
    · simp only [hr, Bool.not_true, Bool.false_eq_true, if_false]
      by_cases hm : e'.isMut = true
      · simp only [hm, Bool.not_true, Bool.false_eq_true, if_false]
        cases f t with
        | error x => exact Or.inl (get_bind _ h)
        | ok t' =>
          by_cases hkr : k = r
          · right
            refine ⟨hkr, ?_⟩
            subst hkr
            simp only [lookupTx] at hl
            rw [h] at hl
            cases hv : e.val <;> simp [hv] at hl
            rw [← hl.1] at hm; exact hm
          · exact Or.inl (get_set_bind _ _ hkr h)
      · have : e'.isMut = false := by simpa using hm
        simp only [this, Bool.not_false, if_true]
        exact Or.inl (get_bind _ h)
    · have : rhsOk = false := by simpa using hr
      simp only [this, Bool.not_false, if_true]
      exact Or.inl (get_bind _ h)

/-- **frame on values**: after one step the entry of name `r` is what it was, unless `r` is the
    mutable root the operation edits -/
theorem step_frame (sp : Store) (op : Op) {r : Nat} {e : Entry} (h : (sp[r]?).join = some e) :
    (((step sp op).1[r]?).join = some e) ∨ (op.edits = some r ∧ e.isMut = true) := by
  cases op with
  | assign t f =>
    simp only [step]
    cases hl : lookup sp t with
    | none => exact Or.inl (get_bind _ h)
    | some mv =>
      obtain ⟨m, v⟩ := mv
      simp only []
      by_cases hs : v.isSeq = true
      · simp only [hs, if_true]; exact Or.inl (get_bind _ h)
      · have hs' : v.isSeq = false := by simpa using hs
        simp only [hs', Bool.false_eq_true, if_false]
        cases hm : m with
        | false => simp only [Bool.not_false, if_true]; exact Or.inl (get_bind _ h)
        | true =>
          simp only [Bool.not_true, Bool.false_eq_true, if_false]
          cases f.apply v with
          | none => exact Or.inl (get_bind _ h)
          | some w =>
            simp only [update, Option.bind_eq_bind]
            cases he' : (sp[t.root]?).join with
            | none => exact Or.inl (get_bind _ h)
            | some e' =>
              simp only [Option.bind_some]
              cases e'.val.put t.path w with
              | none => exact Or.inl (get_bind _ h)
              | some v' =>
                simp only [Option.bind_some, pure]
                by_cases hkr : t.root = r
                · right
                  refine ⟨by simp [Op.edits, hkr], ?_⟩
                  rw [hkr] at he'
                  rw [h] at he'; cases he'
                  simp only [lookup, hkr, h, Option.bind_eq_bind, Option.bind_some, hm] at hl
                  exact getM_flag hl
                · exact Or.inl (get_set_bind _ _ hkr h)
  | setVin k l =>
    rcases editList_frame (k := k) (l.all validTxIn) attributeError (fun t => .ok { t with vin := l }) h with h1 | h1
    · exact Or.inl h1
    · exact Or.inr ⟨by simp [Op.edits, h1.1], h1.2⟩
  | setVout k l =>
    rcases editList_frame (k := k) true attributeError (fun t => .ok { t with vout := l }) h with h1 | h1
    · exact Or.inl h1
    · exact Or.inr ⟨by simp [Op.edits, h1.1], h1.2⟩
  | appendIn k v =>
    rcases editList_frame (k := k) true attributeError
      (fun t => if validTxIn v then .ok { t with vin := t.vin ++ [v] } else .error .valueerr) h with h1 | h1
    · exact Or.inl h1
    · exact Or.inr ⟨by simp [Op.edits, h1.1], h1.2⟩
  | replaceIn k i v =>
    rcases editList_frame (k := k) (validTxIn v) typeError
      (fun t => if i < t.vin.length then .ok { t with vin := t.vin.set i v } else .error indexError) h with h1 | h1
    · exact Or.inl h1
    · exact Or.inr ⟨by simp [Op.edits, h1.1], h1.2⟩
  | removeIn k i =>
    rcases editList_frame (k := k) true typeError
      (fun t => if i < t.vin.length then .ok { t with vin := t.vin.eraseIdx i } else .error indexError) h with h1 | h1
    · exact Or.inl h1
    · exact Or.inr ⟨by simp [Op.edits, h1.1], h1.2⟩
  | appendOut k v =>
    rcases editList_frame (k := k) true attributeError (fun t => .ok { t with vout := t.vout ++ [v] }) h with h1 | h1
    · exact Or.inl h1
    · exact Or.inr ⟨by simp [Op.edits, h1.1], h1.2⟩
  | replaceOut k i v =>
    rcases editList_frame (k := k) true typeError
      (fun t => if i < t.vout.length then .ok { t with vout := t.vout.set i v } else .error indexError) h with h1 | h1
    · exact Or.inl h1
    · exact Or.inr ⟨by simp [Op.edits, h1.1], h1.2⟩
  | removeOut k i =>
    rcases editList_frame (k := k) true typeError
      (fun t => if i < t.vout.length then .ok { t with vout := t.vout.eraseIdx i } else .error indexError) h with h1 | h1
    · exact Or.inl h1
    · exact Or.inr ⟨by simp [Op.edits, h1.1], h1.2⟩
  | setWit k w =>
    rcases editList_frame (k := k) true attributeError (fun t => .ok { t with wit := w }) h with h1 | h1
    · exact Or.inl h1
    · exact Or.inr ⟨by simp [Op.edits, h1.1], h1.2⟩
  | newTx v => left; simp only [step]; split <;> exact get_bind _ h
  | newCTx v => left; simp only [step]; split <;> exact get_bind _ h
  | newHeader v => left; simp only [step]; split <;> exact get_bind _ h
  | newBlock hd txs => left; simp only [step]; (repeat' split) <;> exact get_bind _ h
  | snapshot t => left; simp only [step]; (repeat' split) <;> exact get_bind _ h
  | mutCopy t => left; simp only [step]; (repeat' split) <;> exact get_bind _ h
  | delAttr t => left; simp only [step]; (repeat' split) <;> exact get_bind _ h
  | ser t => left; simp only [step, observe]; (repeat' split) <;> exact get_bind _ h
  | getHash t => left; simp only [step, observe]; (repeat' split) <;> exact get_bind _ h
  | txid t => left; simp only [step, observe]; (repeat' split) <;> exact get_bind _ h
  | pyHash t => left; simp only [step, observe]; (repeat' split) <;> exact get_bind _ h
  | eq a b => left; simp only [step]; (repeat' split) <;> exact get_bind _ h
  | sighash k sb i ht => left; simp only [step]; (repeat' split) <;> exact get_bind _ h
  | sighashW k i ht => left; simp only [step]; (repeat' split) <;> exact get_bind _ h
  | verify k i cs => left; simp only [step]; (repeat' split) <;> exact get_bind _ h

end BtcVerif.Spec.ValueSem
