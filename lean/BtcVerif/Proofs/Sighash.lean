/-
  Helper lemmas for C03 / C04 (signature hashes).  Part 1: serialisation of in-range values never
  raises and yields the `Spec.Wire` bytes; hash-type decoding; the three BIP143 sub-hashes.
-/
import BtcVerif.Model.Sighash
import BtcVerif.Spec.Sighash

namespace BtcVerif.SighashProofs
open BtcVerif Model.Wire Spec.Wire Spec.Sighash Model.Sighash

theorem bind_ok {α β} (a : α) (f : α → Res β) : (Except.ok a >>= f) = f a := rfl
theorem bind_err {α β} (e : Exc) (f : α → Res β) : ((Except.error e : Res α) >>= f) = Except.error e := rfl
theorem pure_ok {α} (a : α) : (pure a : Res α) = Except.ok a := rfl

/-! ### in-range values serialise to the wire bytes -/

theorem packU_ok {w n : Nat} (h : n < 256 ^ w) : packU w n = .ok (leBytes w n) := by
  simp [packU, h]

theorem packI_ok {w : Nat} {i : Int} (h1 : -(2 ^ (8 * w - 1) : Int) ≤ i) (h2 : i < (2 ^ (8 * w - 1) : Int)) :
    packI w i = .ok (leBytesInt w i) := by
  simp [packI, h1, h2]

theorem serVarInt_ok {n : Nat} (h : n < 2 ^ 64) : serVarInt n = .ok (compactSize n) := by
  unfold serVarInt compactSize
  split
  · rfl
  · split
    · rw [packU_ok (by omega)]; rfl
    · split
      · rw [packU_ok (by omega)]; rfl
      · rw [packU_ok (by omega)]; rfl

theorem serBytes_ok {b : Bytes} (h : b.length < 2 ^ 64) : serBytes b = .ok (varBytes b) := by
  simp [serBytes, serVarInt_ok h, varBytes, bind, Except.bind, pure, Except.pure]

theorem serOutPoint_ok {o : OutPoint} (h : WFOutPoint o) : serOutPoint o = .ok (outPoint o) := by
  obtain ⟨h1, h2⟩ := h
  simp [serOutPoint, h1, packU_ok (show o.n < 256 ^ 4 by omega), outPoint, bind, Except.bind, pure, Except.pure]

theorem mapM_ok {α β} (f : α → Res β) (g : α → β) (l : List α) (h : ∀ x ∈ l, f x = .ok (g x)) :
    l.mapM f = .ok (l.map g) := by
  induction l with
  | nil => rfl
  | cons a t ih =>
    rw [List.mapM_cons, h a (by simp), ih (fun x hx => h x (by simp [hx]))]
    rfl

theorem serTxOut_ok {o : TxOut} (h1 : -(2 ^ 63 : Int) ≤ o.nValue) (h2 : o.nValue < 2 ^ 63)
    (h3 : o.scriptPubKey.length < 2 ^ 64) : serTxOut o = .ok (txOut o) := by
  simp [serTxOut, packI_ok (w := 8) (by simpa using h1) (by simpa using h2), serBytes_ok h3, txOut,
    bind, Except.bind, pure, Except.pure]

/-- `struct.pack('<i', ht)` of a non-negative hash type below 2^31 is its four little-endian bytes -/
theorem packI_ht {ht : Nat} (hht : ht < 2 ^ 31) : packI 4 (ht : Int) = .ok (leBytes 4 ht) := by
  rw [packI_ok (by omega) (by omega)]
  simp only [leBytesInt]
  have h256 : ((256 ^ 4 : Nat) : Int) = 4294967296 := by simp
  have : ((ht : Int) % ((256 ^ 4 : Nat) : Int)).toNat = ht := by rw [h256]; omega
  rw [this]

/-! ### hash-type decoding: Python's masks on an int vs. the spec's on a natural number -/

/-- the Python int `h` and the spec's natural number `ht` agree on the five mode bits and on bit 0x80 -/
def HtRel (h : Int) (ht : Nat) : Prop :=
  h % 32 = ((ht % 32 : Nat) : Int) ∧ h / 128 % 2 = ((ht / 128 % 2 : Nat) : Int)

theorem htRel_cast (ht : Nat) : HtRel (ht : Int) ht := by
  unfold HtRel; omega

/-- a (possibly negative) hash type in the int32 range is related to its two's-complement reading -/
theorem htRel_int32 (h : Int) : HtRel h (h % 4294967296).toNat := by
  unfold HtRel; omega

/-- `struct.pack('<i', h)` in the int32 range: the four little-endian bytes of the two's complement -/
theorem packI_int32 {h : Int} (h1 : -(2 ^ 31 : Int) ≤ h) (h2 : h < 2 ^ 31) :
    packI 4 h = .ok (leBytes 4 (h % 4294967296).toNat) := by
  rw [packI_ok (by omega) (by omega)]
  simp only [leBytesInt]
  have h256 : ((256 ^ 4 : Nat) : Int) = 4294967296 := by simp
  rw [h256]

/-- outside the int32 range `struct.pack('<i', h)` raises struct.error -/
theorem packI_out_of_range {h : Int} (hh : h < -(2 ^ 31 : Int) ∨ (2 ^ 31 : Int) ≤ h) :
    packI 4 h = .error structError := by
  unfold packI
  rw [if_neg (by omega)]

theorem ht_none_iff {h : Int} {ht : Nat} (hr : HtRel h ht) : (h % 32 = 2) ↔ isNone ht = true := by
  unfold isNone SIGHASH_NONE; rw [decide_eq_true_iff]; unfold HtRel at hr; omega
theorem ht_single_iff {h : Int} {ht : Nat} (hr : HtRel h ht) : (h % 32 = 3) ↔ isSingle ht = true := by
  unfold isSingle SIGHASH_SINGLE; rw [decide_eq_true_iff]; unfold HtRel at hr; omega
theorem ht_acp_iff {h : Int} {ht : Nat} (hr : HtRel h ht) : (h / 128 % 2 ≠ 0) ↔ isAnyoneCanPay ht = true := by
  unfold isAnyoneCanPay SIGHASH_ANYONECANPAY; rw [decide_eq_true_iff]; unfold HtRel at hr; omega
theorem htAcp_eq {h : Int} {ht : Nat} (hr : HtRel h ht) : htAnyoneCanPay h = isAnyoneCanPay ht := by
  unfold htAnyoneCanPay
  by_cases hc : isAnyoneCanPay ht = true
  · rw [hc, decide_eq_true_iff]; exact (ht_acp_iff hr).mpr hc
  · have h' : ¬ (h / 128 % 2 ≠ 0) := fun hh => hc ((ht_acp_iff hr).mp hh)
    simp only [Bool.not_eq_true] at hc
    rw [hc, decide_eq_false_iff_not]; exact h'
theorem not_none_and_single (ht : Nat) : ¬ (isNone ht = true ∧ isSingle ht = true) := by
  unfold isNone isSingle SIGHASH_NONE SIGHASH_SINGLE
  rw [decide_eq_true_iff, decide_eq_true_iff]; omega

theorem zero32_eq : Model.Sighash.zero32 = Spec.Sighash.zero32 := rfl

/-- the wire-format well-formedness of C01 implies the field ranges the signature hashes need -/
theorem fieldsWF_of_WFTx {t : Tx} (h : WFTx t) : FieldsWF t := by
  obtain ⟨h1, h2, _, h4, h5, h6, h7, _, _, h10⟩ := h
  refine ⟨h1, h2, h4, h5, ?_, ?_, h10⟩
  · intro i hi; exact ⟨(h6 i hi).1, (h6 i hi).2.2⟩
  · intro o ho
    obtain ⟨a, b, c⟩ := h7 o ho
    refine ⟨a, b, ?_⟩
    unfold maxSize at c; omega

/-! ### the three BIP143 sub-hashes -/

theorem v0HashPrevouts_eq (tx : Tx) (ht : Nat) {h : Int} (hr : HtRel h ht) (hwf : FieldsWF tx) :
    v0HashPrevouts tx h = .ok (hashPrevouts tx ht) := by
  obtain ⟨_, _, _, _, hin, _, _⟩ := hwf
  have hprev : tx.vin.mapM (fun i => serOutPoint i.prevout) = .ok (tx.vin.map (fun i => outPoint i.prevout)) :=
    mapM_ok _ _ _ (fun x hx => serOutPoint_ok (hin x hx).1)
  unfold v0HashPrevouts hashPrevouts
  rw [htAcp_eq hr, hprev, zero32_eq]
  by_cases ha : isAnyoneCanPay ht = true
  · simp [ha, pure, Except.pure]
  · simp [ha, bind, Except.bind, pure, Except.pure]

theorem v0HashSequence_eq (tx : Tx) (ht : Nat) {h : Int} (hr : HtRel h ht) (hwf : FieldsWF tx) :
    v0HashSequence tx h = .ok (hashSequence tx ht) := by
  obtain ⟨_, _, _, _, hin, _, _⟩ := hwf
  have hseq : tx.vin.mapM (fun i => packU 4 i.nSequence) = .ok (tx.vin.map (fun i => leBytes 4 i.nSequence)) :=
    mapM_ok _ _ _ (fun x hx => packU_ok (by have := (hin x hx).2; omega))
  unfold v0HashSequence hashSequence
  rw [htAcp_eq hr, hseq, zero32_eq]
  by_cases ha : isAnyoneCanPay ht = true <;> by_cases h2 : isNone ht = true <;>
    by_cases h3 : isSingle ht = true <;>
    simp [ha, h2, h3, ht_none_iff hr, ht_single_iff hr, bind, Except.bind, pure, Except.pure]

theorem v0HashOutputs_eq (tx : Tx) (i : Nat) (ht : Nat) {h : Int} (hr : HtRel h ht) (hwf : FieldsWF tx) :
    v0HashOutputs tx i h = .ok (hashOutputs tx i ht) := by
  obtain ⟨_, _, _, _, _, hout, _⟩ := hwf
  have houts : tx.vout.mapM serTxOut = .ok (tx.vout.map txOut) :=
    mapM_ok _ _ _ (fun x hx => serTxOut_ok (hout x hx).1 (hout x hx).2.1 (hout x hx).2.2)
  unfold v0HashOutputs hashOutputs
  rw [houts, zero32_eq]
  have hns := not_none_and_single ht
  cases hvo : tx.vout[i]? with
  | none =>
    have hlt : ¬ i < tx.vout.length := by
      have := List.getElem?_eq_none_iff.mp hvo; omega
    by_cases h2 : isNone ht = true <;> by_cases h3 : isSingle ht = true <;>
      simp [h2, h3, hlt, ht_none_iff hr, ht_single_iff hr, bind, Except.bind, pure, Except.pure]
  | some o =>
    have hlt : i < tx.vout.length := by
      rcases List.getElem?_eq_some_iff.mp hvo with ⟨h, _⟩; exact h
    have hgo : pyGetNat tx.vout i = .ok o := by simp [pyGetNat, hvo]
    have hmo : o ∈ tx.vout := List.mem_of_getElem? hvo
    have hso := serTxOut_ok (hout o hmo).1 (hout o hmo).2.1 (hout o hmo).2.2
    by_cases h2 : isNone ht = true <;> by_cases h3 : isSingle ht = true <;>
      simp [h2, h3, hlt, hgo, hso, ht_none_iff hr, ht_single_iff hr, bind, Except.bind, pure, Except.pure]

/-- the whole witness-v0 branch on an in-range transaction and an existing input -/
theorem bip143_eq (sc : Bytes) (tx : Tx) (i : Nat) (inp : TxIn) (ht : Nat) (amount : Int)
    (hwf : FieldsWF tx) (hi : tx.vin[i]? = some inp) (hsc : sc.length < 2 ^ 64)
    (ha1 : -(2 ^ 63 : Int) ≤ amount) (ha2 : amount < 2 ^ 63)
    {h : Int} (hr : HtRel h ht) (hh : packI 4 h = .ok (leBytes 4 ht)) :
    signatureHashWitnessV0 sc tx i h (some amount)
      = .ok (Crypto.hash256 (bip143Preimage sc tx i inp ht amount)) := by
  have hp := v0HashPrevouts_eq tx ht hr hwf
  have hs := v0HashSequence_eq tx ht hr hwf
  have ho := v0HashOutputs_eq tx i ht hr hwf
  obtain ⟨hv1, hv2, _, _, hin, hout, hlock⟩ := hwf
  have hmem : inp ∈ tx.vin := List.mem_of_getElem? hi
  have hver : packI 4 tx.nVersion = .ok (leBytesInt 4 tx.nVersion) :=
    packI_ok (by simpa using hv1) (by simpa using hv2)
  have hop := serOutPoint_ok (hin inp hmem).1
  have hsq : packU 4 inp.nSequence = .ok (leBytes 4 inp.nSequence) :=
    packU_ok (by have := (hin inp hmem).2; omega)
  have hlk : packU 4 tx.nLockTime = .ok (leBytes 4 tx.nLockTime) := packU_ok (by omega)
  have ham : packI 8 amount = .ok (leBytesInt 8 amount) := packI_ok (by simpa using ha1) (by simpa using ha2)
  have hget : pyGetNat tx.vin i = .ok inp := by simp [pyGetNat, hi]
  unfold signatureHashWitnessV0 bip143Preimage
  generalize Crypto.hash256 = H
  simp only [ hp, hs, ho, hver, hop, hsq, hlk, ham, hh, hget,
    serBytes_ok hsc, bind_ok, pure_ok]




end BtcVerif.SighashProofs
