/-
  C07 — invariants of the interpreter model, continued: the dispatcher, one loop iteration, the
  loop, `_EvalScript` and `EvalScript`.
-/
import BtcVerif.Proofs.ScriptEvalInv4
import Mathlib.Tactic.IntervalCases

namespace BtcVerif.Model.ScriptEval
open BtcVerif BtcVerif.Spec BtcVerif.Spec.Script BtcVerif.Model.Script

theorem named_binary {s : Nat} (h : s ∈ binaryNumOps) : Named s := by
  simp only [binaryNumOps, List.mem_cons, List.mem_nil_iff, or_false] at h
  rcases h with rfl | rfl | rfl | rfl | rfl | rfl | rfl | rfl | rfl | rfl | rfl | rfl | rfl <;> decide

theorem named_unary {s : Nat} (h : s ∈ unaryNumOps) : Named s := by
  simp only [unaryNumOps, List.mem_cons, List.mem_nil_iff, or_false] at h
  rcases h with rfl | rfl | rfl | rfl | rfl | rfl <;> decide

theorem named_disabled {s : Nat} (h : s ∈ disabledOpcodes) : Named s := by
  simp only [disabledOpcodes, List.mem_cons, List.mem_nil_iff, or_false] at h
  rcases h with rfl | rfl | rfl | rfl | rfl | rfl | rfl | rfl | rfl | rfl | rfl | rfl | rfl | rfl | rfl | rfl |
    rfl <;> decide

theorem named_nop {s : Nat} (h1 : 0xb0 ≤ s) (h2 : s ≤ 0xb9) : Named s := by
  interval_cases s <;> decide

theorem hash160_le {h : Hashes} (hh : HashesOK h) (x : Bytes) : (h.hash160 x).length ≤ 520 := (hh _).2.1
theorem hash256_le {h : Hashes} (hh : HashesOK h) (x : Bytes) : (h.hash256 x).length ≤ 520 := (hh _).2.2

section
variable {c : Ctx} {B : Nat} {st : St}

theorem good_ite {p : Prop} [Decidable p] {a b : M St} (ha : p → Good c B a) (hb : ¬p → Good c B b) :
    Good c B (if p then a else b) := by
  split
  · exact ha ‹_›
  · exact hb ‹_›

/-- every arm of the `if / elif` chain keeps the limits -/
theorem execOp_good (fl : Flags) (script : Bytes) (hlen : script.length ≤ MAX_SCRIPT_SIZE) (op : RawOp)
    (fExec : Bool) (h : Pre B st)
    (hB : 520 ≤ B) (hB2 : B < 2 ^ 32) (hh : HashesOK c.env.hashes) :
    Good c B (execOp c fl script op fExec st) := by
  unfold execOp
  dsimp only
  refine good_ite (fun hx => opSmallInt_good h hB (by omega)) (fun _ => ?_)
  refine good_ite (fun hx => binOp_good h (named_binary hx) hx hB hB2) (fun _ => ?_)
  refine good_ite (fun hx => unaryOp_good h (named_unary hx) hx hB hB2) (fun _ => ?_)
  refine good_ite (fun hx => op2Drop_good h (by rw [hx]; decide)) (fun _ => ?_)
  refine good_ite (fun hx => op2Dup_good h (by rw [hx]; decide)) (fun _ => ?_)
  refine good_ite (fun hx => op2Over_good h (by rw [hx]; decide)) (fun _ => ?_)
  refine good_ite (fun hx => op2Rot_good h (by rw [hx]; decide)) (fun _ => ?_)
  refine good_ite (fun hx => op2Swap_good h (by rw [hx]; decide)) (fun _ => ?_)
  refine good_ite (fun hx => op3Dup_good h (by rw [hx]; decide)) (fun _ => ?_)
  refine good_ite (fun hx => checkMultiSig_good fl _ (by simp only [List.length_drop]; omega) h (by rcases hx with hx | hx <;> rw [hx] <;> decide) hB hB2) (fun _ => ?_)
  refine good_ite (fun hx => opCheckSig_good script hlen h (by rcases hx with hx | hx <;> rw [hx] <;> decide) hB hB2) (fun _ => ?_)
  refine good_ite (fun hx => opCodeSeparator_good op h) (fun _ => ?_)
  refine good_ite (fun hx => opDepth_good h hB) (fun _ => ?_)
  refine good_ite (fun hx => opDrop_good h (by rw [hx]; decide)) (fun _ => ?_)
  refine good_ite (fun hx => opDup_good h (by rw [hx]; decide)) (fun _ => ?_)
  refine good_ite (fun hx => opElse_good h) (fun _ => ?_)
  refine good_ite (fun hx => opEndIf_good h) (fun _ => ?_)
  refine good_ite (fun hx => opEqual_good h (by rw [hx]; decide) hB) (fun _ => ?_)
  refine good_ite (fun hx => opEqualVerify_good h (by rw [hx]; decide)) (fun _ => ?_)
  refine good_ite (fun hx => opFromAltStack_good h (by rw [hx]; decide)) (fun _ => ?_)
  refine good_ite (fun hx => hashTop_good _ (hash160_le hh) h (by rw [hx]; decide) hB) (fun _ => ?_)
  refine good_ite (fun hx => hashTop_good _ (hash256_le hh) h (by rw [hx]; decide) hB) (fun _ => ?_)
  refine good_ite (fun hx => opIf_good fExec h (by rcases hx with hx | hx <;> rw [hx] <;> decide)) (fun _ => ?_)
  refine good_ite (fun hx => opIfDup_good h (by rw [hx]; decide)) (fun _ => ?_)
  refine good_ite (fun hx => opNip_good h (by rw [hx]; decide)) (fun _ => ?_)
  refine good_ite (fun hx => ⟨h.lim, h.2.1⟩) (fun _ => ?_)
  refine good_ite (fun hx => opNop_good fl h (named_nop hx.1 hx.2)) (fun _ => ?_)
  refine good_ite (fun hx => opOver_good h (by rw [hx]; decide)) (fun _ => ?_)
  refine good_ite (fun hx => opPickRoll_good h (by rcases hx with hx | hx <;> rw [hx] <;> decide) hB2) (fun _ => ?_)
  refine good_ite (fun hx => good_raise h) (fun _ => ?_)
  refine good_ite (fun hx => hashTop_good _ (fun x => (hh x).2.1) h (by rw [hx]; decide) hB) (fun _ => ?_)
  refine good_ite (fun hx => opRot_good h (by rw [hx]; decide)) (fun _ => ?_)
  refine good_ite (fun hx => opSize_good h (by rw [hx]; decide) hB hB2) (fun _ => ?_)
  refine good_ite (fun hx => hashTop_good _ (fun x => (hh x).1) h (by rw [hx]; decide) hB) (fun _ => ?_)
  refine good_ite (fun hx => hashTop_good _ (fun x => (hh x).2.2) h (by rw [hx]; decide) hB) (fun _ => ?_)
  refine good_ite (fun hx => opSwap_good h (by rw [hx]; decide)) (fun _ => ?_)
  refine good_ite (fun hx => opToAltStack_good h (by rw [hx]; decide)) (fun _ => ?_)
  refine good_ite (fun hx => opTuck_good h (by rw [hx]; decide)) (fun _ => ?_)
  refine good_ite (fun hx => opVerify_good h (by rw [hx]; decide)) (fun _ => ?_)
  refine good_ite (fun hx => opWithin_good h (by rw [hx]; decide) hB hB2) (fun _ => ?_)
  exact good_raise h

/-- outcome of one loop iteration / of the loop: back at the loop-head limits, or an error whose
    captured state is within the limits -/
def StepOK (c : Ctx) (B : Nat) : M St → Prop
  | .ok st' => Pre B st'
  | .error (.eval cap) => Lim B cap.stack cap.altstack cap.nOpCount
  | .error (.invalid cap) => Lim B cap.stack cap.altstack cap.nOpCount
  | .error .verify => False
  | .error (.py cls) => c.Raises cls

/-- `raw_iter` yields data with every push opcode -/
def OpOK (op : RawOp) : Prop := op.opcode ≤ 0x4e → op.data.isSome

theorem dispatch_good (fl : Flags) (script : Bytes) (hlen : script.length ≤ MAX_SCRIPT_SIZE) (op : RawOp)
    (fExec : Bool) (h : Pre B st) (hop : OpOK op)
    (hB : 520 ≤ B) (hB2 : B < 2 ^ 32) (hh : HashesOK c.env.hashes) :
    Good c B (dispatch c fl script op fExec st) := by
  unfold dispatch
  refine good_ite (fun hx => ?_) (fun _ => ?_)
  · cases hd : op.data with
    | none => have := hop hx; simp [hd] at this
    | some d =>
      dsimp only
      refine good_ite (fun _ => good_raise h) (fun hlen => ?_)
      refine good_ite (fun _ => ?_) (fun _ => ⟨h.lim, h.2.1⟩)
      obtain ⟨p1, p2, p3, p4⟩ := h
      simp only [MAX_SCRIPT_ELEMENT_SIZE] at hlen
      refine ⟨⟨by simp only [List.length_cons]; omega, by dsimp only; omega, ?_, p4⟩, p2⟩
      intro x hx
      rcases List.mem_cons.mp hx with rfl | hx
      · omega
      · exact p3 x hx
  · exact good_ite (fun _ => execOp_good fl script hlen op fExec h hB hB2 hh) (fun _ => ⟨h.lim, h.2.1⟩)

theorem step_ok (fl : Flags) (script : Bytes) (hlen : script.length ≤ MAX_SCRIPT_SIZE) (op : RawOp) (h : Pre B st)
    (hop : OpOK op)
    (hB : 520 ≤ B) (hB2 : B < 2 ^ 32) (hh : HashesOK c.env.hashes) :
    StepOK c B (step c fl script op st) := by
  unfold step
  dsimp only
  split_ifs with hdis
  · obtain ⟨nm, hnm⟩ := Option.isSome_iff_exists.mp (named_disabled hdis)
    simp only [raiseNamed, hnm]; exact h.lim
  -- countOp
  have hcount : (∃ st1, countOp op.opcode st = .ok st1 ∧ Pre B st1) ∨
      (∃ cap, countOp op.opcode st = .error (.eval cap) ∧ Lim B cap.stack cap.altstack cap.nOpCount) := by
    unfold countOp
    obtain ⟨p1, p2, p3, p4⟩ := h
    by_cases h1 : op.opcode > 0x60
    · rw [if_pos h1]
      dsimp only
      by_cases h2 : st.nOpCount + 1 > MAX_OPS_PER_SCRIPT
      · rw [if_pos h2]
        right; exact ⟨_, rfl, by simp only [St.cap]; omega, by simp only [St.cap]; omega, p3, p4⟩
      · rw [if_neg h2]
        left; exact ⟨_, rfl, p1, by simp only [MAX_OPS_PER_SCRIPT] at h2; dsimp only; omega, p3, p4⟩
    · rw [if_neg h1]
      left; exact ⟨_, rfl, p1, p2, p3, p4⟩
  rcases hcount with ⟨st1, hc1, hp1⟩ | ⟨cap, hc1, hl1⟩
  · simp only [hc1, bind, Except.bind]
    have hg := dispatch_good (c := c) fl script hlen op (checkExec st.vfExec) hp1 hop hB hB2 hh
    cases hd : dispatch c fl script op (checkExec st.vfExec) st1 with
    | error e =>
      rw [hd] at hg
      cases e <;> exact hg
    | ok st2 =>
      rw [hd] at hg
      obtain ⟨⟨q1, q2, q3, q4⟩, q5⟩ := hg
      dsimp only
      split_ifs with hsz
      · exact ⟨q1, q2, q3, q4⟩
      · exact ⟨by simp only [MAX_STACK_SIZE] at hsz; omega, q5, q3, q4⟩
  · simp only [hc1, bind, Except.bind]; exact hl1

theorem loop_ok (fl : Flags) (script : Bytes) (hlen : script.length ≤ MAX_SCRIPT_SIZE) (tail : Option IterErr)
    (ops : List RawOp)
    (hops : ∀ o ∈ ops, OpOK o) (hB : 520 ≤ B) (hB2 : B < 2 ^ 32) (hh : HashesOK c.env.hashes) :
    ∀ st, Pre B st → StepOK c B (loop c fl script tail ops st) := by
  induction ops with
  | nil =>
    intro st h
    cases tail with
    | none => exact h
    | some e => exact h.lim
  | cons op ops ih =>
    intro st h
    have hs := step_ok (c := c) fl script hlen op h (hops op (by simp)) hB hB2 hh
    simp only [loop, bind, Except.bind]
    cases hd : step c fl script op st with
    | error e => rw [hd] at hs; cases e <;> exact hs
    | ok st' =>
      rw [hd] at hs
      exact ih (fun o ho => hops o (by simp [ho])) st' hs

/-- outcome of `_EvalScript` / `EvalScript` -/
def EvalOK (c : Ctx) (B : Nat) : M (List Bytes) → Prop
  | .ok s => s.length ≤ 1000 ∧ ElemsLe B s
  | .error (.eval cap) => Lim B cap.stack cap.altstack cap.nOpCount
  | .error (.invalid cap) => Lim B cap.stack cap.altstack cap.nOpCount
  | .error .verify => False
  | .error (.py cls) => c.Raises cls

theorem evalScriptRaw_ok (fl : Flags) (stack : List Bytes) (script : Bytes) (hs : stack.length ≤ 1000)
    (he : ElemsLe B stack) (hB : 520 ≤ B) (hB2 : B < 2 ^ 32) (hh : HashesOK c.env.hashes) :
    EvalOK c B (evalScriptRaw c fl stack script) := by
  unfold evalScriptRaw
  split_ifs with hsz
  · exact ⟨by simp; omega, by simp, he, fun x hx => by simp at hx⟩
  · have hpre : Pre B ⟨stack, [], [], 0, 0⟩ := ⟨by simp; omega, by simp, he, fun x hx => by simp at hx⟩
    have hl := loop_ok (c := c) fl script (by omega) (rawIter script).2 (rawIter script).1
      (fun o ho => rawIter_data script o ho) hB hB2 hh _ hpre
    simp only [bind, Except.bind]
    cases hd : loop c fl script (rawIter script).2 (rawIter script).1 ⟨stack, [], [], 0, 0⟩ with
    | error e => rw [hd] at hl; cases e <;> exact hl
    | ok st' =>
      rw [hd] at hl
      obtain ⟨q1, q2, q3, q4⟩ := hl
      dsimp only
      split_ifs with hv
      · exact ⟨by simp; omega, by simp, q3, fun x hx => by simp at hx⟩
      · exact ⟨by omega, q3⟩

/-- `EvalScript` never lets a CScriptInvalidError out -/
theorem evalScript_ok (fl : Flags) (stack : List Bytes) (script : Bytes) (hs : stack.length ≤ 1000)
    (he : ElemsLe B stack) (hB : 520 ≤ B) (hB2 : B < 2 ^ 32) (hh : HashesOK c.env.hashes) :
    EvalOK c B (evalScript c fl stack script) ∧ ∀ cap, evalScript c fl stack script ≠ .error (.invalid cap) := by
  have hr := evalScriptRaw_ok (c := c) fl stack script hs he hB hB2 hh
  unfold evalScript
  cases hd : evalScriptRaw c fl stack script with
  | ok s => rw [hd] at hr; exact ⟨hr, fun cap => by simp⟩
  | error e =>
    rw [hd] at hr
    cases e with
    | eval cap => exact ⟨hr, fun cap => by simp⟩
    | verify => exact ⟨hr, fun cap => by simp⟩
    | py cls => exact ⟨hr, fun cap => by simp⟩
    | invalid cap =>
      obtain ⟨q1, q2, q3, q4⟩ := hr
      exact ⟨⟨by simp; omega, by simp, q3, fun x hx => by simp at hx⟩, fun cap => by simp⟩

end

end BtcVerif.Model.ScriptEval
