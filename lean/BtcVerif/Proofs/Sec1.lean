/-
  SEC 1 §2.3.3/§2.3.4 glue of the reference curve (Crypto/Secp256k1.lean): what `decode` accepts for
  the uncompressed and hybrid forms, and that it inverts `encode` there.  Field arithmetic is not
  unfolded; only the byte-level structure is.
-/
import BtcVerif.Crypto.Secp256k1
import BtcVerif.Proofs.Keys
import Mathlib.Tactic.Ring

namespace BtcVerif
open BtcVerif.Crypto BtcVerif.Crypto.Secp256k1

theorem beNat_replicate_zero_append (k : Nat) (l : Bytes) : beNat (List.replicate k (0 : UInt8) ++ l) = beNat l := by
  induction k with
  | zero => simp
  | succ k ih => rw [List.replicate_succ, List.cons_append, beNat_zero_cons, ih]

theorem beNat_beBytes (w v : Nat) (h : v < 256 ^ w) : beNat (beBytes w v) = v := by
  rw [beBytes_eq w v h, beNat_replicate_zero_append, beNat_beMin]

theorem beBytes_length (w v : Nat) : (beBytes w v).length = w := by simp [beBytes]

theorem be32_length (v : Nat) : (be32 v).length = 32 := beBytes_length 32 v

theorem beNat_be32 (v : Nat) (h : v < 2 ^ 256) : beNat (be32 v) = v :=
  beNat_beBytes 32 v (by simpa using h)

/-- a 32-byte string is the fixed-width form of its value -/
theorem be32_beNat (b : Bytes) (h : b.length = 32) : be32 (beNat b) = b := by
  have hlt : beNat b < 256 ^ 32 := by have := beNat_lt b; rwa [h] at this
  -- both sides have length 32 and the same little-endian value
  have h1 : (be32 (beNat b)).reverse = b.reverse := by
    unfold be32 beBytes
    rw [List.reverse_reverse]
    have hgen : ∀ rev : Bytes, leNat rev = beNat rev.reverse := by
      intro rev
      induction rev with
      | nil => rfl
      | cons x xs ih => rw [List.reverse_cons, beNat_snoc, ← ih]; simp only [leNat]; omega
    have hb : leNat b.reverse = beNat b := by rw [hgen, List.reverse_reverse]
    have := leBytes_leNat b.reverse
    rw [List.length_reverse, h, hb] at this
    exact this
  have := congrArg List.reverse h1
  simpa using this

/-! ### uncompressed and hybrid encodings -/

/-- what `decode` does on a 04/06/07-tagged string, with the coordinates named -/
theorem decode_uncompressed (tag : UInt8) (body : Bytes) (ht : tag.toNat = 4 ∨ tag.toNat = 6 ∨ tag.toNat = 7) :
    decode (tag :: body) =
      if body.length ≠ 64 then none
      else if onCurveXY (beNat (body.take 32)) (beNat (body.drop 32)) = false then none
      else if tag.toNat ≠ 4 ∧ ((beNat (body.drop 32)) % 2 == 1) ≠ (tag.toNat == 7) then none
      else some (.aff (beNat (body.take 32)) (beNat (body.drop 32))) := by
  unfold decode
  rcases ht with h | h | h <;> simp [h]

/-- `decode` inverts the uncompressed encoding of every affine point that satisfies the curve equation -/
theorem decode_encode_uncompressed (x y : Nat) (h : onCurveXY x y = true) :
    decode (encode (.aff x y) false) = some (.aff x y) := by
  have hx : x < 2 ^ 256 := by
    have : x < Secp256k1.p := by simp [onCurveXY] at h; exact h.1.1
    have hp : Secp256k1.p < 2 ^ 256 := by decide +kernel
    omega
  have hy : y < 2 ^ 256 := by
    have : y < Secp256k1.p := by simp [onCurveXY] at h; exact h.1.2
    have hp : Secp256k1.p < 2 ^ 256 := by decide +kernel
    omega
  show decode (4 :: (be32 x ++ be32 y)) = _
  rw [decode_uncompressed 4 _ (Or.inl rfl)]
  have hl : (be32 x ++ be32 y).length = 64 := by simp [be32_length]
  have ht : (be32 x ++ be32 y).take 32 = be32 x := by
    rw [List.take_append_of_le_length (by simp [be32_length])]
    exact List.take_of_length_le (by simp [be32_length])
  have hd : (be32 x ++ be32 y).drop 32 = be32 y := by
    rw [List.drop_append_of_le_length (by simp [be32_length])]
    rw [List.drop_of_length_le (by simp [be32_length])]; rfl
  rw [ht, hd, beNat_be32 x hx, beNat_be32 y hy]
  simp [hl, h]

/-- the strings `decode` accepts under the tags 04/06/07 are exactly: 64 coordinate bytes of a point
    satisfying the curve equation with canonical coordinates, and for the hybrid tags the parity of y
    matching the tag; the result is that point, and the string is its (re-taggable) encoding -/
theorem decode_uncompressed_iff (tag : UInt8) (body : Bytes) (P : Point)
    (ht : tag.toNat = 4 ∨ tag.toNat = 6 ∨ tag.toNat = 7) :
    decode (tag :: body) = some P ↔
      body.length = 64 ∧ P = .aff (beNat (body.take 32)) (beNat (body.drop 32)) ∧
      onCurve P = true ∧ (tag.toNat = 4 ∨ ((beNat (body.drop 32)) % 2 = 1 ↔ tag.toNat = 7)) := by
  rw [decode_uncompressed tag body ht]
  constructor
  · intro h
    by_cases h1 : body.length ≠ 64
    · simp [h1] at h
    · by_cases h2 : onCurveXY (beNat (body.take 32)) (beNat (body.drop 32)) = false
      · simp [h1, h2] at h
      · by_cases h3 : tag.toNat ≠ 4 ∧ ((beNat (body.drop 32)) % 2 == 1) ≠ (tag.toNat == 7)
        · rw [if_neg h1, if_neg h2, if_pos h3] at h; simp at h
        · rw [if_neg h1, if_neg h2, if_neg h3] at h
          simp at h
          subst h
          refine ⟨by omega, rfl, by simpa [onCurve] using h2, ?_⟩
          by_cases h4 : tag.toNat = 4
          · exact Or.inl h4
          · right
            have : ¬ ((beNat (body.drop 32)) % 2 == 1) ≠ (tag.toNat == 7) := fun hh => h3 ⟨h4, hh⟩
            simp at this
            exact this
  · rintro ⟨h1, rfl, h2, h3⟩
    have h2' : onCurveXY (beNat (body.take 32)) (beNat (body.drop 32)) = true := by simpa [onCurve] using h2
    rw [if_neg (by omega), if_neg (by simp [h2'])]
    rw [if_neg]
    rintro ⟨h4, h5⟩
    rcases h3 with h3 | h3
    · exact h4 h3
    · apply h5
      by_cases h6 : tag.toNat = 7
      · have := h3.mpr h6; simp [h6, this]
      · have : ¬ beNat (List.drop 32 body) % 2 = 1 := fun hh => h6 (h3.mp hh)
        have e1 : (beNat (List.drop 32 body) % 2 == 1) = false := by rw [beq_eq_false_iff_ne]; exact this
        have e2 : (tag.toNat == 7) = false := by rw [beq_eq_false_iff_ne]; exact h6
        rw [e1, e2]

/-- a string accepted under 04/06/07 is, after the tag, the fixed-width encoding of the returned point -/
theorem decode_uncompressed_bytes (tag : UInt8) (body : Bytes) (x y : Nat)
    (ht : tag.toNat = 4 ∨ tag.toNat = 6 ∨ tag.toNat = 7) (h : decode (tag :: body) = some (.aff x y)) :
    body = be32 x ++ be32 y := by
  obtain ⟨hl, hP, _, _⟩ := (decode_uncompressed_iff tag body _ ht).mp h
  injection hP with hx hy
  rw [hx, hy, be32_beNat _ (by simp; omega), be32_beNat _ (by simp; omega)]
  simp

/-! ### compressed encodings: soundness of `decode` -/

theorem sq_neg_mod (m y : Nat) (h : y ≤ m) : (m - y) * (m - y) % m = y * y % m := by
  obtain ⟨d, rfl⟩ : ∃ d, m = d + y := ⟨m - y, by omega⟩
  have e : (d + y - y) * (d + y - y) + (d + y) * (2 * y) = y * y + (d + y) * (d + y) := by
    rw [Nat.add_sub_cancel]; ring
  have h1 := congrArg (· % (d + y)) e
  simp only [Nat.add_mul_mod_self_left] at h1
  exact h1

theorem p_odd : Secp256k1.p % 2 = 1 := by decide +kernel

/-- whatever `liftX` returns has the requested abscissa, satisfies the curve equation with canonical
    coordinates, and its ordinate has the requested parity -/
theorem liftX_sound (x : Nat) (odd : Bool) (P : Point) (h : liftX x odd = some P) :
    ∃ y, P = .aff x y ∧ onCurveXY x y = true ∧ ((y % 2 == 1) = odd) := by
  unfold liftX at h
  by_cases hx : x ≥ Secp256k1.p
  · rw [if_pos hx] at h; exact absurd h (by simp)
  · rw [if_neg hx] at h
    simp only at h
    generalize ha : (x * x % Secp256k1.p * x + 7) % Secp256k1.p = a at h
    generalize hy : powMod a ((Secp256k1.p + 1) / 4) Secp256k1.p % Secp256k1.p = y at h
    have hp0 : 0 < Secp256k1.p := by omega
    have hylt : y < Secp256k1.p := by rw [← hy]; exact Nat.mod_lt _ hp0
    by_cases hsq : (y * y % Secp256k1.p != a) = true
    · rw [if_pos hsq] at h; exact absurd h (by simp)
    · rw [if_neg hsq] at h
      have hsq' : y * y % Secp256k1.p = a := by simpa using hsq
      by_cases h0 : (y == 0 && odd) = true
      · rw [if_pos h0] at h; exact absurd h (by simp)
      · rw [if_neg h0] at h
        have hpo := p_odd
        by_cases hpar : ((y % 2 == 1) == odd) = true
        · rw [if_pos hpar] at h
          injection h with h; subst h
          refine ⟨y, rfl, ?_, by simpa using hpar⟩
          simp only [onCurveXY, ha, hsq', Bool.and_eq_true, decide_eq_true_eq, beq_self_eq_true, and_true]
          exact ⟨by omega, hylt⟩
        · rw [if_neg hpar] at h
          injection h with h; subst h
          have hy0 : y ≠ 0 := by
            intro hz; subst hz
            cases odd <;> simp at hpar h0
          refine ⟨Secp256k1.p - y, rfl, ?_, ?_⟩
          · simp only [onCurveXY, ha, Bool.and_eq_true, decide_eq_true_eq]
            refine ⟨⟨by omega, by omega⟩, ?_⟩
            rw [sq_neg_mod _ _ (by omega), hsq']; simp
          · have hflip : ((Secp256k1.p - y) % 2 == 1) = !(y % 2 == 1) := by
              rcases Nat.mod_two_eq_zero_or_one y with e | e
              · have : (Secp256k1.p - y) % 2 = 1 := by omega
                simp [e, this]
              · have : (Secp256k1.p - y) % 2 = 0 := by omega
                simp [e, this]
            rw [hflip]
            cases odd <;> cases hb : (y % 2 == 1) <;> simp [hb] at hpar ⊢

/-- `decode` on a 02/03-tagged string: 32 abscissa bytes, and the result is a point with that abscissa
    that satisfies the curve equation and whose ordinate parity is the tag's -/
theorem decode_compressed_sound (tag : UInt8) (body : Bytes) (P : Point) (ht : tag.toNat = 2 ∨ tag.toNat = 3)
    (h : decode (tag :: body) = some P) :
    body.length = 32 ∧ ∃ y, P = .aff (beNat body) y ∧ onCurve P = true ∧ (y % 2 = 1 ↔ tag.toNat = 3) := by
  unfold decode at h
  have h23 : (tag.toNat == 2 || tag.toNat == 3) = true := by rcases ht with e | e <;> simp [e]
  simp only [h23, if_true] at h
  by_cases hl : (body.length != 32) = true
  · rw [if_pos hl] at h; exact absurd h (by simp)
  · rw [if_neg hl] at h
    obtain ⟨y, hP, hc, hpar⟩ := liftX_sound _ _ _ h
    refine ⟨by simpa using hl, y, hP, by rw [hP]; exact hc, ?_⟩
    rcases ht with e | e
    · simp [e] at hpar ⊢; omega
    · simp [e] at hpar ⊢; exact hpar

/-- every string `decode` accepts re-encodes to itself (compressed form for 02/03, and for 04 the
    uncompressed form): the accepted strings are encodings of curve points -/
theorem encode_decode_compressed (tag : UInt8) (body : Bytes) (P : Point) (ht : tag.toNat = 2 ∨ tag.toNat = 3)
    (h : decode (tag :: body) = some P) : encode P true = tag :: body := by
  obtain ⟨hl, y, hP, _, hpar⟩ := decode_compressed_sound tag body P ht h
  subst hP
  show (if y % 2 == 1 then (3 : UInt8) else 2) :: be32 (beNat body) = tag :: body
  rw [be32_beNat body hl]
  congr 1
  rcases ht with e | e
  · have hne : ¬ y % 2 = 1 := fun hh => by have := hpar.mp hh; omega
    have : tag = 2 := by have := ofNat_toNat tag; rw [e] at this; exact this.symm
    simp [hne, this]
  · have hy : y % 2 = 1 := hpar.mpr e
    have : tag = 3 := by have := ofNat_toNat tag; rw [e] at this; exact this.symm
    simp [hy, this]

end BtcVerif
