/-
  C07 — invariants of the interpreter model, continued: OP_CHECKMULTISIG(VERIFY).
-/
import BtcVerif.Proofs.ScriptEvalInv3

namespace BtcVerif.Model.ScriptEval
open BtcVerif BtcVerif.Spec BtcVerif.Spec.Script BtcVerif.Model.Script

/-- the signature-dropping loop: a script, or the CScriptInvalidError of a `raw_iter` -/
theorem msDropSigs_cases (st : St) (isig : Int) (n k : Nat) (script : Bytes)
    (hel : ∀ x ∈ st.stack, x.length < 2 ^ 32) (hlen : script.length ≤ MAX_SCRIPT_SIZE)
    (hidx : ∀ j : Nat, k ≤ j → j < k + n → 1 ≤ isig + j ∧ isig + j ≤ st.stack.length) :
    (∃ r, msDropSigs st isig n k script = .ok r ∧ r.length ≤ MAX_SCRIPT_SIZE) ∨
    msDropSigs st isig n k script = .error (.invalid st.cap) := by
  induction n generalizing k script with
  | zero => left; exact ⟨script, rfl, hlen⟩
  | succ n ih =>
    obtain ⟨h1, h2⟩ := hidx k (Nat.le_refl _) (by omega)
    obtain ⟨x, hx, hxm, _⟩ := getTop?_pos st.stack (isig + k) h1 h2
    have he := encodeOpPushdata_eq x (hel x hxm)
    have hpat := pushEnc_pat x (hel x hxm)
    simp only [msDropSigs, hx, pyIdx, he, bind, Except.bind]
    rcases findAndDelete_cases st.cap script (Ref.pushEnc x) with ⟨r, hf⟩ | hf
    · simp only [hf]
      have hrl : r.length ≤ MAX_SCRIPT_SIZE := by have := findAndDelete_length_le hpat hf; omega
      exact ih (k + 1) r hrl (fun j hj1 hj2 => hidx j (by omega) (by omega))
    · right; simp only [hf]

/-- outcome of the signature/key matching loop -/
def MsOut (c : Ctx) (st : St) (sop : Nat) (r : M Bool) : Prop :=
  (∃ b, r = .ok b) ∨ r = raiseNamed sop st ∨ r = .error (.invalid st.cap) ∨
    (∃ cls, r = .error (.py cls) ∧ c.Raises cls)

theorem msLoop_cases (c : Ctx) (sop : Nat) (script : Bytes) (hlen : script.length ≤ MAX_SCRIPT_SIZE) (st : St)
    (m : Nat) :
    ∀ (isig sigs ikey keys : Int), keys.toNat = m → 1 ≤ sigs → sigs ≤ keys → 1 ≤ isig → 1 ≤ ikey →
      isig + sigs ≤ st.stack.length + 1 → ikey + keys ≤ st.stack.length + 1 →
      MsOut c st sop (msLoop c sop script st isig sigs ikey keys) := by
  induction m using Nat.strongRecOn with
  | _ m ih =>
    intro isig sigs ikey keys hm hs1 hs2 hi1 hk1 hi2 hk2
    obtain ⟨sig, hsig, _, _⟩ := getTop?_pos st.stack isig hi1 (by omega)
    obtain ⟨pk, hpk, _, _⟩ := getTop?_pos st.stack ikey hk1 (by omega)
    rw [msLoop]
    simp only [hsig, hpk, pyIdx, bind, Except.bind]
    rcases checkSig_cases c st.cap sig pk script hlen with ⟨ok, hk⟩ | hk | ⟨cls, hk, hneg⟩
    · simp only [hk]
      cases ok
      · simp only [Bool.false_eq_true, if_false]
        split_ifs with h1 h2 h3
        · right; left; rfl
        · left; exact ⟨_, rfl⟩
        · exact ih (keys - 1).toNat (by omega) _ _ _ _ rfl h3 (by omega) (by omega) (by omega) (by omega)
            (by omega)
        · left; exact ⟨_, rfl⟩
      · simp only [if_true]
        split_ifs with h1 h2 h3
        · right; left; rfl
        · left; exact ⟨_, rfl⟩
        · exact ih (keys - 1).toNat (by omega) _ _ _ _ rfl h3 (by omega) (by omega) (by omega) (by omega)
            (by omega)
        · left; exact ⟨_, rfl⟩
    · right; right; left; simp only [hk]
    · right; right; right; simp only [hk]; exact ⟨cls, rfl, hneg⟩

section arms
variable {c : Ctx} {B : Nat} {st : St} {sop : Nat}

/-- the part of `_CheckMultiSig` after the matching loop: pops, NULLDUMMY check, result push -/
theorem msTail_good (fl : Flags) (success : Bool) (s al : List Bytes) (vf : List Bool) (pb n' m : Nat)
    (hm : m < s.length) (hl2 : Lim B s al n') (hn2 : n' ≤ 201) (hn : Named sop) (hB : 520 ≤ B) :
    Good c B (do
      let stack ← popN m s
      let st : St := ⟨stack, al, vf, pb, n'⟩
      nullDummyCheck fl sop st
      let (_, stack) ← pyIdx (pop? stack)
      let st : St := { st with stack := stack }
      if sop = 0xae then
        .ok { st with stack := (if success then [1] else []) :: stack }
      else .ok st) := by
  obtain ⟨nm, hnm⟩ := Option.isSome_iff_exists.mp hn
  rw [popN_eq m s (by omega)]
  obtain ⟨q1, q2, q3, q4⟩ := hl2
  cases hd : s.drop m with
  | nil =>
    have : (s.drop m).length = 0 := by rw [hd]; rfl
    simp only [List.length_drop] at this; omega
  | cons d rest =>
    have hlen : (d :: rest).length = s.length - m := by rw [← hd]; simp
    simp only [List.length_cons] at hlen
    have hsub : ∀ x ∈ d :: rest, x.length ≤ B := fun x hx => q3 x (List.mem_of_mem_drop (by rw [hd]; exact hx))
    have hrest : ∀ x ∈ rest, x.length ≤ B := fun x hx => hsub x (by simp [hx])
    simp only [bind, Except.bind, nullDummyCheck, getTop?_1, pyIdx, pop?_cons, List.length_cons]
    by_cases hnd : (rest.length + 1 ≠ 0 ∧ fl.nullDummy = true)
    · rw [if_pos hnd]
      by_cases hde : d ≠ []
      · simp only [hde, if_true, ne_eq, not_false_eq_true, raiseNamed, hnm, Good, St.cap, Lim, ElemsLe,
          List.length_cons]
        exact ⟨by omega, q2, hsub, q4⟩
      · simp only [hde, if_false]
        by_cases hae : sop = 0xae
        · simp only [hae, if_true, Good, Lim, ElemsLe, List.length_cons]
          refine ⟨⟨by omega, q2, ?_, q4⟩, hn2⟩
          intro x hx
          rcases List.mem_cons.mp hx with rfl | hx
          · cases success <;> simp <;> omega
          · exact hrest x hx
        · simp only [hae, if_false, Good, Lim, ElemsLe]
          exact ⟨⟨by omega, q2, hrest, q4⟩, hn2⟩
    · rw [if_neg hnd]
      by_cases hae : sop = 0xae
      · simp only [hae, if_true, Good, Lim, ElemsLe, List.length_cons]
        refine ⟨⟨by omega, q2, ?_, q4⟩, hn2⟩
        intro x hx
        rcases List.mem_cons.mp hx with rfl | hx
        · cases success <;> simp <;> omega
        · exact hrest x hx
      · simp only [hae, if_false, Good, Lim, ElemsLe]
        exact ⟨⟨by omega, q2, hrest, q4⟩, hn2⟩

theorem checkMultiSig_good (fl : Flags) (script : Bytes) (hsl : script.length ≤ MAX_SCRIPT_SIZE) (h : Pre B st) (hn : Named sop) (hB : 520 ≤ B)
    (hB2 : B < 2 ^ 32) : Good c B (checkMultiSig c fl sop script st) := by
  unfold checkMultiSig
  obtain ⟨nm, hnm⟩ := Option.isSome_iff_exists.mp hn
  obtain ⟨s, al, vf, pb, n⟩ := st
  have hl := h.lim
  obtain ⟨p1, p2, p3, p4⟩ := h
  dsimp only at p1 p2 p3 p4 hl ⊢
  by_cases h0 : s.length < 1
  · rw [if_pos h0]; simp only [raiseNamed, hnm]; exact hl
  rw [if_neg h0]
  obtain ⟨kv, hkv, hkm, _⟩ := getTop?_pos s 1 (by omega) (by omega)
  simp only [hkv, pyIdx, bind, Except.bind]
  rcases castToBigNum_spec kv ⟨s, al, vf, pb, n⟩ (by have := p3 kv hkm; omega) with hc | ⟨keys, hc, _, _⟩
  · simp only [hc]; exact hl
  simp only [hc]
  by_cases hk : keys < 0 ∨ keys > 20
  · rw [if_pos hk]; simp only [raiseNamed, hnm]; exact hl
  rw [if_neg hk]
  by_cases hop : n + keys.toNat > MAX_OPS_PER_SCRIPT
  · rw [if_pos hop]; simp only [raise, St.cap, Good]; exact ⟨by omega, by omega, p3, p4⟩
  rw [if_neg hop]
  have hn2 : n + keys.toNat ≤ 201 := by simp only [MAX_OPS_PER_SCRIPT] at hop; omega
  have hl2 : Lim B s al (n + keys.toNat) := ⟨by omega, by omega, p3, p4⟩
  by_cases hlen : (s.length : Int) < 2 + keys
  · rw [if_pos hlen]; simp only [raiseNamed, hnm]; exact hl2
  rw [if_neg hlen]
  obtain ⟨sv, hsv, hsm, _⟩ := getTop?_pos s (2 + keys) (by omega) (by omega)
  simp only [hsv]
  rcases castToBigNum_spec sv ⟨s, al, vf, pb, n + keys.toNat⟩ (by have := p3 sv hsm; omega) with
    hd | ⟨sigs, hd, _, _⟩
  · simp only [hd]; exact hl2
  simp only [hd]
  by_cases hsr : sigs < 0 ∨ sigs > keys
  · rw [if_pos hsr]; simp only [raiseNamed, hnm]; exact hl2
  rw [if_neg hsr]
  by_cases hl1 : (s.length : Int) < 2 + keys + 1 + sigs - 1
  · rw [if_pos hl1]; simp only [raiseNamed, hnm]; exact hl2
  rw [if_neg hl1]
  by_cases hl3 : (s.length : Int) < 2 + keys + 1 + sigs
  · rw [if_pos hl3]; simp only [raiseNamed, hnm]; exact hl2
  rw [if_neg hl3]
  have hel : ∀ x ∈ (⟨s, al, vf, pb, n + keys.toNat⟩ : St).stack, x.length < 2 ^ 32 := by
    intro x hx; have := p3 x hx; omega
  rcases msDropSigs_cases ⟨s, al, vf, pb, n + keys.toNat⟩ (2 + keys + 1) sigs.toNat 0 script hel hsl
      (by intro j _ hj; dsimp only; omega) with ⟨sc, hds, hscl⟩ | hds
  · simp only [hds]
    have hm : (2 + keys + 1 + sigs - 1).toNat < s.length := by omega
    by_cases hpos : sigs > 0
    · rw [if_pos hpos]
      rcases msLoop_cases c sop sc hscl ⟨s, al, vf, pb, n + keys.toNat⟩ keys.toNat (2 + keys + 1) sigs 2 keys rfl
          (by omega) (by omega) (by omega) (by omega) (by dsimp only; omega) (by dsimp only; omega) with
        ⟨b, hb⟩ | hb | hb | ⟨cls, hb, hneg⟩
      · simp only [hb]
        have := msTail_good (c := c) (sop := sop) fl b s al vf pb (n + keys.toNat) _ hm hl2 hn2 hn hB
        simpa only [bind, Except.bind, pyIdx] using this
      · simp only [hb, raiseNamed, hnm]; exact hl2
      · simp only [hb]; exact hl2
      · simp only [hb]; exact hneg
    · rw [if_neg hpos]
      have := msTail_good (c := c) (sop := sop) fl true s al vf pb (n + keys.toNat) _ hm hl2 hn2 hn hB
      simpa only [bind, Except.bind, pyIdx] using this
  · simp only [hds]; exact hl2

end arms

end BtcVerif.Model.ScriptEval
