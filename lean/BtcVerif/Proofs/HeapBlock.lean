/-
  C09 helper lemmas, part 21 (for `CBlock.__init__`): depth of well-typed trees and lowering of the
  fuel; the cache fills of `build_witness_merkle_tree_from_txs`.
-/
import BtcVerif.Proofs.HeapSig3

namespace BtcVerif.Model.Heap
open BtcVerif BtcVerif.Spec.ValueSem

mutual
def depth : ATree → Nat
  | .node _ _ _ kids => 1 + depthL kids
def depthL : List ATree → Nat
  | [] => 0
  | t :: ts => max (depth t) (depthL ts)
end

theorem depth_le_depthL : ∀ {ts : List ATree} {t : ATree}, t ∈ ts → depth t ≤ depthL ts
  | t0 :: ts, t, h => by
    simp only [List.mem_cons] at h
    simp only [depthL]
    rcases h with rfl | h
    · exact Nat.le_max_left _ _
    · exact Nat.le_trans (depth_le_depthL h) (Nat.le_max_right _ _)

/-- fuel beyond the depth of the result is not needed -/
theorem unfoldA_lower {h : Heap} : ∀ (g : Nat) {f : Nat} {a : Addr} {t : ATree},
    unfoldA f h a = some t → depth t ≤ g → unfoldA g h a = some t
  | 0, f, a, t, _, hd => by cases t with | node a m sc kids => simp [depth] at hd
  | g + 1, 0, a, t, hu, _ => by simp [unfoldA] at hu
  | g + 1, f + 1, a, t, hu, hd => by
    obtain ⟨o, kids, ho, hk, rfl⟩ := unfoldA_succ hu
    simp only [depth] at hd
    refine unfoldA_mk ho ?_
    have hk2 := hk
    apply mapO_congr_some _ hk
    intro c hc b hb
    obtain ⟨b', hb', hcb⟩ := mapO_mem' hk2 hc
    rw [hb] at hcb; cases hcb
    have := depth_le_depthL hb'
    exact unfoldA_lower g hb (by omega)

def vdepth : Val → Nat
  | .outpoint _ => 1 | .txin _ => 2 | .txout _ => 1 | .inwit _ => 1 | .stacks _ => 2 | .wit _ => 3
  | .ins _ => 3 | .outs _ => 2 | .tx _ => 4 | .txs _ => 5 | .block _ => 6 | .header _ => 1

theorem assemble_vdepth {sc : Scalars} {vs : List Val} {v : Val} (h : assemble sc vs = some v) :
    ∀ w ∈ vs, vdepth w < vdepth v := by
  cases sc with
  | outpoint hh n => cases vs <;> simp [assemble] at h; simp
  | txin s q =>
    match vs, h with
    | [.outpoint o], h => simp [assemble] at h; subst h; simp [vdepth]
  | txout x s => cases vs <;> simp [assemble] at h; simp
  | seq k =>
    cases k with
    | ins =>
      simp only [assemble, Option.map_eq_some_iff] at h
      obtain ⟨l, hl, rfl⟩ := h
      rw [mapO_asTxIn hl]; intro w hw
      obtain ⟨i, _, rfl⟩ := List.mem_map.mp hw; simp [vdepth]
    | outs =>
      simp only [assemble, Option.map_eq_some_iff] at h
      obtain ⟨l, hl, rfl⟩ := h
      rw [mapO_asTxOut hl]; intro w hw
      obtain ⟨i, _, rfl⟩ := List.mem_map.mp hw; simp [vdepth]
    | stacks =>
      simp only [assemble, Option.map_eq_some_iff] at h
      obtain ⟨l, hl, rfl⟩ := h
      rw [mapO_asStack hl]; intro w hw
      obtain ⟨i, _, rfl⟩ := List.mem_map.mp hw; simp [vdepth]
    | txs =>
      simp only [assemble, Option.map_eq_some_iff] at h
      obtain ⟨l, hl, rfl⟩ := h
      rw [mapO_asTx hl]; intro w hw
      obtain ⟨i, _, rfl⟩ := List.mem_map.mp hw; simp [vdepth]
  | inwit st => cases vs <;> simp [assemble] at h; simp
  | wit =>
    match vs, h with
    | [.stacks w], h => simp [assemble] at h; subst h; simp [vdepth]
  | tx ver lock =>
    match vs, h with
    | [.ins vin, .outs vout, .wit w], h => simp [assemble] at h; subst h; simp [vdepth]
  | header hd => cases vs <;> simp [assemble] at h; simp
  | block hd =>
    match vs, h with
    | [.txs l], h => simp [assemble] at h; subst h; simp [vdepth]

mutual
theorem decode_depth : ∀ (t : ATree) (v : Val), decode t = some v → depth t ≤ vdepth v
  | .node a m sc kids, v, h => by
    obtain ⟨vs, hvs, hasm⟩ := decode_inv h
    have hlt := assemble_vdepth hasm
    have := decodeL_depth kids vs hvs (vdepth v - 1) (fun w hw => by have := hlt w hw; omega)
    simp only [depth]
    have hpos : 1 ≤ vdepth v := by cases v <;> simp [vdepth]
    omega
theorem decodeL_depth : ∀ (ts : List ATree) (vs : List Val), mapO decode ts = some vs →
    ∀ b, (∀ w ∈ vs, vdepth w ≤ b) → depthL ts ≤ b
  | [], _, _, b, _ => by simp [depthL]
  | t :: ts, vs, h, b, hb => by
    simp only [mapO] at h
    cases hd : decode t with
    | none => simp [hd] at h
    | some v =>
      simp only [hd] at h
      cases hm : mapO decode ts with
      | none => simp [hm] at h
      | some vs' =>
        simp only [hm, Option.some.injEq] at h
        subst h
        have h1 := decode_depth t v hd
        have h2 := decodeL_depth ts vs' hm b (fun w hw => hb w (by simp [hw]))
        have h3 := hb v (by simp)
        simp only [depthL]
        omega
end

/-! ### states that differ by cache fills only -/

theorem inv_unbind {s : St} {h : Heap} (hi : Inv (s.bind h none)) : Inv { s with heap := h } := by
  refine ⟨hi.immClosed, hi.kindOK, hi.cacheOK, ?_, ?_, hi.defaults⟩
  · intro y
    have := hi.sep y
    simp only [Sep, St.bind] at this
    rw [total_snoc] at this
    simpa [nameCnt] using this
  · intro r a hr
    apply hi.roots r a
    rw [root_bind]
    have hlt : r < s.names.length := root_lt (s := { s with heap := h }) hr
    rw [if_pos hlt]; exact hr

theorem getHashAt_cases {h h' : Heap} {x : Addr} {r : BtcVerif.Res Bytes} (hg : getHashAt h x = some (h', r)) :
    h' = h ∨ ∃ (o : Obj) (c : Bytes) (v : Val), h[x]? = some o ∧ o.isMut = false ∧ absVal h x = some v ∧
      identOf v = .ok c ∧ h' = h.set x { o with cHash := some c } := by
  simp only [getHashAt, Option.bind_eq_bind] at hg
  cases ho : h[x]? with
  | none => simp [ho] at hg
  | some o =>
    cases hv : absVal h x with
    | none => simp [ho, hv] at hg
    | some v =>
      simp only [ho, hv, Option.bind_some] at hg
      by_cases hm : o.isMut = true
      · simp only [hm, if_true, pure, Option.some.injEq, Prod.mk.injEq] at hg
        exact Or.inl hg.1.symm
      · have hm' : o.isMut = false := by simpa using hm
        simp only [hm', Bool.false_eq_true, if_false] at hg
        cases hc : o.cHash with
        | some c =>
          simp only [hc, pure, Option.some.injEq, Prod.mk.injEq] at hg
          exact Or.inl hg.1.symm
        | none =>
          simp only [hc] at hg
          cases hid : identOf v with
          | error err =>
            simp only [hid, pure, Option.some.injEq, Prod.mk.injEq] at hg
            exact Or.inl hg.1.symm
          | ok c =>
            simp only [hid, pure, Option.some.injEq, Prod.mk.injEq] at hg
            have hobj : ({ o with cHash := some c } : Obj) =
                { isMut := false, sc := o.sc, refs := o.refs, cHash := some c, cPy := o.cPy } := by
              rw [← hm']
            exact Or.inr ⟨o, c, v, rfl, hm', rfl, hid, by rw [hobj]; exact hg.1.symm⟩

/-- what `fillHashes` keeps -/
structure SameUpToCache (s : St) (h' : Heap) : Prop where
  inv : Inv { s with heap := h' }
  unf : ∀ (b : Addr) (t : ATree), unfoldA D s.heap b = some t → unfoldA D h' b = some t
  obj : ∀ (b : Addr) (o : Obj), s.heap[b]? = some o → ∃ o' : Obj, h'[b]? = some o' ∧ o'.isMut = o.isMut

theorem fillHashes_ok {s : St} (hinv : Inv s) : ∀ (addrs : List Addr), SameUpToCache s (fillHashes s.heap addrs) := by
  have key : ∀ (addrs : List Addr) (h : Heap), SameUpToCache s h → SameUpToCache s (fillHashes h addrs) := by
    intro addrs
    induction addrs with
    | nil => intro h hs; exact hs
    | cons a as ih =>
      intro h hs
      simp only [fillHashes]
      cases hg : getHashAt h a with
      | none => exact ih h hs
      | some pr =>
        obtain ⟨h', r⟩ := pr
        apply ih
        rcases getHashAt_cases hg with rfl | ⟨o, c, v, ho, hm, hv, hid, rfl⟩
        · exact hs
        · have hcache := hs.inv.cacheOK a o ho hm
          have hi := inv_set_same (s := { s with heap := h }) hs.inv (o' := { o with cHash := some c }) ho rfl rfl rfl
            (fun _ => ⟨fun c' hc' => by
              simp only [Option.some.injEq] at hc'; subst hc'; exact ⟨v, hv, hid⟩, fun c' hc' => hcache.2 c' hc'⟩)
          refine ⟨inv_unbind hi, ?_, ?_⟩
          · intro b t hu
            exact unfoldA_set_same (o' := { o with cHash := some c }) ho rfl rfl rfl (hs.unf b t hu)
          · intro b ob hob
            obtain ⟨o', ho', hm'⟩ := hs.obj b ob hob
            by_cases hba : b = a
            · subst hba
              rw [ho] at ho'; cases ho'
              exact ⟨{ o with cHash := some c },
                by simp [List.getElem?_set_self (List.getElem?_eq_some_iff.mp ho).1], hm'⟩
            · exact ⟨o', by rw [List.getElem?_set_ne (fun e => hba e.symm)]; exact ho', hm'⟩
  intro addrs
  exact key addrs s.heap ⟨hinv, fun _ _ h => h, fun b o h => ⟨o, h, rfl⟩⟩

end BtcVerif.Model.Heap
