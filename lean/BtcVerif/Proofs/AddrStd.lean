/-
  C12 — helper lemmas, part 2: the converters on the four standard scripts.
-/
import BtcVerif.Proofs.Addr

namespace BtcVerif.AddrProofs
open BtcVerif BtcVerif.Spec
open BtcVerif.Spec.Addr (AddrClass Addr ValidFor stdScript prescribedAddr prescribedVer)
open BtcVerif.Model.Addr
open BtcVerif.Model.Script (rawStep rawIterFrom rawIter RawOp Step)

/-! ### tokenising a standard P2PKH script -/

theorem rawIterFrom_nil (idx : Nat) : rawIterFrom idx [] = ([], none) := by
  rw [rawIterFrom]; split <;> simp_all [rawStep]

theorem rawIterFrom_op {idx : Nat} {s rest : Bytes} {o : RawOp} (h : rawStep idx s = some (.op o rest)) :
    rawIterFrom idx s =
      (o :: (rawIterFrom (idx + (s.length - rest.length)) rest).1,
       (rawIterFrom (idx + (s.length - rest.length)) rest).2) := by
  rw [rawIterFrom]
  split
  · simp_all
  · simp_all
  · rename_i o' rest' h'
    rw [h] at h'
    simp only [Option.some.injEq, Step.op.injEq] at h'
    obtain ⟨rfl, rfl⟩ := h'
    rfl

theorem rawStep_plain (idx : Nat) (b : UInt8) (rest : Bytes) (h : b.toNat > 0x4e) :
    rawStep idx (b :: rest) = some (.op ⟨b.toNat, none, idx⟩ rest) := by
  simp [rawStep, h]

theorem rawStep_push20 (idx : Nat) (d rest : Bytes) (h : d.length = 20) :
    rawStep idx (0x14 :: (d ++ rest)) = some (.op ⟨0x14, some d, idx⟩ rest) := by
  have h1 : List.take 20 (d ++ rest) = d := by rw [← h]; exact List.take_left'  rfl
  have h2 : List.drop 20 (d ++ rest) = rest := by rw [← h]; exact List.drop_left' rfl
  simp [rawStep, h1, h2, h]

theorem canonicalize_p2pkh (payload : Bytes) (h : payload.length = 20) :
    canonicalize (stdScript .p2pkh payload) = .ok (stdScript .p2pkh payload) := by
  unfold canonicalize rawIter
  have e : stdScript .p2pkh payload = 0x76 :: 0xa9 :: 0x14 :: (payload ++ [0x88, 0xac]) := by
    simp [stdScript]
  rw [e]
  rw [rawIterFrom_op (rawStep_plain _ 0x76 _ (by decide))]
  rw [rawIterFrom_op (rawStep_plain _ 0xa9 _ (by decide))]
  rw [rawIterFrom_op (rawStep_push20 _ payload _ h)]
  rw [rawIterFrom_op (rawStep_plain _ 0x88 _ (by decide))]
  rw [rawIterFrom_op (rawStep_plain _ 0xac _ (by decide))]
  rw [rawIterFrom_nil]
  simp [recodeOp, pushEnc, h, List.mapM_cons, List.mapM_nil, Except.map, bind, Except.bind, pure, Except.pure]

/-! ### from_scriptPubKey on the standard scripts -/

theorem orElse_addrerr (b : Unit → Res Addr) : orElse (.error .addrerr) b = b () := rfl
theorem orElse_ok (a : Addr) (b : Unit → Res Addr) : orElse (.ok a) b = .ok a := rfl

theorem bytesOfInts_toNat (b : Bytes) : bytesOfInts (b.map UInt8.toNat) = .ok b := by
  have h : ∀ x ∈ b.map UInt8.toNat, x < 256 := by
    intro x hx
    obtain ⟨y, _, rfl⟩ := List.mem_map.1 hx
    exact y.toNat_lt
  rw [bytesOfInts_ok _ h, map_toNat_ofNat]

theorem bech32FromBytes_20 (b : Bytes) (h : b.length = 20) :
    bech32FromBytes 0 (b.map UInt8.toNat) = .ok ⟨.p2wpkh, 0, b⟩ := by
  simp [bech32FromBytes, bytesOfInts_toNat, h]

theorem bech32FromBytes_32 (b : Bytes) (h : b.length = 32) :
    bech32FromBytes 0 (b.map UInt8.toNat) = .ok ⟨.p2wsh, 0, b⟩ := by
  simp [bech32FromBytes, bytesOfInts_toNat, h]

theorem toNat_ofNat_lt {n : Nat} (h : n < 256) : (UInt8.ofNat n).toNat = n := by
  simp [UInt8.toNat_ofNat', Nat.mod_eq_of_lt h]

theorem base58FromBytes_script (chain : ChainParams) (data : Bytes) (hv : chain.scriptAddr < 256) :
    base58FromBytes chain data (chain.scriptAddr : Int) = .ok ⟨.p2sh, chain.scriptAddr, data⟩ := by
  have h1 : (chain.scriptAddr : Int) ≤ 255 := by omega
  simp [base58FromBytes, Model.Base58.fromBytes, classify, h1, toNat_ofNat_lt hv]

theorem base58FromBytes_pubkey (chain : ChainParams) (data : Bytes) (hv : chain.pubkeyAddr < 256)
    (hne : chain.pubkeyAddr ≠ chain.scriptAddr) :
    base58FromBytes chain data (chain.pubkeyAddr : Int) = .ok ⟨.p2pkh, chain.pubkeyAddr, data⟩ := by
  have h1 : (chain.pubkeyAddr : Int) ≤ 255 := by omega
  simp [base58FromBytes, Model.Base58.fromBytes, classify, h1, toNat_ofNat_lt hv, hne]

theorem fromScript_p2wsh (H160 : Bytes → Bytes) (chain : ChainParams) (payload : Bytes)
    (h : payload.length = 32) :
    fromScript H160 chain (stdScript .p2wsh payload) = .ok ⟨.p2wsh, 0, payload⟩ := by
  have e : stdScript .p2wsh payload = 0x00 :: 0x20 :: payload := by simp [stdScript]
  have hw : p2wshFromScript (0x00 :: 0x20 :: payload) = .ok ⟨.p2wsh, 0, payload⟩ := by
    have hs : slice (0x00 :: 0x20 :: payload) 2 34 = payload := by
      simp [slice, List.take_of_length_le, h]
    simp only [p2wshFromScript, isWitnessV0Scripthash, List.length_cons, h, hs]
    simp [slice, bech32FromBytes_32 payload h]
  rw [e]
  simp only [fromScript, hw, orElse_ok]

theorem fromScript_p2wpkh (H160 : Bytes → Bytes) (chain : ChainParams) (payload : Bytes)
    (h : payload.length = 20) :
    fromScript H160 chain (stdScript .p2wpkh payload) = .ok ⟨.p2wpkh, 0, payload⟩ := by
  have e : stdScript .p2wpkh payload = 0x00 :: 0x14 :: payload := by simp [stdScript]
  have hw1 : p2wshFromScript (0x00 :: 0x14 :: payload) = .error .addrerr := by
    simp [p2wshFromScript, isWitnessV0Scripthash, h]
  have hw : p2wpkhFromScript (0x00 :: 0x14 :: payload) = .ok ⟨.p2wpkh, 0, payload⟩ := by
    have hs : slice (0x00 :: 0x14 :: payload) 2 22 = payload := by
      simp [slice, List.take_of_length_le, h]
    simp only [p2wpkhFromScript, isWitnessV0Keyhash, List.length_cons, h, hs]
    simp [slice, bech32FromBytes_20 payload h]
  rw [e]
  simp only [fromScript, hw1, hw, orElse_ok, orElse_addrerr]

theorem fromScript_p2sh (H160 : Bytes → Bytes) (chain : ChainParams) (payload : Bytes)
    (h : payload.length = 20) (hv : chain.scriptAddr < 256) :
    fromScript H160 chain (stdScript .p2sh payload) = .ok ⟨.p2sh, chain.scriptAddr, payload⟩ := by
  have e : stdScript .p2sh payload = 0xa9 :: 0x14 :: (payload ++ [0x87]) := by simp [stdScript]
  have hw1 : p2wshFromScript (0xa9 :: 0x14 :: (payload ++ [0x87])) = .error .addrerr := by
    simp [p2wshFromScript, isWitnessV0Scripthash, h]
  have hw2 : p2wpkhFromScript (0xa9 :: 0x14 :: (payload ++ [0x87])) = .error .addrerr := by
    simp [p2wpkhFromScript, isWitnessV0Keyhash, h]
  have hs : slice (0xa9 :: 0x14 :: (payload ++ [0x87])) 2 22 = payload := by
    have : List.take 20 (payload ++ [0x87]) = payload := by rw [← h]; exact List.take_left' rfl
    simp [slice, this]
  have h22 : (0xa9 :: 0x14 :: (payload ++ [0x87]))[22]? = some 0x87 := by
    simp [List.getElem?_append_right, h]
  have hp : p2shFromScript chain (0xa9 :: 0x14 :: (payload ++ [0x87])) =
      .ok ⟨.p2sh, chain.scriptAddr, payload⟩ := by
    simp only [p2shFromScript, isP2sh, List.length_cons, List.length_append, h, h22, hs]
    simp [subclassFromBytes, base58FromBytes_script chain payload hv]
  rw [e]
  simp only [fromScript, hw1, hw2, hp, orElse_ok, orElse_addrerr]

theorem fromScript_p2pkh (H160 : Bytes → Bytes) (chain : ChainParams) (payload : Bytes)
    (h : payload.length = 20) (hv : chain.pubkeyAddr < 256) (hne : chain.pubkeyAddr ≠ chain.scriptAddr) :
    fromScript H160 chain (stdScript .p2pkh payload) = .ok ⟨.p2pkh, chain.pubkeyAddr, payload⟩ := by
  have hc := canonicalize_p2pkh payload h
  have e : stdScript .p2pkh payload = 0x76 :: 0xa9 :: 0x14 :: (payload ++ [0x88, 0xac]) := by
    simp [stdScript]
  rw [e] at hc ⊢
  have hw1 : p2wshFromScript (0x76 :: 0xa9 :: 0x14 :: (payload ++ [0x88, 0xac])) = .error .addrerr := by
    simp [p2wshFromScript, isWitnessV0Scripthash, h]
  have hw2 : p2wpkhFromScript (0x76 :: 0xa9 :: 0x14 :: (payload ++ [0x88, 0xac])) = .error .addrerr := by
    simp [p2wpkhFromScript, isWitnessV0Keyhash, h]
  have hw3 : p2shFromScript chain (0x76 :: 0xa9 :: 0x14 :: (payload ++ [0x88, 0xac])) = .error .addrerr := by
    simp [p2shFromScript, isP2sh, h]
  have hs : slice (0x76 :: 0xa9 :: 0x14 :: (payload ++ [0x88, 0xac])) 3 23 = payload := by
    have : List.take 20 (payload ++ [0x88, 0xac]) = payload := by rw [← h]; exact List.take_left' rfl
    simp [slice, this]
  have h23 : (0x76 :: 0xa9 :: 0x14 :: (payload ++ [0x88, 0xac]))[23]? = some 0x88 := by
    simp [List.getElem?_append_right, h]
  have h24 : (0x76 :: 0xa9 :: 0x14 :: (payload ++ [0x88, 0xac]))[24]? = some 0xac := by
    simp [List.getElem?_append_right, h]
  have hp : p2pkhFromScript H160 chain (0x76 :: 0xa9 :: 0x14 :: (payload ++ [0x88, 0xac])) =
      .ok ⟨.p2pkh, chain.pubkeyAddr, payload⟩ := by
    simp only [p2pkhFromScript, hc, if_true, isWitnessV0Keyhash, isWitnessV0NestedKeyhash,
      List.length_cons, List.length_append, h, h23, h24, hs]
    simp [subclassFromBytes, base58FromBytes_pubkey chain payload hv hne]
  simp only [fromScript, hw1, hw2, hw3, hp, orElse_ok, orElse_addrerr]

/-! ### the P2PKH converter on non-canonical pushes and on bare-pubkey scripts -/

/-- whatever canonicalises to the standard P2PKH script is read as that P2PKH address -/
theorem p2pkhFromScript_of_canon (H160 : Bytes → Bytes) (chain : ChainParams) (spk payload : Bytes)
    (h : payload.length = 20) (hv : chain.pubkeyAddr < 256) (hne : chain.pubkeyAddr ≠ chain.scriptAddr)
    (bare : Bool) (hc : canonicalize spk = .ok (stdScript .p2pkh payload)) :
    p2pkhFromScript H160 chain spk true bare = .ok ⟨.p2pkh, chain.pubkeyAddr, payload⟩ := by
  have e : stdScript .p2pkh payload = 0x76 :: 0xa9 :: 0x14 :: (payload ++ [0x88, 0xac]) := by
    simp [stdScript]
  rw [e] at hc
  have hs : slice (0x76 :: 0xa9 :: 0x14 :: (payload ++ [0x88, 0xac])) 3 23 = payload := by
    have : List.take 20 (payload ++ [0x88, 0xac]) = payload := by rw [← h]; exact List.take_left' rfl
    simp [slice, this]
  have h23 : (0x76 :: 0xa9 :: 0x14 :: (payload ++ [0x88, 0xac]))[23]? = some 0x88 := by
    simp [List.getElem?_append_right, h]
  have h24 : (0x76 :: 0xa9 :: 0x14 :: (payload ++ [0x88, 0xac]))[24]? = some 0xac := by
    simp [List.getElem?_append_right, h]
  simp only [p2pkhFromScript, hc, if_true, isWitnessV0Keyhash, isWitnessV0NestedKeyhash,
    List.length_cons, List.length_append, h, h23, h24, hs]
  simp [subclassFromBytes, base58FromBytes_pubkey chain payload hv hne]

theorem rawStep_pushN (idx : Nat) (d rest : Bytes) (h0 : 0 < d.length) (h : d.length < 0x4c) :
    rawStep idx (UInt8.ofNat d.length :: (d ++ rest)) = some (.op ⟨d.length, some d, idx⟩ rest) := by
  have hn : (UInt8.ofNat d.length).toNat = d.length := toNat_ofNat_lt (by omega)
  have h1 : List.take d.length (d ++ rest) = d := List.take_left' rfl
  have h2 : List.drop d.length (d ++ rest) = rest := List.drop_left' rfl
  have h3 : ¬ d.length > 0x4e := by omega
  simp [rawStep, hn, h1, h2, h, h3]

theorem canonicalize_barePubkey (pk : Bytes) (h0 : 0 < pk.length) (h : pk.length < 0x4c) :
    canonicalize (Spec.Addr.barePubkeyScript pk) = .ok (Spec.Addr.barePubkeyScript pk) := by
  unfold canonicalize rawIter Spec.Addr.barePubkeyScript
  rw [rawIterFrom_op (rawStep_pushN _ pk _ h0 h)]
  rw [rawIterFrom_op (rawStep_plain _ 0xac _ (by decide))]
  rw [rawIterFrom_nil]
  have hne : pk.length ≠ 0 := by omega
  simp [recodeOp, pushEnc, h, hne, List.mapM_cons, List.mapM_nil, Except.map, bind, Except.bind, pure,
    Except.pure]

/-- the P2PKH converter on `<pubkey> CHECKSIG` (33- or 65-byte key, any bytes): the P2PKH address of
    the hash160 of the whole pushed key -/
theorem p2pkhFromScript_barePubkey (H160 : Bytes → Bytes) (chain : ChainParams) (pk : Bytes)
    (hl : pk.length = 33 ∨ pk.length = 65) (hv : chain.pubkeyAddr < 256)
    (hne : chain.pubkeyAddr ≠ chain.scriptAddr) :
    p2pkhFromScript H160 chain (Spec.Addr.barePubkeyScript pk) true true =
      .ok (Spec.Addr.barePubkeyAddr H160 chain pk) := by
  have hc := canonicalize_barePubkey pk (by omega) (by omega)
  unfold Spec.Addr.barePubkeyScript at hc ⊢
  rcases hl with hl | hl
  · have hs' : slice ((33 : UInt8) :: (pk ++ [0xac])) 1 34 = pk := by
      have : List.take 33 (pk ++ [0xac]) = pk := by rw [← hl]; exact List.take_left' rfl
      simp [slice, this]
    have hl' : (pk ++ [(0xac : UInt8)])[33]? = some 0xac := by
      simp [List.getElem?_append_right, hl]
    rw [hl] at hc ⊢
    simp only [p2pkhFromScript, hc, if_true, isWitnessV0Keyhash, isWitnessV0NestedKeyhash,
      List.length_cons, List.length_append, hl]
    simp [hs', hl', subclassFromBytes, base58FromBytes_pubkey chain _ hv hne, Spec.Addr.barePubkeyAddr]
  · have hs' : slice ((65 : UInt8) :: (pk ++ [0xac])) 1 66 = pk := by
      have : List.take 65 (pk ++ [0xac]) = pk := by rw [← hl]; exact List.take_left' rfl
      simp [slice, this]
    have hl' : (pk ++ [(0xac : UInt8)])[65]? = some 0xac := by
      simp [List.getElem?_append_right, hl]
    rw [hl] at hc ⊢
    simp only [p2pkhFromScript, hc, if_true, isWitnessV0Keyhash, isWitnessV0NestedKeyhash,
      List.length_cons, List.length_append, hl]
    simp [hs', hl', subclassFromBytes, base58FromBytes_pubkey chain _ hv hne, Spec.Addr.barePubkeyAddr]

/-- the public dispatcher on a bare-pubkey script: no other matcher fires (lengths 35 / 67) -/
theorem fromScript_barePubkey (H160 : Bytes → Bytes) (chain : ChainParams) (pk : Bytes)
    (hl : pk.length = 33 ∨ pk.length = 65) (hv : chain.pubkeyAddr < 256)
    (hne : chain.pubkeyAddr ≠ chain.scriptAddr) :
    fromScript H160 chain (Spec.Addr.barePubkeyScript pk) = .ok (Spec.Addr.barePubkeyAddr H160 chain pk) := by
  have hp := p2pkhFromScript_barePubkey H160 chain pk hl hv hne
  have hlen : (Spec.Addr.barePubkeyScript pk).length = pk.length + 2 := by
    simp [Spec.Addr.barePubkeyScript]
  have hw1 : p2wshFromScript (Spec.Addr.barePubkeyScript pk) = .error .addrerr := by
    rcases hl with h | h <;> simp [p2wshFromScript, isWitnessV0Scripthash, hlen, h]
  have hw2 : p2wpkhFromScript (Spec.Addr.barePubkeyScript pk) = .error .addrerr := by
    rcases hl with h | h <;> simp [p2wpkhFromScript, isWitnessV0Keyhash, hlen, h]
  have hw3 : p2shFromScript chain (Spec.Addr.barePubkeyScript pk) = .error .addrerr := by
    rcases hl with h | h <;> simp [p2shFromScript, isP2sh, hlen, h]
  simp only [fromScript, hw1, hw2, hw3, hp, orElse_ok, orElse_addrerr]

/-- with `accept_bare_checksig=False` the bare-pubkey script is refused -/
theorem p2pkhFromScript_barePubkey_off (H160 : Bytes → Bytes) (chain : ChainParams) (pk : Bytes)
    (hl : pk.length = 33 ∨ pk.length = 65) :
    p2pkhFromScript H160 chain (Spec.Addr.barePubkeyScript pk) true false = .error .addrerr := by
  have hc := canonicalize_barePubkey pk (by omega) (by omega)
  unfold Spec.Addr.barePubkeyScript at hc ⊢
  rcases hl with hl | hl
  · rw [hl] at hc ⊢
    simp only [p2pkhFromScript, hc, if_true, isWitnessV0Keyhash, isWitnessV0NestedKeyhash,
      List.length_cons, List.length_append, hl]
    simp
  · rw [hl] at hc ⊢
    simp only [p2pkhFromScript, hc, if_true, isWitnessV0Keyhash, isWitnessV0NestedKeyhash,
      List.length_cons, List.length_append, hl]
    simp

/-! ### to_scriptPubKey on the prescribed addresses -/

theorem pushEnc_short (d : Bytes) (h : d.length < 0x4c) : pushEnc d = .ok (UInt8.ofNat d.length :: d) := by
  simp [pushEnc, h]

theorem toScript_std (chain : ChainParams) (t : AddrClass) (payload : Bytes)
    (h : payload.length = t.payloadLen) :
    toScript chain (prescribedAddr chain t payload) = .ok (stdScript t payload) := by
  cases t <;>
    simp only [AddrClass.payloadLen] at h <;>
    simp [toScript, prescribedAddr, prescribedVer, stdScript, pushEnc, h, Except.map]

end BtcVerif.AddrProofs
