/-
  Helper lemmas for C03, part 2: the Python tokeniser (`Model.Script.rawStep` / `rawIterFrom`) against
  the spec's `GetOp`, and `FindAndDelete(script, [OP_CODESEPARATOR])` against
  `Spec.Sighash.scriptCodeNoSep`.
-/
import BtcVerif.Proofs.Sighash
namespace BtcVerif.SighashProofs
open BtcVerif Model.Wire Spec.Wire Spec.Sighash Model.Sighash Model.Script

theorem rawIterFrom_eq (idx : Nat) (s : Bytes) :
    rawIterFrom idx s =
      match rawStep idx s with
      | none => ([], none)
      | some (.err e) => ([], some e)
      | some (.op o rest) =>
        ((o :: (rawIterFrom (idx + (s.length - rest.length)) rest).1),
         (rawIterFrom (idx + (s.length - rest.length)) rest).2) := by
  rw [rawIterFrom]
  split <;> simp_all

theorem leNat1 (a : UInt8) : leNat [a] = a.toNat := by simp [leNat]
theorem leNat2 (a b : UInt8) : leNat [a, b] = a.toNat + b.toNat * 256 := by simp [leNat]; omega
theorem leNat4 (a b c d : UInt8) :
    leNat [a, b, c, d] = a.toNat + b.toNat * 256 + c.toNat * 65536 + d.toNat * 16777216 := by
  simp [leNat]; omega

theorem take_len_ok {r : Bytes} {ds : Nat} (h : ¬ r.length < ds) : ¬ (r.take ds).length < ds := by
  simp only [List.length_take]; omega

/-- Model tokeniser step vs. the spec's `GetOp`, success case -/
theorem rawStep_of_getOp_some {idx : Nat} {s : Bytes} {op : UInt8} {n : Nat}
    (h : getOp s = some (op, n)) :
    ∃ d r, s = op :: r ∧ rawStep idx s = some (.op ⟨op.toNat, d, idx⟩ (s.drop n)) := by
  cases s with
  | nil => simp [getOp] at h
  | cons b rest =>
    simp only [getOp] at h
    by_cases hb : b.toNat ≤ 0x4e
    · rw [if_pos hb] at h
      have hb' : ¬ b.toNat > 0x4e := by omega
      by_cases h1 : b.toNat < 0x4c
      · rw [if_pos h1] at h
        simp only at h
        split at h
        · simp at h
        · rename_i hlen
          simp only [Option.some.injEq, Prod.mk.injEq] at h
          obtain ⟨rfl, rfl⟩ := h
          refine ⟨some (rest.take b.toNat), rest, rfl, ?_⟩
          simp only [rawStep, if_neg hb', if_pos h1]
          rw [if_neg (take_len_ok (by omega))]
          rw [show 1 + 0 + b.toNat = b.toNat + 1 by omega]; simp only [List.drop_succ_cons]
      · rw [if_neg h1] at h
        by_cases h2 : b.toNat = 0x4c
        · rw [if_pos h2] at h
          rcases rest with _ | ⟨l, r⟩
          · simp at h
          · rw [if_neg (by simp)] at h
            simp only [List.take_succ_cons, List.take_zero, leNat1, List.length_cons] at h
            split at h
            · simp at h
            · rename_i hlen
              simp only [Option.some.injEq, Prod.mk.injEq] at h
              obtain ⟨rfl, rfl⟩ := h
              refine ⟨some (r.take l.toNat), l :: r, rfl, ?_⟩
              simp only [rawStep, if_neg hb', if_neg h1, if_pos h2]
              rw [if_neg (take_len_ok (by omega))]
              rw [show 1 + 1 + l.toNat = l.toNat + 1 + 1 by omega]; simp only [List.drop_succ_cons]
        · rw [if_neg h2] at h
          by_cases h3 : b.toNat = 0x4d
          · rw [if_pos h3] at h
            rcases rest with _ | ⟨l0, _ | ⟨l1, r⟩⟩
            · simp at h
            · simp at h
            · rw [if_neg (by simp)] at h
              simp only [List.take_succ_cons, List.take_zero, leNat2, List.length_cons] at h
              split at h
              · simp at h
              · rename_i hlen
                simp only [Option.some.injEq, Prod.mk.injEq] at h
                obtain ⟨rfl, rfl⟩ := h
                refine ⟨some (r.take (l0.toNat + l1.toNat * 256)), l0 :: l1 :: r, rfl, ?_⟩
                simp only [rawStep, if_neg hb', if_neg h1, if_neg h2, if_pos h3]
                rw [if_neg (take_len_ok (by omega))]
                rw [show 1 + 2 + (l0.toNat + l1.toNat * 256) = (l0.toNat + l1.toNat * 256) + 1 + 1 + 1 by omega]; simp only [List.drop_succ_cons]
          · rw [if_neg h3] at h
            rcases rest with _ | ⟨l0, _ | ⟨l1, _ | ⟨l2, _ | ⟨l3, r⟩⟩⟩⟩
            · simp at h
            · simp at h
            · simp at h
            · simp at h
            · rw [if_neg (by simp)] at h
              simp only [List.take_succ_cons, List.take_zero, leNat4, List.length_cons] at h
              split at h
              · simp at h
              · rename_i hlen
                simp only [Option.some.injEq, Prod.mk.injEq] at h
                obtain ⟨rfl, rfl⟩ := h
                refine ⟨some (r.take (l0.toNat + l1.toNat * 256 + l2.toNat * 65536 + l3.toNat * 16777216)),
                  l0 :: l1 :: l2 :: l3 :: r, rfl, ?_⟩
                simp only [rawStep, if_neg hb', if_neg h1, if_neg h2, if_neg h3]
                rw [if_neg (take_len_ok (by omega))]
                rw [show 1 + 4 + (l0.toNat + l1.toNat * 256 + l2.toNat * 65536 + l3.toNat * 16777216)
                  = (l0.toNat + l1.toNat * 256 + l2.toNat * 65536 + l3.toNat * 16777216) + 1 + 1 + 1 + 1 + 1 by omega]
                simp only [List.drop_succ_cons]
    · rw [if_neg hb] at h
      simp only [Option.some.injEq, Prod.mk.injEq] at h
      obtain ⟨rfl, rfl⟩ := h
      refine ⟨none, rest, rfl, ?_⟩
      have : b.toNat > 0x4e := by omega
      simp [rawStep, this]

/-- … failure case: where `GetOp` fails on a non-empty script the Python generator raises -/
theorem rawStep_of_getOp_none {idx : Nat} {s : Bytes} (h : getOp s = none) (hs : s ≠ []) :
    ∃ e, rawStep idx s = some (.err e) := by
  cases s with
  | nil => exact absurd rfl hs
  | cons b rest =>
    simp only [getOp] at h
    by_cases hb : b.toNat ≤ 0x4e
    · rw [if_pos hb] at h
      have hb' : ¬ b.toNat > 0x4e := by omega
      by_cases h1 : b.toNat < 0x4c
      · rw [if_pos h1] at h
        simp only at h
        split at h
        · rename_i hlen
          refine ⟨.truncated (rest.take b.toNat), ?_⟩
          simp only [rawStep, if_neg hb', if_pos h1]
          rw [if_pos (by simp only [List.length_take]; omega)]
        · simp at h
      · rw [if_neg h1] at h
        by_cases h2 : b.toNat = 0x4c
        · rw [if_pos h2] at h
          rcases rest with _ | ⟨l, r⟩
          · exact ⟨.missingLen, by simp only [rawStep, if_neg hb', if_neg h1, if_pos h2]⟩
          · rw [if_neg (by simp)] at h
            simp only [List.take_succ_cons, List.take_zero, leNat1, List.length_cons] at h
            split at h
            · rename_i hlen
              refine ⟨.truncated (r.take l.toNat), ?_⟩
              simp only [rawStep, if_neg hb', if_neg h1, if_pos h2]
              rw [if_pos (by simp only [List.length_take]; omega)]
            · simp at h
        · rw [if_neg h2] at h
          by_cases h3 : b.toNat = 0x4d
          · rw [if_pos h3] at h
            rcases rest with _ | ⟨l0, _ | ⟨l1, r⟩⟩
            · exact ⟨.missingLen, by simp only [rawStep, if_neg hb', if_neg h1, if_neg h2, if_pos h3]⟩
            · exact ⟨.missingLen, by simp only [rawStep, if_neg hb', if_neg h1, if_neg h2, if_pos h3]⟩
            · rw [if_neg (by simp)] at h
              simp only [List.take_succ_cons, List.take_zero, leNat2, List.length_cons] at h
              split at h
              · rename_i hlen
                refine ⟨.truncated (r.take (l0.toNat + l1.toNat * 256)), ?_⟩
                simp only [rawStep, if_neg hb', if_neg h1, if_neg h2, if_pos h3]
                rw [if_pos (by simp only [List.length_take]; omega)]
              · simp at h
          · rw [if_neg h3] at h
            rcases rest with _ | ⟨l0, _ | ⟨l1, _ | ⟨l2, _ | ⟨l3, r⟩⟩⟩⟩
            · exact ⟨.missingLen, by simp only [rawStep, if_neg hb', if_neg h1, if_neg h2, if_neg h3]⟩
            · exact ⟨.missingLen, by simp only [rawStep, if_neg hb', if_neg h1, if_neg h2, if_neg h3]⟩
            · exact ⟨.missingLen, by simp only [rawStep, if_neg hb', if_neg h1, if_neg h2, if_neg h3]⟩
            · exact ⟨.missingLen, by simp only [rawStep, if_neg hb', if_neg h1, if_neg h2, if_neg h3]⟩
            · rw [if_neg (by simp)] at h
              simp only [List.take_succ_cons, List.take_zero, leNat4, List.length_cons] at h
              split at h
              · rename_i hlen
                refine ⟨.truncated (r.take (l0.toNat + l1.toNat * 256 + l2.toNat * 65536 + l3.toNat * 16777216)), ?_⟩
                simp only [rawStep, if_neg hb', if_neg h1, if_neg h2, if_neg h3]
                rw [if_pos (by simp only [List.length_take]; omega)]
              · simp at h
    · rw [if_neg hb] at h
      simp at h


/-! ### unfolding equations of the spec's recursive definitions -/

theorem ops_eq (s : Bytes) :
    ops s = match getOp s with
      | none => if s = [] then some [] else none
      | some (_, n) => (ops (s.drop n)).map (s.take n :: ·) := by
  rw [ops]; split <;> simp_all

theorem scriptCodeNoSep_eq (s : Bytes) :
    scriptCodeNoSep s = match getOp s with
      | none => s
      | some (op, n) => (if op = OP_CODESEPARATOR then [] else s.take n) ++ scriptCodeNoSep (s.drop n) := by
  rw [scriptCodeNoSep]; split <;> simp_all

theorem getOp_nil : getOp [] = none := rfl

theorem getOp_head {s : Bytes} {op : UInt8} {n : Nat} (h : getOp s = some (op, n)) : ∃ r, s = op :: r := by
  obtain ⟨_, r, hr, _⟩ := rawStep_of_getOp_some (idx := 0) h
  exact ⟨r, hr⟩

theorem getOp_codesep {s : Bytes} {n : Nat} (h : getOp s = some (OP_CODESEPARATOR, n)) : n = 1 := by
  obtain ⟨r, rfl⟩ := getOp_head h
  simp only [getOp] at h
  rw [if_neg (by decide)] at h
  simp only [Option.some.injEq, Prod.mk.injEq] at h
  exact h.2.symm

/-! ### the generator's error flag vs. `parses` -/

theorem rawIterFrom_err_iff (n : Nat) : ∀ (idx : Nat) (s : Bytes), s.length ≤ n →
    ((rawIterFrom idx s).2 = none ↔ parses s) := by
  induction n with
  | zero =>
    intro idx s hn
    have : s = [] := List.length_eq_zero_iff.mp (by omega)
    subst this
    rw [rawIterFrom_eq]; unfold parses; rw [ops_eq]
    simp [rawStep, getOp_nil]
  | succ n ih =>
    intro idx s hn
    rw [rawIterFrom_eq]; unfold parses; rw [ops_eq]
    cases hg : getOp s with
    | none =>
      by_cases hs : s = []
      · subst hs; simp [rawStep]
      · obtain ⟨e, he⟩ := rawStep_of_getOp_none (idx := idx) hg hs
        simp [he, hs]
    | some p =>
      obtain ⟨op, k⟩ := p
      obtain ⟨d, r, hr, hstep⟩ := rawStep_of_getOp_some (idx := idx) hg
      have hb := getOp_bounds hg
      simp only [hstep]
      have hlen : (s.drop k).length ≤ n := by simp only [List.length_drop]; omega
      have := ih (idx + (s.length - (s.drop k).length)) (s.drop k) hlen
      unfold parses at this
      rw [this]
      simp

theorem parses_iff_rawIter (s : Bytes) : (rawIter s).2 = none ↔ parses s :=
  rawIterFrom_err_iff s.length 0 s (Nat.le_refl _)


/-! ### FindAndDelete(script, [OP_CODESEPARATOR]) -/

theorem pySlice_window (pre suf : Bytes) (k : Nat) :
    pySlice (pre ++ suf) pre.length (pre.length + k) = suf.take k := by
  unfold pySlice
  rw [List.drop_left, Nat.add_sub_cancel_left]

theorem pySlice_to_end (s : Bytes) (a : Nat) : pySlice s a s.length = s.drop a := by
  unfold pySlice
  rw [List.take_of_length_le (by simp)]

/-- the statement after the loop: `if not skip: r += script[last_sop_idx:]` -/
def fadFinish (script : Bytes) (st : FadState) : Bytes :=
  if !st.skip then st.r ++ script.drop st.last else st.r

/-- what the loop of `FindAndDelete` computes from any intermediate state -/
theorem fad_fold (script : Bytes) (n : Nat) : ∀ (suf pre : Bytes) (st : FadState), suf.length ≤ n →
    script = pre ++ suf → (rawIterFrom pre.length suf).2 = none →
    fadFinish script ((rawIterFrom pre.length suf).1.foldl (fadStep script [0xab]) st)
      = st.r ++ (if !st.skip then pySlice script st.last pre.length else []) ++ scriptCodeNoSep suf := by
  induction n with
  | zero =>
    intro suf pre st hn hs _
    obtain ⟨r0, last0, skip0⟩ := st
    have : suf = [] := List.length_eq_zero_iff.mp (by omega)
    subst this
    simp only [List.append_nil] at hs
    subst hs
    rw [rawIterFrom_eq, scriptCodeNoSep_eq]
    simp only [rawStep, getOp_nil, List.foldl_nil, pySlice_to_end, List.append_nil, fadFinish]
    cases skip0 <;> simp
  | succ n ih =>
    intro suf pre st hn hs herr
    rw [rawIterFrom_eq] at herr ⊢
    rw [scriptCodeNoSep_eq]
    cases hg : getOp suf with
    | none =>
      by_cases hnil : suf = []
      · subst hnil
        obtain ⟨r0, last0, skip0⟩ := st
        simp only [List.append_nil] at hs
        subst hs
        simp only [rawStep, List.foldl_nil, pySlice_to_end, List.append_nil, fadFinish]
        cases skip0 <;> simp
      · obtain ⟨e, he⟩ := rawStep_of_getOp_none (idx := pre.length) hg hnil
        rw [he] at herr
        simp at herr
    | some p =>
      obtain ⟨op, k⟩ := p
      obtain ⟨d, r, hr, hstep⟩ := rawStep_of_getOp_some (idx := pre.length) hg
      have hb := getOp_bounds hg
      rw [hstep] at herr ⊢
      simp only at herr ⊢
      have hidx : pre.length + (suf.length - (suf.drop k).length) = (pre ++ suf.take k).length := by
        simp only [List.length_drop, List.length_append, List.length_take]; omega
      rw [hidx] at herr ⊢
      have hlen : (suf.drop k).length ≤ n := by simp only [List.length_drop]; omega
      have hs' : script = (pre ++ suf.take k) ++ suf.drop k := by
        rw [List.append_assoc, List.take_append_drop]; exact hs
      have := ih (suf.drop k) (pre ++ suf.take k) (fadStep script [0xab] st ⟨op.toNat, d, pre.length⟩) hlen hs' herr
      simp only [List.foldl_cons]
      rw [this]
      -- the state after this operation
      have hwin1 : pySlice script pre.length (pre.length + 1) = [op] := by
        rw [hs, pySlice_window, hr]; rfl
      have hwink : pySlice script pre.length (pre ++ suf.take k).length = suf.take k := by
        rw [hs, List.length_append, pySlice_window, List.length_take, Nat.min_eq_left hb.2]
      obtain ⟨r0, last0, skip0⟩ := st
      simp only [fadStep, List.length_singleton, hwin1, hwink]
      by_cases hop : op = OP_CODESEPARATOR
      · subst hop
        cases skip0 <;> simp [OP_CODESEPARATOR]
      · have hne : ([op] == [OP_CODESEPARATOR]) = false := by
          simp [hop]
        have hne' : ([op] == ([0xab] : Bytes)) = false := hne
        cases skip0 <;> simp [hop, hne']


theorem findAndDelete_parses {s : Bytes} (h : parses s) :
    findAndDelete s [0xab] = .ok (scriptCodeNoSep s) := by
  have herr : (rawIterFrom ([] : Bytes).length s).2 = none := (parses_iff_rawIter s).mpr h
  have := fad_fold s s.length s [] ⟨[], 0, true⟩ (Nat.le_refl _) rfl herr
  have hri : rawIterFrom 0 s = rawIter s := rfl
  simp only [List.length_nil, hri] at herr this
  simp only [findAndDelete, herr]
  show Except.ok (fadFinish s _) = _
  rw [this]
  simp

theorem findAndDelete_not_parses {s : Bytes} (sig : Bytes) (h : ¬ parses s) :
    findAndDelete s sig = .error .invalidscript := by
  have herr : (rawIter s).2 ≠ none := fun hh => h ((parses_iff_rawIter s).mp hh)
  cases hh : (rawIter s).2 with
  | none => exact absurd hh herr
  | some e => simp only [findAndDelete, hh]

/-- the spec's code-separator stripping in terms of the list of operations -/
theorem noSep_of_ops (n : Nat) : ∀ (s : Bytes) (l : List Bytes), s.length ≤ n → ops s = some l →
    scriptCodeNoSep s = (l.filter (· ≠ [OP_CODESEPARATOR])).flatten ∧ l.flatten = s := by
  induction n with
  | zero =>
    intro s l hn h
    have : s = [] := List.length_eq_zero_iff.mp (by omega)
    subst this
    rw [ops_eq] at h; rw [scriptCodeNoSep_eq]
    simp only [getOp_nil, if_true, Option.some.injEq] at h
    subst h
    simp [getOp_nil]
  | succ n ih =>
    intro s l hn h
    rw [ops_eq] at h; rw [scriptCodeNoSep_eq]
    cases hg : getOp s with
    | none =>
      rw [hg] at h
      by_cases hs : s = []
      · subst hs
        simp only [if_true, Option.some.injEq] at h
        subst h; simp
      · simp [hs] at h
    | some p =>
      obtain ⟨op, k⟩ := p
      rw [hg] at h
      simp only [Option.map_eq_some_iff] at h
      obtain ⟨l', hl', rfl⟩ := h
      have hb := getOp_bounds hg
      obtain ⟨r, hr⟩ := getOp_head hg
      have hlen : (s.drop k).length ≤ n := by simp only [List.length_drop]; omega
      obtain ⟨ih1, ih2⟩ := ih (s.drop k) l' hlen hl'
      simp only
      refine ⟨?_, ?_⟩
      · rw [ih1]
        by_cases hop : op = OP_CODESEPARATOR
        · subst hop
          have hk := getOp_codesep hg
          subst hk
          simp [hr]
        · have hne : s.take k ≠ [OP_CODESEPARATOR] := by
            obtain ⟨k', rfl⟩ : ∃ k', k = k' + 1 := ⟨k - 1, by omega⟩
            rw [hr, List.take_succ_cons]
            intro hh
            exact hop (List.cons.inj hh).1
          simp [hop, hne]
      · rw [List.flatten_cons, ih2, List.take_append_drop]

end BtcVerif.SighashProofs
