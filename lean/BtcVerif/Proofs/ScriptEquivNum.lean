/-
  C06 — per-opcode simulation lemmas, numeric arms: small integers, DEPTH, SIZE, the unary and
  binary arithmetic / comparison opcodes, WITHIN, PICK / ROLL.
-/
import BtcVerif.Proofs.ScriptEquivArms
import BtcVerif.Proofs.ScriptNumCodec

namespace BtcVerif.Model.ScriptEval
open BtcVerif BtcVerif.Spec BtcVerif.Spec.Script BtcVerif.Model.Script

theorem scriptNumSer_zero : Ref.scriptNumSer 0 = [] := by simp [Ref.scriptNumSer]

theorem scriptNumSer_one : Ref.scriptNumSer 1 = [1] := by
  have h : Ref.leMinimal 1 = [1] := by
    rw [leMinimal_pos (by decide)]; simp [leMinimal_zero]
  simp [Ref.scriptNumSer, h]

section
variable (env : Env) (fl : Flags) (pc code : Bytes) (fExec : Bool) (st : St)

theorem arm_smallint (sop : Nat) (hs : sop = 0x4f ∨ (0x51 ≤ sop ∧ sop ≤ 0x60)) :
    Sim code st (opSmallInt sop st) (Ref.execOp env fl sop pc fExec (toRef st code)) := by
  have hcases : sop = 0x4f ∨ sop = 0x51 ∨ sop = 0x52 ∨ sop = 0x53 ∨ sop = 0x54 ∨ sop = 0x55 ∨ sop = 0x56 ∨
      sop = 0x57 ∨ sop = 0x58 ∨ sop = 0x59 ∨ sop = 0x5a ∨ sop = 0x5b ∨ sop = 0x5c ∨ sop = 0x5d ∨ sop = 0x5e ∨
      sop = 0x5f ∨ sop = 0x60 := by omega
  rcases hcases with rfl | rfl | rfl | rfl | rfl | rfl | rfl | rfl | rfl | rfl | rfl | rfl | rfl | rfl | rfl |
    rfl | rfl <;>
    simp [opSmallInt, bn2vch_eq, Ref.execOp, toRef, Sim, bind, Except.bind]

theorem arm_depth : Sim code st (opDepth st) (Ref.execOp env fl 0x74 pc fExec (toRef st code)) := by
  simp [opDepth, bn2vch_eq, Ref.execOp, toRef, Sim, bind, Except.bind]

theorem arm_size : Sim code st (opSize 0x82 st) (Ref.execOp env fl 0x82 pc fExec (toRef st code)) := by
  obtain ⟨s, al, vf, pb, n⟩ := st
  rcases s with _ | ⟨a, rest⟩ <;> simp only [opSize] <;>
    simp [bn2vch_eq, Ref.execOp, toRef, checkArgs, pyIdx, bind, Except.bind, Sim]

theorem unaryVal_eq (sop : Nat) (hm : sop ∈ unaryNumOps) (bn : Int) :
    ∃ r, unaryVal sop bn = .ok r ∧ Ref.unaryNum sop bn = some r := by
  simp only [unaryNumOps, List.mem_cons, List.mem_nil_iff, or_false] at hm
  rcases hm with rfl | rfl | rfl | rfl | rfl | rfl <;> exact ⟨_, rfl, rfl⟩

theorem arm_unary (sop : Nat) (hm : sop ∈ unaryNumOps) :
    Sim code st (unaryOp sop st) (Ref.execOp env fl sop pc fExec (toRef st code)) := by
  obtain ⟨s, al, vf, pb, n⟩ := st
  have hm' := hm
  simp only [unaryNumOps, List.mem_cons, List.mem_nil_iff, or_false] at hm'
  rcases s with _ | ⟨a, rest⟩
  · rcases hm' with rfl | rfl | rfl | rfl | rfl | rfl <;>
      simp [unaryOp, Ref.execOp, toRef, bind, Except.bind, Sim]
  · have hc := castToBigNum_eq a ⟨a :: rest, al, vf, pb, n⟩
    cases hsn : Ref.scriptNum? a with
    | none =>
      rw [hsn] at hc
      obtain ⟨e, he⟩ := hc
      rcases hm' with rfl | rfl | rfl | rfl | rfl | rfl <;>
        simp [unaryOp, he, hsn, Ref.execOp, toRef, pyIdx, bind, Except.bind, Sim]
    | some bn =>
      rw [hsn] at hc
      obtain ⟨r, hr1, hr2⟩ := unaryVal_eq sop hm bn
      rcases hm' with rfl | rfl | rfl | rfl | rfl | rfl <;>
        simp [unaryOp, hc, hsn, hr1, hr2, bn2vch_eq, Ref.execOp, toRef, pyIdx, bind, Except.bind, Sim]

theorem binaryVal_eq (sop : Nat) (hm : sop ∈ binaryNumOps) (hne : sop ≠ 0x9d) (bn1 bn2 : Int) :
    ∃ r, binaryVal sop bn1 bn2 = .ok r ∧ Ref.binaryNum sop bn1 bn2 = some r := by
  simp only [binaryNumOps, List.mem_cons, List.mem_nil_iff, or_false] at hm
  rcases hm with rfl | rfl | rfl | rfl | rfl | rfl | rfl | rfl | rfl | rfl | rfl | rfl | rfl
  all_goals first
    | exact absurd rfl hne
    | exact ⟨_, rfl, rfl⟩

theorem castToBool_b2i (b : Bool) : Ref.castToBool (Ref.scriptNumSer (Ref.b2i b)) = b := by
  cases b
  · simp [Ref.b2i, scriptNumSer_zero, Ref.castToBool]
  · simp [Ref.b2i, scriptNumSer_one, Ref.castToBool]

/-- the `case OP_ADD … OP_MAX` block of the reference, for any of its thirteen opcodes -/
theorem ref_execOp_binary (sop : Nat) (hm : sop ∈ binaryNumOps) (rs : Ref.State) :
    Ref.execOp env fl sop pc fExec rs =
      match rs.stack with
      | vch2 :: vch1 :: rest =>
        match Ref.scriptNum? vch1, Ref.scriptNum? vch2 with
        | some bn1, some bn2 =>
          match Ref.binaryNum sop bn1 bn2 with
          | none => none
          | some bn =>
            if sop = 0x9d then
              (if Ref.castToBool (Ref.scriptNumSer bn) then some { rs with stack := rest } else none)
            else some { rs with stack := Ref.scriptNumSer bn :: rest }
        | _, _ => none
      | _ => none := by
  simp only [binaryNumOps, List.mem_cons, List.mem_nil_iff, or_false] at hm
  rcases hm with rfl | rfl | rfl | rfl | rfl | rfl | rfl | rfl | rfl | rfl | rfl | rfl | rfl <;> rfl

theorem arm_binary (sop : Nat) (hm : sop ∈ binaryNumOps) :
    Sim code st (binOp sop st) (Ref.execOp env fl sop pc fExec (toRef st code)) := by
  rw [ref_execOp_binary env fl pc fExec sop hm]
  obtain ⟨s, al, vf, pb, n⟩ := st
  rcases s with _ | ⟨a, _ | ⟨b, rest⟩⟩
  · simp [binOp, toRef, bind, Except.bind, Sim]
  · simp [binOp, toRef, bind, Except.bind, Sim]
  · have hca := castToBigNum_eq a ⟨a :: b :: rest, al, vf, pb, n⟩
    have hcb := castToBigNum_eq b ⟨a :: b :: rest, al, vf, pb, n⟩
    cases hsa : Ref.scriptNum? a with
    | none =>
      simp only [hsa] at hca
      obtain ⟨e, he⟩ := hca
      cases hsb : Ref.scriptNum? b <;> simp [binOp, he, hsa, hsb, toRef, pyIdx, bind, Except.bind, Sim]
    | some bn2 =>
      simp only [hsa] at hca
      cases hsb : Ref.scriptNum? b with
      | none =>
        simp only [hsb] at hcb
        obtain ⟨e, he⟩ := hcb
        simp [binOp, hca, he, hsa, hsb, toRef, pyIdx, bind, Except.bind, Sim]
      | some bn1 =>
        simp only [hsb] at hcb
        by_cases h9d : sop = 0x9d
        · subst h9d
          have hb2i := castToBool_b2i (decide (bn1 = bn2))
          by_cases heq : bn1 = bn2
          · simp [heq] at hb2i
            simp [binOp, hca, hcb, hsa, hsb, heq, hb2i, Ref.binaryNum, toRef, pyIdx, bind, Except.bind, Sim]
          · simp [heq] at hb2i
            simp [binOp, hca, hcb, hsa, hsb, heq, hb2i, Ref.binaryNum, toRef, pyIdx, bind, Except.bind, Sim]
        · obtain ⟨r, hr1, hr2⟩ := binaryVal_eq sop hm h9d bn1 bn2
          simp [binOp, hca, hcb, hsa, hsb, hr1, hr2, h9d, bn2vch_eq, toRef, pyIdx, bind, Except.bind, Sim]

theorem arm_within : Sim code st (opWithin 0xa5 st) (Ref.execOp env fl 0xa5 pc fExec (toRef st code)) := by
  obtain ⟨s, al, vf, pb, n⟩ := st
  rcases s with _ | ⟨a, _ | ⟨b, _ | ⟨d, rest⟩⟩⟩
  · simp only [opWithin]; arm_eq
  · simp only [opWithin]; arm_eq
  · simp only [opWithin]; arm_eq
  · have hca := castToBigNum_eq a ⟨a :: b :: d :: rest, al, vf, pb, n⟩
    have hcb := castToBigNum_eq b ⟨a :: b :: d :: rest, al, vf, pb, n⟩
    have hcd := castToBigNum_eq d ⟨a :: b :: d :: rest, al, vf, pb, n⟩
    cases hsa : Ref.scriptNum? a <;> cases hsb : Ref.scriptNum? b <;> cases hsd : Ref.scriptNum? d <;>
      simp only [hsa] at hca <;> simp only [hsb] at hcb <;> simp only [hsd] at hcd <;>
      (try obtain ⟨ea, hea⟩ := hca) <;> (try obtain ⟨eb, heb⟩ := hcb) <;> (try obtain ⟨ed, hed⟩ := hcd) <;>
      simp only [opWithin] <;>
      simp [*, Ref.execOp, toRef, checkArgs, pyIdx, bind, Except.bind, Sim, Ref.boolVch, Ref.vchTrue,
        Ref.vchFalse]

theorem arm_pickroll (sop : Nat) (hs : sop = 0x79 ∨ sop = 0x7a) :
    Sim code st (opPickRoll sop st) (Ref.execOp env fl sop pc fExec (toRef st code)) := by
  obtain ⟨s, al, vf, pb, n⟩ := st
  rcases s with _ | ⟨a, _ | ⟨b, rest⟩⟩
  · rcases hs with rfl | rfl <;> simp only [opPickRoll] <;> arm_eq
  · rcases hs with rfl | rfl <;> simp only [opPickRoll] <;> arm_eq
  · have hca := castToBigNum_eq a ⟨b :: rest, al, vf, pb, n⟩
    cases hsa : Ref.scriptNum? a with
    | none =>
      simp only [hsa] at hca
      obtain ⟨e, he⟩ := hca
      rcases hs with rfl | rfl <;> simp only [opPickRoll] <;>
        simp [he, hsa, Ref.execOp, toRef, checkArgs, pyIdx, bind, Except.bind, Sim]
    | some v =>
      simp only [hsa] at hca
      by_cases hr : v < 0 ∨ (rest.length : Int) + 1 ≤ v
      · rcases hs with rfl | rfl <;> simp only [opPickRoll] <;>
          simp [hca, hsa, hr, Ref.execOp, toRef, checkArgs, pyIdx, bind, Except.bind, Sim] <;> omega
      · obtain ⟨x, hx, _, hxi⟩ := getTop?_pos (b :: rest) (v + 1) (by omega)
          (by simp only [List.length_cons]; omega)
        have hdel := delTop?_pos (b :: rest) (v + 1) (by omega) (by simp only [List.length_cons]; omega)
        have hidx : (v + 1 - 1).toNat = v.toNat := by congr 1; omega
        rw [hidx] at hxi hdel
        have h1 : 0 ≤ v := by omega
        have h2 : v < (rest.length : Int) + 1 := by omega
        rcases hs with rfl | rfl <;> simp only [opPickRoll] <;>
          simp [hca, hsa, hr, hx, hxi, hdel, h1, h2, Ref.execOp, toRef, checkArgs, pyIdx, bind, Except.bind, Sim] <;>
          (obtain ⟨_, hget⟩ := List.getElem?_eq_some_iff.mp hxi; exact hget)

end

end BtcVerif.Model.ScriptEval
