/-
  Lemmas for C13 / C14: `CompareBigEndian` is integer comparison; `IsLowDERSignature` on strict DER.
-/
import BtcVerif.Model.Keys
import BtcVerif.Proofs.Der

namespace BtcVerif
open BtcVerif.Crypto BtcVerif.Crypto.Secp256k1 BtcVerif.Model.Keys

deriving instance DecidableEq for Except

theorem lex_lt {x y A B L : Nat} (hA : A < L) (hxy : x < y) : x * L + A < y * L + B := by
  have h1 : (x + 1) * L ≤ y * L := Nat.mul_le_mul_right L hxy
  rw [Nat.add_mul] at h1
  omega

theorem cmpEqLen_cons (a b : UInt8) (as bs : Bytes) :
    cmpEqLen (a :: as) (b :: bs) =
      if (a.toNat : Int) - (b.toNat : Int) ≠ 0 then (a.toNat : Int) - (b.toNat : Int) else cmpEqLen as bs := rfl

/-- sign of the element-wise comparison = order of the big-endian values (equal lengths) -/
theorem cmpEqLen_spec (a b : Bytes) (h : a.length = b.length) :
    (0 < cmpEqLen a b ↔ beNat b < beNat a) ∧ (cmpEqLen a b = 0 ↔ beNat a = beNat b) ∧
    (cmpEqLen a b < 0 ↔ beNat a < beNat b) := by
  induction a generalizing b with
  | nil =>
    cases b with
    | nil => simp [cmpEqLen]
    | cons y ys => simp at h
  | cons x xs ih =>
    cases b with
    | nil => simp at h
    | cons y ys =>
      have hl : xs.length = ys.length := by simpa using h
      have ih' := ih ys hl
      have hA := beNat_lt xs
      have hB := beNat_lt ys
      rw [hl] at hA
      simp only [cmpEqLen_cons, beNat_cons, hl]
      by_cases hxy : (x.toNat : Int) - (y.toNat : Int) ≠ 0
      · simp only [hxy, if_true, ne_eq, not_false_eq_true]
        by_cases hlt : x.toNat < y.toNat
        · have := lex_lt (B := beNat ys) hA hlt
          refine ⟨⟨fun h => by first | omega | exact h.elim, fun h => by first | omega | exact h.elim⟩, ⟨fun h => by first | omega | exact h.elim, fun h => by first | omega | exact h.elim⟩,
                  ⟨fun _ => this, fun _ => by omega⟩⟩
        · have hgt : y.toNat < x.toNat := by omega
          have := lex_lt (B := beNat xs) hB hgt
          refine ⟨⟨fun _ => this, fun _ => by omega⟩, ⟨fun h => by first | omega | exact h.elim, fun h => by first | omega | exact h.elim⟩,
                  ⟨fun h => by first | omega | exact h.elim, fun h => by first | omega | exact h.elim⟩⟩
      · have hxe : x.toNat = y.toNat := by omega
        simp only [hxy, if_false]
        rw [hxe]
        obtain ⟨i1, i2, i3⟩ := ih'
        refine ⟨⟨fun h => by have := i1.mp h; omega, fun h => i1.mpr (by omega)⟩,
                ⟨fun h => by have := i2.mp h; omega, fun h => i2.mpr (by omega)⟩,
                ⟨fun h => by have := i3.mp h; omega, fun h => i3.mpr (by omega)⟩⟩

/-- `CompareBigEndian` decides the order of the big-endian values, for lists of any two lengths -/
theorem compareBigEndian_spec (c1 c2 : Bytes) :
    (0 < compareBigEndian c1 c2 ↔ beNat c2 < beNat c1) ∧ (compareBigEndian c1 c2 = 0 ↔ beNat c1 = beNat c2) ∧
    (compareBigEndian c1 c2 < 0 ↔ beNat c1 < beNat c2) := by
  induction hn : c1.length + c2.length using Nat.strongRecOn generalizing c1 c2 with
  | _ k ih =>
    rw [compareBigEndian]
    by_cases h1 : c1.length > c2.length
    · simp only [h1, dif_pos]
      cases c1 with
      | nil => simp at h1
      | cons b rest =>
        simp only
        by_cases hb : b.toNat > 0
        · simp only [hb, if_true]
          have hp := beNat_pos_of_head (bs := rest) (b := b) (by omega)
          have h2 := beNat_lt c2
          have : (256:Nat) ^ c2.length ≤ 256 ^ rest.length :=
            Nat.pow_le_pow_right (by omega) (by simp at h1; omega)
          refine ⟨⟨fun _ => by omega, fun _ => by omega⟩, ⟨fun h => by omega, fun h => by omega⟩,
                  ⟨fun h => by omega, fun h => by omega⟩⟩
        · simp only [hb, if_false]
          have hb0 : b = 0 := by
            have := ofNat_toNat b
            have hz : b.toNat = 0 := by omega
            rw [hz] at this; exact this.symm
          subst hb0
          rw [beNat_zero_cons]
          exact ih (rest.length + c2.length) (by simp at hn; omega) rest c2 rfl
    · simp only [h1, dif_neg, not_false_eq_true]
      by_cases h2 : c2.length > c1.length
      · simp only [h2, dif_pos]
        cases c2 with
        | nil => simp at h2
        | cons b rest =>
          simp only
          by_cases hb : b.toNat > 0
          · simp only [hb, if_true]
            have hp := beNat_pos_of_head (bs := rest) (b := b) (by omega)
            have h3 := beNat_lt c1
            have : (256:Nat) ^ c1.length ≤ 256 ^ rest.length :=
              Nat.pow_le_pow_right (by omega) (by simp at h2; omega)
            refine ⟨⟨fun h => by omega, fun h => by omega⟩, ⟨fun h => by omega, fun h => by omega⟩,
                    ⟨fun _ => by omega, fun _ => by omega⟩⟩
          · simp only [hb, if_false]
            have hb0 : b = 0 := by
              have := ofNat_toNat b
              have hz : b.toNat = 0 := by omega
              rw [hz] at this; exact this.symm
            subst hb0
            rw [beNat_zero_cons]
            exact ih (c1.length + rest.length) (by simp at hn; omega) c1 rest rfl
      · simp only [h2, dif_neg, not_false_eq_true]
        exact cmpEqLen_spec c1 c2 (by omega)

/-- the literal of `IsLowDERSignature` is ⌊n/2⌋ -/
theorem beNat_maxModHalfOrder : beNat maxModHalfOrder = Secp256k1.n / 2 := by decide +kernel

theorem beNat_zeroList : beNat [0] = 0 := by decide

theorem idx5 {α} (a b c d e f : α) (R T : List α) :
    (a :: b :: c :: d :: (R ++ e :: f :: T))[5 + R.length]? = some f := by
  have : 5 + R.length = (R.length + 1) + 4 := by omega
  rw [this]
  simp

theorem drop6 {α} (a b c d e f : α) (R T : List α) :
    (a :: b :: c :: d :: (R ++ e :: f :: T)).drop (6 + R.length) = T := by
  have : 6 + R.length = (R.length + 2) + 4 := by omega
  rw [this]
  simp [List.drop_append]

theorem derEncode_length (r s : Nat) :
    (derEncode r s).length = (derIntBody r).length + (derIntBody s).length + 6 := by
  simp [derEncode, derInt]; omega

theorem derEncode_shape (r s : Nat) :
    derEncode r s = 0x30 :: UInt8.ofNat (derInt r ++ derInt s).length :: 0x02 ::
      UInt8.ofNat (derIntBody r).length :: (derIntBody r ++ 0x02 :: UInt8.ofNat (derIntBody s).length :: derIntBody s) := by
  simp [derEncode, derInt]

/-- `IsLowDERSignature` on the strict DER encoding of any `(r, s)` (content within the one-byte
    sequence length): no IndexError / struct.error, and the answer is `0 < s ≤ ⌊n/2⌋` -/
theorem isLowDER_derEncode (r s : Nat) (hl : (derIntBody r).length + (derIntBody s).length ≤ 123) :
    isLowDERSignature (derEncode r s) = .ok (decide (0 < s ∧ s ≤ Secp256k1.n / 2)) := by
  rw [derEncode_shape]
  unfold isLowDERSignature
  have hR : (UInt8.ofNat (derIntBody r).length).toNat = (derIntBody r).length := toNat_ofNat_lt (by omega)
  have hS : (UInt8.ofNat (derIntBody s).length).toNat = (derIntBody s).length := toNat_ofNat_lt (by omega)
  have h3 : (0x30 :: UInt8.ofNat (derInt r ++ derInt s).length :: 0x02 ::
      UInt8.ofNat (derIntBody r).length :: (derIntBody r ++ 0x02 :: UInt8.ofNat (derIntBody s).length :: derIntBody s))[3]?
      = some (UInt8.ofNat (derIntBody r).length) := by simp
  rw [h3]
  simp only [hR, idx5, drop6, hS, List.take_length, ne_eq, not_true_eq_false, if_false]
  have c0 := (compareBigEndian_spec (derIntBody s) [0]).1
  have cm := compareBigEndian_spec (derIntBody s) maxModHalfOrder
  rw [beNat_zeroList, beNat_derIntBody] at c0
  rw [beNat_maxModHalfOrder, beNat_derIntBody] at cm
  congr 1
  by_cases hs0 : 0 < s
  · by_cases hsn : s ≤ Secp256k1.n / 2
    · have h1 : 0 < compareBigEndian (derIntBody s) [0] := c0.mpr hs0
      have h2 : compareBigEndian (derIntBody s) maxModHalfOrder ≤ 0 := by
        rcases Nat.lt_or_ge s (Secp256k1.n / 2) with hlt | hge
        · have := cm.2.2.mpr hlt; omega
        · have := cm.2.1.mpr (by omega); omega
      simp [h1, h2, hs0, hsn]
    · have h2 : ¬ compareBigEndian (derIntBody s) maxModHalfOrder ≤ 0 := by
        have := cm.1.mpr (by omega); omega
      simp [h2, hsn]
  · have h1 : ¬ 0 < compareBigEndian (derIntBody s) [0] := fun h => hs0 (c0.mp h)
    simp [h1, hs0]

/-! ### fixed-width big-endian form and the padding of `sign_compact` -/

theorem beBytes_eq (w v : Nat) (h : v < 256 ^ w) :
    beBytes w v = List.replicate (w - (beMin v).length) 0 ++ beMin v := by
  unfold beBytes
  induction w generalizing v with
  | zero =>
    have : v = 0 := by simpa using h
    subst this; simp [leBytes, beMin_zero]
  | succ w ih =>
    have hq : v / 256 < 256 ^ w := by rw [Nat.pow_succ] at h; omega
    simp only [leBytes, List.reverse_cons]
    rw [ih (v / 256) hq]
    by_cases h0 : v = 0
    · subst h0
      simp only [Nat.zero_div, beMin_zero, List.length_nil, Nat.sub_zero, List.append_nil, Nat.zero_mod]
      exact (List.replicate_succ' ..).symm
    · have hl := beMin_length_le w (v / 256) hq
      rw [beMin_pos h0]
      simp only [List.length_append, List.length_singleton, List.append_assoc]
      have : w + 1 - ((beMin (v / 256)).length + 1) = w - (beMin (v / 256)).length := by omega
      rw [this]

theorem pad32_aux (m : Bytes) (k : Nat) (hk : m.length ≤ k) :
    (List.replicate k (0 : UInt8) ++ m).drop m.length = List.replicate (k - m.length) 0 ++ m := by
  rw [List.drop_append_of_le_length (by simpa using hk), List.drop_replicate]

/-- the 32-byte field `sign_compact` builds from the DER content octets of `v < 2^256` is the
    fixed-width big-endian form of `v`; the assertion in front of it never fires -/
theorem pad32_derIntBody (v : Nat) (h : v < 2 ^ 256) :
    pad32 (derIntBody v) = .ok (Secp256k1.be32 v) := by
  have h' : v < 256 ^ 32 := by simpa using h
  have hl := beMin_length_le 32 v h'
  unfold Secp256k1.be32
  rw [beBytes_eq 32 v h']
  rcases derIntBody_cases v with ⟨hm, e⟩ | ⟨b, bs, hm, _, e⟩ | ⟨b, bs, hm, _, _, e⟩
  · rw [e, hm]; decide
  · rw [e, hm]
    rw [hm] at hl
    unfold pad32
    have hc : (0 :: b :: bs).length ≤ 32 ∨ (0 :: b :: bs).take ((0 :: b :: bs).length - 32) = [0] := by
      by_cases h32 : (b :: bs).length = 32
      · right
        have : (0 :: b :: bs).length - 32 = 1 := by simp at h32 ⊢; omega
        rw [this]; rfl
      · left; simp at hl h32 ⊢; omega
    rw [if_pos hc]
    congr 1
    have e1 : List.replicate 32 (0 : UInt8) ++ 0 :: b :: bs = List.replicate 33 0 ++ (b :: bs) := by
      rw [List.replicate_succ' (n := 32)]; simp
    rw [e1]
    have : (0 :: b :: bs).length = (b :: bs).length + 1 := by simp
    rw [this, ← List.drop_drop]
    rw [pad32_aux (b :: bs) 33 (by omega)]
    have hd : 33 - (b :: bs).length = (32 - (b :: bs).length) + 1 := by omega
    rw [hd, List.replicate_succ]
    simp
  · rw [e, hm]
    rw [hm] at hl
    unfold pad32
    rw [if_pos (Or.inl hl)]
    congr 1
    exact pad32_aux (b :: bs) 32 hl

/-! ### `DERSignature.deserialize` on strict DER -/

theorem serRead_one (b : UInt8) (rest : Bytes) : Model.Wire.serRead 1 (b :: rest) = .ok ([b], rest) := by
  simp [Model.Wire.serRead, Model.Wire.MAX_SIZE]

theorem deBytes_short (body rest : Bytes) (h : body.length < 0xfd) :
    Model.Wire.deBytes (UInt8.ofNat body.length :: (body ++ rest)) = .ok (body, rest) := by
  have hl : (UInt8.ofNat body.length).toNat = body.length := toNat_ofNat_lt (by omega)
  have hm : ¬ body.length > Model.Wire.MAX_SIZE := by simp [Model.Wire.MAX_SIZE]; omega
  unfold Model.Wire.deBytes Model.Wire.deVarInt
  rw [serRead_one]
  simp only [bind, Except.bind, leNat, hl, Nat.mul_zero, Nat.add_zero, h, if_true, pure, Except.pure]
  unfold Model.Wire.serRead
  simp [hm]

/-- `DERSignature.deserialize` returns the content octets of r and s of a strict DER signature -/
theorem derSigDeserialize_derEncode (r s : Nat) (hl : (derIntBody r).length + (derIntBody s).length ≤ 123) :
    derSigDeserialize (derEncode r s) = .ok (derIntBody r, derIntBody s) := by
  have e : derEncode r s = 0x30 :: UInt8.ofNat (derInt r ++ derInt s).length :: ((derInt r ++ derInt s) ++ []) := by
    simp [derEncode]
  have hc : (derInt r ++ derInt s).length < 0xfd := by simp [derInt]; omega
  have e1 : derInt r ++ derInt s = 0x02 :: UInt8.ofNat (derIntBody r).length :: (derIntBody r ++ derInt s) := by
    simp [derInt]
  have e2 : derInt s = 0x02 :: UInt8.ofNat (derIntBody s).length :: (derIntBody s ++ []) := by
    simp [derInt]
  unfold derSigDeserialize
  rw [e, serRead_one]
  simp only [bind, Except.bind, ne_eq, not_true_eq_false, if_false]
  rw [deBytes_short _ _ hc]
  simp only []
  rw [e1, serRead_one]
  simp only [not_true_eq_false, if_false]
  rw [deBytes_short _ _ (by omega)]
  simp only []
  rw [e2, serRead_one]
  simp only [not_true_eq_false, if_false]
  rw [deBytes_short _ _ (by omega)]
  simp [pure, Except.pure]

end BtcVerif
