/-
  C09 helper lemmas, part 9: simulation of the observation operations.
-/
import BtcVerif.Proofs.HeapRel

namespace BtcVerif.Model.Heap
open BtcVerif BtcVerif.Spec.ValueSem

/-- one step of the heap model is matched by one step of the value store -/
def Sim (s : St) (sp : Store) (op : Op) : Prop :=
  Inv (step s op).1 ∧ Rel (step s op).1 (Spec.ValueSem.step sp op).1 ∧
    (step s op).2 = (Spec.ValueSem.step sp op).2

theorem TInfo.isSeq_eq {s : St} {sp : Store} {tg : Target} {x : Addr} (I : TInfo s sp tg x) :
    I.o.sc.isSeq = I.vx.isSeq := by
  rw [← I.hosc]; exact (decode_alwaysImm I.hdx).2.symm

/-- observation through `observeAt` / `observe` -/
theorem sim_observe {s : St} {sp : Store} (hinv : Inv s) (hrel : Rel s sp) (tg : Target)
    (fm : Addr → Obj → Val → St × Out) (fs : Val → Out)
    (hf : ∀ (x : Addr) (I : TInfo s sp tg x), I.vx.isSeq = false →
      Inv (fm x I.o I.vx).1 ∧ Rel (fm x I.o I.vx).1 (Spec.ValueSem.bind sp none) ∧ (fm x I.o I.vx).2 = fs I.vx) :
    Inv (observeAt s tg fm).1 ∧ Rel (observeAt s tg fm).1 (observe sp tg fs).1 ∧
      (observeAt s tg fm).2 = (observe sp tg fs).2 := by
  simp only [observeAt, observe]
  cases ht : s.target tg with
  | none =>
    rw [target_none hinv hrel ht]
    exact ⟨inv_skip hinv, rel_skip hrel, rfl⟩
  | some x =>
    obtain ⟨I⟩ := target_some hinv hrel ht
    simp only [I.ho, I.habs, I.hlook, I.isSeq_eq]
    cases hseq : I.vx.isSeq with
    | true => exact ⟨inv_skip hinv, rel_skip hrel, by simp⟩
    | false =>
      have := hf x I hseq
      simpa using this

theorem sim_ser {s : St} {sp : Store} (hinv : Inv s) (hrel : Rel s sp) (tg : Target) :
    Sim s sp (.ser tg) := by
  simp only [Sim, step, Spec.ValueSem.step]
  exact sim_observe hinv hrel tg _ _ (fun x I _ => ⟨inv_skip hinv, rel_skip hrel, rfl⟩)

theorem sim_txid {s : St} {sp : Store} (hinv : Inv s) (hrel : Rel s sp) (tg : Target) :
    Sim s sp (.txid tg) := by
  simp only [Sim, step, Spec.ValueSem.step]
  apply sim_observe hinv hrel tg
  intro x I _
  cases I.vx <;> exact ⟨inv_skip hinv, rel_skip hrel, rfl⟩

theorem sim_getHash {s : St} {sp : Store} (hinv : Inv s) (hrel : Rel s sp) (tg : Target) :
    Sim s sp (.getHash tg) := by
  simp only [Sim, step, Spec.ValueSem.step]
  apply sim_observe hinv hrel tg
  intro x I _
  simp only [getHashAt, I.ho, I.habs, Option.bind_eq_bind, Option.bind_some]
  by_cases hm : I.o.isMut = true
  · simp only [hm, if_true]
    exact ⟨inv_skip hinv, rel_skip hrel, rfl⟩
  · have hm' : I.o.isMut = false := by simpa using hm
    obtain ⟨c1, c2⟩ := hinv.cacheOK x I.o I.ho hm'
    simp only [hm', Bool.false_eq_true, if_false]
    cases hc : I.o.cHash with
    | some c =>
      obtain ⟨v, hv, hi⟩ := c1 c hc
      rw [I.habs] at hv; cases hv
      simp only [pure, hi]
      exact ⟨inv_skip hinv, rel_skip hrel, trivial⟩
    | none =>
      cases hid : identOf I.vx with
      | error err =>
        simp only [pure]
        exact ⟨inv_skip hinv, rel_skip hrel, trivial⟩
      | ok c =>
        simp only [pure]
        refine ⟨?_, ?_, trivial⟩
        · refine inv_set_same (o' := { isMut := false, sc := I.o.sc, refs := I.o.refs, cHash := some c, cPy := I.o.cPy }) hinv I.ho hm'.symm rfl rfl ?_
          intro _
          refine ⟨fun c' hc' => ?_, fun c' hc' => ?_⟩
          · simp only [Option.some.injEq] at hc'; subst hc'; exact ⟨I.vx, I.habs, hid⟩
          · exact c2 c' hc'
        · exact rel_set_same (o' := { isMut := false, sc := I.o.sc, refs := I.o.refs, cHash := some c, cPy := I.o.cPy }) hrel I.ho hm'.symm rfl rfl

theorem sim_pyHash {s : St} {sp : Store} (hinv : Inv s) (hrel : Rel s sp) (tg : Target) :
    Sim s sp (.pyHash tg) := by
  simp only [Sim, step, Spec.ValueSem.step]
  apply sim_observe hinv hrel tg
  intro x I _
  simp only [pyHashAt, I.ho, I.habs, Option.bind_eq_bind, Option.bind_some]
  by_cases hm : I.o.isMut = true
  · simp only [hm, if_true]
    exact ⟨inv_skip hinv, rel_skip hrel, rfl⟩
  · have hm' : I.o.isMut = false := by simpa using hm
    obtain ⟨c1, c2⟩ := hinv.cacheOK x I.o I.ho hm'
    simp only [hm', Bool.false_eq_true, if_false]
    cases hc : I.o.cPy with
    | some c =>
      obtain ⟨v, hv, hi⟩ := c2 c hc
      rw [I.habs] at hv; cases hv
      simp only [pure, hi]
      exact ⟨inv_skip hinv, rel_skip hrel, trivial⟩
    | none =>
      cases hid : pyHashOf I.vx with
      | error err =>
        simp only [pure]
        exact ⟨inv_skip hinv, rel_skip hrel, trivial⟩
      | ok c =>
        simp only [pure]
        refine ⟨?_, ?_, trivial⟩
        · refine inv_set_same (o' := { isMut := false, sc := I.o.sc, refs := I.o.refs, cHash := I.o.cHash, cPy := some c }) hinv I.ho hm'.symm rfl rfl ?_
          intro _
          refine ⟨fun c' hc' => ?_, fun c' hc' => ?_⟩
          · exact c1 c' hc'
          · simp only [Option.some.injEq] at hc'; subst hc'; exact ⟨I.vx, I.habs, hid⟩
        · exact rel_set_same (o' := { isMut := false, sc := I.o.sc, refs := I.o.refs, cHash := I.o.cHash, cPy := some c }) hrel I.ho hm'.symm rfl rfl

theorem sim_delAttr {s : St} {sp : Store} (hinv : Inv s) (hrel : Rel s sp) (tg : Target) :
    Sim s sp (.delAttr tg) := by
  simp only [Sim, step, Spec.ValueSem.step]
  cases ht : s.target tg with
  | none =>
    rw [target_none hinv hrel ht]
    exact ⟨inv_skip hinv, rel_skip hrel, rfl⟩
  | some x =>
    obtain ⟨I⟩ := target_some hinv hrel ht
    simp only [I.ho, I.hlook, I.isSeq_eq, I.hom]
    cases I.vx.isSeq <;> cases I.o.isMut <;> exact ⟨inv_skip hinv, rel_skip hrel, rfl⟩

theorem sim_eq {s : St} {sp : Store} (hinv : Inv s) (hrel : Rel s sp) (ta tb : Target) :
    Sim s sp (.eq ta tb) := by
  simp only [Sim, step, Spec.ValueSem.step]
  cases ha : s.target ta with
  | none =>
    rw [target_none hinv hrel ha]
    exact ⟨inv_skip hinv, rel_skip hrel, rfl⟩
  | some x =>
    obtain ⟨I⟩ := target_some hinv hrel ha
    cases hb : s.target tb with
    | none =>
      rw [target_none hinv hrel hb, I.hlook]
      exact ⟨inv_skip hinv, rel_skip hrel, rfl⟩
    | some y =>
      obtain ⟨J⟩ := target_some hinv hrel hb
      simp only [I.ho, I.habs, I.hlook, J.ho, J.habs, J.hlook, I.isSeq_eq, J.isSeq_eq, I.hom, J.hom]
      cases (I.vx.isSeq || J.vx.isSeq) <;> exact ⟨inv_skip hinv, rel_skip hrel, rfl⟩

/-- the kind of a root decides whether it is a transaction, on both sides alike -/
theorem root_tx_sim {s : St} {sp : Store} (hinv : Inv s) (hrel : Rel s sp) (r : Nat) :
    (s.root r = none ∧ (sp[r]?).join = none) ∨
    (∃ a e t, s.root r = some a ∧ (sp[r]?).join = some e ∧ unfoldA D s.heap a = some t ∧
      decode t = some e.val ∧ t.isMut = e.isMut ∧ flagsOK t.isMut t ∧ absVal s.heap a = some e.val) := by
  have hr := hrel.2 r
  cases hroot : s.root r with
  | none =>
    cases hentry : (sp[r]?).join with
    | none => exact Or.inl ⟨rfl, rfl⟩
    | some e => simp [hroot, hentry, RelAt] at hr
  | some a =>
    cases hentry : (sp[r]?).join with
    | none => simp [hroot, hentry, RelAt] at hr
    | some e =>
      simp only [hroot, hentry, RelAt] at hr
      obtain ⟨t, hu, hd, hm⟩ := hr
      obtain ⟨t0, v0, hu0, _, hf0⟩ := hinv.roots r a hroot
      rw [hu] at hu0; cases hu0
      exact Or.inr ⟨a, e, t, rfl, rfl, hu, hd, hm, hf0, by simp [absVal, hu, hd]⟩

theorem sim_sighashW {s : St} {sp : Store} (hinv : Inv s) (hrel : Rel s sp) (r i ht : Nat) :
    Sim s sp (.sighashW r i ht) := by
  simp only [Sim, step, Spec.ValueSem.step, lookupTx]
  rcases root_tx_sim hinv hrel r with ⟨h1, h2⟩ | ⟨a, e, t, h1, h2, _, _, _, _, habs⟩
  · simp only [h1, h2]
    exact ⟨inv_skip hinv, rel_skip hrel, rfl⟩
  · simp only [h1, h2, habs]
    cases e.val <;> exact ⟨inv_skip hinv, rel_skip hrel, rfl⟩

end BtcVerif.Model.Heap
