/-
  C09, extended catalogue, part 4: every operation except `sighash`/`verify` preserves `InvX`
  (those two are in part 5).
-/
import BtcVerif.Proofs.HeapX3

namespace BtcVerif.Model.Heap
open BtcVerif BtcVerif.Spec.ValueSem BtcVerif.Spec.AliasSem BtcVerif.Model.HeapX

theorem invx_alloc_write {h : Heap} (hinv : InvX h) {p : Plan} (hg : GoodX h p) {x : Addr} {ox : Obj}
    (hox : h[x]? = some ox) (hmx : ox.isMut = true) {o' : Obj} (hm' : o'.isMut = true)
    (hk' : o'.sc.kind = ox.sc.kind) (ht' : TypedObj (allocPlan h p).1 o') :
    TrX h ((allocPlan h p).1.set x o') := by
  obtain ⟨t1, ⟨e, he⟩, _⟩ := trx_alloc hinv hg
  exact t1.trans (trx_write t1.inv (by rw [he]; exact getElem?_append_of_some e hox) hmx hm' hk' ht')

theorem applySc_kind {f : Field} {sc sc' : Scalars} (h : applySc f sc = some sc') : sc'.kind = sc.kind := by
  cases f <;> cases sc <;> simp [applySc] at h <;> subst h <;> rfl

theorem kind_lt8_of_notSeq {sc : Scalars} (h : sc.isSeq = false) : sc.kind ≠ 10 := by
  cases sc with
  | seq k => simp [Scalars.isSeq] at h
  | _ => simp [Scalars.kind]

theorem getElem?_of_kindAt {h : Heap} {a : Addr} {k : Nat} (hk : kindAt h a = some k) : a < h.length := by
  obtain ⟨o, ho, _⟩ := kindAt_some hk
  exact (List.getElem?_eq_some_iff.mp ho).1

/-- typing of an object whose references are given with their classes -/
theorem typedObj_mk {h : Heap} {o : Obj} {ks : List Nat} (h1 : mapO (kindAt h) o.refs = some ks)
    (h2 : refKindsK o.sc.kind ks) : TypedObj h o := ⟨ks, h1, h2⟩

theorem pyHashAt_cases {h h' : Heap} {x : Addr} {r : BtcVerif.Res Bytes} (hg : pyHashAt h x = some (h', r)) :
    h' = h ∨ ∃ (o : Obj) (c : Bytes) (v : Val), h[x]? = some o ∧ o.isMut = false ∧ absVal h x = some v ∧
      pyHashOf v = .ok c ∧ h' = h.set x { o with cPy := some c } := by
  simp only [pyHashAt, Option.bind_eq_bind] at hg
  cases ho : h[x]? with
  | none => simp [ho] at hg
  | some o =>
    cases hv : absVal h x with
    | none => simp [ho, hv] at hg
    | some v =>
      simp only [ho, hv, Option.bind_some] at hg
      by_cases hm : o.isMut = true
      · simp only [hm, if_true, pure, Option.some.injEq, Prod.mk.injEq] at hg
        exact Or.inl hg.1.symm
      · have hm' : o.isMut = false := by simpa using hm
        simp only [hm', Bool.false_eq_true, if_false] at hg
        cases hc : o.cPy with
        | some c =>
          simp only [hc, pure, Option.some.injEq, Prod.mk.injEq] at hg
          exact Or.inl hg.1.symm
        | none =>
          simp only [hc] at hg
          cases hid : pyHashOf v with
          | error err =>
            simp only [hid, pure, Option.some.injEq, Prod.mk.injEq] at hg
            exact Or.inl hg.1.symm
          | ok c =>
            simp only [hid, pure, Option.some.injEq, Prod.mk.injEq] at hg
            have hobj : ({ o with cPy := some c } : Obj) =
                { isMut := false, sc := o.sc, refs := o.refs, cHash := o.cHash, cPy := some c } := by
              rw [← hm']
            exact Or.inr ⟨o, c, v, rfl, hm', rfl, hid, by rw [hobj]; exact hg.1.symm⟩

theorem invx_getHashAt {h h' : Heap} (hinv : InvX h) {x : Addr} {r : BtcVerif.Res Bytes}
    (hg : getHashAt h x = some (h', r)) : TrX h h' ∧ (∀ c, kindAt h' c = kindAt h c) ∧
      (∀ (c : Addr) (o : Obj), h[c]? = some o → ∃ o' : Obj, h'[c]? = some o' ∧ o'.isMut = o.isMut) := by
  rcases getHashAt_cases hg with rfl | ⟨o, c, v, ho, hm, hv, hid, rfl⟩
  · exact ⟨TrX.refl hinv, fun _ => rfl, fun c o ho => ⟨o, ho, rfl⟩⟩
  · refine ⟨trx_same hinv (o' := { o with cHash := some c }) ho rfl rfl rfl (fun _ =>
      ⟨fun c' hc' => by simp only [Option.some.injEq] at hc'; subst hc'; exact ⟨v, hv, hid⟩,
       fun c' hc' => (hinv.cacheOK x o ho hm).2 c' hc'⟩), kindAt_set_same ho rfl, ?_⟩
    intro c2 oc hoc
    by_cases hcx : c2 = x
    · subst hcx; rw [ho] at hoc; cases hoc
      exact ⟨{ o with cHash := some c }, by simp [List.getElem?_set_self (List.getElem?_eq_some_iff.mp ho).1], rfl⟩
    · exact ⟨oc, by rw [List.getElem?_set_ne (fun e => hcx e.symm)]; exact hoc, rfl⟩

theorem invx_fillHashes {h : Heap} (hinv : InvX h) : ∀ (addrs : List Addr),
    TrX h (fillHashes h addrs) ∧ (∀ c, kindAt (fillHashes h addrs) c = kindAt h c) ∧
      (∀ (c : Addr) (o : Obj), h[c]? = some o → ∃ o' : Obj, (fillHashes h addrs)[c]? = some o' ∧ o'.isMut = o.isMut) := by
  intro addrs
  induction addrs generalizing h with
  | nil => exact ⟨TrX.refl hinv, fun _ => rfl, fun c o ho => ⟨o, ho, rfl⟩⟩
  | cons a as ih =>
    simp only [fillHashes]
    cases hg : getHashAt h a with
    | none => exact ih hinv
    | some pr =>
      obtain ⟨h', r⟩ := pr
      obtain ⟨i1, i2, i3⟩ := invx_getHashAt hinv hg
      obtain ⟨j1, j2, j3⟩ := ih i1.inv
      refine ⟨i1.trans j1, fun c => by rw [j2, i2], ?_⟩
      intro c o ho
      obtain ⟨o1, ho1, hm1⟩ := i3 c o ho
      obtain ⟨o2, ho2, hm2⟩ := j3 c o1 ho1
      exact ⟨o2, ho2, by rw [hm2, hm1]⟩

/-- the address of a transaction (as `entryAt` accepts it) holds an object of class 5 -/
theorem entryAt_kind {h : Heap} {a : Addr} {et : Entry × Tx} (he : entryAt h a = some et) : kindAt h a = some 5 := by
  simp only [entryAt] at he
  cases ho : h[a]? with
  | none => simp [ho] at he
  | some o =>
    cases hv : absVal h a with
    | none => simp [ho, hv] at he
    | some v =>
      simp only [absVal] at hv
      cases hu : unfoldA D h a with
      | none => simp [hu] at hv
      | some t =>
        simp only [hu, Option.bind_some] at hv
        have hk := decode_kind hv
        have hu0 := hu
        rw [D_eq] at hu
        obtain ⟨o2, kids, ho2, _, rfl⟩ := unfoldA_succ hu
        rw [ho] at ho2; cases ho2
        cases v <;> simp [ho, absVal, hu0, hv] at he
        simp only [kindAt, ho, Option.map_some]
        exact congrArg some hk.symm

/-- `tx.<vin|vout|wit> = <freshly allocated part>` -/
theorem invx_setTxRef {h : Heap} (hinv : InvX h) {a : Addr} {o : Obj} {vi vo w : Addr}
    (hp : txParts h a = some (o, vi, vo, w)) (hm : o.isMut = true) {p : Plan} (hg : GoodX h p)
    (j k : Nat) (hk : rootKindP h p = some k) (hj : [8, 9, 4][j]? = some k) {h2 : Heap}
    (hs : setRef (allocPlan h p).1 a j (allocPlan h p).2 = some h2) : TrX h h2 := by
  obtain ⟨ho, hk5, hrefs, k1, k2, k3⟩ := txParts_kinds hinv.typed hp
  obtain ⟨t1, ⟨e, he⟩, hkr⟩ := trx_alloc hinv hg
  have hi1 := t1.inv
  have ho1 : (allocPlan h p).1[a]? = some o := by rw [he]; exact getElem?_append_of_some e ho
  simp only [setRef, ho1] at hs
  split at hs
  · rename_i hlt
    cases hs
    have hcur : ∃ cur, o.refs[j]? = some cur ∧ kindAt h cur = some k := by
      rw [hrefs]
      match j, hj with
      | 0, hj => simp at hj; exact ⟨vi, rfl, by rw [← hj]; exact k1⟩
      | 1, hj => simp at hj; exact ⟨vo, rfl, by rw [← hj]; exact k2⟩
      | 2, hj => simp at hj; exact ⟨w, rfl, by rw [← hj]; exact k3⟩
    obtain ⟨cur, hc1, hc2⟩ := hcur
    refine t1.trans (trx_write hi1 ho1 hm
      (o' := { o with refs := o.refs.set j (allocPlan h p).2 }) hm rfl ?_)
    apply typed_setSlot (hi1.typed a o ho1) hc1
    rw [hkr k hk, he, kindAt_append_some e hc2]
  · cases hs

theorem invx_listAppendFresh {h : Heap} (hinv : InvX h) {l : Addr} {lo : Obj} (hlo : h[l]? = some lo)
    (hm : lo.isMut = true) {ek : Nat} (he : elemKind lo.sc.kind = some ek) {p : Plan} (hg : GoodX h p)
    (hk : rootKindP h p = some ek) :
    TrX h ((allocPlan h p).1.set l { isMut := true, sc := lo.sc, refs := lo.refs ++ [(allocPlan h p).2], cHash := lo.cHash, cPy := lo.cPy }) := by
  obtain ⟨t1, ⟨e, hee⟩, hkr⟩ := trx_alloc hinv hg
  have hi1 := t1.inv
  have hlo1 : (allocPlan h p).1[l]? = some lo := by rw [hee]; exact getElem?_append_of_some e hlo
  exact t1.trans (trx_write hi1 hlo1 hm (o' := { isMut := true, sc := lo.sc, refs := lo.refs ++ [(allocPlan h p).2], cHash := lo.cHash, cPy := lo.cPy }) rfl rfl
    (typed_listAppend (hi1.typed l lo hlo1) he (hkr ek hk)))

theorem invx_listSetFresh {h : Heap} (hinv : InvX h) {l : Addr} {lo : Obj} (hlo : h[l]? = some lo)
    (hm : lo.isMut = true) {ek : Nat} (he : elemKind lo.sc.kind = some ek) {p : Plan} (hg : GoodX h p)
    (hk : rootKindP h p = some ek) (i : Nat) :
    TrX h ((allocPlan h p).1.set l { isMut := true, sc := lo.sc, refs := lo.refs.set i (allocPlan h p).2, cHash := lo.cHash, cPy := lo.cPy }) := by
  obtain ⟨t1, ⟨e, hee⟩, hkr⟩ := trx_alloc hinv hg
  have hi1 := t1.inv
  have hlo1 : (allocPlan h p).1[l]? = some lo := by rw [hee]; exact getElem?_append_of_some e hlo
  exact t1.trans (trx_write hi1 hlo1 hm (o' := { isMut := true, sc := lo.sc, refs := lo.refs.set i (allocPlan h p).2, cHash := lo.cHash, cPy := lo.cPy }) rfl rfl
    (typed_listSet (hi1.typed l lo hlo1) he i (hkr ek hk)))

theorem invx_base_core {s : St} (hinv : InvX s.heap) : ∀ (op : Op), coreOp op = true ∨ (∃ h t, op = .newBlock h t) →
    TrX s.heap (Model.Heap.step s op).1.heap
  | .newTx v, _ => by
    simp only [Model.Heap.step]
    split
    · exact (trx_alloc hinv (goodX_planTx true v (goodX_planWit _ _) rfl rfl)).1
    · exact TrX.refl hinv
  | .newCTx v, _ => by
    simp only [Model.Heap.step]
    split
    · split
      · obtain ⟨o0, o1, _, _, _, _, h1, b1, b2, _⟩ := hinv.defaults
        refine (trx_alloc hinv (goodX_planTx false v (wp := .ref defaultWit) ?_ ⟨o1, h1, b1⟩ ?_)).1
        · exact (List.getElem?_eq_some_iff.mp h1).1
        · simp [rootKindP, kindAt, h1, b2, Scalars.kind]
      · exact (trx_alloc hinv (goodX_planTx false v (goodX_planWit _ _) rfl rfl)).1
    · exact TrX.refl hinv
  | .newHeader v, _ => by
    simp only [Model.Heap.step]
    split
    · have : GoodX s.heap (.node false (.header v) []) :=
        ⟨fun _ => rfl, fun _ k hk => by simp at hk, ⟨[], rfl, rfl⟩, trivial⟩
      exact (trx_alloc hinv this).1
    · exact TrX.refl hinv
  | .newBlock hdr txs, _ => by
    simp only [Model.Heap.step]
    cases h1 : mapO s.root txs with
    | none => exact TrX.refl hinv
    | some addrs =>
      simp only []
      cases h2 : mapO (entryAt s.heap) addrs with
      | none => exact TrX.refl hinv
      | some es =>
        simp only []
        cases h3 : newBlockVal hdr es with
        | error x => exact TrX.refl hinv
        | ok b =>
          simp only []
          obtain ⟨i1, i2, i3⟩ := invx_fillHashes hinv addrs
          cases h4 : mapO (planClone false txFuel (fillHashes s.heap addrs)) addrs with
          | none => exact TrX.refl hinv
          | some plans =>
            simp only []
            have hpl : ∀ pl ∈ plans, GoodX (fillHashes s.heap addrs) pl ∧
                rootKindP (fillHashes s.heap addrs) pl = some 5 ∧ rootFrozenP (fillHashes s.heap addrs) pl := by
              intro pl hpl
              obtain ⟨a, ha, hpa⟩ := mapO_mem h4 hpl
              obtain ⟨g1, g2, g3⟩ := planClone_goodX i1.inv false hpa
              obtain ⟨et, _, het⟩ := mapO_mem' h2 ha
              exact ⟨g1, by rw [g2, i2, entryAt_kind het], g3 rfl⟩
            refine i1.trans (trx_alloc i1.inv ?_).1
            refine ⟨fun _ => rfl, ?_, ⟨[11], rfl, rfl⟩, ⟨fun _ => rfl, ?_, ⟨plans.map (fun _ => 5), ?_, ?_⟩, ?_⟩, trivial⟩
            · intro _ k hk; simp only [List.mem_singleton] at hk; subst hk; exact rfl
            · intro _ k hk; exact (hpl k hk).2.2
            · exact mapO_const _ 5 _ (fun p hp => (hpl p hp).2.1)
            · show refKindsK 11 _
              simp only [refKindsK]
              intro k hk; obtain ⟨_, _, rfl⟩ := List.mem_map.mp hk; rfl
            · rw [goodXL_iff]; exact fun p hp => (hpl p hp).1
  | .snapshot t, _ => by
    simp only [Model.Heap.step]
    (repeat' split) <;> first
      | exact TrX.refl hinv
      | (rename_i hp; exact (trx_alloc hinv (planClone_goodX hinv false hp).1).1)
  | .mutCopy t, _ => by
    simp only [Model.Heap.step]
    (repeat' split) <;> first
      | exact TrX.refl hinv
      | (rename_i hp; exact (trx_alloc hinv (planClone_goodX hinv true hp).1).1)
  | .assign t f, _ => by
    simp only [Model.Heap.step]
    cases ht : s.target t with
    | none => exact TrX.refl hinv
    | some x =>
      simp only []
      cases ho : s.heap[x]? with
      | none => exact TrX.refl hinv
      | some o =>
        simp only []
        by_cases hs : o.sc.isSeq = true
        · simp only [hs, if_true]; exact TrX.refl hinv
        · have hs' : o.sc.isSeq = false := by simpa using hs
          simp only [hs', Bool.false_eq_true, if_false, assignAt, ho]
          by_cases hm : o.isMut = true
          · simp only [hm, Bool.not_true, Bool.false_eq_true, if_false]
            cases hap : applySc f o.sc with
            | none => exact TrX.refl hinv
            | some sc' =>
              have hk := applySc_kind hap
              obtain ⟨ks, hks, hok⟩ := hinv.typed x o ho
              exact trx_write hinv ho hm
                (o' := { isMut := true, sc := sc', refs := o.refs, cHash := o.cHash, cPy := o.cPy }) rfl hk
                ⟨ks, hks, by simp only [refKindsOK, hk]; exact hok⟩
          · have hm' : o.isMut = false := by simpa using hm
            simp only [hm', Bool.not_false, if_true]; exact TrX.refl hinv
  | .delAttr t, _ => by simp only [Model.Heap.step]; (repeat' split) <;> exact TrX.refl hinv
  | .ser t, _ => by simp only [Model.Heap.step, observeAt]; (repeat' split) <;> exact TrX.refl hinv
  | .txid t, _ => by simp only [Model.Heap.step, observeAt]; (repeat' split) <;> exact TrX.refl hinv
  | .eq a b, _ => by simp only [Model.Heap.step]; (repeat' split) <;> exact TrX.refl hinv
  | .sighashW r i ht, _ => by simp only [Model.Heap.step]; (repeat' split) <;> exact TrX.refl hinv
  | .getHash t, _ => by
    simp only [Model.Heap.step, observeAt]
    (repeat' split) <;> first
      | exact TrX.refl hinv
      | (rename_i hg; exact (invx_getHashAt hinv hg).1)
  | .pyHash t, _ => by
    simp only [Model.Heap.step, observeAt]
    (repeat' split) <;> first
      | exact TrX.refl hinv
      | (rename_i hg
         rcases pyHashAt_cases hg with rfl | ⟨o, c, v, ho, hm, hv, hid, rfl⟩
         · exact TrX.refl hinv
         · exact trx_same hinv (o' := { o with cPy := some c }) ho rfl rfl rfl (fun _ =>
             ⟨fun c' hc' => (hinv.cacheOK _ o ho hm).1 c' hc',
              fun c' hc' => by simp only [Option.some.injEq] at hc'; subst hc'; exact ⟨v, hv, hid⟩⟩))
  | .sighash r sb i ht, h => by rcases h with h | ⟨_, _, h⟩ <;> simp [coreOp] at h
  | .verify r i c, h => by rcases h with h | ⟨_, _, h⟩ <;> simp [coreOp] at h
  | .setVin r l, _ => by
    simp only [Model.Heap.step, withTx]
    cases hr : s.root r with
    | none => exact TrX.refl hinv
    | some a =>
      simp only []
      cases hp : txParts s.heap a with
      | none => exact TrX.refl hinv
      | some pr =>
        obtain ⟨o, vi, vo, w⟩ := pr
        simp only []
        cases hv : l.all validTxIn with
        | false => exact TrX.refl hinv
        | true =>
          cases hm : o.isMut with
          | false => exact TrX.refl hinv
          | true =>
            simp only [Bool.not_true, Bool.false_eq_true, if_false]
            cases hset : setRef (allocPlan s.heap (planIns true l)).1 a 0 (allocPlan s.heap (planIns true l)).2 with
            | none => exact TrX.refl hinv
            | some h2 => exact invx_setTxRef hinv hp hm (goodX_planIns s.heap true l) 0 8 rfl rfl hset
  | .setVout r l, _ => by
    simp only [Model.Heap.step, withTx]
    cases hr : s.root r with
    | none => exact TrX.refl hinv
    | some a =>
      simp only []
      cases hp : txParts s.heap a with
      | none => exact TrX.refl hinv
      | some pr =>
        obtain ⟨o, vi, vo, w⟩ := pr
        simp only []
        cases hm : o.isMut with
        | false => exact TrX.refl hinv
        | true =>
          simp only [Bool.not_true, Bool.false_eq_true, if_false]
          cases hset : setRef (allocPlan s.heap (planOuts true l)).1 a 1 (allocPlan s.heap (planOuts true l)).2 with
          | none => exact TrX.refl hinv
          | some h2 => exact invx_setTxRef hinv hp hm (goodX_planOuts s.heap true l) 1 9 rfl rfl hset
  | .setWit r wl, _ => by
    simp only [Model.Heap.step, withTx]
    cases hr : s.root r with
    | none => exact TrX.refl hinv
    | some a =>
      simp only []
      cases hp : txParts s.heap a with
      | none => exact TrX.refl hinv
      | some pr =>
        obtain ⟨o, vi, vo, w⟩ := pr
        simp only []
        cases hm : o.isMut with
        | false => exact TrX.refl hinv
        | true =>
          simp only [Bool.not_true, Bool.false_eq_true, if_false]
          cases hset : setRef (allocPlan s.heap (planWit wl)).1 a 2 (allocPlan s.heap (planWit wl)).2 with
          | none => exact TrX.refl hinv
          | some h2 => exact invx_setTxRef hinv hp hm (goodX_planWit s.heap wl) 2 4 rfl rfl hset
  | .appendIn r v, _ => by
    simp only [Model.Heap.step, withTx]
    cases hr : s.root r with
    | none => exact TrX.refl hinv
    | some a =>
      simp only []
      cases hp : txParts s.heap a with
      | none => exact TrX.refl hinv
      | some pr =>
        obtain ⟨o, vi, vo, w⟩ := pr
        obtain ⟨ho, hk5, hrefs, k1, k2, k3⟩ := txParts_kinds hinv.typed hp
        simp only []
        cases hlo : s.heap[vi]? with
        | none => exact TrX.refl hinv
        | some lo =>
          simp only []
          cases hm : lo.isMut with
          | false => exact TrX.refl hinv
          | true =>
            simp only [Bool.not_true, Bool.false_eq_true, if_false]
            cases hv : validTxIn v with
            | false => exact TrX.refl hinv
            | true =>
              simp only [Bool.not_true, Bool.false_eq_true, if_false]
              have hkl : lo.sc.kind = 8 := by simpa [kindAt, hlo] using k1
              exact invx_listAppendFresh hinv hlo hm (by rw [hkl]; rfl) (goodX_planTxIn s.heap true v) rfl
  | .replaceIn r i v, _ => by
    simp only [Model.Heap.step, withTx]
    cases hr : s.root r with
    | none => exact TrX.refl hinv
    | some a =>
      simp only []
      cases hp : txParts s.heap a with
      | none => exact TrX.refl hinv
      | some pr =>
        obtain ⟨o, vi, vo, w⟩ := pr
        obtain ⟨ho, hk5, hrefs, k1, k2, k3⟩ := txParts_kinds hinv.typed hp
        simp only []
        cases hv : validTxIn v with
        | false => exact TrX.refl hinv
        | true =>
          simp only [Bool.not_true, Bool.false_eq_true, if_false]
          cases hlo : s.heap[vi]? with
          | none => exact TrX.refl hinv
          | some lo =>
            simp only []
            cases hm : lo.isMut with
            | false => exact TrX.refl hinv
            | true =>
              simp only [Bool.not_true, Bool.false_eq_true, if_false]
              by_cases hi : i < lo.refs.length
              · simp only [hi, if_true]
                have hkl : lo.sc.kind = 8 := by simpa [kindAt, hlo] using k1
                exact invx_listSetFresh hinv hlo hm (by rw [hkl]; rfl) (goodX_planTxIn s.heap true v) rfl i
              · simp only [hi, if_false]; exact TrX.refl hinv
  | .removeIn r i, _ => by
    simp only [Model.Heap.step, withTx, withList]
    cases hr : s.root r with
    | none => exact TrX.refl hinv
    | some a =>
      simp only []
      cases hp : txParts s.heap a with
      | none => exact TrX.refl hinv
      | some pr =>
        obtain ⟨o, vi, vo, w⟩ := pr
        obtain ⟨ho, hk5, hrefs, k1, k2, k3⟩ := txParts_kinds hinv.typed hp
        simp only []
        cases hlo : s.heap[vi]? with
        | none => exact TrX.refl hinv
        | some lo =>
          simp only []
          cases hm : lo.isMut with
          | false => exact TrX.refl hinv
          | true =>
            simp only [Bool.not_true, Bool.false_eq_true, if_false]
            have hkl : lo.sc.kind = 8 := by simpa [kindAt, hlo] using k1
            by_cases hi : i < lo.refs.length
            · simp only [hi, if_true]
              exact trx_write hinv hlo hm
                (o' := { isMut := true, sc := lo.sc, refs := lo.refs.eraseIdx i, cHash := lo.cHash, cPy := lo.cPy })
                rfl rfl (typed_listErase (hinv.typed vi lo hlo) (by rw [hkl]; rfl) i)
            · simp only [hi, if_false]; exact TrX.refl hinv
  | .appendOut r v, _ => by
    simp only [Model.Heap.step, withTx]
    cases hr : s.root r with
    | none => exact TrX.refl hinv
    | some a =>
      simp only []
      cases hp : txParts s.heap a with
      | none => exact TrX.refl hinv
      | some pr =>
        obtain ⟨o, vi, vo, w⟩ := pr
        obtain ⟨ho, hk5, hrefs, k1, k2, k3⟩ := txParts_kinds hinv.typed hp
        simp only []
        cases hlo : s.heap[vo]? with
        | none => exact TrX.refl hinv
        | some lo =>
          simp only []
          cases hm : lo.isMut with
          | false => exact TrX.refl hinv
          | true =>
            simp only [Bool.not_true, Bool.false_eq_true, if_false]
            have hkl : lo.sc.kind = 9 := by simpa [kindAt, hlo] using k2
            exact invx_listAppendFresh hinv hlo hm (by rw [hkl]; rfl) (goodX_planTxOut s.heap true v) rfl
  | .replaceOut r i v, _ => by
    simp only [Model.Heap.step, withTx]
    cases hr : s.root r with
    | none => exact TrX.refl hinv
    | some a =>
      simp only []
      cases hp : txParts s.heap a with
      | none => exact TrX.refl hinv
      | some pr =>
        obtain ⟨o, vi, vo, w⟩ := pr
        obtain ⟨ho, hk5, hrefs, k1, k2, k3⟩ := txParts_kinds hinv.typed hp
        simp only []
        cases hlo : s.heap[vo]? with
        | none => exact TrX.refl hinv
        | some lo =>
          simp only []
          cases hm : lo.isMut with
          | false => exact TrX.refl hinv
          | true =>
            simp only [Bool.not_true, Bool.false_eq_true, if_false]
            by_cases hi : i < lo.refs.length
            · simp only [hi, if_true]
              have hkl : lo.sc.kind = 9 := by simpa [kindAt, hlo] using k2
              exact invx_listSetFresh hinv hlo hm (by rw [hkl]; rfl) (goodX_planTxOut s.heap true v) rfl i
            · simp only [hi, if_false]; exact TrX.refl hinv
  | .removeOut r i, _ => by
    simp only [Model.Heap.step, withTx, withList]
    cases hr : s.root r with
    | none => exact TrX.refl hinv
    | some a =>
      simp only []
      cases hp : txParts s.heap a with
      | none => exact TrX.refl hinv
      | some pr =>
        obtain ⟨o, vi, vo, w⟩ := pr
        obtain ⟨ho, hk5, hrefs, k1, k2, k3⟩ := txParts_kinds hinv.typed hp
        simp only []
        cases hlo : s.heap[vo]? with
        | none => exact TrX.refl hinv
        | some lo =>
          simp only []
          cases hm : lo.isMut with
          | false => exact TrX.refl hinv
          | true =>
            simp only [Bool.not_true, Bool.false_eq_true, if_false]
            have hkl : lo.sc.kind = 9 := by simpa [kindAt, hlo] using k2
            by_cases hi : i < lo.refs.length
            · simp only [hi, if_true]
              exact trx_write hinv hlo hm
                (o' := { isMut := true, sc := lo.sc, refs := lo.refs.eraseIdx i, cHash := lo.cHash, cPy := lo.cPy })
                rfl rfl (typed_listErase (hinv.typed vo lo hlo) (by rw [hkl]; rfl) i)
            · simp only [hi, if_false]; exact TrX.refl hinv

end BtcVerif.Model.Heap
