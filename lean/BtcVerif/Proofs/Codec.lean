/-
  Codec lemmas (DESIGN §5): parser soundness with the strict-prefix clause, closed under sequencing,
  count-prefixed vectors and length-prefixed byte strings, and for the primitives of
  bitcoin/core/serialize.py (`ser_read` with the MAX_SIZE guard, fixed-width `struct` ints,
  CompactSize).

  `Dec d e a` — "parser `d` decodes the byte string `e` to `a`":
     (1) on `e ++ rest` it returns `a` and leaves exactly `rest`          (prefix-free round trip)
     (2) on every strict prefix of `e` it reports truncation             (never another outcome)
  A codec `(enc, dec, WF)` is `Sound` when `WF a → Dec dec (enc a) a` for every `a`.

  The MAX_SIZE guard of `ser_read` fires *before* the data is looked at, so a length field above
  MAX_SIZE turns clause (2) into `sererr`; this is why every `WF` predicate bounds script and witness
  item lengths by MAX_SIZE (`dec_serRead`, `dec_deBytes` carry that hypothesis explicitly).
-/
import BtcVerif.Model.Wire
import BtcVerif.Spec.Wire

namespace BtcVerif.Codec
open BtcVerif BtcVerif.Model.Wire

/-- parser `d` decodes `e` to `a` (round trip with any continuation; every strict prefix truncates) -/
def Dec {α : Type} (d : Parser α) (e : Bytes) (a : α) : Prop :=
  (∀ rest, d (e ++ rest) = .ok (a, rest)) ∧ (∀ p, p <+: e → p ≠ e → d p = .error .trunc)

/-- soundness of a codec in the form of DESIGN §5 -/
structure Sound {α : Type} (enc : α → Bytes) (dec : Parser α) (WF : α → Prop) : Prop where
  roundtrip : ∀ a rest, WF a → dec (enc a ++ rest) = .ok (a, rest)
  prefix_trunc : ∀ a p, WF a → p <+: enc a → p ≠ enc a → dec p = .error .trunc

theorem sound_iff {α : Type} (enc : α → Bytes) (dec : Parser α) (WF : α → Prop) :
    Sound enc dec WF ↔ ∀ a, WF a → Dec dec (enc a) a :=
  ⟨fun h a wf => ⟨fun rest => h.roundtrip a rest wf, fun p hp hne => h.prefix_trunc a p wf hp hne⟩,
   fun h => ⟨fun a rest wf => (h a wf).1 rest, fun a p wf hp hne => (h a wf).2 p hp hne⟩⟩

theorem Dec.of_eq {α : Type} {d : Parser α} {e e' : Bytes} {a : α} (h : Dec d e a) (he : e = e') :
    Dec d e' a := he ▸ h

theorem Dec.exact {α : Type} {d : Parser α} {e : Bytes} {a : α} (h : Dec d e a) : d e = .ok (a, []) := by
  have := h.1 []
  simpa using this

/-- a strict prefix of `e₁ ++ e₂` is a strict prefix of `e₁`, or `e₁` followed by a strict prefix of `e₂` -/
theorem strict_prefix_append {p e₁ e₂ : Bytes} (hp : p <+: e₁ ++ e₂) (hne : p ≠ e₁ ++ e₂) :
    (p <+: e₁ ∧ p ≠ e₁) ∨ ∃ q, p = e₁ ++ q ∧ q <+: e₂ ∧ q ≠ e₂ := by
  rcases List.prefix_or_prefix_of_prefix hp (List.prefix_append e₁ e₂) with h | h
  · by_cases heq : p = e₁
    · right
      refine ⟨[], by simp [heq], List.nil_prefix, ?_⟩
      intro h2
      apply hne
      simp [heq, ← h2]
    · exact Or.inl ⟨h, heq⟩
  · right
    obtain ⟨q, rfl⟩ := h
    refine ⟨q, rfl, (List.prefix_append_right_inj e₁).1 hp, ?_⟩
    intro h2
    exact hne (by rw [h2])

/-- closure under (dependent) sequencing: `do let (a, r) ← d s; f (a, r)` -/
theorem Dec.bind {α β : Type} {d : Parser α} {f : α × Bytes → Res (β × Bytes)} {e₁ e₂ : Bytes}
    {a : α} {b : β} (h₁ : Dec d e₁ a) (h₂ : Dec (fun r => f (a, r)) e₂ b) :
    Dec (fun s => d s >>= f) (e₁ ++ e₂) b := by
  constructor
  · intro rest
    show d (e₁ ++ e₂ ++ rest) >>= f = _
    rw [List.append_assoc, h₁.1]
    exact h₂.1 rest
  · intro p hp hne
    show d p >>= f = _
    rcases strict_prefix_append hp hne with ⟨h, hn⟩ | ⟨q, rfl, hq, hqn⟩
    · rw [h₁.2 p h hn]; rfl
    · rw [h₁.1]
      exact h₂.2 q hq hqn

/-- last step of a sequence: the continuation only packages the result -/
theorem Dec.bind_last {α β : Type} {d : Parser α} {f : α × Bytes → Res (β × Bytes)} {e : Bytes}
    {a : α} {b : β} (h₁ : Dec d e a) (hf : ∀ r, f (a, r) = .ok (b, r)) :
    Dec (fun s => d s >>= f) e b := by
  constructor
  · intro rest
    show d (e ++ rest) >>= f = _
    rw [h₁.1]
    exact hf rest
  · intro p hp hne
    show d p >>= f = _
    rw [h₁.2 p hp hne]; rfl

theorem Dec.pure {α : Type} (a : α) : Dec (fun r => (Except.ok (a, r) : Res (α × Bytes))) [] a := by
  constructor
  · intro rest; rfl
  · intro p hp hne
    exact absurd (List.prefix_nil.1 hp) hne

/-! ### `ser_read` -/

theorem dec_serRead (bs : Bytes) (n : Nat) (hn : bs.length = n) (hmax : n ≤ MAX_SIZE) :
    Dec (serRead n) bs bs := by
  subst hn
  constructor
  · intro rest
    have h1 : ¬ bs.length > MAX_SIZE := by omega
    simp [serRead, h1]
  · intro p hp hne
    have h1 : ¬ bs.length > MAX_SIZE := by omega
    have hlen : p.length < bs.length := by
      have := hp.length_le
      rcases Nat.lt_or_ge p.length bs.length with h | h
      · exact h
      · exact absurd (hp.eq_of_length (by omega)) hne
    simp [serRead, h1, hlen]

/-- without the bound the round-trip clause fails: the guard answers `sererr` whatever follows -/
theorem serRead_guard (n : Nat) (s : Bytes) (h : n > MAX_SIZE) : serRead n s = .error .sererr := by
  simp [serRead, h]

/-! ### fixed-width integers (`struct.unpack('<B'|'<H'|'<I'|'<Q'|'<i'|'<q')`) -/

theorem pow256_le_maxSize {w : Nat} (h : w ≤ 8) : w ≤ MAX_SIZE := by
  unfold MAX_SIZE; omega

theorem dec_readU_bytes (w : Nat) (bs : Bytes) (hw : bs.length = w) (h8 : w ≤ 8) :
    Dec (readU w) bs (leNat bs) := by
  unfold readU
  exact Dec.bind_last (dec_serRead bs w hw (pow256_le_maxSize h8)) (fun r => rfl)

theorem dec_readU (w n : Nat) (h8 : w ≤ 8) (hn : n < 256 ^ w) : Dec (readU w) (leBytes w n) n := by
  have := dec_readU_bytes w (leBytes w n) (leBytes_length w n) h8
  rwa [leNat_leBytes, Nat.mod_eq_of_lt hn] at this

theorem dec_readI_bytes (w : Nat) (bs : Bytes) (hw : bs.length = w) (h8 : w ≤ 8) :
    Dec (readI w) bs (leInt bs) := by
  unfold readI
  exact Dec.bind_last (dec_serRead bs w hw (pow256_le_maxSize h8)) (fun r => rfl)

theorem leInt_leBytesInt4 (i : Int) (h1 : -(2 ^ 31 : Int) ≤ i) (h2 : i < 2 ^ 31) :
    leInt (leBytesInt 4 i) = i := by
  unfold leInt leBytesInt
  simp only [leBytes_length, leNat_leBytes]
  have hp : (256 ^ 4 : Nat) = 4294967296 := by decide
  rw [hp]
  split <;> omega

theorem leInt_leBytesInt8 (i : Int) (h1 : -(2 ^ 63 : Int) ≤ i) (h2 : i < 2 ^ 63) :
    leInt (leBytesInt 8 i) = i := by
  unfold leInt leBytesInt
  simp only [leBytes_length, leNat_leBytes]
  have hp : (256 ^ 8 : Nat) = 18446744073709551616 := by decide
  rw [hp]
  split <;> omega

theorem leBytesInt_length (w : Nat) (i : Int) : (leBytesInt w i).length = w := by
  simp [leBytesInt]

theorem dec_readI4 (i : Int) (h1 : -(2 ^ 31 : Int) ≤ i) (h2 : i < 2 ^ 31) :
    Dec (readI 4) (leBytesInt 4 i) i := by
  have := dec_readI_bytes 4 (leBytesInt 4 i) (leBytesInt_length 4 i) (by omega)
  rwa [leInt_leBytesInt4 i h1 h2] at this

theorem dec_readI8 (i : Int) (h1 : -(2 ^ 63 : Int) ≤ i) (h2 : i < 2 ^ 63) :
    Dec (readI 8) (leBytesInt 8 i) i := by
  have := dec_readI_bytes 8 (leBytesInt 8 i) (leBytesInt_length 8 i) (by omega)
  rwa [leInt_leBytesInt8 i h1 h2] at this

/-! ### CompactSize (`VarIntSerializer`) -/

theorem toNat_ofNat_lt {n : Nat} (h : n < 256) : (UInt8.ofNat n).toNat = n := by
  simp [UInt8.toNat_ofNat', Nat.mod_eq_of_lt h]

theorem dec_deVarInt (n : Nat) (hn : n < 2 ^ 64) : Dec deVarInt (Spec.Wire.compactSize n) n := by
  unfold Spec.Wire.compactSize deVarInt
  split
  · -- one byte
    rename_i h
    refine (Dec.bind (e₂ := []) (dec_serRead [UInt8.ofNat n] 1 rfl (by decide)) ?_).of_eq (by simp)
    have hx : leNat [UInt8.ofNat n] = n := by simp [leNat, toNat_ofNat_lt (show n < 256 by omega)]
    simp only [hx, h, if_true]
    exact Dec.pure n
  · split
    · rename_i h1 h2
      refine (Dec.bind (e₂ := leBytes 2 n) (dec_serRead [0xfd] 1 rfl (by decide)) ?_).of_eq (by simp)
      have hx : leNat [(0xfd : UInt8)] = 0xfd := by decide
      simp only [hx]
      exact dec_readU 2 n (by omega) (by omega)
    · split
      · rename_i h1 h2 h3
        refine (Dec.bind (e₂ := leBytes 4 n) (dec_serRead [0xfe] 1 rfl (by decide)) ?_).of_eq (by simp)
        have hx : leNat [(0xfe : UInt8)] = 0xfe := by decide
        simp only [hx]
        exact dec_readU 4 n (by omega) (by omega)
      · rename_i h1 h2 h3
        refine (Dec.bind (e₂ := leBytes 8 n) (dec_serRead [0xff] 1 rfl (by decide)) ?_).of_eq (by simp)
        have hx : leNat [(0xff : UInt8)] = 0xff := by decide
        simp only [hx]
        exact dec_readU 8 n (by omega) (by omega)

/-! ### length-prefixed byte strings (`BytesSerializer`) -/

theorem maxSize_lt : Spec.Wire.maxSize < 2 ^ 64 := by decide

theorem maxSize_eq : MAX_SIZE = Spec.Wire.maxSize := rfl

theorem dec_deBytes (b : Bytes) (h : b.length ≤ Spec.Wire.maxSize) :
    Dec deBytes (Spec.Wire.varBytes b) b := by
  unfold deBytes Spec.Wire.varBytes
  have := maxSize_lt
  exact Dec.bind (dec_deVarInt b.length (by omega)) (dec_serRead b b.length rfl (by rw [maxSize_eq]; exact h))

/-- the length guard is necessary: a complete length field above MAX_SIZE is answered with
    `sererr`, whatever follows (so such a string has strict prefixes that do not truncate) -/
theorem deBytes_guard (n : Nat) (hn : n < 2 ^ 64) (h : n > MAX_SIZE) (rest : Bytes) :
    deBytes (Spec.Wire.compactSize n ++ rest) = .error .sererr := by
  unfold deBytes
  show deVarInt _ >>= _ = _
  rw [(dec_deVarInt n hn).1]
  exact serRead_guard n rest h

/-! ### count-prefixed vectors (`for i in range(n)` / `VectorSerializer`) -/

theorem deRepeat_succ {α : Type} (p : Parser α) (n : Nat) :
    deRepeat p (n + 1) = fun s => p s >>= fun (x, r) => deRepeat p n r >>= fun (xs, r') =>
      (Except.ok (x :: xs, r') : Res (List α × Bytes)) := by
  funext s
  rfl

theorem dec_deRepeat {α β : Type} {p : Parser β} {enc : α → Bytes} {g : α → β} :
    ∀ (xs : List α), (∀ x ∈ xs, Dec p (enc x) (g x)) →
      Dec (deRepeat p xs.length) ((xs.map enc).flatten) (xs.map g)
  | [], _ => Dec.pure []
  | x :: xs, h => by
      have ih := dec_deRepeat xs (fun y hy => h y (List.mem_cons_of_mem _ hy))
      have hx := h x List.mem_cons_self
      simp only [List.length_cons, List.map_cons, List.flatten_cons]
      rw [deRepeat_succ]
      exact Dec.bind hx (Dec.bind_last ih (fun r => rfl))

theorem dec_deVector {α β : Type} {p : Parser β} {enc : α → Bytes} {g : α → β} (xs : List α)
    (hlen : xs.length < 2 ^ 64) (h : ∀ x ∈ xs, Dec p (enc x) (g x)) :
    Dec (deVector p) (Spec.Wire.vec enc xs) (xs.map g) := by
  unfold deVector Spec.Wire.vec
  exact Dec.bind (dec_deVarInt xs.length hlen) (dec_deRepeat xs h)

/-! ### the records of bitcoin/core/__init__.py -/

open Spec.Wire in
theorem dec_deOutPoint (o : OutPoint) (h : WFOutPoint o) : Dec deOutPoint (outPoint o) o := by
  unfold deOutPoint outPoint
  exact Dec.bind (dec_serRead o.hash 32 h.1 (by decide))
    (Dec.bind_last (dec_readU 4 o.n (by omega) h.2) (fun r => rfl))

open Spec.Wire in
theorem dec_deTxIn (i : TxIn) (h : WFTxIn i) : Dec deTxIn (txIn i) i := by
  unfold deTxIn txIn
  rw [List.append_assoc]
  exact Dec.bind (dec_deOutPoint i.prevout h.1)
    (Dec.bind (dec_deBytes i.scriptSig h.2.1)
      (Dec.bind_last (dec_readU 4 i.nSequence (by omega) h.2.2) (fun r => rfl)))

open Spec.Wire in
theorem dec_deTxOut (o : TxOut) (h : WFTxOut o) : Dec deTxOut (txOut o) o := by
  unfold deTxOut txOut
  exact Dec.bind (dec_readI8 o.nValue h.1 h.2.1)
    (Dec.bind_last (dec_deBytes o.scriptPubKey h.2.2) (fun r => rfl))

open Spec.Wire in
theorem dec_deWitStack (s : WitStack) (h : WFWitStack s) : Dec deWitStack (witStack s) s := by
  unfold deWitStack witStack
  have := dec_deVector (p := deBytes) (enc := varBytes) (g := id) s h.1
    (fun b hb => dec_deBytes b (h.2 b hb))
  simpa using this

/-! ### the closure properties at the level of `Sound` codecs (DESIGN §5) -/

/-- result mapping: the parser post-processes its value -/
theorem Dec.map {α β : Type} {d : Parser α} {e : Bytes} {a : α} (g : α → β) (h : Dec d e a) :
    Dec (fun s => d s >>= fun (x, r) => (Except.ok (g x, r) : Res (β × Bytes))) e (g a) :=
  Dec.bind_last h (fun _ => rfl)

/-- sequencing of two sound codecs -/
theorem Sound.seq {α β : Type} {encA : α → Bytes} {decA : Parser α} {WFA : α → Prop}
    {encB : β → Bytes} {decB : Parser β} {WFB : β → Prop}
    (hA : Sound encA decA WFA) (hB : Sound encB decB WFB) :
    Sound (fun (p : α × β) => encA p.1 ++ encB p.2)
      (fun s => decA s >>= fun (a, r) => decB r >>= fun (b, r') => (Except.ok ((a, b), r') : Res ((α × β) × Bytes)))
      (fun p => WFA p.1 ∧ WFB p.2) := by
  rw [sound_iff] at *
  rintro ⟨a, b⟩ ⟨wa, wb⟩
  exact Dec.bind (hA a wa) (Dec.bind_last (hB b wb) (fun _ => rfl))

/-- map along a bijection (`g ∘ f = id` on the well-formed values suffices) -/
theorem Sound.map {α β : Type} {enc : α → Bytes} {dec : Parser α} {WF : α → Prop}
    (f : β → α) (g : α → β) (hgf : ∀ b, g (f b) = b) (h : Sound enc dec WF) :
    Sound (fun b => enc (f b))
      (fun s => dec s >>= fun (x, r) => (Except.ok (g x, r) : Res (β × Bytes))) (fun b => WF (f b)) := by
  rw [sound_iff] at *
  intro b wb
  have := Dec.map g (h (f b) wb)
  rwa [hgf] at this

theorem sound_readU (w : Nat) (h8 : w ≤ 8) : Sound (leBytes w) (readU w) (fun n => n < 256 ^ w) :=
  (sound_iff _ _ _).2 (fun n hn => dec_readU w n h8 hn)

theorem sound_readI4 : Sound (leBytesInt 4) (readI 4) (fun i => -(2 ^ 31 : Int) ≤ i ∧ i < 2 ^ 31) :=
  (sound_iff _ _ _).2 (fun i hi => dec_readI4 i hi.1 hi.2)

theorem sound_readI8 : Sound (leBytesInt 8) (readI 8) (fun i => -(2 ^ 63 : Int) ≤ i ∧ i < 2 ^ 63) :=
  (sound_iff _ _ _).2 (fun i hi => dec_readI8 i hi.1 hi.2)

/-- CompactSize: all 2^64 values, every boundary -/
theorem sound_compactSize : Sound Spec.Wire.compactSize deVarInt (fun n => n < 2 ^ 64) :=
  (sound_iff _ _ _).2 dec_deVarInt

/-- length-prefixed byte strings, for lengths up to MAX_SIZE (beyond it the guard breaks both clauses) -/
theorem sound_varBytes : Sound Spec.Wire.varBytes deBytes (fun b => b.length ≤ Spec.Wire.maxSize) :=
  (sound_iff _ _ _).2 dec_deBytes

/-- count-prefixed vectors of a sound element codec, any count below 2^64 -/
theorem Sound.vec {α : Type} {enc : α → Bytes} {dec : Parser α} {WF : α → Prop} (h : Sound enc dec WF) :
    Sound (Spec.Wire.vec enc) (deVector dec) (fun xs => xs.length < 2 ^ 64 ∧ ∀ x ∈ xs, WF x) := by
  rw [sound_iff] at *
  rintro xs ⟨hlen, hall⟩
  have := dec_deVector (g := id) xs hlen (fun x hx => h x (hall x hx))
  simpa using this

end BtcVerif.Codec
