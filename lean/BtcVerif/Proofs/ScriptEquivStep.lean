/-
  C06 — simulation of the opcode dispatcher and of one loop iteration.
-/
import BtcVerif.Proofs.ScriptEquivNum
import BtcVerif.Proofs.ScriptEquivParse

namespace BtcVerif.Model.ScriptEval
open BtcVerif BtcVerif.Spec BtcVerif.Spec.Script BtcVerif.Model.Script

/-- opcode classes whose simulation lemma is not part of this development yet -/
def uncoveredOps : List Nat := [0xac, 0xad, 0xae, 0xaf]

theorem sim_ite {code : Bytes} {st : St} {p : Prop} [Decidable p] {a b : M St} {r : Option Ref.State}
    (ha : p → Sim code st a r) (hb : ¬p → Sim code st b r) : Sim code st (if p then a else b) r := by
  split
  · exact ha ‹_›
  · exact hb ‹_›

theorem hashOp_160 (h : Hashes) : Ref.hashOp h 0xa9 = fun x => some (h.hash160 x) := rfl
theorem hashOp_256 (h : Hashes) : Ref.hashOp h 0xaa = fun x => some (h.hash256 x) := rfl
theorem hashOp_rmd (h : Hashes) : Ref.hashOp h 0xa6 = fun x => some (h.ripemd160 x) := rfl
theorem hashOp_sha1 (h : Hashes) : Ref.hashOp h 0xa7 = fun x => some (h.sha1 x) := rfl
theorem hashOp_sha256 (h : Hashes) : Ref.hashOp h 0xa8 = fun x => some (h.sha256 x) := rfl

/-- the `if / elif` chain of the model against the `switch` of the reference, for every opcode
    except OP_CODESEPARATOR (handled by the caller) and the signature-checking opcodes -/
theorem execOp_sim (c : Ctx) (fl : Flags) (script : Bytes) (op : RawOp) (pc code : Bytes) (fExec : Bool)
    (st : St) (hcov : op.opcode ∉ uncoveredOps) (hsep : op.opcode ≠ 0xab) :
    Sim code st (execOp c fl script op fExec st)
      (Ref.execOp c.env fl op.opcode pc fExec (toRef st code)) := by
  simp only [uncoveredOps, List.mem_cons, List.mem_nil_iff, or_false, not_or] at hcov
  unfold execOp
  dsimp only
  refine sim_ite (fun hx => arm_smallint c.env fl pc code fExec st _ hx) (fun n1 => ?_)
  refine sim_ite (fun hx => arm_binary c.env fl pc code fExec st _ hx) (fun n2 => ?_)
  refine sim_ite (fun hx => arm_unary c.env fl pc code fExec st _ hx) (fun n3 => ?_)
  refine sim_ite (fun hx => by rw [hx]; exact arm_2drop c.env fl pc code fExec st) (fun n4 => ?_)
  refine sim_ite (fun hx => by rw [hx]; exact arm_2dup c.env fl pc code fExec st) (fun n5 => ?_)
  refine sim_ite (fun hx => by rw [hx]; exact arm_2over c.env fl pc code fExec st) (fun n6 => ?_)
  refine sim_ite (fun hx => by rw [hx]; exact arm_2rot c.env fl pc code fExec st) (fun n7 => ?_)
  refine sim_ite (fun hx => by rw [hx]; exact arm_2swap c.env fl pc code fExec st) (fun n8 => ?_)
  refine sim_ite (fun hx => by rw [hx]; exact arm_3dup c.env fl pc code fExec st) (fun n9 => ?_)
  refine sim_ite (fun hx => by omega) (fun n10 => ?_)
  refine sim_ite (fun hx => by omega) (fun n11 => ?_)
  refine sim_ite (fun hx => absurd hx hsep) (fun n12 => ?_)
  refine sim_ite (fun hx => by rw [hx]; exact arm_depth c.env fl pc code fExec st) (fun n13 => ?_)
  refine sim_ite (fun hx => by rw [hx]; exact arm_drop c.env fl pc code fExec st) (fun n14 => ?_)
  refine sim_ite (fun hx => by rw [hx]; exact arm_dup c.env fl pc code fExec st) (fun n15 => ?_)
  refine sim_ite (fun hx => by rw [hx]; exact arm_else c.env fl pc code fExec st) (fun n16 => ?_)
  refine sim_ite (fun hx => by rw [hx]; exact arm_endif c.env fl pc code fExec st) (fun n17 => ?_)
  refine sim_ite (fun hx => by rw [hx]; exact arm_equal c.env fl pc code fExec st) (fun n18 => ?_)
  refine sim_ite (fun hx => by rw [hx]; exact arm_equalverify c.env fl pc code fExec st) (fun n19 => ?_)
  refine sim_ite (fun hx => by rw [hx]; exact arm_fromalt c.env fl pc code fExec st) (fun n20 => ?_)
  refine sim_ite (fun hx => by
    rw [hx]; exact arm_hash c.env fl pc code fExec st _ _ (hashOp_160 _) (by omega)) (fun n21 => ?_)
  refine sim_ite (fun hx => by
    rw [hx]; exact arm_hash c.env fl pc code fExec st _ _ (hashOp_256 _) (by omega)) (fun n22 => ?_)
  refine sim_ite (fun hx => arm_if c.env fl pc code fExec st _ hx) (fun n23 => ?_)
  refine sim_ite (fun hx => by rw [hx]; exact arm_ifdup c.env fl pc code fExec st) (fun n24 => ?_)
  refine sim_ite (fun hx => by rw [hx]; exact arm_nip c.env fl pc code fExec st) (fun n25 => ?_)
  refine sim_ite (fun hx => by rw [hx]; simp [Sim, Ref.execOp, toRef]) (fun n26 => ?_)
  refine sim_ite (fun hx => arm_nop c.env fl pc code fExec st _ hx.1 hx.2) (fun n27 => ?_)
  refine sim_ite (fun hx => by rw [hx]; exact arm_over c.env fl pc code fExec st) (fun n28 => ?_)
  refine sim_ite (fun hx => arm_pickroll c.env fl pc code fExec st _ hx) (fun n29 => ?_)
  refine sim_ite (fun hx => by rw [hx]; simp [Sim, Ref.execOp]) (fun n30 => ?_)
  refine sim_ite (fun hx => by
    rw [hx]; exact arm_hash c.env fl pc code fExec st _ _ (hashOp_rmd _) (by omega)) (fun n31 => ?_)
  refine sim_ite (fun hx => by rw [hx]; exact arm_rot c.env fl pc code fExec st) (fun n32 => ?_)
  refine sim_ite (fun hx => by rw [hx]; exact arm_size c.env fl pc code fExec st) (fun n33 => ?_)
  refine sim_ite (fun hx => by
    rw [hx]; exact arm_hash c.env fl pc code fExec st _ _ (hashOp_sha1 _) (by omega)) (fun n34 => ?_)
  refine sim_ite (fun hx => by
    rw [hx]; exact arm_hash c.env fl pc code fExec st _ _ (hashOp_sha256 _) (by omega)) (fun n35 => ?_)
  refine sim_ite (fun hx => by rw [hx]; exact arm_swap c.env fl pc code fExec st) (fun n36 => ?_)
  refine sim_ite (fun hx => by rw [hx]; exact arm_toalt c.env fl pc code fExec st) (fun n37 => ?_)
  refine sim_ite (fun hx => by rw [hx]; exact arm_tuck c.env fl pc code fExec st) (fun n38 => ?_)
  refine sim_ite (fun hx => by rw [hx]; exact arm_verify c.env fl pc code fExec st) (fun n39 => ?_)
  refine sim_ite (fun hx => by rw [hx]; exact arm_within c.env fl pc code fExec st) (fun n40 => ?_)
  -- 'unsupported opcode': the reference reaches `default:`
  simp only [binaryNumOps, unaryNumOps, List.mem_cons, List.mem_nil_iff, or_false, not_or] at n2 n3
  simp only [raise_eq, Sim]
  unfold Ref.execOp
  split <;> first | rfl | omega

/-- relation between the model's `pbegincodehash` (index of the last executed OP_CODESEPARATOR,
    separator included) and the reference's (the bytes after it) -/
def CodeRel (script : Bytes) (pb : Nat) (code : Bytes) : Prop :=
  (pb = 0 ∧ code = script) ∨ script.drop pb = 0xab :: code

theorem evalLoop_nil (env : Env) (fl : Flags) (st : Ref.State) : Ref.evalLoop env fl [] st = some st := by
  rw [Ref.evalLoop]; simp

theorem evalLoop_fail (env : Env) (fl : Flags) (pc : Bytes) (st : Ref.State) (hne : pc ≠ [])
    (h : Ref.getOp pc = none) : Ref.evalLoop env fl pc st = none := by
  rw [Ref.evalLoop]; simp only [hne, if_false]; split <;> simp_all

theorem evalLoop_op (env : Env) (fl : Flags) (pc : Bytes) (st : Ref.State) (hne : pc ≠ [])
    {opcode : Nat} {v pc' : Bytes} (h : Ref.getOp pc = some (opcode, v, pc')) :
    Ref.evalLoop env fl pc st =
      match Ref.loopBody env fl opcode v pc' st with
      | none => none
      | some st' => Ref.evalLoop env fl pc' st' := by
  rw [Ref.evalLoop]; simp only [hne, if_false]
  split
  · simp_all
  · rename_i h'
    rw [h] at h'
    simp only [Option.some.injEq, Prod.mk.injEq] at h'
    obtain ⟨rfl, rfl, rfl⟩ := h'
    rfl

end BtcVerif.Model.ScriptEval
