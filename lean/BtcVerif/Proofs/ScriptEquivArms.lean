/-
  C06 — per-opcode simulation lemmas (`step_equiv` family): stack manipulation, flow control,
  equality, hashes, NOPs.  Each lemma relates one arm of the model's `if / elif` chain to the
  corresponding `case` of the reference `switch`.
-/
import BtcVerif.Proofs.ScriptEquivBasic
import BtcVerif.Proofs.ScriptEvalInv
import Mathlib.Tactic.IntervalCases

namespace BtcVerif.Model.ScriptEval
open BtcVerif BtcVerif.Spec BtcVerif.Spec.Script BtcVerif.Model.Script

/-- evaluates both sides of a stack-shuffling arm on every stack shape -/
macro "arm_eq" : tactic =>
  `(tactic| simp [Ref.execOp, toRef, checkArgs, pyIdx, bind, Except.bind, Sim, Ref.boolVch, Ref.vchTrue,
      Ref.vchFalse, castToBool_eq])

section
variable (env : Env) (fl : Flags) (pc code : Bytes) (fExec : Bool) (st : St)

theorem arm_2drop : Sim code st (op2Drop 0x6d st) (Ref.execOp env fl 0x6d pc fExec (toRef st code)) := by
  obtain ⟨s, al, vf, pb, n⟩ := st
  rcases s with _ | ⟨a, _ | ⟨b, rest⟩⟩ <;> simp only [op2Drop] <;> arm_eq

theorem arm_2dup : Sim code st (op2Dup 0x6e st) (Ref.execOp env fl 0x6e pc fExec (toRef st code)) := by
  obtain ⟨s, al, vf, pb, n⟩ := st
  rcases s with _ | ⟨a, _ | ⟨b, rest⟩⟩ <;> simp only [op2Dup] <;> arm_eq

theorem arm_3dup : Sim code st (op3Dup 0x6f st) (Ref.execOp env fl 0x6f pc fExec (toRef st code)) := by
  obtain ⟨s, al, vf, pb, n⟩ := st
  rcases s with _ | ⟨a, _ | ⟨b, _ | ⟨d, rest⟩⟩⟩ <;> simp only [op3Dup] <;> arm_eq

theorem arm_2over : Sim code st (op2Over 0x70 st) (Ref.execOp env fl 0x70 pc fExec (toRef st code)) := by
  obtain ⟨s, al, vf, pb, n⟩ := st
  rcases s with _ | ⟨a, _ | ⟨b, _ | ⟨d, _ | ⟨e, rest⟩⟩⟩⟩ <;> simp only [op2Over] <;> arm_eq

theorem arm_2rot : Sim code st (op2Rot 0x71 st) (Ref.execOp env fl 0x71 pc fExec (toRef st code)) := by
  obtain ⟨s, al, vf, pb, n⟩ := st
  rcases s with _ | ⟨a, _ | ⟨b, _ | ⟨d, _ | ⟨e, _ | ⟨f, _ | ⟨g, rest⟩⟩⟩⟩⟩⟩ <;> simp only [op2Rot] <;> arm_eq

theorem arm_2swap : Sim code st (op2Swap 0x72 st) (Ref.execOp env fl 0x72 pc fExec (toRef st code)) := by
  obtain ⟨s, al, vf, pb, n⟩ := st
  rcases s with _ | ⟨a, _ | ⟨b, _ | ⟨d, _ | ⟨e, rest⟩⟩⟩⟩ <;> simp only [op2Swap] <;> arm_eq

theorem arm_drop : Sim code st (opDrop 0x75 st) (Ref.execOp env fl 0x75 pc fExec (toRef st code)) := by
  obtain ⟨s, al, vf, pb, n⟩ := st
  rcases s with _ | ⟨a, rest⟩ <;> simp only [opDrop] <;> arm_eq

theorem arm_dup : Sim code st (opDup 0x76 st) (Ref.execOp env fl 0x76 pc fExec (toRef st code)) := by
  obtain ⟨s, al, vf, pb, n⟩ := st
  rcases s with _ | ⟨a, rest⟩ <;> simp only [opDup] <;> arm_eq

theorem arm_nip : Sim code st (opNip 0x77 st) (Ref.execOp env fl 0x77 pc fExec (toRef st code)) := by
  obtain ⟨s, al, vf, pb, n⟩ := st
  rcases s with _ | ⟨a, _ | ⟨b, rest⟩⟩ <;> simp only [opNip] <;> arm_eq

theorem arm_over : Sim code st (opOver 0x78 st) (Ref.execOp env fl 0x78 pc fExec (toRef st code)) := by
  obtain ⟨s, al, vf, pb, n⟩ := st
  rcases s with _ | ⟨a, _ | ⟨b, rest⟩⟩ <;> simp only [opOver] <;> arm_eq

theorem arm_rot : Sim code st (opRot 0x7b st) (Ref.execOp env fl 0x7b pc fExec (toRef st code)) := by
  obtain ⟨s, al, vf, pb, n⟩ := st
  rcases s with _ | ⟨a, _ | ⟨b, _ | ⟨d, rest⟩⟩⟩ <;> simp only [opRot] <;> arm_eq

theorem arm_swap : Sim code st (opSwap 0x7c st) (Ref.execOp env fl 0x7c pc fExec (toRef st code)) := by
  obtain ⟨s, al, vf, pb, n⟩ := st
  rcases s with _ | ⟨a, _ | ⟨b, rest⟩⟩ <;> simp only [opSwap] <;> arm_eq

theorem arm_tuck : Sim code st (opTuck 0x7d st) (Ref.execOp env fl 0x7d pc fExec (toRef st code)) := by
  obtain ⟨s, al, vf, pb, n⟩ := st
  rcases s with _ | ⟨a, _ | ⟨b, rest⟩⟩ <;> simp only [opTuck] <;> arm_eq

theorem arm_toalt : Sim code st (opToAltStack 0x6b st) (Ref.execOp env fl 0x6b pc fExec (toRef st code)) := by
  obtain ⟨s, al, vf, pb, n⟩ := st
  rcases s with _ | ⟨a, rest⟩ <;> simp only [opToAltStack] <;> arm_eq

theorem arm_fromalt :
    Sim code st (opFromAltStack 0x6c st) (Ref.execOp env fl 0x6c pc fExec (toRef st code)) := by
  obtain ⟨s, al, vf, pb, n⟩ := st
  rcases al with _ | ⟨a, rest⟩ <;> simp only [opFromAltStack] <;> arm_eq

theorem arm_ifdup : Sim code st (opIfDup 0x73 st) (Ref.execOp env fl 0x73 pc fExec (toRef st code)) := by
  obtain ⟨s, al, vf, pb, n⟩ := st
  rcases s with _ | ⟨a, rest⟩ <;> simp only [opIfDup] <;> arm_eq
  cases hcb : Ref.castToBool a <;> simp

theorem arm_verify : Sim code st (opVerify 0x69 st) (Ref.execOp env fl 0x69 pc fExec (toRef st code)) := by
  obtain ⟨s, al, vf, pb, n⟩ := st
  rcases s with _ | ⟨a, rest⟩ <;> simp only [opVerify] <;> arm_eq
  cases hcb : Ref.castToBool a <;> simp

theorem arm_equal : Sim code st (opEqual 0x87 st) (Ref.execOp env fl 0x87 pc fExec (toRef st code)) := by
  obtain ⟨s, al, vf, pb, n⟩ := st
  rcases s with _ | ⟨a, _ | ⟨b, rest⟩⟩ <;> simp only [opEqual] <;> arm_eq
  by_cases hab : a = b
  · subst hab; simp
  · have : ¬ b = a := fun h => hab h.symm
    simp [hab, this]

theorem arm_equalverify :
    Sim code st (opEqualVerify 0x88 st) (Ref.execOp env fl 0x88 pc fExec (toRef st code)) := by
  obtain ⟨s, al, vf, pb, n⟩ := st
  rcases s with _ | ⟨a, _ | ⟨b, rest⟩⟩ <;> simp only [opEqualVerify] <;> arm_eq
  by_cases hab : a = b
  · subst hab; simp [toRef]
  · have : ¬ b = a := fun h => hab h.symm
    simp [hab, this]

theorem arm_if (sop : Nat) (hs : sop = 0x63 ∨ sop = 0x64) :
    Sim code st (opIf sop fExec st) (Ref.execOp env fl sop pc fExec (toRef st code)) := by
  obtain ⟨s, al, vf, pb, n⟩ := st
  rcases hs with rfl | rfl <;> cases fExec <;> rcases s with _ | ⟨a, rest⟩ <;> simp only [opIf] <;> arm_eq

theorem arm_else : Sim code st (opElse st) (Ref.execOp env fl 0x67 pc fExec (toRef st code)) := by
  obtain ⟨s, al, vf, pb, n⟩ := st
  rcases vf with _ | ⟨a, rest⟩ <;> simp only [opElse] <;> arm_eq

theorem arm_endif : Sim code st (opEndIf st) (Ref.execOp env fl 0x68 pc fExec (toRef st code)) := by
  obtain ⟨s, al, vf, pb, n⟩ := st
  rcases vf with _ | ⟨a, rest⟩ <;> simp only [opEndIf] <;> arm_eq

theorem arm_nop (sop : Nat) (h1 : 0xb0 ≤ sop) (h2 : sop ≤ 0xb9) :
    Sim code st (opNop fl sop st) (Ref.execOp env fl sop pc fExec (toRef st code)) := by
  interval_cases sop <;> simp only [opNop] <;> cases hd : fl.discourageNops <;> arm_eq <;> simp [hd, toRef]

theorem arm_hash (sop : Nat) (f : Bytes → Bytes) (hf : Ref.hashOp env.hashes sop = fun x => some (f x))
    (hs : sop = 0xa6 ∨ sop = 0xa7 ∨ sop = 0xa8 ∨ sop = 0xa9 ∨ sop = 0xaa) :
    Sim code st (hashTop sop f st) (Ref.execOp env fl sop pc fExec (toRef st code)) := by
  obtain ⟨s, al, vf, pb, n⟩ := st
  rcases hs with rfl | rfl | rfl | rfl | rfl <;> rcases s with _ | ⟨a, rest⟩ <;>
    simp only [hashTop] <;> arm_eq <;> simp [hf, toRef]

end

end BtcVerif.Model.ScriptEval
