/-
  C09 helper lemmas, part 8: the refinement relation between heap states and value stores,
  simulation of target lookup, and the generic ways a step preserves the relation.
-/
import BtcVerif.Proofs.HeapMut

namespace BtcVerif.Model.Heap
open BtcVerif BtcVerif.Spec.ValueSem

/-! ### classes of objects and values -/

theorem assemble_kind {sc : Scalars} {vs : List Val} {v : Val} (h : assemble sc vs = some v) :
    valKind v = sc.kind := by
  cases sc with
  | outpoint hh n => cases vs <;> simp [assemble] at h; subst h; rfl
  | txin s q =>
    match vs, h with
    | [.outpoint o], h => simp [assemble] at h; subst h; rfl
  | txout x s => cases vs <;> simp [assemble] at h; subst h; rfl
  | seq k =>
    cases k <;> simp only [assemble, Option.map_eq_some_iff] at h <;> obtain ⟨l, _, rfl⟩ := h <;> rfl
  | inwit st => cases vs <;> simp [assemble] at h; subst h; rfl
  | wit =>
    match vs, h with
    | [.stacks w], h => simp [assemble] at h; subst h; rfl
  | tx ver lock =>
    match vs, h with
    | [.ins vin, .outs vout, .wit w], h => simp [assemble] at h; subst h; rfl
  | header hd => cases vs <;> simp [assemble] at h; subst h; rfl
  | block hd =>
    match vs, h with
    | [.txs l], h => simp [assemble] at h; subst h; rfl

theorem decode_kind {t : ATree} {v : Val} (h : decode t = some v) : valKind v = t.sc.kind := by
  cases t with | node a m sc kids =>
    obtain ⟨vs, _, ha⟩ := decode_inv h
    exact assemble_kind ha

/-! ### put succeeds on values of the same class -/

theorem putChild_some {v c c' : Val} {i : Nat} (hc : v.child i = some c) (hk : valKind c' = valKind c) :
    ∃ v', v.putChild i c' = some v' ∧ valKind v' = valKind v := by
  cases v with
  | txin x =>
    cases i <;> simp [Val.child] at hc
    subst hc; cases c' <;> simp [valKind] at hk
    exact ⟨_, rfl, rfl⟩
  | wit w =>
    cases i <;> simp [Val.child] at hc
    subst hc; cases c' <;> simp [valKind] at hk
    exact ⟨_, rfl, rfl⟩
  | tx x =>
    match i with
    | 0 => simp [Val.child] at hc; subst hc; cases c' <;> simp [valKind] at hk; exact ⟨_, rfl, rfl⟩
    | 1 => simp [Val.child] at hc; subst hc; cases c' <;> simp [valKind] at hk; exact ⟨_, rfl, rfl⟩
    | 2 => simp [Val.child] at hc; subst hc; cases c' <;> simp [valKind] at hk; exact ⟨_, rfl, rfl⟩
    | i + 3 => simp [Val.child] at hc
  | block b =>
    cases i <;> simp [Val.child] at hc
    subst hc; cases c' <;> simp [valKind] at hk
    exact ⟨_, rfl, rfl⟩
  | ins l =>
    simp only [Val.child, Option.map_eq_some_iff] at hc
    obtain ⟨x, hx, rfl⟩ := hc
    have hi := (List.getElem?_eq_some_iff.mp hx).1
    cases c' <;> simp [valKind] at hk
    rename_i y
    exact ⟨.ins (l.set i y), by simp [Val.putChild, hi], rfl⟩
  | outs l =>
    simp only [Val.child, Option.map_eq_some_iff] at hc
    obtain ⟨x, hx, rfl⟩ := hc
    have hi := (List.getElem?_eq_some_iff.mp hx).1
    cases c' <;> simp [valKind] at hk
    rename_i y
    exact ⟨.outs (l.set i y), by simp [Val.putChild, hi], rfl⟩
  | stacks l =>
    simp only [Val.child, Option.map_eq_some_iff] at hc
    obtain ⟨x, hx, rfl⟩ := hc
    have hi := (List.getElem?_eq_some_iff.mp hx).1
    cases c' <;> simp [valKind] at hk
    rename_i y
    exact ⟨.stacks (l.set i y), by simp [Val.putChild, hi], rfl⟩
  | txs l =>
    simp only [Val.child, Option.map_eq_some_iff] at hc
    obtain ⟨x, hx, rfl⟩ := hc
    have hi := (List.getElem?_eq_some_iff.mp hx).1
    cases c' <;> simp [valKind] at hk
    rename_i y
    exact ⟨.txs (l.set i y), by simp [Val.putChild, hi], rfl⟩
  | outpoint x => simp [Val.child] at hc
  | txout x => simp [Val.child] at hc
  | inwit x => simp [Val.child] at hc
  | header x => simp [Val.child] at hc

theorem put_some : ∀ {p : List Nat} {v vx w : Val} {m m' : Bool}, v.getM m p = some (m', vx) →
    valKind w = valKind vx → ∃ v', v.put p w = some v' ∧ valKind v' = valKind v
  | [], v, vx, w, m, m', hg, hk => by
    simp [Val.getM] at hg
    exact ⟨w, rfl, by rw [hk, hg.2]⟩
  | i :: p, v, vx, w, m, m', hg, hk => by
    simp only [Val.getM] at hg
    cases hc : v.child i with
    | none => simp [hc] at hg
    | some c =>
      simp only [hc] at hg
      obtain ⟨c', hc', hkc⟩ := put_some hg hk
      obtain ⟨v', hv', hkv⟩ := putChild_some hc hkc
      exact ⟨v', by simp [Val.put, hc, hc', hv'], hkv⟩

/-! ### fuel along a path -/

theorem sub_fuel {h : Heap} : ∀ {p : List Nat} {f : Nat} {c : Addr} {t tx : ATree},
    unfoldA f h c = some t → sub t p = some tx →
      ∃ g, f = p.length + (g + 1) ∧ unfoldA (g + 1) h tx.addr = some tx
  | [], f, c, t, tx, hu, hs => by
    simp [sub] at hs; subst hs
    cases f with
    | zero => simp [unfoldA] at hu
    | succ f => exact ⟨f, by simp, by rw [unfoldA_addr hu]; exact hu⟩
  | j :: p, 0, c, t, tx, hu, hs => by simp [unfoldA] at hu
  | j :: p, f + 1, c, t, tx, hu, hs => by
    obtain ⟨o, kids, _, hk, rfl⟩ := unfoldA_succ hu
    simp only [sub] at hs
    cases hkj : kids[j]? with
    | none => simp [hkj] at hs
    | some k =>
      simp only [hkj] at hs
      obtain ⟨c', _, huc⟩ := mapO_getElem' hk j k hkj
      obtain ⟨g, hg, hu'⟩ := sub_fuel huc hs
      exact ⟨g, by simp [hg]; omega, hu'⟩

/-! ### the relation -/

def RelAt (h : Heap) : Option Addr → Option Entry → Prop
  | none, none => True
  | some a, some e => ∃ t, unfoldA D h a = some t ∧ decode t = some e.val ∧ t.isMut = e.isMut
  | _, _ => False

/-- every name denotes, on the heap, an object graph whose current value and class are the
    entry of the value store -/
def Rel (s : St) (sp : Store) : Prop :=
  s.names.length = sp.length ∧ ∀ r, RelAt s.heap (s.root r) ((sp[r]?).join)

theorem rel_bind {s : St} {sp' : Store} {h' : Heap} {n : Option Addr} {en : Option Entry}
    (hlen : s.names.length = sp'.length)
    (hold : ∀ r, r < s.names.length → RelAt h' (s.root r) ((sp'[r]?).join))
    (hnew : RelAt h' n en) : Rel (s.bind h' n) (sp' ++ [en]) := by
  refine ⟨by simp [St.bind, hlen], ?_⟩
  intro r
  change RelAt h' ((s.bind h' n).root r) _
  rw [root_bind]
  by_cases h1 : r < s.names.length
  · rw [if_pos h1, List.getElem?_append_left (by omega)]
    exact hold r h1
  · rw [if_neg h1]
    by_cases h2 : r = s.names.length
    · rw [if_pos h2]
      have : (sp' ++ [en])[r]? = some en := by rw [h2, hlen]; simp
      rw [this]; simpa using hnew
    · rw [if_neg h2]
      have : (sp' ++ [en])[r]? = none := by
        apply List.getElem?_eq_none_iff.mpr; simp; omega
      rw [this]; trivial

theorem relAt_ext {h : Heap} (e : Heap) {n : Option Addr} {en : Option Entry} (hr : RelAt h n en) :
    RelAt (h ++ e) n en := by
  cases n <;> cases en <;> simp only [RelAt] at hr ⊢
  obtain ⟨t, hu, hd, hm⟩ := hr
  exact ⟨t, unfoldA_ext e hu, hd, hm⟩

theorem rel_skip {s : St} {sp : Store} (hrel : Rel s sp) : Rel s.skip (Spec.ValueSem.bind sp none) :=
  rel_bind hrel.1 (fun r _ => hrel.2 r) (show RelAt _ none none from trivial)

theorem rel_ext {s : St} {sp : Store} (hrel : Rel s sp) {h' e : Heap} (he : h' = s.heap ++ e)
    {n : Option Addr} {en : Option Entry} (hnew : RelAt h' n en) :
    Rel (s.bind h' n) (Spec.ValueSem.bind sp en) := by
  subst he
  exact rel_bind hrel.1 (fun r _ => relAt_ext e (hrel.2 r)) hnew

theorem rel_set_same {s : St} {sp : Store} (hrel : Rel s sp) {x : Addr} {o o' : Obj}
    (hox : s.heap[x]? = some o) (h1 : o'.isMut = o.isMut) (h2 : o'.sc = o.sc) (h3 : o'.refs = o.refs) :
    Rel (s.bind (s.heap.set x o') none) (Spec.ValueSem.bind sp none) := by
  apply rel_bind hrel.1 _ (show RelAt _ none none from trivial)
  intro r _
  have := hrel.2 r
  cases hr : s.root r <;> cases he : (sp[r]?).join <;> simp only [hr, he, RelAt] at this ⊢
  obtain ⟨t, hu, hd, hm⟩ := this
  exact ⟨t, unfoldA_set_same hox h1 h2 h3 hu, hd, hm⟩

/-- after a mutation of the root named `r` -/
theorem rel_mutate {s : St} {sp : Store} (hrel : Rel s sp) {r : Nat} {a : Addr} (hr : s.root r = some a)
    {e : Entry} (he : (sp[r]?).join = some e) {h' : Heap} {t' : ATree} {v' : Val}
    (hnew : unfoldA D h' a = some t') (hd : decode t' = some v') (hm : t'.isMut = e.isMut)
    (hother : ∀ (r' : Nat) (b : Addr) (tb : ATree), r' ≠ r → s.root r' = some b →
      unfoldA D s.heap b = some tb → unfoldA D h' b = some tb) :
    Rel (s.bind h' none) (Spec.ValueSem.bind (sp.set r (some { e with val := v' })) none) := by
  apply rel_bind (by simp [hrel.1]) _ (show RelAt _ none none from trivial)
  intro r' hr'
  by_cases hrr : r' = r
  · subst hrr
    have hlt : r' < sp.length := by rw [← hrel.1]; exact hr'
    rw [hr, List.getElem?_set_self hlt]
    exact ⟨t', hnew, hd, hm⟩
  · rw [List.getElem?_set_ne (fun e => hrr e.symm)]
    have := hrel.2 r'
    cases hb : s.root r' <;> cases heb : (sp[r']?).join <;> simp only [hb, heb, RelAt] at this ⊢
    obtain ⟨tb, hu, hdb, hmb⟩ := this
    exact ⟨tb, hother r' _ tb hrr hb hu, hdb, hmb⟩

/-! ### simulation of target lookup -/

structure TInfo (s : St) (sp : Store) (tg : Target) (x : Addr) where
  a : Addr
  t : ATree
  tx : ATree
  e : Entry
  vx : Val
  o : Obj
  g : Nat
  hroot : s.root tg.root = some a
  hentry : (sp[tg.root]?).join = some e
  hu : unfoldA D s.heap a = some t
  hd : decode t = some e.val
  hm : t.isMut = e.isMut
  hf : flagsOK t.isMut t
  hsub : sub t tg.path = some tx
  haddr : tx.addr = x
  ho : s.heap[x]? = some o
  hom : tx.isMut = o.isMut
  hosc : tx.sc = o.sc
  hD : D = tg.path.length + (g + 1)
  hux : unfoldA (g + 1) s.heap x = some tx
  habs : absVal s.heap x = some vx
  hdx : decode tx = some vx
  hfx : flagsOK tx.isMut tx
  hlook : lookup sp tg = some (tx.isMut, vx)

theorem target_some {s : St} {sp : Store} (hinv : Inv s) (hrel : Rel s sp) {tg : Target} {x : Addr}
    (ht : s.target tg = some x) : Nonempty (TInfo s sp tg x) := by
  simp only [St.target, Option.bind_eq_bind] at ht
  cases hroot : s.root tg.root with
  | none => simp [hroot] at ht
  | some a =>
    simp only [hroot, Option.bind_some] at ht
    have hr := hrel.2 tg.root
    cases hentry : (sp[tg.root]?).join with
    | none => simp [hroot, hentry, RelAt] at hr
    | some e =>
      simp only [hroot, hentry, RelAt] at hr
      obtain ⟨t, hu, hd, hm⟩ := hr
      obtain ⟨t0, v0, hu0, _, hf0⟩ := hinv.roots tg.root a hroot
      rw [hu] at hu0; cases hu0
      rw [resolve_sub hu] at ht
      cases hsub : sub t tg.path with
      | none => simp [hsub] at ht
      | some tx =>
        simp only [hsub, Option.map_some, Option.some.injEq] at ht
        obtain ⟨vx, hg, hdx, hfx⟩ := (sub_getM hd hf0).1 tx hsub
        obtain ⟨g, hD, hux⟩ := sub_fuel hu hsub
        rw [ht] at hux
        obtain ⟨o, kids, ho, _, htx⟩ := unfoldA_succ hux
        have hfull : unfoldA D s.heap x = some tx := unfoldA_fuel_le (by omega) hux
        exact ⟨{ a := a, t := t, tx := tx, e := e, vx := vx, o := o, g := g, hroot := hroot, hentry := hentry,
                 hu := hu, hd := hd, hm := hm, hf := hf0, hsub := hsub, haddr := ht, ho := ho,
                 hom := by rw [htx]; rfl, hosc := by rw [htx]; rfl, hD := hD, hux := hux,
                 habs := by simp [absVal, hfull, hdx], hdx := hdx, hfx := hfx,
                 hlook := by simp [lookup, hentry, ← hm, hg] }⟩

theorem target_none {s : St} {sp : Store} (hinv : Inv s) (hrel : Rel s sp) {tg : Target}
    (ht : s.target tg = none) : lookup sp tg = none := by
  simp only [St.target, Option.bind_eq_bind] at ht
  have hr := hrel.2 tg.root
  cases hroot : s.root tg.root with
  | none =>
    cases hentry : (sp[tg.root]?).join with
    | none => simp [lookup, hentry]
    | some e => simp [hroot, hentry, RelAt] at hr
  | some a =>
    simp only [hroot, Option.bind_some] at ht
    cases hentry : (sp[tg.root]?).join with
    | none => simp [hroot, hentry, RelAt] at hr
    | some e =>
      simp only [hroot, hentry, RelAt] at hr
      obtain ⟨t, hu, hd, hm⟩ := hr
      obtain ⟨t0, v0, hu0, _, hf0⟩ := hinv.roots tg.root a hroot
      rw [hu] at hu0; cases hu0
      rw [resolve_sub hu] at ht
      cases hsub : sub t tg.path with
      | some tx => simp [hsub] at ht
      | none =>
        have := (sub_getM hd hf0).2 hsub
        simp [lookup, hentry, ← hm, this]

end BtcVerif.Model.Heap
