/-
  C09 helper lemmas, part 2: closure of immutability, writes along a path (`unfoldA_set_path`),
  and the counting lemma used for separation.
-/
import BtcVerif.Proofs.HeapBasic

namespace BtcVerif.Model.Heap
open BtcVerif BtcVerif.Spec.ValueSem

/-- (i) one-step form: an immutable object refers to immutable objects only -/
def ImmClosed (h : Heap) : Prop :=
  ∀ (a : Addr) (o : Obj), h[a]? = some o → o.isMut = false →
    ∀ c ∈ o.refs, ∃ oc : Obj, h[c]? = some oc ∧ oc.isMut = false

/-- … hence everything reachable from an immutable object is immutable -/
theorem imm_reach {h : Heap} (hic : ImmClosed h) : ∀ {f : Nat} {a : Addr} {t : ATree},
    unfoldA f h a = some t → t.isMut = false → ∀ x ∈ addrs t, ∃ ox, h[x]? = some ox ∧ ox.isMut = false
  | 0, _, _, hu, _ => by simp [unfoldA] at hu
  | f + 1, a, t, hu, hm => by
    obtain ⟨o, kids, ho, hk, rfl⟩ := unfoldA_succ hu
    simp only [ATree.isMut] at hm
    intro x hx
    simp only [addrs, List.mem_cons] at hx
    rcases hx with rfl | hx
    · exact ⟨o, ho, hm⟩
    · obtain ⟨k, hk', hxk⟩ := mem_addrsL.mp hx
      obtain ⟨c, hc, huc⟩ := mapO_mem hk hk'
      obtain ⟨oc, hoc, hmc⟩ := hic a o ho hm c hc
      have : k.isMut = false := by
        obtain ⟨f', rfl⟩ : ∃ f', f = f' + 1 := by
          cases f with
          | zero => simp [unfoldA] at huc
          | succ f' => exact ⟨f', rfl⟩
        obtain ⟨o2, kids2, ho2, _, rfl⟩ := unfoldA_succ huc
        rw [hoc] at ho2; cases ho2
        exact hmc
      exact imm_reach hic huc this x hxk

theorem sub_addr_mem : ∀ {p : List Nat} {t tx : ATree}, sub t p = some tx → tx.addr ∈ addrs t
  | [], t, tx, h => by
    simp [sub] at h; subst h
    cases t with | node a m sc kids => simp [addrs, ATree.addr]
  | i :: p, .node a m sc kids, tx, h => by
    simp only [sub] at h
    cases hk : kids[i]? with
    | none => simp [hk] at h
    | some k =>
      simp only [hk] at h
      have := sub_addr_mem h
      simp only [addrs, List.mem_cons]
      right
      exact mem_addrsL.mpr ⟨k, List.mem_of_getElem? hk, this⟩

/-- a mutable object that does not count in the mutable top part does not occur at all -/
theorem not_mem_of_cnt_zero {h : Heap} (hic : ImmClosed h) {x : Addr} {ox : Obj}
    (hox : h[x]? = some ox) (hmx : ox.isMut = true) : ∀ {f : Nat} {a : Addr} {t : ATree},
    unfoldA f h a = some t → cnt x t = 0 → x ∉ addrs t
  | 0, _, _, hu, _ => by simp [unfoldA] at hu
  | f + 1, a, t, hu, hc => by
    obtain ⟨o, kids, ho, hk, rfl⟩ := unfoldA_succ hu
    cases hm : o.isMut with
    | false =>
      intro hx
      obtain ⟨ox', hox', hmx'⟩ := imm_reach hic hu (by simp [ATree.isMut, hm]) x hx
      rw [hox] at hox'; cases hox'
      rw [hmx] at hmx'; cases hmx'
    | true =>
      simp only [cnt, hm, if_true] at hc
      have hax : a ≠ x := by intro e; simp [e] at hc
      have hcl : cntL x kids = 0 := by omega
      simp only [addrs, List.mem_cons, not_or]
      refine ⟨fun e => hax e.symm, ?_⟩
      intro hx
      obtain ⟨k, hk', hxk⟩ := mem_addrsL.mp hx
      obtain ⟨c, _, huc⟩ := mapO_mem hk hk'
      exact not_mem_of_cnt_zero hic hox hmx huc (cntL_eq_zero.mp hcl k hk') hxk

/-- all objects strictly above the end of the path are mutable -/
def mutPath : ATree → List Nat → Bool
  | _, [] => true
  | .node _ m _ kids, i :: p =>
    m && (match kids[i]? with
      | some k => mutPath k p
      | none => false)

theorem mutPath_of_sub {h : Heap} (hic : ImmClosed h) {x : Addr} {ox : Obj}
    (hox : h[x]? = some ox) (hmx : ox.isMut = true) : ∀ {p : List Nat} {f : Nat} {a : Addr} {t tx : ATree},
    unfoldA f h a = some t → sub t p = some tx → tx.addr = x → mutPath t p = true
  | [], _, _, _, _, _, _, _ => by simp [mutPath]
  | i :: p, 0, _, _, _, hu, _, _ => by simp [unfoldA] at hu
  | i :: p, f + 1, a, t, tx, hu, hs, hx => by
    obtain ⟨o, kids, ho, hk, rfl⟩ := unfoldA_succ hu
    have hmem := sub_addr_mem hs
    rw [hx] at hmem
    simp only [sub] at hs
    cases hki : kids[i]? with
    | none => simp [hki] at hs
    | some k =>
      simp only [hki] at hs
      obtain ⟨c, _, huc⟩ := mapO_getElem' hk i k hki
      cases hm : o.isMut with
      | false =>
        obtain ⟨ox', hox', hmx'⟩ := imm_reach hic hu (by simp [ATree.isMut, hm]) x hmem
        rw [hox] at hox'; cases hox'
        rw [hmx] at hmx'; cases hmx'
      | true =>
        simp [mutPath, hki, mutPath_of_sub hic hox hmx huc hs hx]

theorem cnt_pos_of_mutPath {x : Addr} : ∀ {p : List Nat} {t tx : ATree},
    sub t p = some tx → tx.addr = x → tx.isMut = true → mutPath t p = true → 1 ≤ cnt x t
  | [], t, tx, hs, hx, hm, _ => by
    simp [sub] at hs; subst hs
    cases t with | node a m sc kids =>
      simp only [ATree.addr, ATree.isMut] at hx hm
      simp [cnt, hx, hm]
  | i :: p, .node a m sc kids, tx, hs, hx, hm, hp => by
    simp only [sub] at hs
    simp only [mutPath, Bool.and_eq_true] at hp
    cases hki : kids[i]? with
    | none => simp [hki] at hs
    | some k =>
      simp only [hki] at hs hp
      have := cnt_pos_of_mutPath hs hx hm hp.2
      have h2 := cntL_le_of_getElem (x := x) hki
      simp only [cnt, hp.1, if_true]
      omega

theorem cntL_two {x : Addr} : ∀ {ts : List ATree} {i j : Nat} {k1 k2 : ATree}, i ≠ j →
    ts[i]? = some k1 → ts[j]? = some k2 → cnt x k1 + cnt x k2 ≤ cntL x ts
  | [], i, _, _, _, _, h, _ => by simp at h
  | t :: ts, 0, 0, _, _, hij, _, _ => by simp at hij
  | t :: ts, 0, j + 1, k1, k2, _, h1, h2 => by
    simp at h1 h2; subst h1
    have := cntL_le_of_getElem (x := x) h2
    simp [cntL]; omega
  | t :: ts, i + 1, 0, k1, k2, _, h1, h2 => by
    simp at h1 h2; subst h2
    have := cntL_le_of_getElem (x := x) h1
    simp [cntL]; omega
  | t :: ts, i + 1, j + 1, k1, k2, hij, h1, h2 => by
    simp at h1 h2
    have := cntL_two (x := x) (by omega : i ≠ j) h1 h2
    simp [cntL]; omega

/-- **writes along a path**: storing `o'` at the mutable object `x`, which occurs exactly once
    below `a` (at path `p`), replaces the subtree at `p` and nothing else -/
theorem unfoldA_set_path {h : Heap} (hic : ImmClosed h) {x : Addr} {ox o' : Obj}
    (hox : h[x]? = some ox) (hmx : ox.isMut = true) :
    ∀ (p : List Nat) (g : Nat) (a : Addr) (t tx t' : ATree),
      unfoldA (p.length + g) h a = some t → sub t p = some tx → tx.addr = x → cnt x t ≤ 1 →
      unfoldA g (h.set x o') x = some t' →
      unfoldA (p.length + g) (h.set x o') a = some (replaceAt t p t')
  | [], g, a, t, tx, t', hu, hs, hx, _, hu' => by
    simp [sub] at hs; subst hs
    have : a = x := by rw [← hx]; exact (unfoldA_addr hu).symm
    subst this
    simpa [replaceAt] using hu'
  | i :: p, g, a, t, tx, t', hu, hs, hx, hc, hu' => by
    have hfuel : (i :: p).length + g = (p.length + g) + 1 := by simp; omega
    rw [hfuel] at hu ⊢
    have hmp := mutPath_of_sub hic hox hmx hu hs hx
    obtain ⟨o, kids, ho, hk, rfl⟩ := unfoldA_succ hu
    have hs0 := hs
    simp only [sub] at hs
    simp only [mutPath, Bool.and_eq_true] at hmp
    cases hki : kids[i]? with
    | none => simp [hki] at hs
    | some k =>
      simp only [hki] at hs hmp
      have htxm : tx.isMut = true := by
        have hu2 : ∃ f c, unfoldA f h c = some tx := by
          clear hu' hc hfuel hs0
          -- the subtree is itself an unfolding
          have : ∀ (p : List Nat) (f : Nat) (c : Addr) (t tx : ATree), unfoldA f h c = some t →
              sub t p = some tx → ∃ f c, unfoldA f h c = some tx := by
            intro p
            induction p with
            | nil => intro f c t tx hu hs; simp [sub] at hs; subst hs; exact ⟨f, c, hu⟩
            | cons j p ih =>
              intro f c t tx hu hs
              cases f with
              | zero => simp [unfoldA] at hu
              | succ f =>
                obtain ⟨o, kids, _, hk, rfl⟩ := unfoldA_succ hu
                simp only [sub] at hs
                cases hkj : kids[j]? with
                | none => simp [hkj] at hs
                | some k =>
                  simp only [hkj] at hs
                  obtain ⟨c', _, huc⟩ := mapO_getElem' hk j k hkj
                  exact ih f c' k tx huc hs
          obtain ⟨c, _, huc⟩ := mapO_getElem' hk i k hki
          exact this p _ c k tx huc hs
        obtain ⟨f, c, hu2⟩ := hu2
        cases f with
        | zero => simp [unfoldA] at hu2
        | succ f =>
          obtain ⟨o2, kids2, ho2, _, rfl⟩ := unfoldA_succ hu2
          simp only [ATree.addr] at hx
          subst hx
          rw [hox] at ho2; cases ho2
          simpa [ATree.isMut] using hmx
      have hk1 : 1 ≤ cnt x k := cnt_pos_of_mutPath hs hx htxm hmp.2
      simp only [cnt, hmp.1, if_true] at hc
      have hkl := cntL_le_of_getElem (x := x) hki
      have hax : a ≠ x := by intro e; simp [e] at hc; omega
      have ho' : (h.set x o')[a]? = some o := by
        rw [List.getElem?_set_ne (fun e => hax e.symm)]; exact ho
      obtain ⟨c, hci, huc⟩ := mapO_getElem' hk i k hki
      have hrec := unfoldA_set_path hic hox hmx p g c k tx t' huc hs hx (by omega) hu'
      have hset : mapO (unfoldA (p.length + g) (h.set x o')) o.refs = some (kids.set i (replaceAt k p t')) := by
        apply mapO_set (f := unfoldA (p.length + g) h) i c _ hk hci hrec
        intro j c' hji hcj
        obtain ⟨k2, hk2, hu2⟩ := mapO_getElem hk j c' hcj
        have h2 := cntL_two (x := x) (Ne.symm hji) hki hk2
        have hz : cnt x k2 = 0 := by omega
        rw [hu2]
        exact unfoldA_set_frame hu2 (not_mem_of_cnt_zero hic hox hmx hu2 hz)
      have := unfoldA_mk ho' hset
      simpa [replaceAt, hki] using this

/-- counting through a replacement below mutable objects -/
theorem cnt_replaceAt (y : Addr) : ∀ {p : List Nat} {t tx : ATree} (t' : ATree),
    sub t p = some tx → mutPath t p = true → cnt y (replaceAt t p t') + cnt y tx = cnt y t + cnt y t'
  | [], t, tx, t', hs, _ => by simp [sub] at hs; subst hs; simp [replaceAt]; omega
  | i :: p, .node a m sc kids, tx, t', hs, hp => by
    simp only [sub] at hs
    simp only [mutPath, Bool.and_eq_true] at hp
    cases hki : kids[i]? with
    | none => simp [hki] at hs
    | some k =>
      simp only [hki] at hs hp
      have ih := cnt_replaceAt y t' hs hp.2
      have hset := cntL_set (x := y) (k' := replaceAt k p t') hki
      simp only [replaceAt, hki, cnt, hp.1, if_true]
      omega

theorem sub_replaceAt : ∀ {p : List Nat} {t tx : ATree} (t' : ATree),
    sub t p = some tx → sub (replaceAt t p t') p = some t'
  | [], t, tx, t', _ => by simp [sub, replaceAt]
  | i :: p, .node a m sc kids, tx, t', hs => by
    simp only [sub] at hs
    cases hki : kids[i]? with
    | none => simp [hki] at hs
    | some k =>
      simp only [hki] at hs
      have hi : i < kids.length := (List.getElem?_eq_some_iff.mp hki).1
      simp [replaceAt, hki, sub, List.getElem?_set_self hi, sub_replaceAt t' hs]

end BtcVerif.Model.Heap
