/-
  Helper lemmas for C06 / C07: the Python-list operations on top-first lists, the number codec
  (`bn2vch` / `vch2bn`) and `raw_iter` facts used by the interpreter invariants.
-/
import BtcVerif.Model.ScriptEval
import Mathlib.Tactic.SplitIfs

namespace BtcVerif.Model.ScriptEval
open BtcVerif BtcVerif.Spec BtcVerif.Spec.Script BtcVerif.Model.Script

/-! ### `getTop?`, `delTop?`, `setTop?`, `pop?` on literal prefixes -/

section lits
variable {α : Type} (a b c d e f : α) (l : List α) (v : α)

@[simp] theorem getTop?_1 : getTop? (a :: l) 1 = some a := by simp [getTop?]
@[simp] theorem getTop?_2 : getTop? (a :: b :: l) 2 = some b := by simp [getTop?]
@[simp] theorem getTop?_3 : getTop? (a :: b :: c :: l) 3 = some c := by simp [getTop?]
@[simp] theorem getTop?_4 : getTop? (a :: b :: c :: d :: l) 4 = some d := by simp [getTop?]
@[simp] theorem getTop?_5 : getTop? (a :: b :: c :: d :: e :: l) 5 = some e := by simp [getTop?]
@[simp] theorem getTop?_6 : getTop? (a :: b :: c :: d :: e :: f :: l) 6 = some f := by simp [getTop?]

@[simp] theorem delTop?_2 : delTop? (a :: b :: l) 2 = some (a :: l) := by simp [delTop?, topPos?]
@[simp] theorem delTop?_5 : delTop? (a :: b :: c :: d :: e :: l) 5 = some (a :: b :: c :: d :: l) := by
  simp [delTop?, topPos?]
@[simp] theorem delTop?_6 :
    delTop? (a :: b :: c :: d :: e :: f :: l) 6 = some (a :: b :: c :: d :: e :: l) := by
  simp [delTop?, topPos?]

@[simp] theorem setTop?_1 : setTop? (a :: l) 1 v = some (v :: l) := by simp [setTop?, topPos?]
@[simp] theorem setTop?_2 : setTop? (a :: b :: l) 2 v = some (a :: v :: l) := by simp [setTop?, topPos?]
@[simp] theorem setTop?_3 : setTop? (a :: b :: c :: l) 3 v = some (a :: b :: v :: l) := by
  simp [setTop?, topPos?]
@[simp] theorem setTop?_4 : setTop? (a :: b :: c :: d :: l) 4 v = some (a :: b :: c :: v :: l) := by
  simp [setTop?, topPos?]

@[simp] theorem pop?_cons : pop? (a :: l) = some (a, l) := rfl
@[simp] theorem pop?_nil : pop? ([] : List α) = none := rfl

@[simp] theorem insertBelowTop_2 : insertBelowTop (a :: b :: l) v = a :: b :: v :: l := by
  simp [insertBelowTop]
end lits

/-- `l[-k]` for `1 ≤ k ≤ len(l)` exists and is an element of the list -/
theorem getTop?_pos {α} (l : List α) (k : Int) (h1 : 1 ≤ k) (h2 : k ≤ l.length) :
    ∃ x, getTop? l k = some x ∧ x ∈ l ∧ l[(k - 1).toNat]? = some x := by
  have hlt : (k - 1).toNat < l.length := by omega
  refine ⟨l[(k - 1).toNat], ?_, List.getElem_mem hlt, ?_⟩
  · simp [getTop?, h1]
  · simp

/-- `del l[-k]` for `1 ≤ k ≤ len(l)` -/
theorem delTop?_pos {α} (l : List α) (k : Int) (h1 : 1 ≤ k) (h2 : k ≤ l.length) :
    delTop? l k = some (l.eraseIdx (k - 1).toNat) := by
  simp [delTop?, topPos?, h1]
  omega

/-- `while i > 1: stack.pop()` never raises when enough items are there -/
theorem popN_eq (n : Nat) (l : List Bytes) (h : n ≤ l.length) : popN n l = .ok (l.drop n) := by
  induction n generalizing l with
  | zero => simp [popN]
  | succ n ih =>
    cases l with
    | nil => simp at h
    | cons x r =>
      simp only [popN, pop?_cons, pyIdx, bind, Except.bind]
      rw [ih r (by simpa using h)]
      simp

/-! ### number codec -/

theorem bitLength_zero : bitLength 0 = 0 := by unfold bitLength; simp

theorem bitLength_pos {n : Nat} (h : n ≠ 0) : bitLength n = bitLength (n / 2) + 1 := by
  rw [bitLength]; simp [h]

theorem bitLength_le {m n : Nat} (h : n < 2 ^ m) : bitLength n ≤ m := by
  induction m generalizing n with
  | zero =>
    have : n = 0 := by simpa using h
    subst this; simp [bitLength_zero]
  | succ m ih =>
    by_cases h0 : n = 0
    · subst h0; simp [bitLength_zero]
    · rw [bitLength_pos h0]
      have : n / 2 < 2 ^ m := by rw [Nat.pow_succ] at h; omega
      have := ih this
      omega

theorem bnBytes_le {k n : Nat} (h : n < 256 ^ k) : bnBytes n false ≤ k := by
  have h' : n < 2 ^ (8 * k) := by
    rw [Nat.pow_mul]; exact h
  have := bitLength_le h'
  simp only [bnBytes]
  simp
  omega

theorem bnBytes_pos {n : Nat} (h : n ≠ 0) : 1 ≤ bnBytes n false := by
  have := bitLength_pos h
  simp only [bnBytes]
  simp
  omega

@[simp] theorem bn2bin_length (v : Nat) : (bn2bin v).length = bnBytes v false := by
  simp [bn2bin]

/-- `bn2vch` never raises, and its result has at most one byte more than the magnitude -/
theorem bn2vch_spec (v : Int) :
    ∃ b, bn2vch v = .ok b ∧ b.length ≤ bnBytes v.natAbs false + 1 := by
  unfold bn2vch bn2mpiBody
  by_cases hneg : v < 0
  · have hne : v.natAbs ≠ 0 := by omega
    have hpos := bnBytes_pos hne
    simp only [hneg, decide_true, if_true]
    split
    · refine ⟨_, rfl, ?_⟩; simp
    · cases hb : bn2bin v.natAbs with
      | nil =>
        have : (bn2bin v.natAbs).length = 0 := by rw [hb]; rfl
        rw [bn2bin_length] at this; omega
      | cons x r =>
        refine ⟨_, rfl, ?_⟩
        have : (bn2bin v.natAbs).length = r.length + 1 := by rw [hb]; rfl
        rw [bn2bin_length] at this
        simp; omega
  · simp only [hneg, decide_false, Bool.false_eq_true, if_false]
    refine ⟨_, rfl, ?_⟩
    simp
    split <;> simp

/-- results of arithmetic on 4-byte operands, stack depths and element sizes encode in ≤ 6 bytes -/
theorem bn2vch_small (v : Int) (h1 : -(2 ^ 40) < v) (h2 : v < 2 ^ 40) :
    ∃ b, bn2vch v = .ok b ∧ b.length ≤ 6 := by
  obtain ⟨b, hb, hl⟩ := bn2vch_spec v
  refine ⟨b, hb, ?_⟩
  have : v.natAbs < 256 ^ 5 := by omega
  have := bnBytes_le this
  omega

theorem beNat_foldl_lt (l : Bytes) (acc : Nat) :
    l.foldl (fun acc b => acc * 256 + b.toNat) acc < (acc + 1) * 256 ^ l.length := by
  induction l generalizing acc with
  | nil => simp
  | cons b r ih =>
    have hb : b.toNat < 256 := b.toNat_lt
    simp only [List.foldl_cons, List.length_cons, Nat.pow_succ]
    have h1 := ih (acc * 256 + b.toNat)
    have h2 : (acc * 256 + b.toNat + 1) * 256 ^ r.length ≤ ((acc + 1) * 256) * 256 ^ r.length :=
      Nat.mul_le_mul_right _ (by omega)
    calc _ < (acc * 256 + b.toNat + 1) * 256 ^ r.length := h1
      _ ≤ ((acc + 1) * 256) * 256 ^ r.length := h2
      _ = (acc + 1) * (256 ^ r.length * 256) := by
        rw [Nat.mul_assoc, Nat.mul_comm 256]

theorem beNat_lt (l : Bytes) : beNat l < 256 ^ l.length := by
  have := beNat_foldl_lt l 0
  simpa [beNat] using this

/-- `vch2bn` raises only for strings of 2³² bytes or more; the value is bounded by the length -/
theorem vch2bn_spec (s : Bytes) (h : s.length < 2 ^ 32) :
    ∃ v : Int, vch2bn s = .ok v ∧ -(256 ^ s.length : Nat) < v ∧ v < (256 ^ s.length : Nat) := by
  unfold vch2bn
  have h' : ¬ s.length ≥ 2 ^ 32 := by omega
  simp only [h', if_false]
  cases hr : s.reverse with
  | nil =>
    refine ⟨0, rfl, ?_, ?_⟩
    · have : 0 < 256 ^ s.length := Nat.pow_pos (by omega)
      omega
    · have : 0 < 256 ^ s.length := Nat.pow_pos (by omega)
      omega
  | cons t r =>
    have hlen : s.length = r.length + 1 := by
      have : s.reverse.length = r.length + 1 := by rw [hr]; rfl
      simpa using this
    simp only
    split
    · refine ⟨_, rfl, ?_, ?_⟩
      · have := beNat_lt (UInt8.ofNat (t.toNat - 0x80) :: r)
        simp only [List.length_cons] at this
        rw [hlen]; omega
      · have : 0 < 256 ^ s.length := Nat.pow_pos (by omega)
        omega
    · refine ⟨_, rfl, ?_, ?_⟩
      · have : 0 < 256 ^ s.length := Nat.pow_pos (by omega)
        omega
      · have := beNat_lt (t :: r)
        simp only [List.length_cons] at this
        rw [hlen]; omega

/-! ### `raw_iter` yields data for every push opcode -/

theorem rawStep_data {idx : Nat} {s : Bytes} {o : RawOp} {rest : Bytes}
    (h : rawStep idx s = some (.op o rest)) : o.opcode ≤ 0x4e → o.data.isSome := by
  cases s with
  | nil => simp [rawStep] at h
  | cons b t =>
    simp only [rawStep] at h
    split at h
    · simp only [Option.some.injEq, Step.op.injEq] at h
      intro hle; rw [← h.1] at hle; simp at hle; omega
    · split at h
      · simp at h
      · split at h
        · simp at h
        · simp only [Option.some.injEq, Step.op.injEq] at h
          intro _; rw [← h.1]; simp

theorem rawIterFrom_none {idx : Nat} {s : Bytes} (h : rawStep idx s = none) :
    rawIterFrom idx s = ([], none) := by
  rw [rawIterFrom]; split <;> simp_all

theorem rawIterFrom_err {idx : Nat} {s : Bytes} {e : IterErr} (h : rawStep idx s = some (.err e)) :
    rawIterFrom idx s = ([], some e) := by
  rw [rawIterFrom]; split <;> simp_all

theorem rawIterFrom_op {idx : Nat} {s : Bytes} {o : RawOp} {rest : Bytes}
    (h : rawStep idx s = some (.op o rest)) :
    rawIterFrom idx s = (o :: (rawIterFrom (idx + (s.length - rest.length)) rest).1,
      (rawIterFrom (idx + (s.length - rest.length)) rest).2) := by
  rw [rawIterFrom]; split <;> simp_all

theorem rawIterFrom_data (idx : Nat) (s : Bytes) :
    ∀ o ∈ (rawIterFrom idx s).1, o.opcode ≤ 0x4e → o.data.isSome := by
  induction idx, s using rawIterFrom.induct with
  | case1 idx s h => rw [rawIterFrom_none h]; simp
  | case2 idx s e h => rw [rawIterFrom_err h]; simp
  | case3 idx s o rest h ops e heq ih =>
    rw [rawIterFrom_op h]
    intro o' ho'
    simp only [List.mem_cons] at ho'
    rcases ho' with rfl | ho'
    · exact rawStep_data h
    · exact ih o' ho'

theorem rawIter_data (s : Bytes) : ∀ o ∈ (rawIter s).1, o.opcode ≤ 0x4e → o.data.isSome :=
  rawIterFrom_data 0 s

end BtcVerif.Model.ScriptEval
