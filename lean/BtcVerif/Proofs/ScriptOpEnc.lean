/-
  C06 — operations as byte chunks: every operation the tokenisers yield is the parse of its own
  encoding `encOp`, independently of what follows (locality of `GetOp` / `raw_iter`).
-/
import BtcVerif.Proofs.ScriptEquivParse

namespace BtcVerif.Model.ScriptEval
open BtcVerif BtcVerif.Spec BtcVerif.Spec.Script BtcVerif.Model.Script

/-- width of the length field of a push opcode -/
def lenWidth (opc : Nat) : Nat := if opc < 0x4c then 0 else if opc = 0x4c then 1 else if opc = 0x4d then 2 else 4

/-- the bytes of an operation: opcode byte, length field, data -/
def encBytes (opc : Nat) (push : Bool) (d : Bytes) : Bytes :=
  if push then UInt8.ofNat opc :: (leBytes (lenWidth opc) d.length ++ d) else [UInt8.ofNat opc]

def encOp (o : RawOp) : Bytes := encBytes o.opcode o.data.isSome (o.data.getD [])

theorem u8_ofNat_toNat (b : UInt8) : UInt8.ofNat b.toNat = b := by
  apply UInt8.toNat_inj.mp
  rw [UInt8.toNat_ofNat']
  have := b.toNat_lt
  omega

/-- well-formed (opcode, data) pairs: what `GetOp` can return -/
def WFEnc (opc : Nat) (v : Bytes) : Prop :=
  opc < 256 ∧ (opc < 0x4c → v.length = opc) ∧
  (0x4c ≤ opc → opc ≤ 0x4e → v.length < 256 ^ lenWidth opc) ∧ (0x4e < opc → v = [])

/-- `GetOp` returns an operation whose encoding is a prefix of the input (and says how) -/
theorem getOp_enc {s : Bytes} {opc : Nat} {v rest : Bytes} (h : Ref.getOp s = some (opc, v, rest)) :
    s = encBytes opc (decide (opc ≤ 0x4e)) v ++ rest ∧ WFEnc opc v := by
  cases s with
  | nil => simp [Ref.getOp] at h
  | cons b pc =>
    have hb := b.toNat_lt
    simp only [Ref.getOp] at h
    by_cases hle : b.toNat ≤ 0x4e
    · simp only [hle, if_true] at h
      -- a push: `k` header bytes, then `nSize` data bytes
      have key : ∀ (k : Nat), lenWidth b.toNat = k → 0x4c ≤ b.toNat → ¬ pc.length < k →
          (if (pc.drop k).length < leNat (pc.take k) then none
            else some (b.toNat, (pc.drop k).take (leNat (pc.take k)), (pc.drop k).drop (leNat (pc.take k)))) =
            some (opc, v, rest) →
          b :: pc = encBytes opc (decide (opc ≤ 0x4e)) v ++ rest ∧ WFEnc opc v := by
        intro k hk h4c hlen hres
        split at hres
        · simp at hres
        · rename_i hsz
          simp only [Option.some.injEq, Prod.mk.injEq] at hres
          obtain ⟨rfl, rfl, rfl⟩ := hres
          have htk : (pc.take k).length = k := by simp only [List.length_take]; omega
          have hvl : ((pc.drop k).take (leNat (pc.take k))).length = leNat (pc.take k) := by
            simp only [List.length_take]; omega
          have hle' : leBytes k (leNat (pc.take k)) = pc.take k := by
            have := leBytes_leNat (pc.take k); rwa [htk] at this
          refine ⟨?_, by omega, by intro h; omega, ?_, by intro h; omega⟩
          · simp only [encBytes, hle, decide_true, if_true, hk, hvl, hle', u8_ofNat_toNat, List.cons_append,
              List.append_assoc, List.take_append_drop]
          · intro _ _
            rw [hvl, hk]
            have := leNat_lt (pc.take k)
            rwa [htk] at this
      by_cases h1 : b.toNat < 0x4c
      · simp only [h1, if_true] at h
        have hk : lenWidth b.toNat = 0 := by simp [lenWidth, h1]
        -- here the size is the opcode itself
        split at h
        · simp at h
        · simp only [Option.some.injEq, Prod.mk.injEq] at h
          obtain ⟨rfl, rfl, rfl⟩ := h
          rename_i hsz
          have hvl : (pc.take b.toNat).length = b.toNat := by simp only [List.length_take]; omega
          refine ⟨?_, by omega, fun _ => hvl, by intro h; omega, by intro h; omega⟩
          simp only [encBytes, hle, decide_true, if_true, hk, leBytes, List.nil_append, u8_ofNat_toNat,
            List.cons_append, List.take_append_drop]
      · simp only [h1, if_false] at h
        by_cases h2 : b.toNat = 0x4c
        · simp only [h2, if_true] at h
          by_cases hl : pc.length < 1
          · simp [hl] at h
          · simp only [hl, if_false] at h
            exact key 1 (by simp [lenWidth, h2]) (by omega) hl (by rw [h2]; exact h)
        · simp only [h2, if_false] at h
          by_cases h3 : b.toNat = 0x4d
          · simp only [h3, if_true] at h
            by_cases hl : pc.length < 2
            · simp [hl] at h
            · simp only [hl, if_false] at h
              exact key 2 (by simp [lenWidth, h3]) (by omega) hl (by rw [h3]; exact h)
          · simp only [h3, if_false] at h
            have h4 : b.toNat = 0x4e := by omega
            by_cases hl : pc.length < 4
            · simp [hl] at h
            · simp only [hl, if_false] at h
              exact key 4 (by simp [lenWidth, h4]) (by omega) hl h
    · simp only [hle, if_false, Option.some.injEq, Prod.mk.injEq] at h
      obtain ⟨rfl, rfl, rfl⟩ := h
      have : ¬ b.toNat ≤ 78 := hle
      refine ⟨?_, hb, by intro h; omega, by intro h; omega, fun _ => rfl⟩
      simp [encBytes, this, u8_ofNat_toNat]

theorem u8_toNat_ofNat {n : Nat} (h : n < 256) : (UInt8.ofNat n).toNat = n := by
  rw [UInt8.toNat_ofNat']; omega

/-- (L2) locality: the encoding of a well-formed operation parses back to it, whatever follows -/
theorem getOp_encBytes (opc : Nat) (v X : Bytes) (hw : WFEnc opc v) :
    Ref.getOp (encBytes opc (decide (opc ≤ 0x4e)) v ++ X) = some (opc, v, X) := by
  obtain ⟨h256, hsmall, hpush, hnon⟩ := hw
  have hb : (UInt8.ofNat opc).toNat = opc := u8_toNat_ofNat h256
  by_cases hle : opc ≤ 0x4e
  · simp only [encBytes, hle, decide_true, if_true, List.cons_append, List.append_assoc, Ref.getOp, hb]
    have key : ∀ k, v.length < 256 ^ k →
        (if (List.drop k (leBytes k v.length ++ (v ++ X))).length < leNat (List.take k (leBytes k v.length ++ (v ++ X)))
          then none
          else some (opc, List.take (leNat (List.take k (leBytes k v.length ++ (v ++ X))))
                  (List.drop k (leBytes k v.length ++ (v ++ X))),
                List.drop (leNat (List.take k (leBytes k v.length ++ (v ++ X))))
                  (List.drop k (leBytes k v.length ++ (v ++ X))))) = some (opc, v, X) := by
      intro k hv
      have ht : List.take k (leBytes k v.length ++ (v ++ X)) = leBytes k v.length := by
        rw [List.take_left' (leBytes_length k v.length)]
      have hd : List.drop k (leBytes k v.length ++ (v ++ X)) = v ++ X := by
        rw [List.drop_left' (leBytes_length k v.length)]
      have hn : leNat (leBytes k v.length) = v.length := by
        rw [leNat_leBytes]; exact Nat.mod_eq_of_lt hv
      rw [ht, hd, hn]
      have : ¬ (v ++ X).length < v.length := by simp
      simp only [this, if_false, List.take_left', List.drop_left']
    have hlenk : ∀ k, ¬ ((leBytes k v.length ++ (v ++ X)).length < k) := by
      intro k; simp
    by_cases h1 : opc < 0x4c
    · have hk : lenWidth opc = 0 := by simp [lenWidth, h1]
      have hv := hsmall h1
      simp only [h1, if_true, hk, leBytes, List.nil_append]
      have : ¬ (v ++ X).length < opc := by simp [← hv]
      simp only [this, if_false]
      rw [← hv]
      simp only [List.take_left', List.drop_left']
    · have hv := hpush (by omega) hle
      simp only [h1, if_false]
      by_cases h2 : opc = 0x4c
      · have hk : lenWidth opc = 1 := by simp [lenWidth, h2]
        rw [hk] at hv ⊢
        simp only [h2, if_true, hlenk 1, if_false]
        rw [← h2]; exact key 1 hv
      · by_cases h3 : opc = 0x4d
        · have hk : lenWidth opc = 2 := by simp [lenWidth, h3]
          rw [hk] at hv ⊢
          simp only [h3, if_true, hlenk 2, if_false, Nat.reduceEqDiff]
          rw [← h3]; exact key 2 hv
        · have h4 : opc = 0x4e := by omega
          have hk : lenWidth opc = 4 := by simp [lenWidth, h4]
          rw [hk] at hv ⊢
          simp only [h4, hlenk 4, if_false, Nat.reduceEqDiff]
          rw [← h4]; exact key 4 hv
  · have hgt : 0x4e < opc := by omega
    have hv := hnon hgt
    subst hv
    simp [encBytes, hle, Ref.getOp, hb]

end BtcVerif.Model.ScriptEval
