/-
  C07 — invariants of the interpreter model, opcode arm by opcode arm.

  `Pre B st` is what holds at the head of the `for` loop (at most 1000 items, at most 201 counted
  operations, every element at most `B` bytes); `Good c B r` is what one opcode arm may produce from
  such a state: a state within the slightly larger bounds `Lim`, or an EvalScriptError /
  CScriptInvalidError whose captured state is within `Lim`, and a foreign Python exception only
  when `RawSignatureHash` raised it (`Ctx.Raises`; known finding D7).
-/
import BtcVerif.Proofs.ScriptEvalBasic

namespace BtcVerif.Model.ScriptEval
open BtcVerif BtcVerif.Spec BtcVerif.Spec.Script BtcVerif.Model.Script

def ElemsLe (B : Nat) (l : List Bytes) : Prop := ∀ x ∈ l, x.length ≤ B

/-- limits of a captured / intermediate state -/
def Lim (B : Nat) (s a : List Bytes) (n : Nat) : Prop :=
  s.length + a.length ≤ 1003 ∧ n ≤ 221 ∧ ElemsLe B s ∧ ElemsLe B a

/-- limits at the head of the loop -/
def Pre (B : Nat) (st : St) : Prop :=
  st.stack.length + st.alt.length ≤ 1000 ∧ st.nOpCount ≤ 201 ∧ ElemsLe B st.stack ∧ ElemsLe B st.alt

/-- `RawSignatureHash` lets an exception of class `cls` through for some script code of at most
    10 000 bytes (longer ones never reach it: `_EvalScript` refuses the script) and some hash type byte -/
def Ctx.Raises (c : Ctx) (cls : String) : Prop :=
  ∃ script ht x, script.length ≤ MAX_SCRIPT_SIZE ∧ ht < 256 ∧
    c.sigHash script ht = .error x ∧ x ≠ .invalidscript ∧ cls = excClass x

def Good (c : Ctx) (B : Nat) : M St → Prop
  | .ok st' => Lim B st'.stack st'.alt st'.nOpCount ∧ st'.nOpCount ≤ 201
  | .error (.eval cap) => Lim B cap.stack cap.altstack cap.nOpCount
  | .error (.invalid cap) => Lim B cap.stack cap.altstack cap.nOpCount
  | .error .verify => False
  | .error (.py cls) => c.Raises cls

/-- `OPCODE_NAMES[sop]` hits -/
abbrev Named (sop : Nat) : Prop := (opcodeName? sop).isSome = true

/-- the three hash primitives return short strings (20 / 32 bytes for the real ones) -/
def HashesOK (h : Hashes) : Prop :=
  ∀ x, (h.sha1 x).length ≤ 520 ∧ (h.ripemd160 x).length ≤ 520 ∧ (h.sha256 x).length ≤ 520

theorem Pre.lim {B : Nat} {st : St} (h : Pre B st) : Lim B st.stack st.alt st.nOpCount := by
  obtain ⟨h1, h2, h3, h4⟩ := h
  exact ⟨by omega, by omega, h3, h4⟩

theorem good_raise {c : Ctx} {B : Nat} {st : St} (h : Pre B st) : Good c B (raise st) := h.lim

theorem good_raiseNamed {c : Ctx} {B : Nat} {st : St} {sop : Nat} (hn : Named sop) (h : Pre B st) :
    Good c B (raiseNamed sop st) := by
  obtain ⟨nm, hnm⟩ := Option.isSome_iff_exists.mp hn
  simp only [raiseNamed, hnm]; exact h.lim

@[simp] theorem len_lt_1 (n : Nat) : (n + 1 < 1) = False := by simp
@[simp] theorem len_lt_2 (n : Nat) : (n + 1 + 1 < 2) = False := by simp
@[simp] theorem len_lt_3 (n : Nat) : (n + 1 + 1 + 1 < 3) = False := by simp
@[simp] theorem len_lt_4 (n : Nat) : (n + 1 + 1 + 1 + 1 < 4) = False := by simp
@[simp] theorem len_lt_6 (n : Nat) : (n + 1 + 1 + 1 + 1 + 1 + 1 < 6) = False := by simp

/-- closes the arithmetic and membership goals left after simplification of an opcode arm -/
macro "lim_finish" : tactic =>
  `(tactic| (repeat' apply And.intro) <;>
      (first | omega | (simp only [List.length_cons, List.length_nil] at *; omega) | simp_all))

/-- unfolds the monadic plumbing of one opcode arm on a stack whose prefix is known -/
macro "arm_simp" hn:ident : tactic =>
  `(tactic| (obtain ⟨nm, hnm⟩ := Option.isSome_iff_exists.mp $hn
             simp [hnm, checkArgs, raiseNamed, raise, St.cap, pyIdx, bind, Except.bind, Good, Lim,
               Pre, ElemsLe] at *))

section arms
variable {c : Ctx} {B : Nat} {st : St} {sop : Nat}

theorem op2Drop_good (h : Pre B st) (hn : Named sop) : Good c B (op2Drop sop st) := by
  unfold op2Drop
  obtain ⟨s, al, vf, pb, n⟩ := st
  rcases s with _ | ⟨a, _ | ⟨b, rest⟩⟩ <;> arm_simp hn <;> lim_finish

theorem op2Dup_good (h : Pre B st) (hn : Named sop) : Good c B (op2Dup sop st) := by
  unfold op2Dup
  obtain ⟨s, al, vf, pb, n⟩ := st
  rcases s with _ | ⟨a, _ | ⟨b, rest⟩⟩ <;> arm_simp hn <;> lim_finish

theorem op2Over_good (h : Pre B st) (hn : Named sop) : Good c B (op2Over sop st) := by
  unfold op2Over
  obtain ⟨s, al, vf, pb, n⟩ := st
  rcases s with _ | ⟨a, _ | ⟨b, _ | ⟨c', _ | ⟨d, rest⟩⟩⟩⟩ <;> arm_simp hn <;> lim_finish

theorem op2Rot_good (h : Pre B st) (hn : Named sop) : Good c B (op2Rot sop st) := by
  unfold op2Rot
  obtain ⟨s, al, vf, pb, n⟩ := st
  rcases s with _ | ⟨a, _ | ⟨b, _ | ⟨c', _ | ⟨d, _ | ⟨e, _ | ⟨f, rest⟩⟩⟩⟩⟩⟩ <;>
    arm_simp hn <;> lim_finish

theorem op2Swap_good (h : Pre B st) (hn : Named sop) : Good c B (op2Swap sop st) := by
  unfold op2Swap
  obtain ⟨s, al, vf, pb, n⟩ := st
  rcases s with _ | ⟨a, _ | ⟨b, _ | ⟨c', _ | ⟨d, rest⟩⟩⟩⟩ <;> arm_simp hn <;> lim_finish

theorem op3Dup_good (h : Pre B st) (hn : Named sop) : Good c B (op3Dup sop st) := by
  unfold op3Dup
  obtain ⟨s, al, vf, pb, n⟩ := st
  rcases s with _ | ⟨a, _ | ⟨b, _ | ⟨c', rest⟩⟩⟩ <;> arm_simp hn <;> lim_finish

theorem opDrop_good (h : Pre B st) (hn : Named sop) : Good c B (opDrop sop st) := by
  unfold opDrop
  obtain ⟨s, al, vf, pb, n⟩ := st
  rcases s with _ | ⟨a, rest⟩ <;> arm_simp hn <;> lim_finish

theorem opDup_good (h : Pre B st) (hn : Named sop) : Good c B (opDup sop st) := by
  unfold opDup
  obtain ⟨s, al, vf, pb, n⟩ := st
  rcases s with _ | ⟨a, rest⟩ <;> arm_simp hn <;> lim_finish

theorem opNip_good (h : Pre B st) (hn : Named sop) : Good c B (opNip sop st) := by
  unfold opNip
  obtain ⟨s, al, vf, pb, n⟩ := st
  rcases s with _ | ⟨a, _ | ⟨b, rest⟩⟩ <;> arm_simp hn <;> lim_finish

theorem opOver_good (h : Pre B st) (hn : Named sop) : Good c B (opOver sop st) := by
  unfold opOver
  obtain ⟨s, al, vf, pb, n⟩ := st
  rcases s with _ | ⟨a, _ | ⟨b, rest⟩⟩ <;> arm_simp hn <;> lim_finish

theorem opRot_good (h : Pre B st) (hn : Named sop) : Good c B (opRot sop st) := by
  unfold opRot
  obtain ⟨s, al, vf, pb, n⟩ := st
  rcases s with _ | ⟨a, _ | ⟨b, _ | ⟨c', rest⟩⟩⟩ <;> arm_simp hn <;> lim_finish

theorem opSwap_good (h : Pre B st) (hn : Named sop) : Good c B (opSwap sop st) := by
  unfold opSwap
  obtain ⟨s, al, vf, pb, n⟩ := st
  rcases s with _ | ⟨a, _ | ⟨b, rest⟩⟩ <;> arm_simp hn <;> lim_finish

theorem opTuck_good (h : Pre B st) (hn : Named sop) : Good c B (opTuck sop st) := by
  unfold opTuck
  obtain ⟨s, al, vf, pb, n⟩ := st
  rcases s with _ | ⟨a, _ | ⟨b, rest⟩⟩ <;> arm_simp hn <;> lim_finish

theorem opToAltStack_good (h : Pre B st) (hn : Named sop) : Good c B (opToAltStack sop st) := by
  unfold opToAltStack
  obtain ⟨s, al, vf, pb, n⟩ := st
  rcases s with _ | ⟨a, rest⟩ <;> arm_simp hn <;> lim_finish

theorem opFromAltStack_good (h : Pre B st) (hn : Named sop) : Good c B (opFromAltStack sop st) := by
  unfold opFromAltStack
  obtain ⟨s, al, vf, pb, n⟩ := st
  rcases al with _ | ⟨a, rest⟩ <;> arm_simp hn <;> lim_finish

theorem opEqual_good (h : Pre B st) (hn : Named sop) (hB : 520 ≤ B) : Good c B (opEqual sop st) := by
  unfold opEqual
  obtain ⟨s, al, vf, pb, n⟩ := st
  rcases s with _ | ⟨a, _ | ⟨b, rest⟩⟩ <;> arm_simp hn
  · lim_finish
  · lim_finish
  · split <;> lim_finish

theorem opEqualVerify_good (h : Pre B st) (hn : Named sop) : Good c B (opEqualVerify sop st) := by
  unfold opEqualVerify
  obtain ⟨s, al, vf, pb, n⟩ := st
  rcases s with _ | ⟨a, _ | ⟨b, rest⟩⟩ <;> arm_simp hn
  · lim_finish
  · lim_finish
  · split_ifs <;> simp [Good, Lim, ElemsLe] at * <;> lim_finish

theorem opIfDup_good (h : Pre B st) (hn : Named sop) : Good c B (opIfDup sop st) := by
  unfold opIfDup
  obtain ⟨s, al, vf, pb, n⟩ := st
  rcases s with _ | ⟨a, rest⟩ <;> arm_simp hn
  · lim_finish
  · split_ifs <;> simp [Good, Lim, ElemsLe] at * <;> lim_finish

theorem opVerify_good (h : Pre B st) (hn : Named sop) : Good c B (opVerify sop st) := by
  unfold opVerify
  obtain ⟨s, al, vf, pb, n⟩ := st
  rcases s with _ | ⟨a, rest⟩ <;> arm_simp hn
  · lim_finish
  · split_ifs <;> simp [Good, Lim, ElemsLe] at * <;> lim_finish

theorem opIf_good (fExec : Bool) (h : Pre B st) (hn : Named sop) : Good c B (opIf sop fExec st) := by
  unfold opIf
  cases fExec
  · obtain ⟨h1, h2, h3, h4⟩ := h
    simp [Good, Lim]; exact ⟨⟨by omega, by omega, h3, h4⟩, h2⟩
  · obtain ⟨s, al, vf, pb, n⟩ := st
    rcases s with _ | ⟨a, rest⟩ <;> arm_simp hn <;> lim_finish

theorem opElse_good (h : Pre B st) : Good c B (opElse st) := by
  unfold opElse
  have hl := h.lim
  obtain ⟨_, h2, _, _⟩ := h
  rcases hs : st.vfExec with _ | ⟨a, rest⟩ <;>
    simp [hs, raise, St.cap, pyIdx, bind, Except.bind, Good] <;> first | exact hl | exact ⟨hl, h2⟩

theorem opEndIf_good (h : Pre B st) : Good c B (opEndIf st) := by
  unfold opEndIf
  have hl := h.lim
  obtain ⟨_, h2, _, _⟩ := h
  rcases hs : st.vfExec with _ | ⟨a, rest⟩ <;>
    simp [hs, raise, St.cap, pyIdx, bind, Except.bind, Good] <;> first | exact hl | exact ⟨hl, h2⟩

theorem opNop_good (fl : Flags) (h : Pre B st) (hn : Named sop) : Good c B (opNop fl sop st) := by
  unfold opNop
  split
  · exact good_raiseNamed hn h
  · exact ⟨h.lim, h.2.1⟩

theorem opCodeSeparator_good (op : RawOp) (h : Pre B st) : Good c B (opCodeSeparator op st) :=
  ⟨h.lim, h.2.1⟩

end arms

end BtcVerif.Model.ScriptEval
