/-
  C11 helper lemmas, part 4: segwit `decode` / `encode` against the BIP173 predicate.
-/
import BtcVerif.Proofs.Bech32Str

namespace BtcVerif.Bech32
open BtcVerif.Model.Bech32
open BtcVerif.Spec.Bech32 (charOf? dataChars? lowerStr Regroup Decodes ValidSegwit checksumValid)

/-! ### the model's checksum function is the BIP's -/

theorem polymodStep_eq_spec (c v : Nat) : polymodStep c v = Spec.Bech32.polymodStep c v := by
  unfold polymodStep Spec.Bech32.polymodStep generator Spec.Bech32.generator
  simp only [genXor, Nat.and_one_is_mod, Nat.shiftRight_eq_div_pow, Nat.shiftLeft_eq, and_m25]
  norm_num

theorem polymod_eq_spec (vs : List Nat) : polymod vs = Spec.Bech32.polymod vs := by
  unfold polymod Spec.Bech32.polymod
  congr 1
  funext c v
  exact polymodStep_eq_spec c v

theorem hrpExpand_eq_spec (h : List Char) : hrpExpand h = Spec.Bech32.hrpExpand h := by
  unfold hrpExpand Spec.Bech32.hrpExpand
  simp only [Nat.shiftRight_eq_div_pow, and_31]

/-! ### decode -/

theorem convertbits_nil : convertbits [] 5 8 false = some [] := rfl

/-- `decode` never raises: the `data[0]` IndexError branch is dead -/
theorem decodeR_ok (h s : List Char) : ∃ r, decodeR h s = .ok r := by
  unfold decodeR
  split
  · exact ⟨_, rfl⟩
  · split
    · exact ⟨_, rfl⟩
    · split
      · exact ⟨_, rfl⟩
      · split
        · exact ⟨_, rfl⟩
        · rename_i data _ _ decoded hcb hlen
          split
          · rw [show ([] : List Nat).drop 1 = [] from rfl, convertbits_nil] at hcb
            simp only [Option.some.injEq] at hcb
            subst hcb
            simp at hlen
          · split
            · exact ⟨_, rfl⟩
            · split <;> exact ⟨_, rfl⟩

theorem decodeR_iff (h s : List Char) (v : Nat) (p : List Nat) :
    decodeR h s = .ok (some (v, p)) ↔ Decodes h s v p := by
  constructor
  · intro hd
    unfold decodeR at hd
    split at hd
    · simp at hd
    · rename_i hrpgot data hbd
      split at hd
      · simp at hd
      · rename_i hh
        simp only [bne_iff_ne, ne_eq, not_not] at hh
        subst hh
        split at hd
        · simp at hd
        · rename_i decoded hcb
          split at hd
          · simp at hd
          · rename_i hlen
            simp only [Bool.or_eq_true, decide_eq_true_eq, not_or, Nat.not_lt] at hlen
            split at hd
            · simp at hd
            · rename_i d0 rest
              split at hd
              · simp at hd
              · rename_i hv16
                split at hd
                · simp at hd
                · rename_i hv0
                  simp only [Except.ok.injEq, Option.some.injEq, Prod.mk.injEq] at hd
                  obtain ⟨rfl, rfl⟩ := hd
                  obtain ⟨hr, hcase, hl, hne, ck, dchars, hck, hdc, hs, hpm⟩ :=
                    (bech32Decode_iff s hrpgot (d0 :: rest)).1 hbd
                  have hfacts := dataChars_facts _ _ hdc
                  have hrest : ∀ x ∈ rest, x < 32 := fun x hx => hfacts.2.1 x (by simp [hx])
                  simp only [List.drop_succ_cons, List.drop_zero] at hcb
                  refine ⟨hr, hcase, hl, hne, rest, ck, dchars, hck, by simpa using hdc, hs, ?_, by omega,
                    (convertbits58_iff rest decoded hrest).1 hcb, hlen.1, hlen.2, ?_⟩
                  · unfold checksumValid
                    rw [← polymod_eq_spec, ← hrpExpand_eq_spec]
                    simpa using hpm
                  · intro h0
                    subst h0
                    simp only [beq_self_eq_true, Bool.true_and, Bool.and_eq_true, bne_iff_ne, ne_eq,
                      not_and, not_not] at hv0
                    by_cases h20 : decoded.length = 20
                    · exact Or.inl h20
                    · exact Or.inr (hv0 h20)
  · rintro ⟨hr, hcase, hl, hne, rest, ck, dchars, hck, hdc, hs, hpm, hv16, hreg, hl2, hl40, hv0⟩
    have hfacts := dataChars_facts _ _ hdc
    have hrest : ∀ x ∈ rest, x < 32 := fun x hx => hfacts.2.1 x (by simp [hx])
    have hbd : bech32Decode s = some (h, v :: rest) := by
      apply (bech32Decode_iff s h (v :: rest)).2
      refine ⟨hr, hcase, hl, hne, ck, dchars, hck, by simpa using hdc, hs, ?_⟩
      unfold checksumValid at hpm
      rw [← polymod_eq_spec, ← hrpExpand_eq_spec] at hpm
      simpa using hpm
    unfold decodeR
    rw [hbd]
    simp only [bne_self_eq_false, Bool.false_eq_true, if_false, List.drop_succ_cons, List.drop_zero]
    rw [(convertbits58_iff rest p hrest).2 hreg]
    simp only []
    have hc1 : ¬ ((decide (p.length < 2) || decide (p.length > 40)) = true) := by
      simp only [Bool.or_eq_true, decide_eq_true_eq, not_or, Nat.not_lt]; omega
    rw [if_neg hc1, if_neg (by omega : ¬ v > 16)]
    have hc2 : ¬ ((v == 0 && p.length != 20 && p.length != 32) = true) := by
      simp only [Bool.and_eq_true, beq_iff_eq, bne_iff_ne, ne_eq, not_and, not_not]
      rintro ⟨h0, h20⟩
      rcases hv0 h0 with h | h
      · exact absurd h h20
      · exact h
    rw [if_neg hc2]

theorem decode_eq_some_iff (h s : List Char) (v : Nat) (p : List Nat) :
    decode h s = some (v, p) ↔ Decodes h s v p := by
  rw [← decodeR_iff]
  unfold decode
  obtain ⟨r, hr⟩ := decodeR_ok h s
  rw [hr]
  simp

theorem decode_ne_none_iff (h s : List Char) : decode h s ≠ none ↔ ValidSegwit h s := by
  unfold ValidSegwit
  constructor
  · intro hn
    cases hd : decode h s with
    | none => exact absurd hd hn
    | some vp =>
      obtain ⟨v, p⟩ := vp
      exact ⟨v, p, (decode_eq_some_iff h s v p).1 hd⟩
  · rintro ⟨v, p, hd⟩
    rw [(decode_eq_some_iff h s v p).2 hd]
    simp

/-! ### the checksum that `create_checksum` appends verifies -/

theorem char_toNat_lt (c : Char) : c.toNat < 2 ^ 21 := by
  have := c.valid
  unfold UInt32.isValidChar Nat.isValidChar at this
  unfold Char.toNat
  omega

theorem hrpExpand_lt (h : List Char) : ∀ v ∈ hrpExpand h, v < 2 ^ 30 := by
  intro v hv
  unfold hrpExpand at hv
  simp only [List.mem_append, List.mem_map, List.mem_singleton] at hv
  rcases hv with (⟨c, _, rfl⟩ | rfl) | ⟨c, _, rfl⟩
  · rw [Nat.shiftRight_eq_div_pow]
    have := char_toNat_lt c
    omega
  · omega
  · rw [and_31]; omega

/-- `run c E = T^|E| c ^^^ run 0 E` -/
theorem run_state (E : List Nat) (c : Nat) : run c E = T^[E.length] c ^^^ run 0 E := by
  induction E generalizing c with
  | nil => simp
  | cons v E ih =>
    rw [run_cons, run_cons, ih, ih (T 0 ^^^ v), T_zero, Nat.zero_xor, iter_linear, List.length_cons,
      Function.iterate_succ_apply, Nat.xor_assoc]

theorem T_small {x : Nat} (hx : x < 2 ^ 25) : T x = x * 32 := by
  unfold T
  rw [Nat.mod_eq_of_lt hx, Nat.div_eq_of_lt hx, G_zero, Nat.xor_zero]

theorem range6 : List.range 6 = [0, 1, 2, 3, 4, 5] := by decide

/-- the six values of the checksum, fed after a zero state, reproduce the number they were cut from -/
theorem run_digits (pm : Nat) (hpm : pm < 2 ^ 30) :
    run 0 [(pm >>> 25) &&& 31, (pm >>> 20) &&& 31, (pm >>> 15) &&& 31, (pm >>> 10) &&& 31,
      (pm >>> 5) &&& 31, (pm >>> 0) &&& 31] = pm := by
  simp only [and_31, Nat.shiftRight_eq_div_pow, run_cons, run_nil, T_zero, Nat.zero_xor]
  have step : ∀ x k, x < 2 ^ 25 → k < 32 → T x ^^^ k = x * 32 + k := by
    intro x k hx hk
    rw [T_small hx, mul32_xor _ _ hk]
  rw [step (pm / 2 ^ 25 % 32) _ (by omega) (by omega)]
  rw [step (pm / 2 ^ 25 % 32 * 32 + pm / 2 ^ 20 % 32) _ (by omega) (by omega)]
  rw [step ((pm / 2 ^ 25 % 32 * 32 + pm / 2 ^ 20 % 32) * 32 + pm / 2 ^ 15 % 32) _ (by omega) (by omega)]
  rw [step (((pm / 2 ^ 25 % 32 * 32 + pm / 2 ^ 20 % 32) * 32 + pm / 2 ^ 15 % 32) * 32 + pm / 2 ^ 10 % 32) _
    (by omega) (by omega)]
  rw [step ((((pm / 2 ^ 25 % 32 * 32 + pm / 2 ^ 20 % 32) * 32 + pm / 2 ^ 15 % 32) * 32 + pm / 2 ^ 10 % 32) * 32
    + pm / 2 ^ 5 % 32) _ (by omega) (by omega)]
  omega

theorem run_zeros6 (c : Nat) : run c [0, 0, 0, 0, 0, 0] = T^[6] c := by
  simp [run_cons, Function.iterate_succ_apply]

/-- `checksum_verifies` -/
theorem verify_create (hrp : List Char) (data : List Nat) (hd : ∀ v ∈ data, v < 32) :
    verifyChecksum hrp (data ++ createChecksum hrp data) = true := by
  rw [verifyChecksum_iff, ← List.append_assoc, polymod_eq_run, run_append 1 (hrpExpand hrp ++ data)]
  have hvs : ∀ v ∈ hrpExpand hrp ++ data, v < 2 ^ 30 := by
    intro v hv
    rcases List.mem_append.1 hv with hv | hv
    · exact hrpExpand_lt hrp v hv
    · have := hd v hv; omega
  have hc : run 1 (hrpExpand hrp ++ data) < 2 ^ 30 := run_lt (by omega) hvs
  unfold createChecksum
  simp only []
  rw [polymod_eq_run, run_append 1 (hrpExpand hrp ++ data), run_zeros6]
  generalize run 1 (hrpExpand hrp ++ data) = c at hc ⊢
  have hpm : T^[6] c ^^^ 1 < 2 ^ 30 := xor_lt30 (iter_lt 6 hc) (by omega)
  rw [run_state, range6]
  simp only [List.map_cons, List.map_nil, List.length_cons, List.length_nil]
  have := run_digits (T^[6] c ^^^ 1) hpm
  simp only [Nat.reduceSub, Nat.reduceMul, Nat.zero_add] at this ⊢
  rw [this, ← Nat.xor_assoc, Nat.xor_self, Nat.zero_xor]

theorem createChecksum_facts (hrp : List Char) (data : List Nat) :
    (createChecksum hrp data).length = 6 ∧ ∀ v ∈ createChecksum hrp data, v < 32 := by
  unfold createChecksum
  simp only [List.length_map, List.length_range, true_and]
  intro v hv
  simp only [List.mem_map] at hv
  obtain ⟨i, _, rfl⟩ := hv
  rw [and_31]; omega

theorem createChecksum_eq_spec (hrp : List Char) (data : List Nat) :
    createChecksum hrp data = Spec.Bech32.checksum hrp data := by
  unfold createChecksum Spec.Bech32.checksum
  simp only [range6, List.map_cons, List.map_nil, and_31, Nat.shiftRight_eq_div_pow, polymod_eq_spec,
    hrpExpand_eq_spec]
  norm_num

/-! ### encode -/

theorem mapM_charsetAt (l : List Nat) (hl : ∀ d ∈ l, d < 32) :
    ∃ cs, l.mapM charsetAt = .ok cs ∧ dataChars? l = some cs := by
  induction l with
  | nil => exact ⟨[], rfl, rfl⟩
  | cons d l ih =>
    obtain ⟨cs, h1, h2⟩ := ih (fun x hx => hl x (by simp [hx]))
    have hd : d < 32 := hl d (by simp)
    have hlen : d < charset.length := by simpa [charset, Spec.Bech32.charset] using hd
    refine ⟨charset[d] :: cs, ?_, ?_⟩
    · rw [List.mapM_cons, h1]
      simp only [charsetAt, List.getElem?_eq_getElem hlen]
      rfl
    · unfold dataChars? at h2 ⊢
      rw [mapM_cons_some]
      exact ⟨charset[d], cs, by unfold charOf?; exact List.getElem?_eq_getElem hlen, h2, rfl⟩

theorem lowerStr_eq_self (s : List Char) (h : ∀ c ∈ s, c.isUpper = false) : lowerStr s = s := by
  unfold lowerStr
  rw [map_eq_self_iff]
  intro c hc
  exact (toLower_eq_self_iff c).2 (h c hc)

/-- `encode` of an admissible (version, program) pair under an admissible prefix succeeds, yields the
    reference encoding, a lower-case string, and `decode` returns the pair -/
theorem encode_spec (h : List Char) (v : Nat) (prog : Bytes)
    (hh : Spec.Bech32.validHrp h) (hv : v ≤ 16) (hl2 : 2 ≤ prog.length) (hl40 : prog.length ≤ 40)
    (hv0 : v = 0 → prog.length = 20 ∨ prog.length = 32)
    (hlen : h.length + 1 + (1 + (8 * prog.length + 4) / 5 + 6) ≤ 90) :
    ∃ a, encodeR h v prog = .ok (some a) ∧
      Spec.Bech32.encodeAddr h v (prog.map UInt8.toNat) = some a ∧
      Decodes h a v (prog.map UInt8.toNat) ∧
      (∀ c ∈ a, c.isUpper = false) := by
  set P := prog.map UInt8.toNat with hP
  have hPb : ∀ x ∈ P, x < 256 := by
    intro x hx
    simp only [hP, List.mem_map] at hx
    obtain ⟨b, _, rfl⟩ := hx
    exact b.toNat_lt
  have hPl : P.length = prog.length := by simp [hP]
  obtain ⟨conv, hconv, hconv32, hreg, hconvl⟩ := convertbits85 P hPb
  have hconv' := convertbits85_eq_spec P hPb
  rw [hconv] at hconv'
  simp only [Option.some.injEq] at hconv'
  set data := v :: conv with hdata
  have hdata32 : ∀ x ∈ data, x < 32 := by
    intro x hx
    simp only [hdata, List.mem_cons] at hx
    rcases hx with rfl | hx
    · omega
    · exact hconv32 x hx
  obtain ⟨hckl, hck32⟩ := createChecksum_facts h data
  have hall : ∀ x ∈ data ++ createChecksum h data, x < 32 := by
    intro x hx
    rcases List.mem_append.1 hx with hx | hx
    · exact hdata32 x hx
    · exact hck32 x hx
  obtain ⟨cs, hcs1, hcs2⟩ := mapM_charsetAt _ hall
  have hfacts := dataChars_facts _ _ hcs2
  have henc : bech32Encode h data = .ok (h ++ ['1'] ++ cs) := by
    unfold bech32Encode
    simp only []
    rw [hcs1]
    rfl
  have hret : h ++ ['1'] ++ cs = h ++ '1' :: cs := by simp
  have hup : ∀ c ∈ h ++ '1' :: cs, c.isUpper = false := by
    intro c hc
    simp only [List.mem_append, List.mem_cons] at hc
    rcases hc with hc | rfl | hc
    · exact (hh.2.2 c hc).2.2
    · decide
    · exact (hfacts.2.2 c hc).2.2.1
  have hdec : Decodes h (h ++ '1' :: cs) v P := by
    refine ⟨?_, ?_, ?_, ?_, conv, createChecksum h data, cs, hckl, hcs2, lowerStr_eq_self _ hup, ?_, hv, hreg,
      by omega, by omega, by rw [hPl]; exact hv0⟩
    · intro c hc
      simp only [List.mem_append, List.mem_cons] at hc
      rcases hc with hc | rfl | hc
      · exact ⟨(hh.2.2 c hc).1, (hh.2.2 c hc).2.1⟩
      · decide
      · exact ⟨(hfacts.2.2 c hc).1, (hfacts.2.2 c hc).2.1⟩
    · rintro ⟨_, c, hc, hcu⟩
      rw [hup c hc] at hcu
      exact absurd hcu (by simp)
    · have : cs.length = 1 + conv.length + 6 := by
        rw [hfacts.1, List.length_append, hckl, hdata, List.length_cons]; omega
      simp only [List.length_append, List.length_cons]
      omega
    · intro he; have := hh.1; rw [he] at this; simp at this
    · unfold checksumValid
      rw [← polymod_eq_spec, ← hrpExpand_eq_spec]
      exact (verifyChecksum_iff _ _).1 (verify_create h data hdata32)
  refine ⟨h ++ '1' :: cs, ?_, ?_, hdec, hup⟩
  · unfold encodeR
    rw [hconv]
    simp only []
    rw [henc]
    simp only [hret]
    rw [(decodeR_iff _ _ _ _).2 hdec]
  · unfold Spec.Bech32.encodeAddr
    simp only []
    rw [← hconv', ← createChecksum_eq_spec, hcs2]
    rfl

/-- `bytes(witprog)` does not raise on a list of byte values -/
theorem bytesOfInts_ok (l : List Nat) (h : ∀ x ∈ l, x < 256) : bytesOfInts l = .ok (l.map UInt8.ofNat) := by
  unfold bytesOfInts
  rw [if_pos]
  rw [List.all_eq_true]
  intro x hx
  simpa using h x hx

end BtcVerif.Bech32
