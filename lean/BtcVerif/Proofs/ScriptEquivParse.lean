/-
  C06 — `CScript.raw_iter` (model) and `CScript::GetOp` (reference) tokenise identically.
-/
import BtcVerif.Proofs.ScriptEquivBasic

namespace BtcVerif.Model.ScriptEval
open BtcVerif BtcVerif.Spec BtcVerif.Spec.Script BtcVerif.Model.Script

theorem leNat_one (a : UInt8) : leNat [a] = a.toNat := by simp [leNat]
theorem leNat_two (a b : UInt8) : leNat [a, b] = a.toNat + b.toNat * 256 := by simp [leNat]; omega
theorem leNat_four (a b c d : UInt8) :
    leNat [a, b, c, d] = a.toNat + b.toNat * 256 + c.toNat * 65536 + d.toNat * 16777216 := by
  simp [leNat]; omega

/-- the facts the simulation needs about one yielded operation -/
def OpFacts (idx : Nat) (s : Bytes) (o : RawOp) (rest : Bytes) : Prop :=
  Ref.getOp s = some (o.opcode, o.data.getD [], rest) ∧ o.sopIdx = idx ∧
  (o.opcode ≤ 0x4e → o.data.isSome) ∧ (o.opcode > 0x4e → o.data = none) ∧
  (∃ pre, s = pre ++ rest ∧ pre ≠ []) ∧
  (o.opcode > 0x4e → ∃ b, s = b :: rest ∧ b.toNat = o.opcode)

/-- a data push: header bytes `hd`, `n` data bytes out of `r` -/
theorem push_facts (idx : Nat) (b : UInt8) (hd r : Bytes) (n : Nat) (hb : b.toNat ≤ 0x4e)
    (hg : Ref.getOp (b :: (hd ++ r)) = if r.length < n then none else some (b.toNat, r.take n, r.drop n)) :
    (r.length < n → (b :: (hd ++ r)) ≠ [] ∧ Ref.getOp (b :: (hd ++ r)) = none) ∧
    (¬ r.length < n → OpFacts idx (b :: (hd ++ r)) ⟨b.toNat, some (r.take n), idx⟩ (r.drop n)) := by
  constructor
  · intro h; exact ⟨by simp, by rw [hg, if_pos h]⟩
  · intro h
    refine ⟨by rw [hg, if_neg h]; rfl, rfl, fun _ => rfl, fun h' => by simp at h'; omega,
      ⟨b :: (hd ++ r.take n), by simp, by simp⟩, fun h' => by simp at h'; omega⟩

/-- what one step of `raw_iter` means for `GetOp` on the same suffix -/
theorem rawStep_getOp (idx : Nat) (s : Bytes) :
    match rawStep idx s with
    | none => s = []
    | some (.err _) => s ≠ [] ∧ Ref.getOp s = none
    | some (.op o rest) => OpFacts idx s o rest := by
  cases s with
  | nil => simp [rawStep]
  | cons b t =>
    by_cases hop : b.toNat > 0x4e
    · have hle : ¬ b.toNat ≤ 0x4e := by omega
      simp only [rawStep, hop, if_true]
      refine ⟨by simp [Ref.getOp, hle], rfl, fun h => by simp at h; omega, fun _ => rfl,
        ⟨[b], rfl, by simp⟩, fun _ => ⟨b, rfl, rfl⟩⟩
    · have hle : b.toNat ≤ 0x4e := by omega
      by_cases h1 : b.toNat < 0x4c
      · have hg : Ref.getOp (b :: ([] ++ t)) =
            if t.length < b.toNat then none else some (b.toNat, t.take b.toNat, t.drop b.toNat) := by
          simp [Ref.getOp, hle, h1]
        have pf := push_facts idx b [] t b.toNat hle hg
        simp only [List.nil_append] at pf
        simp only [rawStep, hop, h1, if_true, if_false, List.length_take]
        by_cases ht : t.length < b.toNat
        · have : min b.toNat t.length < b.toNat := by omega
          simp only [this, if_true]; exact pf.1 ht
        · have : ¬ min b.toNat t.length < b.toNat := by omega
          simp only [this, if_false]; exact pf.2 ht
      · by_cases h2 : b.toNat = 0x4c
        · cases t with
          | nil => simp [rawStep, Ref.getOp, h2]
          | cons l r =>
            have hg : Ref.getOp (b :: ([l] ++ r)) =
                if r.length < l.toNat then none else some (b.toNat, r.take l.toNat, r.drop l.toNat) := by
              simp [Ref.getOp, h2, leNat_one]
            have pf := push_facts idx b [l] r l.toNat hle hg
            simp only [List.singleton_append] at pf
            simp only [rawStep, h2, List.length_take]
            simp only [Nat.lt_irrefl, if_false, if_true, Nat.reduceLT, Nat.reduceGT]
            by_cases ht : r.length < l.toNat
            · have : min l.toNat r.length < l.toNat := by omega
              simp only [this, if_true]; exact pf.1 ht
            · have : ¬ min l.toNat r.length < l.toNat := by omega
              simp only [this, if_false]; rw [h2] at pf; exact pf.2 ht
        · by_cases h3 : b.toNat = 0x4d
          · match t with
            | [] => simp [rawStep, Ref.getOp, h3]
            | [_] => simp [rawStep, Ref.getOp, h3]
            | l0 :: l1 :: r =>
              have hg : Ref.getOp (b :: ([l0, l1] ++ r)) =
                  if r.length < l0.toNat + l1.toNat * 256 then none
                  else some (b.toNat, r.take (l0.toNat + l1.toNat * 256), r.drop (l0.toNat + l1.toNat * 256)) := by
                simp [Ref.getOp, h3, leNat_two, show ¬ (r.length + 1 + 1 < 2) by omega]
              have pf := push_facts idx b [l0, l1] r _ hle hg
              simp only [List.cons_append, List.nil_append] at pf
              simp only [rawStep, h3, List.length_take]
              simp only [Nat.lt_irrefl, if_false, if_true, Nat.reduceLT, Nat.reduceGT, Nat.reduceEqDiff]
              by_cases ht : r.length < l0.toNat + l1.toNat * 256
              · have : min (l0.toNat + l1.toNat * 256) r.length < l0.toNat + l1.toNat * 256 := by omega
                simp only [this, if_true]; exact pf.1 ht
              · have : ¬ min (l0.toNat + l1.toNat * 256) r.length < l0.toNat + l1.toNat * 256 := by omega
                simp only [this, if_false]; rw [h3] at pf; exact pf.2 ht
          · have h4 : b.toNat = 0x4e := by omega
            match t with
            | [] => simp [rawStep, Ref.getOp, h4]
            | [_] => simp [rawStep, Ref.getOp, h4]
            | [_, _] => simp [rawStep, Ref.getOp, h4]
            | [_, _, _] => simp [rawStep, Ref.getOp, h4]
            | l0 :: l1 :: l2 :: l3 :: r =>
              generalize hN : l0.toNat + l1.toNat * 256 + l2.toNat * 65536 + l3.toNat * 16777216 = N
              have hg : Ref.getOp (b :: ([l0, l1, l2, l3] ++ r)) =
                  if r.length < N then none else some (b.toNat, r.take N, r.drop N) := by
                simp [Ref.getOp, h4, leNat_four, hN, show ¬ (r.length + 1 + 1 + 1 + 1 < 4) by omega]
              have pf := push_facts idx b [l0, l1, l2, l3] r _ hle hg
              simp only [List.cons_append, List.nil_append] at pf
              simp only [rawStep, h4, hN, List.length_take]
              simp only [Nat.lt_irrefl, if_false, if_true, Nat.reduceLT, Nat.reduceGT, Nat.reduceEqDiff]
              by_cases ht : r.length < N
              · have : min N r.length < N := by omega
                simp only [this, if_true]; exact pf.1 ht
              · have : ¬ min N r.length < N := by omega
                simp only [this, if_false]; rw [h4] at pf; exact pf.2 ht

end BtcVerif.Model.ScriptEval
