/-
  C09 helper lemmas, part 13: allocation of a value plan; the constructors `newTx`, `newCTx`,
  `newHeader`; the generic edit of the references of a mutable target.
-/
import BtcVerif.Proofs.HeapPlans

namespace BtcVerif.Model.Heap
open BtcVerif BtcVerif.Spec.ValueSem

/-- allocation of a good plan on the current heap -/
theorem alloc_good {s : St} (hinv : Inv s) {p : Plan} {f : Nat} (hg : PlanGood s.heap f p) :
    ∃ e t', (allocPlan s.heap p).1 = s.heap ++ e ∧
      (∀ o ∈ e, o.cHash = none ∧ o.cPy = none ∧ (o.sc.alwaysImm = true → o.isMut = false)) ∧
      ImmClosed (allocPlan s.heap p).1 ∧
      unfoldA f (allocPlan s.heap p).1 (allocPlan s.heap p).2 = some t' ∧
      PT s.heap f p s.heap.length (allocPlan s.heap p).1.length t' ∧
      (∀ y, cnt y t' ≤ (if s.heap.length ≤ y then 1 else 0)) := by
  have hres := allocPlan_spec s.heap KindP p f s.heap ⟨[], by simp⟩ hg.fits hg.all hg.imm
  obtain ⟨e, he, hnew⟩ := hres.ext
  obtain ⟨t', ht', hpt⟩ := hres.tree
  refine ⟨e, t', he, hnew, hres.imm hinv.immClosed, ht', hpt, ?_⟩
  intro y
  have hc := (PT.cnt_le y hpt hg.refs).2
  by_cases hy : s.heap.length ≤ y
  · rw [if_pos hy]
    by_cases c : s.heap.length ≤ y ∧ y < (allocPlan s.heap p).1.length
    · rwa [if_pos c] at hc
    · rw [if_neg c] at hc; omega
  · rw [if_neg hy]
    have c : ¬(s.heap.length ≤ y ∧ y < (allocPlan s.heap p).1.length) := fun c => hy c.1
    rwa [if_neg c] at hc

theorem D_eq : D = 4 + 4 := rfl

theorem tx_eta (v : Tx) : ({ v with wit := v.wit } : Tx) = v := by cases v; rfl

theorem sim_newTx {s : St} {sp : Store} (hinv : Inv s) (hrel : Rel s sp) (v : Tx) :
    Sim s sp (.newTx v) := by
  simp only [Sim, step, Spec.ValueSem.step]
  cases hv : validTx v with
  | false => exact ⟨inv_skip hinv, rel_skip hrel, by simp⟩
  | true =>
    simp only [if_true]
    have hg : PlanGood s.heap D (planTx true v (planWit v.wit)) := by
      rw [D_eq]; exact good_planTx true v (good_planWit s.heap v.wit 4) rfl
    obtain ⟨e, t', he, hnew, hic, ht', hpt, hcnt⟩ := alloc_good hinv hg
    rw [D_eq] at hpt
    obtain ⟨hd, hf⟩ := tree_planTx (w := v.wit) (fun lo hi t ht => tree_planWit ht) hpt
    have hd : decode t' = some (.tx v) := hd
    have hm : t'.isMut = true := flagsOK_isMut hf
    refine ⟨?_, ?_, trivial⟩
    · apply inv_ext hinv he hnew hic (some _)
      intro a ha; cases ha
      exact ⟨t', _, ht', hd, by rw [hm]; exact hf, hcnt⟩
    · apply rel_ext hrel he
      exact ⟨t', ht', hd, hm⟩

theorem sim_newCTx {s : St} {sp : Store} (hinv : Inv s) (hrel : Rel s sp) (v : Tx) :
    Sim s sp (.newCTx v) := by
  simp only [Sim, step, Spec.ValueSem.step]
  cases hv : validTx v with
  | false => exact ⟨inv_skip hinv, rel_skip hrel, by simp⟩
  | true =>
    simp only [if_true]
    have key : ∀ wp : Plan, PlanGood s.heap (4 + 3) wp → rootImm s.heap wp →
        (∀ lo hi t, PT s.heap (4 + 3) wp lo hi t → TreeIs false (.wit v.wit) t) →
        Inv (s.bind (allocPlan s.heap (planTx false v wp)).1 (some (allocPlan s.heap (planTx false v wp)).2)) ∧
        Rel (s.bind (allocPlan s.heap (planTx false v wp)).1 (some (allocPlan s.heap (planTx false v wp)).2))
          (Spec.ValueSem.bind sp (some ⟨false, .tx v⟩)) := by
      intro wp hgw hri htw
      have hg : PlanGood s.heap D (planTx false v wp) := by
        rw [D_eq]; exact good_planTx false v hgw hri
      obtain ⟨e, t', he, hnew, hic, ht', hpt, hcnt⟩ := alloc_good hinv hg
      rw [D_eq] at hpt
      obtain ⟨hd, hf⟩ := tree_planTx (w := v.wit) htw hpt
      have hd : decode t' = some (.tx v) := hd
      have hm : t'.isMut = false := flagsOK_isMut hf
      refine ⟨?_, ?_⟩
      · apply inv_ext hinv he hnew hic (some _)
        intro a ha; cases ha
        exact ⟨t', _, ht', hd, by rw [hm]; exact hf, hcnt⟩
      · apply rel_ext hrel he
        exact ⟨t', ht', hd, hm⟩
    cases hw : v.wit.isEmpty with
    | true =>
      have hwe : v.wit = [] := by simpa using hw
      obtain ⟨hg, ht⟩ := good_refDefaultWit hinv.defaults 5
      obtain ⟨o0, o1, _, _, _, _, h1', b1, _, _⟩ := hinv.defaults
      obtain ⟨k1, k2⟩ := key (.ref defaultWit) hg ⟨o1, h1', b1⟩ (by rw [hwe]; exact ht)
      exact ⟨by simpa using k1, by simpa using k2, trivial⟩
    | false =>
      obtain ⟨k1, k2⟩ := key (planWit v.wit) (good_planWit s.heap v.wit 4) rfl
        (fun lo hi t ht => tree_planWit ht)
      exact ⟨by simpa using k1, by simpa using k2, trivial⟩

theorem sim_newHeader {s : St} {sp : Store} (hinv : Inv s) (hrel : Rel s sp) (v : Header) :
    Sim s sp (.newHeader v) := by
  simp only [Sim, step, Spec.ValueSem.step]
  by_cases hv : v.hashPrevBlock.length = 32 ∧ v.hashMerkleRoot.length = 32
  · simp only [hv, and_self, if_true, alloc]
    let o : Obj := { isMut := false, sc := .header v, refs := [] }
    have hu : unfoldA D (s.heap ++ [o]) s.heap.length = some (.node s.heap.length false (.header v) []) := by
      rw [D_eq]
      exact unfoldA_mk (o := o) (by simp) rfl
    have hd : decode (.node s.heap.length false (.header v) []) = some (.header v) := by
      simp [decode_node, mapO, assemble]
    refine ⟨?_, ?_, trivial⟩
    · apply inv_ext hinv (e := [o]) rfl (by simp [o, Scalars.alwaysImm])
        (immClosed_append_one hinv.immClosed (by simp [o])) (some _)
      intro a ha; cases ha
      refine ⟨_, _, hu, hd, ⟨rfl, trivial⟩, fun y => ?_⟩
      simp [cnt]
    · apply rel_ext hrel (e := [o]) rfl
      exact ⟨_, hu, hd, rfl⟩
  · simp only [hv, if_false]
    exact ⟨inv_skip hinv, rel_skip hrel, trivial⟩

/-- **edit of the references of a mutable target** (list edits, `tx.vin = …`, `tx.wit = …`):
    after appending fresh objects `e`, the target `x` gets the references `refs'`, which unfold to `kids'` -/
theorem mutate_kids {s : St} {sp : Store} (hinv : Inv s) (hrel : Rel s sp) {tg : Target} {x : Addr}
    (I : TInfo s sp tg x) (hm : I.o.isMut = true) {kids : List ATree}
    (htx : I.tx = .node x true I.o.sc kids)
    {h1 e : Heap} (he : h1 = s.heap ++ e)
    (hnew : ∀ o ∈ e, o.cHash = none ∧ o.cPy = none ∧ (o.sc.alwaysImm = true → o.isMut = false))
    (hic1 : ImmClosed h1) {refs' : List Addr} {kids' : List ATree}
    (hk' : mapO (unfoldA I.g h1) refs' = some kids')
    (hcnt' : ∀ y, cntL y kids' ≤ cntL y kids + (if s.heap.length ≤ y then 1 else 0))
    (hfl' : flagsOKL true kids')
    {w v' : Val} (hdw : decode (.node x true I.o.sc kids') = some w) (hput : I.e.val.put tg.path w = some v') :
    Inv (s.bind (h1.set x { isMut := true, sc := I.o.sc, refs := refs', cHash := I.o.cHash, cPy := I.o.cPy }) none) ∧
    Rel (s.bind (h1.set x { isMut := true, sc := I.o.sc, refs := refs', cHash := I.o.cHash, cPy := I.o.cPy }) none)
      (Spec.ValueSem.bind (sp.set tg.root (some { I.e with val := v' })) none) := by
  subst he
  obtain ⟨kids0, htx0, hk0, hnot0, hle, hfl0⟩ := I.mut_facts hinv hm
  rw [htx] at htx0
  have hkk : kids0 = kids := by cases htx0; rfl
  subst hkk
  have hxl : x < s.heap.length := (List.getElem?_eq_some_iff.mp I.ho).1
  have hx1 : (s.heap ++ e)[x]? = some I.o := getElem?_append_of_some e I.ho
  have hold0 : ∀ y, s.heap.length ≤ y → cnt y I.tx = 0 := by
    intro y hy
    apply cnt_zero_of_not_mem
    intro hmem
    have hlt : y < s.heap.length := addrs_lt I.hux y hmem
    exact absurd hlt (Nat.not_lt.mpr hy)
  -- counting
  have hcx : ∀ y, (if x = y then 1 else 0) + cntL y kids' ≤ 1 ∧
      (y < s.heap.length → cntL y kids' ≤ cntL y kids0) := by
    intro y
    have h1 := hle y
    have h2 := hcnt' y
    rw [htx] at h1
    simp only [cnt, if_true] at h1
    by_cases hy : s.heap.length ≤ y
    · rw [if_pos hy] at h2
      have h3 := hold0 y hy
      rw [htx] at h3
      simp only [cnt, if_true] at h3
      have hxy : x ≠ y := fun e => by subst e; exact absurd hxl (Nat.not_lt.mpr hy)
      rw [if_neg hxy] at h3 ⊢
      refine ⟨by omega, fun hlt => ?_⟩
      exact absurd hlt (Nat.not_lt.mpr hy)
    · rw [if_neg hy] at h2
      exact ⟨by omega, fun _ => by omega⟩
  -- the new node does not contain itself
  have hnot' : ∀ k ∈ kids', x ∉ addrs k := by
    intro k hk
    have h1 := (hcx x).1
    rw [if_pos rfl] at h1
    have hz : cntL x kids' = 0 := by omega
    obtain ⟨c, _, huc⟩ := mapO_mem hk' hk
    exact not_mem_of_cnt_zero hic1 hx1 hm huc (cntL_eq_zero.mp hz k hk)
  let o' : Obj := { isMut := true, sc := I.o.sc, refs := refs', cHash := I.o.cHash, cPy := I.o.cPy }
  let t' : ATree := .node x true I.o.sc kids'
  have hxl1 : x < (s.heap ++ e).length := by
    rw [List.length_append]; exact Nat.lt_of_lt_of_le hxl (Nat.le_add_right _ _)
  have ht' : unfoldA (I.g + 1) ((s.heap ++ e).set x o') x = some t' :=
    unfold_new_node (o' := o') hxl1 (g := I.g) (tcs := kids') hk' hnot'
  have hdec := decode_replaceAt I.hsub I.hd hdw hput
  have hsc : I.tx.sc = I.o.sc := I.hosc
  have hnai : I.o.sc.alwaysImm = false := by
    cases hh : I.o.sc.alwaysImm with
    | false => rfl
    | true => have := hinv.kindOK x I.o I.ho hh; rw [this] at hm; cases hm
  have hmut := inv_mutate hinv I.hroot I.hu I.hsub I.haddr I.ho hm (h1 := s.heap ++ e) (e := e) rfl hnew hic1
    (o' := o') rfl hnai I.hD ht' hdec
    (by show I.o.sc.alwaysImm = I.tx.sc.alwaysImm; rw [hsc])
    ⟨rfl, hfl'⟩
    (by
      intro y
      obtain ⟨h1, h2⟩ := hcx y
      rw [htx]
      simp only [t', cnt, if_true]
      exact ⟨h1, fun hlt => by have := h2 hlt; omega⟩)
  obtain ⟨hinv', hnewtree, hoth⟩ := hmut
  refine ⟨hinv', ?_⟩
  have hrootflag : (replaceAt I.t tg.path t').isMut = I.e.isMut := by
    have hfl'' := flagsOK_replaceAt (t' := t') I.hsub I.hf
      (by show I.o.sc.alwaysImm = I.tx.sc.alwaysImm; rw [hsc])
      (by rw [htx]; exact ⟨rfl, hfl'⟩)
    rw [flagsOK_isMut hfl'', I.hm]
  exact rel_mutate hrel I.hroot I.hentry hnewtree hdec hrootflag hoth

end BtcVerif.Model.Heap
