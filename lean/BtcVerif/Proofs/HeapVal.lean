/-
  C09 helper lemmas, part 5: trees vs. values of the reference side
  (children, functional update, paths, mutability flags), `resolve` vs. `sub`.
-/
import BtcVerif.Proofs.HeapTree

namespace BtcVerif.Model.Heap
open BtcVerif BtcVerif.Spec.ValueSem

theorem mapO_list_set {α β : Type} {f : α → Option β} :
    ∀ {l : List α} {bs : List β} (i : Nat) {a' : α} {b' : β}, mapO f l = some bs → f a' = some b' →
      mapO f (l.set i a') = some (bs.set i b')
  | [], _, i, _, _, h, _ => by simp [mapO] at h; subst h; simp [mapO]
  | a :: as, bs, i, a', b', h, hf => by
    simp only [mapO] at h
    cases hfa : f a with
    | none => simp [hfa] at h
    | some b =>
      simp only [hfa] at h
      cases hm : mapO f as with
      | none => simp [hm] at h
      | some bs' =>
        simp only [hm, Option.some.injEq] at h
        subst h
        cases i with
        | zero => simp [mapO, hf, hm]
        | succ i => simp [mapO, hfa, mapO_list_set i hm hf]

/-! ### sequences of one class -/

theorem mapO_asTxIn : ∀ {vs : List Val} {l : List TxIn}, mapO asTxIn vs = some l → vs = l.map .txin
  | [], l, h => by simp [mapO] at h; subst h; rfl
  | v :: vs, l, h => by
    simp only [mapO] at h
    cases v <;> simp [asTxIn] at h
    rename_i x
    cases hm : mapO asTxIn vs with
    | none => simp [hm] at h
    | some l' => simp [hm] at h; subst h; simp [mapO_asTxIn hm]

theorem mapO_asTxOut : ∀ {vs : List Val} {l : List TxOut}, mapO asTxOut vs = some l → vs = l.map .txout
  | [], l, h => by simp [mapO] at h; subst h; rfl
  | v :: vs, l, h => by
    simp only [mapO] at h
    cases v <;> simp [asTxOut] at h
    rename_i x
    cases hm : mapO asTxOut vs with
    | none => simp [hm] at h
    | some l' => simp [hm] at h; subst h; simp [mapO_asTxOut hm]

theorem mapO_asStack : ∀ {vs : List Val} {l : List WitStack}, mapO asStack vs = some l → vs = l.map .inwit
  | [], l, h => by simp [mapO] at h; subst h; rfl
  | v :: vs, l, h => by
    simp only [mapO] at h
    cases v <;> simp [asStack] at h
    rename_i x
    cases hm : mapO asStack vs with
    | none => simp [hm] at h
    | some l' => simp [hm] at h; subst h; simp [mapO_asStack hm]

theorem mapO_asTx : ∀ {vs : List Val} {l : List Tx}, mapO asTx vs = some l → vs = l.map .tx
  | [], l, h => by simp [mapO] at h; subst h; rfl
  | v :: vs, l, h => by
    simp only [mapO] at h
    cases v <;> simp [asTx] at h
    rename_i x
    cases hm : mapO asTx vs with
    | none => simp [hm] at h
    | some l' => simp [hm] at h; subst h; simp [mapO_asTx hm]

theorem mapO_asTxIn_map : ∀ (l : List TxIn), mapO asTxIn (l.map .txin) = some l
  | [] => rfl
  | x :: l => by simp [mapO, asTxIn, mapO_asTxIn_map l]
theorem mapO_asTxOut_map : ∀ (l : List TxOut), mapO asTxOut (l.map .txout) = some l
  | [] => rfl
  | x :: l => by simp [mapO, asTxOut, mapO_asTxOut_map l]
theorem mapO_asStack_map : ∀ (l : List WitStack), mapO asStack (l.map .inwit) = some l
  | [] => rfl
  | x :: l => by simp [mapO, asStack, mapO_asStack_map l]
theorem mapO_asTx_map : ∀ (l : List Tx), mapO asTx (l.map .tx) = some l
  | [] => rfl
  | x :: l => by simp [mapO, asTx, mapO_asTx_map l]

/-! ### assemble vs. child / putChild / class predicates -/

/-- the `i`-th child of an assembled value is the `i`-th component -/
theorem assemble_child {sc : Scalars} {vs : List Val} {v : Val} (h : assemble sc vs = some v) (i : Nat) :
    v.child i = vs[i]? := by
  cases sc with
  | outpoint hh n => cases vs <;> simp [assemble] at h; subst h; simp [Val.child]
  | txin s q =>
    match vs, h with
    | [.outpoint o], h => simp [assemble] at h; subst h; cases i <;> simp [Val.child]
  | txout x s => cases vs <;> simp [assemble] at h; subst h; simp [Val.child]
  | seq k =>
    cases k with
    | ins =>
      simp only [assemble] at h
      cases hm : mapO asTxIn vs with
      | none => simp [hm] at h
      | some l => simp [hm] at h; subst h; rw [mapO_asTxIn hm]; simp [Val.child]
    | outs =>
      simp only [assemble] at h
      cases hm : mapO asTxOut vs with
      | none => simp [hm] at h
      | some l => simp [hm] at h; subst h; rw [mapO_asTxOut hm]; simp [Val.child]
    | stacks =>
      simp only [assemble] at h
      cases hm : mapO asStack vs with
      | none => simp [hm] at h
      | some l => simp [hm] at h; subst h; rw [mapO_asStack hm]; simp [Val.child]
    | txs =>
      simp only [assemble] at h
      cases hm : mapO asTx vs with
      | none => simp [hm] at h
      | some l => simp [hm] at h; subst h; rw [mapO_asTx hm]; simp [Val.child]
  | inwit st => cases vs <;> simp [assemble] at h; subst h; simp [Val.child]
  | wit =>
    match vs, h with
    | [.stacks w], h => simp [assemble] at h; subst h; cases i <;> simp [Val.child]
  | tx ver lock =>
    match vs, h with
    | [.ins vin, .outs vout, .wit w], h =>
      simp [assemble] at h; subst h
      match i with
      | 0 => simp [Val.child]
      | 1 => simp [Val.child]
      | 2 => simp [Val.child]
      | i + 3 => simp [Val.child]
  | header hd => cases vs <;> simp [assemble] at h; subst h; simp [Val.child]
  | block hd =>
    match vs, h with
    | [.txs l], h => simp [assemble] at h; subst h; cases i <;> simp [Val.child]

theorem assemble_alwaysImm {sc : Scalars} {vs : List Val} {v : Val} (h : assemble sc vs = some v) :
    v.alwaysImm = sc.alwaysImm ∧ v.isSeq = sc.isSeq := by
  cases sc with
  | outpoint hh n => cases vs <;> simp [assemble] at h; subst h; exact ⟨rfl, rfl⟩
  | txin s q =>
    match vs, h with
    | [.outpoint o], h => simp [assemble] at h; subst h; exact ⟨rfl, rfl⟩
  | txout x s => cases vs <;> simp [assemble] at h; subst h; exact ⟨rfl, rfl⟩
  | seq k =>
    cases k <;> simp only [assemble, Option.map_eq_some_iff] at h <;> obtain ⟨l, _, rfl⟩ := h <;> exact ⟨rfl, rfl⟩
  | inwit st => cases vs <;> simp [assemble] at h; subst h; exact ⟨rfl, rfl⟩
  | wit =>
    match vs, h with
    | [.stacks w], h => simp [assemble] at h; subst h; exact ⟨rfl, rfl⟩
  | tx ver lock =>
    match vs, h with
    | [.ins vin, .outs vout, .wit w], h => simp [assemble] at h; subst h; exact ⟨rfl, rfl⟩
  | header hd => cases vs <;> simp [assemble] at h; subst h; exact ⟨rfl, rfl⟩
  | block hd =>
    match vs, h with
    | [.txs l], h => simp [assemble] at h; subst h; exact ⟨rfl, rfl⟩

/-- replacing the `i`-th component is `putChild` -/
theorem assemble_set {sc : Scalars} {vs : List Val} {v c' v' : Val} (h : assemble sc vs = some v)
    {i : Nat} (hp : v.putChild i c' = some v') : assemble sc (vs.set i c') = some v' := by
  cases sc with
  | outpoint hh n => cases vs <;> simp [assemble] at h; subst h; simp [Val.putChild] at hp
  | txin s q =>
    match vs, h with
    | [.outpoint o], h =>
      simp [assemble] at h; subst h
      cases i <;> cases c' <;> simp [Val.putChild] at hp
      subst hp; simp [assemble]
  | txout x s => cases vs <;> simp [assemble] at h; subst h; simp [Val.putChild] at hp
  | seq k =>
    cases k with
    | ins =>
      simp only [assemble] at h
      cases hm : mapO asTxIn vs with
      | none => simp [hm] at h
      | some l =>
        simp [hm] at h; subst h
        cases c' <;> simp [Val.putChild] at hp
        obtain ⟨_, rfl⟩ := hp
        rw [mapO_asTxIn hm]
        simp [assemble, ← List.map_set, mapO_asTxIn_map]
    | outs =>
      simp only [assemble] at h
      cases hm : mapO asTxOut vs with
      | none => simp [hm] at h
      | some l =>
        simp [hm] at h; subst h
        cases c' <;> simp [Val.putChild] at hp
        obtain ⟨_, rfl⟩ := hp
        rw [mapO_asTxOut hm]
        simp [assemble, ← List.map_set, mapO_asTxOut_map]
    | stacks =>
      simp only [assemble] at h
      cases hm : mapO asStack vs with
      | none => simp [hm] at h
      | some l =>
        simp [hm] at h; subst h
        cases c' <;> simp [Val.putChild] at hp
        obtain ⟨_, rfl⟩ := hp
        rw [mapO_asStack hm]
        simp [assemble, ← List.map_set, mapO_asStack_map]
    | txs =>
      simp only [assemble] at h
      cases hm : mapO asTx vs with
      | none => simp [hm] at h
      | some l =>
        simp [hm] at h; subst h
        cases c' <;> simp [Val.putChild] at hp
        obtain ⟨_, rfl⟩ := hp
        rw [mapO_asTx hm]
        simp [assemble, ← List.map_set, mapO_asTx_map]
  | inwit st => cases vs <;> simp [assemble] at h; subst h; simp [Val.putChild] at hp
  | wit =>
    match vs, h with
    | [.stacks w], h =>
      simp [assemble] at h; subst h
      cases i <;> cases c' <;> simp [Val.putChild] at hp
      subst hp; simp [assemble]
  | tx ver lock =>
    match vs, h with
    | [.ins vin, .outs vout, .wit w], h =>
      simp [assemble] at h; subst h
      match i with
      | 0 => cases c' <;> simp [Val.putChild] at hp; subst hp; simp [assemble]
      | 1 => cases c' <;> simp [Val.putChild] at hp; subst hp; simp [assemble]
      | 2 => cases c' <;> simp [Val.putChild] at hp; subst hp; simp [assemble]
      | i + 3 => cases c' <;> simp [Val.putChild] at hp
  | header hd => cases vs <;> simp [assemble] at h; subst h; simp [Val.putChild] at hp
  | block hd =>
    match vs, h with
    | [.txs l], h =>
      simp [assemble] at h; subst h
      cases i <;> cases c' <;> simp [Val.putChild] at hp
      subst hp; simp [assemble]

/-! ### decode along paths -/

theorem decode_inv {a : Addr} {m : Bool} {sc : Scalars} {kids : List ATree} {v : Val}
    (h : decode (.node a m sc kids) = some v) :
    ∃ vs, mapO decode kids = some vs ∧ assemble sc vs = some v := by
  rw [decode_node] at h
  cases hm : mapO decode kids with
  | none => simp [hm] at h
  | some vs => simp [hm] at h; exact ⟨vs, rfl, h⟩

theorem decode_alwaysImm {t : ATree} {v : Val} (h : decode t = some v) :
    v.alwaysImm = t.sc.alwaysImm ∧ v.isSeq = t.sc.isSeq := by
  cases t with | node a m sc kids =>
    obtain ⟨vs, _, ha⟩ := decode_inv h
    exact assemble_alwaysImm ha

theorem decode_child {a : Addr} {m : Bool} {sc : Scalars} {kids : List ATree} {v : Val}
    (h : decode (.node a m sc kids) = some v) (i : Nat) :
    (∀ k, kids[i]? = some k → ∃ c, decode k = some c ∧ v.child i = some c) ∧
    (kids[i]? = none → v.child i = none) := by
  obtain ⟨vs, hvs, ha⟩ := decode_inv h
  rw [assemble_child ha i]
  constructor
  · intro k hk
    obtain ⟨c, hc, hd⟩ := mapO_getElem hvs i k hk
    exact ⟨c, hd, hc⟩
  · intro hk
    have hl := mapO_length hvs
    rw [List.getElem?_eq_none_iff] at hk ⊢
    omega

/-- following a path in the tree and in the value (with the mutability flag) agree -/
theorem sub_getM : ∀ {p : List Nat} {t : ATree} {v : Val} {m : Bool}, decode t = some v → flagsOK m t →
    (∀ tx, sub t p = some tx → ∃ vx, v.getM m p = some (tx.isMut, vx) ∧ decode tx = some vx ∧
        flagsOK tx.isMut tx) ∧
    (sub t p = none → v.getM m p = none)
  | [], t, v, m, hd, hf => by
    refine ⟨?_, by simp [sub]⟩
    intro tx hs
    simp [sub] at hs; subst hs
    exact ⟨v, by simp [Val.getM, flagsOK_isMut hf], hd, by rw [flagsOK_isMut hf]; exact hf⟩
  | i :: p, .node a m' sc kids, v, m, hd, hf => by
    obtain ⟨h1, h2⟩ := decode_child hd i
    cases hk : kids[i]? with
    | none => simp [sub, hk, Val.getM, h2 hk]
    | some k =>
      obtain ⟨c, hc, hvc⟩ := h1 k hk
      have hfk : flagsOK (m && !k.sc.alwaysImm) k := flagsOKL_iff.mp hf.2 k (List.mem_of_getElem? hk)
      have hai := (decode_alwaysImm hc).1
      have := sub_getM (p := p) hc hfk
      simp only [sub, hk, Val.getM, hvc, hai]
      exact this

theorem flagsOKL_set {m : Bool} {kids : List ATree} {i : Nat} {k' : ATree}
    (h : flagsOKL m kids) (hk : flagsOK (m && !k'.sc.alwaysImm) k') : flagsOKL m (kids.set i k') := by
  rw [flagsOKL_iff] at h ⊢
  intro k hmem
  rcases List.mem_or_eq_of_mem_set hmem with h1 | h1
  · exact h k h1
  · subst h1; exact hk

theorem flagsOK_replaceAt : ∀ {p : List Nat} {t tx t' : ATree} {m : Bool}, sub t p = some tx →
    flagsOK m t → t'.sc.alwaysImm = tx.sc.alwaysImm → flagsOK tx.isMut t' → flagsOK m (replaceAt t p t')
  | [], t, tx, t', m, hs, hf, _, hf' => by
    simp [sub] at hs; subst hs
    simpa [replaceAt, flagsOK_isMut hf] using hf'
  | i :: p, .node a m' sc kids, tx, t', m, hs, hf, hai, hf' => by
    simp only [sub] at hs
    cases hk : kids[i]? with
    | none => simp [hk] at hs
    | some k =>
      simp only [hk] at hs
      have hfk : flagsOK (m && !k.sc.alwaysImm) k := flagsOKL_iff.mp hf.2 k (List.mem_of_getElem? hk)
      have ih := flagsOK_replaceAt hs hfk hai hf'
      simp only [replaceAt, hk]
      refine ⟨hf.1, flagsOKL_set hf.2 ?_⟩
      have hsc : (replaceAt k p t').sc.alwaysImm = k.sc.alwaysImm := by
        cases p with
        | nil => simp [sub] at hs; subst hs; simpa [replaceAt] using hai
        | cons j p =>
          cases k with | node ak mk sck kk =>
            simp only [replaceAt]
            cases kk[j]? <;> rfl
      rw [hsc]; exact ih

/-- a replacement below is `put` on the value -/
theorem decode_replaceAt : ∀ {p : List Nat} {t tx t' : ATree} {v w v' : Val}, sub t p = some tx →
    decode t = some v → decode t' = some w → v.put p w = some v' → decode (replaceAt t p t') = some v'
  | [], t, tx, t', v, w, v', _, _, hd', hp => by
    simp [Val.put] at hp; subst hp; simpa [replaceAt] using hd'
  | i :: p, .node a m sc kids, tx, t', v, w, v', hs, hd, hd', hp => by
    simp only [sub] at hs
    cases hk : kids[i]? with
    | none => simp [hk] at hs
    | some k =>
      simp only [hk] at hs
      obtain ⟨c, hc, hvc⟩ := (decode_child hd i).1 k hk
      simp only [Val.put, hvc, Option.bind_eq_bind, Option.bind_some] at hp
      cases hcp : c.put p w with
      | none => simp [hcp] at hp
      | some c' =>
        simp only [hcp, Option.bind_some] at hp
        have ih := decode_replaceAt hs hc hd' hcp
        obtain ⟨vs, hvs, ha⟩ := decode_inv hd
        simp only [replaceAt, hk]
        rw [decode_node]
        have hset := mapO_list_set (f := decode) i hvs ih
        simp [hset, assemble_set ha hp]

end BtcVerif.Model.Heap
