/-
  C09 helper lemmas, part 7: a write to a mutable object below a named root.
-/
import BtcVerif.Proofs.HeapInv

namespace BtcVerif.Model.Heap
open BtcVerif BtcVerif.Spec.ValueSem

/-- a subtree of an unfolding is the unfolding of its own address -/
theorem sub_unfold {h : Heap} : ∀ {p : List Nat} {f : Nat} {c : Addr} {t tx : ATree},
    unfoldA f h c = some t → sub t p = some tx → ∃ f', unfoldA f' h tx.addr = some tx
  | [], f, c, t, tx, hu, hs => by
    simp [sub] at hs; subst hs
    exact ⟨f, by rw [unfoldA_addr hu]; exact hu⟩
  | j :: p, 0, c, t, tx, hu, hs => by simp [unfoldA] at hu
  | j :: p, f + 1, c, t, tx, hu, hs => by
    obtain ⟨o, kids, _, hk, rfl⟩ := unfoldA_succ hu
    simp only [sub] at hs
    cases hkj : kids[j]? with
    | none => simp [hkj] at hs
    | some k =>
      simp only [hkj] at hs
      obtain ⟨c', _, huc⟩ := mapO_getElem' hk j k hkj
      exact sub_unfold huc hs

theorem sub_isMut {h : Heap} {p : List Nat} {f : Nat} {c : Addr} {t tx : ATree} {ox : Obj}
    (hu : unfoldA f h c = some t) (hs : sub t p = some tx) (hox : h[tx.addr]? = some ox) :
    tx.isMut = ox.isMut ∧ tx.sc = ox.sc := by
  obtain ⟨f', hu'⟩ := sub_unfold hu hs
  cases f' with
  | zero => simp [unfoldA] at hu'
  | succ f' =>
    obtain ⟨o2, kids2, ho2, _, he⟩ := unfoldA_succ hu'
    rw [hox] at ho2; cases ho2
    rw [he]; exact ⟨rfl, rfl⟩

theorem unfold_new_node {h1 : Heap} {x : Addr} {o' : Obj} (hx : x < h1.length) {g : Nat} {tcs : List ATree}
    (hk : mapO (unfoldA g h1) o'.refs = some tcs) (hnot : ∀ tc ∈ tcs, x ∉ addrs tc) :
    unfoldA (g + 1) (h1.set x o') x = some (.node x o'.isMut o'.sc tcs) := by
  have hself : (h1.set x o')[x]? = some o' := by simp [List.getElem?_set_self hx]
  refine unfoldA_mk hself ?_
  apply mapO_congr_some _ hk
  intro c hc b hb
  obtain ⟨b', hb', hcb⟩ := mapO_mem' hk hc
  rw [hb] at hcb; cases hcb
  exact unfoldA_set_frame hb (hnot b hb')

theorem sep_arith {T' T ct cr ctx ct' : Nat} (hupd : T' + ct = T + cr) (hrep : cr + ctx = ct + ct')
    (hsep : T ≤ 1) (h : ct' ≤ ctx) : T' ≤ 1 := by omega

theorem sep_arith2 {T' T ct cr ctx ct' : Nat} (hupd : T' + ct = T + cr) (hrep : cr + ctx = ct + ct')
    (hT : T = 0) (hz : ctx = 0) (h1 : ct' ≤ 1) : T' ≤ 1 := by omega

theorem immClosed_set_mut {h : Heap} {x : Addr} {ox o' : Obj} (hic : ImmClosed h) (hox : h[x]? = some ox)
    (hmx : ox.isMut = true) (hm' : o'.isMut = true) : ImmClosed (h.set x o') := by
  have hxl := (List.getElem?_eq_some_iff.mp hox).1
  intro a oa hoa hm c hc
  by_cases hax : a = x
  · subst hax
    rw [List.getElem?_set_self hxl] at hoa
    cases hoa
    rw [hm'] at hm; cases hm
  · rw [List.getElem?_set_ne (fun e => hax e.symm)] at hoa
    obtain ⟨oc, hoc, hmc⟩ := hic a oa hoa hm c hc
    have hcx : c ≠ x := by
      intro e; subst e
      rw [hox] at hoc; cases hoc
      rw [hmx] at hmc; cases hmc
    exact ⟨oc, by rw [List.getElem?_set_ne (fun e => hcx e.symm)]; exact hoc, hmc⟩

/-- **mutation**: after appending fresh objects `e`, the mutable object `x` — found at path `p`
    below the named root `a` — is overwritten with `o'` -/
theorem inv_mutate {s : St} (hinv : Inv s) {r : Nat} {a : Addr} (hr : s.root r = some a)
    {t : ATree} (ht : unfoldA D s.heap a = some t)
    {p : List Nat} {tx : ATree} (hs : sub t p = some tx) {x : Addr} (hx : tx.addr = x)
    {ox : Obj} (hox : s.heap[x]? = some ox) (hmx : ox.isMut = true)
    {h1 e : Heap} (he : h1 = s.heap ++ e)
    (hnew : ∀ o ∈ e, o.cHash = none ∧ o.cPy = none ∧ (o.sc.alwaysImm = true → o.isMut = false))
    (hic1 : ImmClosed h1)
    {o' : Obj} (hm' : o'.isMut = true) (hk' : o'.sc.alwaysImm = false)
    {g : Nat} (hD : D = p.length + g) {t' : ATree} (ht' : unfoldA g (h1.set x o') x = some t')
    {v' : Val} (hv' : decode (replaceAt t p t') = some v')
    (hai : t'.sc.alwaysImm = tx.sc.alwaysImm) (hf' : flagsOK true t')
    (hcnt : ∀ y, cnt y t' ≤ 1 ∧ (y < s.heap.length → cnt y t' ≤ cnt y tx)) :
    Inv (s.bind (h1.set x o') none) ∧ unfoldA D (h1.set x o') a = some (replaceAt t p t') ∧
      (∀ (r' : Nat) (b : Addr) (tb : ATree), r' ≠ r → s.root r' = some b → unfoldA D s.heap b = some tb →
        unfoldA D (h1.set x o') b = some tb) := by
  subst he
  have hicS := hinv.immClosed
  have hxl := (List.getElem?_eq_some_iff.mp hox).1
  have hx1 : (s.heap ++ e)[x]? = some ox := getElem?_append_of_some e hox
  subst hx
  have htxm : tx.isMut = true := by rw [(sub_isMut ht hs hox).1]; exact hmx
  have hmp := mutPath_of_sub hicS hox hmx ht hs rfl
  have hc1 : 1 ≤ cnt tx.addr t := cnt_pos_of_mutPath hs rfl htxm hmp
  have hnr : s.names[r]? = some (some a) := root_mem hr
  have hsepx := hinv.sep tx.addr
  have hta : nameCnt s.heap tx.addr (some a) = cnt tx.addr t := by simp [nameCnt, cntAt, ht]
  have hle : cnt tx.addr t ≤ 1 := by
    have h0 := nameCnt_le_total (h := s.heap) (y := tx.addr) hnr
    rw [hta] at h0; exact Nat.le_trans h0 hsepx
  -- the tree of the root after the write
  have hnewtree : unfoldA D ((s.heap ++ e).set tx.addr o') a = some (replaceAt t p t') := by
    rw [hD]
    exact unfoldA_set_path hic1 hx1 hmx p g a t tx t' (by rw [← hD]; exact unfoldA_ext e ht) hs rfl hle ht'
  -- other roots do not see the write
  have hother : ∀ (r' : Nat) (b : Addr), r' ≠ r → s.names[r']? = some (some b) →
      ∃ tb, unfoldA D s.heap b = some tb ∧ unfoldA D ((s.heap ++ e).set tx.addr o') b = some tb := by
    intro r' b hrr hb
    have hrb : s.root r' = some b := by simp [St.root, hb]
    obtain ⟨tb, _, hub, _⟩ := hinv.roots r' b hrb
    have h2 := total_two (h := s.heap) (y := tx.addr) hrr hb hnr
    have htb : nameCnt s.heap tx.addr (some b) = cnt tx.addr tb := by simp [nameCnt, cntAt, hub]
    rw [hta, htb] at h2
    have hz : cnt tx.addr tb = 0 := by omega
    exact ⟨tb, hub, unfoldA_set_frame (unfoldA_ext e hub) (not_mem_of_cnt_zero hicS hox hmx hub hz)⟩
  have hobj : ∀ (c : Addr) (o : Obj), (s.heap ++ e)[c]? = some o → s.heap[c]? = some o ∨ o ∈ e := by
    intro c o ho
    by_cases hc : c < s.heap.length
    · left; rwa [List.getElem?_append_left hc] at ho
    · right
      rw [List.getElem?_append_right (Nat.not_lt.mp hc)] at ho
      exact List.mem_of_getElem? ho
  have hxl1 : tx.addr < (s.heap ++ e).length := by
    rw [List.length_append]; exact Nat.lt_of_lt_of_le hxl (Nat.le_add_right _ _)
  refine ⟨?_, hnewtree, ?_⟩
  rotate_left
  · intro r' b tb hrr hb hub
    obtain ⟨tb', hub1, hub2⟩ := hother r' b hrr (root_mem hb)
    rw [hub] at hub1; cases hub1; exact hub2
  apply Inv.mk' (immClosed_set_mut hic1 hx1 hmx hm')
  · -- classes
    intro c oc hoc hai'
    by_cases hcx : c = tx.addr
    · subst hcx
      rw [List.getElem?_set_self hxl1] at hoc; cases hoc
      rw [hk'] at hai'; cases hai'
    · rw [List.getElem?_set_ne (fun e => hcx e.symm)] at hoc
      rcases hobj c oc hoc with h1 | h1
      · exact hinv.kindOK c oc h1 hai'
      · exact (hnew oc h1).2.2 hai'
  · -- caches
    intro c oc hoc hmc
    by_cases hcx : c = tx.addr
    · subst hcx
      rw [List.getElem?_set_self hxl1] at hoc; cases hoc
      rw [hm'] at hmc; cases hmc
    · rw [List.getElem?_set_ne (fun e => hcx e.symm)] at hoc
      rcases hobj c oc hoc with h1 | h1
      · obtain ⟨c1, c2⟩ := hinv.cacheOK c oc h1 hmc
        have hkeep : ∀ v, absVal s.heap c = some v → absVal ((s.heap ++ e).set tx.addr o') c = some v := by
          intro v hv
          simp only [absVal] at hv ⊢
          cases hu : unfoldA D s.heap c with
          | none => simp [hu] at hv
          | some tc =>
            have hnm : tx.addr ∉ addrs tc := by
              intro hmem
              have htcm : tc.isMut = false := by
                cases hD' : D with
                | zero => rw [hD'] at hu; simp [unfoldA] at hu
                | succ d =>
                  rw [hD'] at hu
                  obtain ⟨o2, kids2, ho2, _, rfl⟩ := unfoldA_succ hu
                  rw [h1] at ho2; cases ho2; exact hmc
              obtain ⟨ox', hox', hmx'⟩ := imm_reach hicS hu htcm tx.addr hmem
              rw [hox] at hox'; cases hox'
              rw [hmx] at hmx'; cases hmx'
            rw [unfoldA_set_frame (unfoldA_ext e hu) hnm]
            simpa [hu] using hv
        constructor
        · intro cc hcc
          obtain ⟨v, hv, hi⟩ := c1 cc hcc; exact ⟨v, hkeep v hv, hi⟩
        · intro cc hcc
          obtain ⟨v, hv, hi⟩ := c2 cc hcc; exact ⟨v, hkeep v hv, hi⟩
      · obtain ⟨h1', h2', _⟩ := hnew oc h1
        constructor
        · intro cc hcc; rw [h1'] at hcc; cases hcc
        · intro cc hcc; rw [h2'] at hcc; cases hcc
  · -- separation
    intro y
    rw [total_snoc]
    have hupd := total_update (h := s.heap) (h' := (s.heap ++ e).set tx.addr o') (y := y) hnr (by
      intro r' n' hrr hn'
      cases n' with
      | none => rfl
      | some b =>
        obtain ⟨tb, hub, hub'⟩ := hother r' b hrr hn'
        simp [nameCnt, cntAt, hub, hub'])
    have h1 : nameCnt s.heap y (some a) = cnt y t := by simp [nameCnt, cntAt, ht]
    have h2 : nameCnt ((s.heap ++ e).set tx.addr o') y (some a) = cnt y (replaceAt t p t') := by
      simp [nameCnt, cntAt, hnewtree]
    rw [h1, h2] at hupd
    have hrep := cnt_replaceAt y t' hs hmp
    have hsep := hinv.sep y
    obtain ⟨hc1', hc2'⟩ := hcnt y
    show total ((s.heap ++ e).set tx.addr o') s.names y + 0 ≤ 1
    rw [Nat.add_zero]
    by_cases hy : y < s.heap.length
    · exact sep_arith hupd hrep hsep (hc2' hy)
    · have hz := total_fresh (h := s.heap) (Nat.not_lt.mp hy) s.names
      have hz2 : cnt y tx = 0 := by
        apply cnt_zero_of_not_mem
        intro hmem
        obtain ⟨f', hu'⟩ := sub_unfold ht hs
        have hlt : y < s.heap.length := addrs_lt hu' y hmem
        exact hy hlt
      exact sep_arith2 hupd hrep hz hz2 hc1'
  · -- roots
    intro r' b hb
    rcases join_append_one hb with h1 | ⟨_, h1⟩
    · by_cases hrr : r' = r
      · rw [hrr] at h1
        have h1' : s.root r = some b := h1
        rw [hr] at h1'; cases h1'
        obtain ⟨t0, v0, hu0, hd0, hf0⟩ := hinv.roots r a hr
        rw [ht] at hu0; cases hu0
        have hfl := flagsOK_replaceAt (t' := t') hs hf0 hai (by rw [htxm]; exact hf')
        refine ⟨replaceAt t p t', v', hnewtree, hv', ?_⟩
        rw [flagsOK_isMut hfl]; exact hfl
      · have hnb : s.names[r']? = some (some b) := root_mem h1
        obtain ⟨tb, hub, hub'⟩ := hother r' b hrr hnb
        obtain ⟨t0, v0, hu0, hd0, hf0⟩ := hinv.roots r' b h1
        rw [hub] at hu0; cases hu0
        exact ⟨tb, v0, hub', hd0, hf0⟩
    · cases h1
  · apply defaults_set (defaults_ext e hinv.defaults)
    intro o2 ho2 hm2
    rw [hx1] at ho2; cases ho2
    rw [hmx] at hm2; cases hm2

end BtcVerif.Model.Heap
