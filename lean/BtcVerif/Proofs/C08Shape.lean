/-
  Helper lemmas for C08's fixed-shape predicates (P2SH, witness program, v0 key/script hash and
  their P2SH-nested forms, witness_version, is_unspendable).
-/
import BtcVerif.Proofs.C08Build
set_option linter.unusedSimpArgs false
namespace BtcVerif
open BtcVerif.Spec.Script BtcVerif.Model.Script

theorem isP2sh_eq (s : Bytes) : isP2sh s = isPayToScriptHash s := by
  simp [isP2sh, isPayToScriptHash, Bool.and_assoc]

theorem isUnspendable_eq (s : Bytes) : isUnspendable s = startsWithReturn s := by
  rcases s with _ | ⟨b, t⟩ <;> simp [isUnspendable, startsWithReturn]

theorem isWitnessScriptPubKey_eq (s : Bytes) :
    isWitnessScriptPubKey s = .ok (isWitnessProgram s).isSome := by
  unfold isWitnessScriptPubKey isWitnessProgram
  by_cases hsz : s.length < 4 ∨ s.length > 42
  · simp [hsz]
  · simp only [hsz, if_false]
    rcases s with _ | ⟨h0, _ | ⟨h1, r⟩⟩
    · simp at hsz
    · simp at hsz
    · simp only [cscriptOpNew_signedByte]
      simp only [List.length_cons] at hsz ⊢
      have hb := h1.toNat_lt
      by_cases c1 : (h0.toNat ≠ 0 ∧ (h0.toNat < 0x51 ∨ h0.toNat > 0x60))
      · have : isSmallInt h0.toNat = false := by
          simp only [isSmallInt]; simp; omega
        simp [c1, this]
      · have : isSmallInt h0.toNat = true := by
          simp only [isSmallInt]; simp; omega
        simp only [c1, this, if_false, not_true_eq_false]
        by_cases c2 : h1.toNat = r.length
        · have : signedByte h1 + 2 = (r.length : Int) + 1 + 1 := by
            unfold signedByte; rw [if_pos (by omega)]; omega
          simp [c2, this]
        · have : ¬ (signedByte h1 + 2 = (r.length : Int) + 1 + 1) := by
            unfold signedByte; split <;> omega
          simp [c2, this]
theorem witnessVersion_of_program {s : Bytes} {v : Nat} {p : Bytes}
    (h : isWitnessProgram s = some (v, p)) : witnessVersion s = .ok (.int v) := by
  unfold isWitnessProgram at h
  by_cases hsz : s.length < 4 ∨ s.length > 42
  · simp [hsz] at h
  · simp only [hsz, if_false] at h
    rcases s with _ | ⟨h0, _ | ⟨h1, r⟩⟩
    · simp at h
    · simp at h
    · by_cases c1 : (h0.toNat ≠ 0 ∧ (h0.toNat < 0x51 ∨ h0.toNat > 0x60))
      · simp [c1] at h
      · simp only [c1, if_false] at h
        split at h
        · simp only [Option.some.injEq, Prod.mk.injEq] at h
          obtain ⟨hv, _⟩ := h
          have hg : getOp (h0 :: h1 :: r) = some (h0.toNat, [], h1 :: r) := by
            by_cases hz : h0.toNat = 0
            · simp [getOp, hz, lenBytes, declaredSize]
            · simp [getOp, show 78 < h0.toNat by omega]
          unfold witnessVersion
          rw [cooked_eq, rawIter, rawIterFrom_of_getOp hg]
          simp only [List.map_cons]
          congr 1
          unfold cookTok
          by_cases hz : h0.toNat = 0
          · simp [hz, ← hv, decodeOPN]
          · have c2 : 0x51 ≤ h0.toNat ∧ h0.toNat ≤ 0x60 := by omega
            simp only [hz, if_false, show h0.toNat > 0x4e by omega, if_true, c2, and_self, ← hv, decodeOPN]
        · simp at h

theorem u8_eq_lit (a : UInt8) (n : Nat) (h : n < 256) : a = UInt8.ofNat n ↔ a.toNat = n := by
  constructor
  · intro e; rw [e, u8_ofNat_toNat n h]
  · intro e; apply u8_eq_of_toNat; rw [u8_ofNat_toNat n h, e]

/-- shared shape of the two v0 predicates: length `n + 2`, first bytes `00 n` -/
theorem v0_program_eq (s : Bytes) (n : Nat) (hn : 2 ≤ n ∧ n ≤ 40) :
    (decide (s.length = n + 2) && decide (s.take 2 = [0x00, UInt8.ofNat n])) =
      (match isWitnessProgram s with
       | some (v, p) => decide (v = 0 ∧ p.length = n)
       | none => false) := by
  have hn' : n < 256 := by omega
  rcases s with _ | ⟨a, _ | ⟨b, r⟩⟩
  · simp [isWitnessProgram]
  · simp [isWitnessProgram]
  · unfold isWitnessProgram
    simp only [List.length_cons, List.take_succ_cons, List.take_zero, List.cons.injEq, and_true]
    have ea : a = 0x00 ↔ a.toNat = 0 := u8_eq_lit a 0 (by omega)
    have eb := u8_eq_lit b n hn'
    simp only [ea, eb]
    have hb := b.toNat_lt
    by_cases hsz : r.length + 1 + 1 < 4 ∨ r.length + 1 + 1 > 42
    · have : ¬ r.length = n := by omega
      simp [hsz, this]
    · simp only [hsz, if_false]
      by_cases c1 : (a.toNat ≠ 0 ∧ (a.toNat < 0x51 ∨ a.toNat > 0x60))
      · have : ¬ a.toNat = 0 := c1.1
        simp [c1, this]
      · simp only [c1, if_false]
        by_cases c2 : b.toNat + 2 = r.length + 1 + 1
        · simp only [c2, if_true, decodeOPN]
          by_cases c3 : a.toNat = 0
          · simp [c3]; omega
          · have : ¬ a.toNat - 80 = 0 := by omega
            simp [c3, this]
        · simp only [c2, if_false]
          simp; omega

theorem isWitnessV0Keyhash_eq (s : Bytes) : isWitnessV0Keyhash s = isP2WPKH s := by
  unfold isWitnessV0Keyhash isP2WPKH
  exact v0_program_eq s 20 (by omega)

theorem isWitnessV0Scripthash_eq (s : Bytes) : isWitnessV0Scripthash s = isP2WSH s := by
  unfold isWitnessV0Scripthash isP2WSH
  exact v0_program_eq s 32 (by omega)

/-- shared shape of the nested forms: one direct push of an `n+2`-byte program -/
theorem nested_eq (pred : Bytes → Bool) (n : Nat) (hn : n + 2 < 0x4c)
    (hp : ∀ p, pred p = (decide (p.length = n + 2) && decide (p.take 2 = [0x00, UInt8.ofNat n]))) (s : Bytes) :
    (decide (s.length = n + 3) && decide (s.take 3 = [UInt8.ofNat (n + 2), 0x00, UInt8.ofNat n])) =
      isSinglePushOf pred s := by
  rcases s with _ | ⟨x, p⟩
  · simp [isSinglePushOf]
  · simp only [isSinglePushOf, hp, List.length_cons, List.take_succ_cons]
    by_cases hl : p.length = n + 2
    · have e : pushEncode p = some (UInt8.ofNat (n + 2) :: p) := by
        simp [pushEncode, hl, hn]
      simp only [hl, e]
      generalize UInt8.ofNat (n + 2) = y
      generalize UInt8.ofNat n = w
      by_cases hx : x = y
      · subst hx; simp
      · have : ¬ (y = x) := fun h => hx h.symm
        simp [hx, this]
    · have : ¬ p.length + 1 = n + 3 := by omega
      simp [hl, this]

theorem isWitnessV0NestedKeyhash_eq (s : Bytes) : isWitnessV0NestedKeyhash s = isNestedP2WPKH s := by
  unfold isWitnessV0NestedKeyhash isNestedP2WPKH
  exact nested_eq isP2WPKH 20 (by omega) (fun p => (isWitnessV0Keyhash_eq p).symm) s

theorem isWitnessV0NestedScripthash_eq (s : Bytes) : isWitnessV0NestedScripthash s = isNestedP2WSH s := by
  unfold isWitnessV0NestedScripthash isNestedP2WSH
  exact nested_eq isP2WSH 32 (by omega) (fun p => (isWitnessV0Scripthash_eq p).symm) s

end BtcVerif
