/-
  C06 — simulation lemma for OP_CHECKMULTISIG(VERIFY): the index arithmetic of `_CheckMultiSig`
  against the reference's take / drop formulation.
-/
import BtcVerif.Proofs.ScriptEquivSig

namespace BtcVerif.Model.ScriptEval
open BtcVerif BtcVerif.Spec BtcVerif.Spec.Script BtcVerif.Model.Script

theorem take_drop_cons {α} (s : List α) (i n : Nat) (hi : i < s.length) (hn : 1 ≤ n) :
    (s.drop i).take n = s[i] :: (s.drop (i + 1)).take (n - 1) := by
  obtain ⟨m, rfl⟩ : ∃ m, n = m + 1 := ⟨n - 1, by omega⟩
  rw [List.drop_eq_getElem_cons hi, List.take_succ_cons]
  rfl

theorem getTop?_getElem {α} (l : List α) (k : Int) (h1 : 1 ≤ k) (h2 : k ≤ l.length) :
    getTop? l k = some (l[(k - 1).toNat]'(by omega)) := by
  simp [getTop?, h1]

/-- the two subscripts stay related through the signature-dropping loop -/
def SubRel (m r : Bytes) : Prop := m = r ∨ m = (0xab : UInt8) :: r

theorem subRel_fad {m r b : Bytes} (hb : PushPat b) (h : SubRel m r) :
    SubRel (Ref.findAndDelete m b) (Ref.findAndDelete r b) := by
  rcases h with rfl | rfl
  · left; rfl
  · right
    simp only [Ref.findAndDelete, hb.ne_nil, if_false]
    exact fadLoop_codesep hb r

/-- `for k in range(sigs_count): … FindAndDelete …` against the reference's fold over the
    signatures, when the subscript parses -/
theorem msDropSigs_sim (st : St) (isig : Int) (hel : ∀ x ∈ st.stack, x.length < 2 ^ 32) :
    ∀ (n k : Nat) (m r : Bytes), SubRel m r → (rawIter m).2 = none → 1 ≤ isig + k →
      isig + k + n ≤ st.stack.length + 1 →
      ∃ m', msDropSigs st isig n k m = .ok m' ∧ (rawIter m').2 = none ∧
        SubRel m' (((st.stack.drop (isig + k - 1).toNat).take n).foldl
          (fun sc sig => Ref.findAndDelete sc (Ref.pushEnc sig)) r) := by
  intro n
  induction n with
  | zero => intro k m r hrel hp _ _; exact ⟨m, rfl, hp, by simpa using hrel⟩
  | succ n ih =>
    intro k m r hrel hp h1 h2
    have hlt : (isig + k - 1).toNat < st.stack.length := by omega
    have hget := getTop?_getElem st.stack (isig + k) h1 (by omega)
    have hxl : (st.stack[(isig + k - 1).toNat]).length < 2 ^ 32 := hel _ (List.getElem_mem hlt)
    have hpat := pushEnc_pat _ hxl
    have hfad := findAndDelete_eq st.cap m (Ref.pushEnc st.stack[(isig + k - 1).toNat]) hpat
    simp only [hp, Option.isSome_none, Bool.false_eq_true, if_false] at hfad
    have hnext := ih (k + 1) (Ref.findAndDelete m (Ref.pushEnc st.stack[(isig + k - 1).toNat]))
      (Ref.findAndDelete r (Ref.pushEnc st.stack[(isig + k - 1).toNat])) (subRel_fad hpat hrel)
      (findAndDelete_parses m _ hpat hp) (by omega) (by omega)
    obtain ⟨m', hm1, hm2, hm3⟩ := hnext
    refine ⟨m', ?_, hm2, ?_⟩
    · simp only [msDropSigs, hget, pyIdx, encodeOpPushdata_eq _ hxl, hfad, bind, Except.bind]
      exact hm1
    · rw [take_drop_cons st.stack _ (n + 1) hlt (by omega)]
      simp only [List.foldl_cons, Nat.add_sub_cancel]
      have hidx : (isig + ((k + 1 : Nat) : Int) - 1).toNat = (isig + k - 1).toNat + 1 := by omega
      rw [hidx] at hm3
      exact hm3

theorem length_take_drop {α} (s : List α) (i n : Nat) (h : i + n ≤ s.length) :
    ((s.drop i).take n).length = n := by
  simp only [List.length_take, List.length_drop]; omega

/-- the `while success and sigs_count > 0` loop against the reference's list recursion -/
theorem msLoop_sim (c : Ctx) (sop : Nat) (script' code' : Bytes) (st : St) (hidx : 0 ≤ c.inIdx)
    (hcs : CodesepInsensitive c.env) (hrel : SubRel script' code') (hparse : (rawIter script').2 = none)
    (m : Nat) :
    ∀ (isig sigs ikey keys : Int), keys.toNat = m → 1 ≤ sigs → sigs ≤ keys → 1 ≤ isig → 1 ≤ ikey →
      isig + sigs ≤ st.stack.length + 1 → ikey + keys ≤ st.stack.length + 1 →
      msLoop c sop script' st isig sigs ikey keys =
        if Ref.multiSigLoop (fun sig key => Ref.checkSig c.env sig key code')
            ((st.stack.drop (isig - 1).toNat).take sigs.toNat)
            ((st.stack.drop (ikey - 1).toNat).take keys.toNat)
        then .ok true else (if sop = 0xaf then raiseNamed sop st else .ok false) := by
  induction m using Nat.strongRecOn with
  | _ m ih =>
    intro isig sigs ikey keys hm hs1 hs2 hi1 hk1 hi2 hk2
    have hil : (isig - 1).toNat < st.stack.length := by omega
    have hkl : (ikey - 1).toNat < st.stack.length := by omega
    have hsig := getTop?_getElem st.stack isig hi1 (by omega)
    have hkey := getTop?_getElem st.stack ikey hk1 (by omega)
    have hck := checkSig_sim c st.cap st.stack[(isig - 1).toNat] st.stack[(ikey - 1).toNat] script' code'
      hidx hcs hrel hparse
    have hsl := take_drop_cons st.stack (isig - 1).toNat sigs.toNat hil (by omega)
    have hkl' := take_drop_cons st.stack (ikey - 1).toNat keys.toNat hkl (by omega)
    have hSlen := length_take_drop st.stack ((isig - 1).toNat + 1) (sigs.toNat - 1) (by omega)
    have hKlen := length_take_drop st.stack ((ikey - 1).toNat + 1) (keys.toNat - 1) (by omega)
    rw [msLoop]
    simp only [hsig, hkey, pyIdx, hck, bind, Except.bind]
    rw [hsl, hkl', Ref.multiSigLoop]
    simp only [List.length_cons, hSlen, hKlen]
    cases hres : Ref.checkSig c.env st.stack[(isig - 1).toNat] st.stack[(ikey - 1).toNat] code'
    · -- the signature does not match this key: next key
      simp only [Bool.false_eq_true, if_false]
      by_cases hgt : sigs > keys - 1
      · have : sigs.toNat - 1 + 1 > keys.toNat - 1 := by omega
        simp only [hgt, this, if_true, Bool.false_eq_true, if_false]
      · have : ¬ (sigs.toNat - 1 + 1 > keys.toNat - 1) := by omega
        have hpos : sigs > 0 := by omega
        simp only [hgt, this, if_false, hpos, dif_pos]
        rw [ih (keys - 1).toNat (by omega) isig sigs (ikey + 1) (keys - 1) rfl hs1 (by omega) hi1 (by omega) hi2
          (by omega)]
        have e1 : (ikey + 1 - 1).toNat = (ikey - 1).toNat + 1 := by omega
        have e2 : (keys - 1).toNat = keys.toNat - 1 := by omega
        rw [e1, e2, hsl]
    · -- match: next signature, next key
      simp only [if_true]
      by_cases hgt : sigs - 1 > keys - 1
      · have : sigs.toNat - 1 > keys.toNat - 1 := by omega
        simp only [hgt, this, if_true, Bool.false_eq_true, if_false]
      · have : ¬ (sigs.toNat - 1 > keys.toNat - 1) := by omega
        simp only [hgt, this, if_false]
        by_cases hpos : sigs - 1 > 0
        · simp only [hpos, dif_pos]
          rw [ih (keys - 1).toNat (by omega) (isig + 1) (sigs - 1) (ikey + 1) (keys - 1) rfl (by omega) (by omega)
            (by omega) (by omega) (by omega) (by omega)]
          have e1 : (ikey + 1 - 1).toNat = (ikey - 1).toNat + 1 := by omega
          have e2 : (keys - 1).toNat = keys.toNat - 1 := by omega
          have e3 : (isig + 1 - 1).toNat = (isig - 1).toNat + 1 := by omega
          have e4 : (sigs - 1).toNat = sigs.toNat - 1 := by omega
          rw [e1, e2, e3, e4]
        · have hz : sigs.toNat - 1 = 0 := by omega
          simp only [hpos, dif_neg, not_false_eq_true, hz, List.take_zero, Ref.multiSigLoop, if_true]

end BtcVerif.Model.ScriptEval
