/-
  C06 — simulation lemma for OP_CHECKMULTISIG(VERIFY): the index arithmetic of `_CheckMultiSig`
  against the reference's take / drop formulation.
-/
import BtcVerif.Proofs.ScriptEquivSig

namespace BtcVerif.Model.ScriptEval
open BtcVerif BtcVerif.Spec BtcVerif.Spec.Script BtcVerif.Model.Script

theorem take_drop_cons {α} (s : List α) (i n : Nat) (hi : i < s.length) (hn : 1 ≤ n) :
    (s.drop i).take n = s[i] :: (s.drop (i + 1)).take (n - 1) := by
  obtain ⟨m, rfl⟩ : ∃ m, n = m + 1 := ⟨n - 1, by omega⟩
  rw [List.drop_eq_getElem_cons hi, List.take_succ_cons]
  rfl

theorem getTop?_getElem {α} (l : List α) (k : Int) (h1 : 1 ≤ k) (h2 : k ≤ l.length) :
    getTop? l k = some (l[(k - 1).toNat]'(by omega)) := by
  simp [getTop?, h1]

/-- the two subscripts stay related through the signature-dropping loop -/
def SubRel (m r : Bytes) : Prop := m = r ∨ m = (0xab : UInt8) :: r

theorem subRel_fad {m r b : Bytes} (hb : PushPat b) (h : SubRel m r) :
    SubRel (Ref.findAndDelete m b) (Ref.findAndDelete r b) := by
  rcases h with rfl | rfl
  · left; rfl
  · right
    simp only [Ref.findAndDelete, hb.ne_nil, if_false]
    exact fadLoop_codesep hb r

/-- `for k in range(sigs_count): … FindAndDelete …` against the reference's fold over the
    signatures, when the subscript parses -/
theorem msDropSigs_sim (st : St) (isig : Int) (hel : ∀ x ∈ st.stack, x.length < 2 ^ 32) :
    ∀ (n k : Nat) (m r : Bytes), SubRel m r → (rawIter m).2 = none → 1 ≤ isig + k →
      isig + k + n ≤ st.stack.length + 1 →
      ∃ m', msDropSigs st isig n k m = .ok m' ∧ (rawIter m').2 = none ∧ m'.length ≤ m.length ∧
        SubRel m' (((st.stack.drop (isig + k - 1).toNat).take n).foldl
          (fun sc sig => Ref.findAndDelete sc (Ref.pushEnc sig)) r) := by
  intro n
  induction n with
  | zero => intro k m r hrel hp _ _; exact ⟨m, rfl, hp, Nat.le_refl _, by simpa using hrel⟩
  | succ n ih =>
    intro k m r hrel hp h1 h2
    have hlt : (isig + k - 1).toNat < st.stack.length := by omega
    have hget := getTop?_getElem st.stack (isig + k) h1 (by omega)
    have hxl : (st.stack[(isig + k - 1).toNat]).length < 2 ^ 32 := hel _ (List.getElem_mem hlt)
    have hpat := pushEnc_pat _ hxl
    have hfad := findAndDelete_eq st.cap m (Ref.pushEnc st.stack[(isig + k - 1).toNat]) hpat
    simp only [hp, Option.isSome_none, Bool.false_eq_true, if_false] at hfad
    have hnext := ih (k + 1) (Ref.findAndDelete m (Ref.pushEnc st.stack[(isig + k - 1).toNat]))
      (Ref.findAndDelete r (Ref.pushEnc st.stack[(isig + k - 1).toNat])) (subRel_fad hpat hrel)
      (findAndDelete_parses m _ hpat hp) (by omega) (by omega)
    obtain ⟨m', hm1, hm2, hml, hm3⟩ := hnext
    refine ⟨m', ?_, hm2, ?_, ?_⟩
    · simp only [msDropSigs, hget, pyIdx, encodeOpPushdata_eq _ hxl, hfad, bind, Except.bind]
      exact hm1
    · have := ref_findAndDelete_length_le m (Ref.pushEnc st.stack[(isig + k - 1).toNat]); omega
    · rw [take_drop_cons st.stack _ (n + 1) hlt (by omega)]
      simp only [List.foldl_cons, Nat.add_sub_cancel]
      have hsh : (isig + ((k + 1 : Nat) : Int) - 1).toNat = (isig + k - 1).toNat + 1 := by omega
      rw [hsh] at hm3
      exact hm3

theorem length_take_drop {α} (s : List α) (i n : Nat) (h : i + n ≤ s.length) :
    ((s.drop i).take n).length = n := by
  simp only [List.length_take, List.length_drop]; omega

/-- the `while success and sigs_count > 0` loop against the reference's list recursion -/
theorem msLoop_sim (c : Ctx) (sop : Nat) (script' code' : Bytes) (st : St) (hsh : SigHashOK c)
    (hcs : CodesepInsensitive c.env) (hrel : SubRel script' code') (hparse : (rawIter script').2 = none)
    (hlen' : script'.length ≤ MAX_SCRIPT_SIZE) (m : Nat) :
    ∀ (isig sigs ikey keys : Int), keys.toNat = m → 1 ≤ sigs → sigs ≤ keys → 1 ≤ isig → 1 ≤ ikey →
      isig + sigs ≤ st.stack.length + 1 → ikey + keys ≤ st.stack.length + 1 →
      msLoop c sop script' st isig sigs ikey keys =
        if Ref.multiSigLoop (fun sig key => Ref.checkSig c.env sig key code')
            ((st.stack.drop (isig - 1).toNat).take sigs.toNat)
            ((st.stack.drop (ikey - 1).toNat).take keys.toNat)
        then .ok true else (if sop = 0xaf then raiseNamed sop st else .ok false) := by
  induction m using Nat.strongRecOn with
  | _ m ih =>
    intro isig sigs ikey keys hm hs1 hs2 hi1 hk1 hi2 hk2
    have hil : (isig - 1).toNat < st.stack.length := by omega
    have hkl : (ikey - 1).toNat < st.stack.length := by omega
    have hsig := getTop?_getElem st.stack isig hi1 (by omega)
    have hkey := getTop?_getElem st.stack ikey hk1 (by omega)
    have hck := checkSig_sim c st.cap st.stack[(isig - 1).toNat] st.stack[(ikey - 1).toNat] script' code'
      hsh hcs hrel hparse hlen'
    have hsl := take_drop_cons st.stack (isig - 1).toNat sigs.toNat hil (by omega)
    have hkl' := take_drop_cons st.stack (ikey - 1).toNat keys.toNat hkl (by omega)
    have hSlen := length_take_drop st.stack ((isig - 1).toNat + 1) (sigs.toNat - 1) (by omega)
    have hKlen := length_take_drop st.stack ((ikey - 1).toNat + 1) (keys.toNat - 1) (by omega)
    rw [msLoop]
    simp only [hsig, hkey, pyIdx, hck, bind, Except.bind]
    rw [hsl, hkl', Ref.multiSigLoop]
    simp only [List.length_cons, hSlen, hKlen]
    cases hres : Ref.checkSig c.env st.stack[(isig - 1).toNat] st.stack[(ikey - 1).toNat] code'
    · -- the signature does not match this key: next key
      simp only [Bool.false_eq_true, if_false]
      by_cases hgt : sigs > keys - 1
      · have : sigs.toNat - 1 + 1 > keys.toNat - 1 := by omega
        simp only [hgt, this, if_true, Bool.false_eq_true, if_false]
      · have : ¬ (sigs.toNat - 1 + 1 > keys.toNat - 1) := by omega
        have hpos : sigs > 0 := by omega
        simp only [hgt, this, if_false, hpos, dif_pos]
        rw [ih (keys - 1).toNat (by omega) isig sigs (ikey + 1) (keys - 1) rfl hs1 (by omega) hi1 (by omega) hi2
          (by omega)]
        have e1 : (ikey + 1 - 1).toNat = (ikey - 1).toNat + 1 := by omega
        have e2 : (keys - 1).toNat = keys.toNat - 1 := by omega
        rw [e1, e2, hsl]
    · -- match: next signature, next key
      simp only [if_true]
      by_cases hgt : sigs - 1 > keys - 1
      · have : sigs.toNat - 1 > keys.toNat - 1 := by omega
        simp only [hgt, this, if_true, Bool.false_eq_true, if_false]
      · have : ¬ (sigs.toNat - 1 > keys.toNat - 1) := by omega
        simp only [hgt, this, if_false]
        by_cases hpos : sigs - 1 > 0
        · simp only [hpos, dif_pos]
          rw [ih (keys - 1).toNat (by omega) (isig + 1) (sigs - 1) (ikey + 1) (keys - 1) rfl (by omega) (by omega)
            (by omega) (by omega) (by omega) (by omega)]
          have e1 : (ikey + 1 - 1).toNat = (ikey - 1).toNat + 1 := by omega
          have e2 : (keys - 1).toNat = keys.toNat - 1 := by omega
          have e3 : (isig + 1 - 1).toNat = (isig - 1).toNat + 1 := by omega
          have e4 : (sigs - 1).toNat = sigs.toNat - 1 := by omega
          rw [e1, e2, e3, e4]
        · have hz : sigs.toNat - 1 = 0 := by omega
          simp only [hpos, dif_neg, not_false_eq_true, hz, List.take_zero, Ref.multiSigLoop, if_true]

theorem msTail_eq (fl : Flags) (sop : Nat) (success : Bool) (s al : List Bytes) (vf : List Bool) (pb n' m : Nat)
    (dummy : Bytes) (rest : List Bytes) (hd : s.drop m = dummy :: rest) (hm : m ≤ s.length) :
    (do
      let stack ← popN m s
      let st : St := ⟨stack, al, vf, pb, n'⟩
      nullDummyCheck fl sop st
      let (_, stack) ← pyIdx (pop? stack)
      let st : St := { st with stack := stack }
      if sop = 0xae then
        .ok { st with stack := (if success then [1] else []) :: stack }
      else .ok st : M St) =
    if fl.nullDummy = true ∧ dummy ≠ [] then raiseNamed sop ⟨dummy :: rest, al, vf, pb, n'⟩
    else if sop = 0xae then .ok ⟨(if success then [1] else []) :: rest, al, vf, pb, n'⟩
    else .ok ⟨rest, al, vf, pb, n'⟩ := by
  rw [popN_eq m s hm, hd]
  simp only [bind, Except.bind, nullDummyCheck, getTop?_1, pyIdx, pop?_cons, List.length_cons]
  by_cases hnd : fl.nullDummy = true
  · by_cases hde : dummy = []
    · simp [hnd, hde]
    · simp [hnd, hde]
  · simp [hnd]

theorem msDropSigs_invalid (st : St) (isig : Int) (n k : Nat) (m : Bytes)
    (hel : ∀ x ∈ st.stack, x.length < 2 ^ 32) (htail : (rawIter m).2.isSome) (h1 : 1 ≤ isig + k)
    (h2 : isig + k + (n + 1) ≤ st.stack.length + 1) :
    msDropSigs st isig (n + 1) k m = .error (.invalid st.cap) := by
  have hlt : (isig + k - 1).toNat < st.stack.length := by omega
  have hget := getTop?_getElem st.stack (isig + k) h1 (by omega)
  have hxl : (st.stack[(isig + k - 1).toNat]).length < 2 ^ 32 := hel _ (List.getElem_mem hlt)
  have hfad := findAndDelete_eq st.cap m (Ref.pushEnc st.stack[(isig + k - 1).toNat]) (pushEnc_pat _ hxl)
  simp only [htail, if_true] at hfad
  simp only [msDropSigs, hget, pyIdx, encodeOpPushdata_eq _ hxl, hfad, bind, Except.bind]

theorem multisig_sim (c : Ctx) (fl : Flags) (script code : Bytes) (st : St) (sop : Nat)
    (hs : sop = 0xae ∨ sop = 0xaf) (hsh : SigHashOK c) (hcs : CodesepInsensitive c.env)
    (hel : ∀ x ∈ st.stack, x.length < 2 ^ 32) (hcode : CodeRel script st.pbegin code)
    (hnop : st.nOpCount ≤ MAX_OPS_PER_SCRIPT) (hsl : script.length ≤ MAX_SCRIPT_SIZE) :
    SimT ((rawIter (script.drop st.pbegin)).2.isSome) code st
      (checkMultiSig c fl sop (script.drop st.pbegin) st)
      (Ref.opCheckMultiSig c.env fl (decide (sop = 0xaf)) (toRef st code)) := by
  obtain ⟨s, al, vf, pb, n⟩ := st
  dsimp only at hel hcode hnop ⊢
  unfold checkMultiSig Ref.opCheckMultiSig
  dsimp only [toRef]
  cases s with
  | nil => simp
  | cons kv s1 =>
    have h0 : ¬ ((kv :: s1).length < 1) := by simp
    rw [if_neg h0]
    simp only [getTop?_1, pyIdx, bind, Except.bind]
    have hck := castToBigNum_eq kv ⟨kv :: s1, al, vf, pb, n⟩
    cases hsk : Ref.scriptNum? kv with
    | none =>
      simp only [hsk] at hck
      obtain ⟨e, he⟩ := hck
      simp only [he]
      cases e <;> simp [SimT]
    | some keys =>
      simp only [hsk] at hck
      simp only [hck]
      by_cases hk : keys < 0 ∨ keys > 20
      · rw [if_pos hk]
        have hk' : keys < 0 ∨ keys > (MAX_PUBKEYS_PER_MULTISIG : Int) := by simpa [MAX_PUBKEYS_PER_MULTISIG] using hk
        simp [hk']
      rw [if_neg hk]
      have hk' : ¬ (keys < 0 ∨ keys > (MAX_PUBKEYS_PER_MULTISIG : Int)) := by simpa [MAX_PUBKEYS_PER_MULTISIG] using hk
      simp only [hk', if_false]
      by_cases hop : n + keys.toNat > MAX_OPS_PER_SCRIPT
      · rw [if_pos hop]; simp [hop, SimT]
      rw [if_neg hop]
      simp only [hop, if_false]
      by_cases hlen : ((kv :: s1).length : Int) < 2 + keys
      · rw [if_pos hlen]
        have : s1.length < keys.toNat + 1 := by simp only [List.length_cons] at hlen; omega
        simp [this]
      rw [if_neg hlen]
      have hl1 : ¬ s1.length < keys.toNat + 1 := by simp only [List.length_cons] at hlen; omega
      simp only [hl1, if_false]
      -- the signature count
      have hkn : keys.toNat < s1.length := by omega
      have hdrop : s1.drop keys.toNat = s1[keys.toNat] :: s1.drop (keys.toNat + 1) :=
        List.drop_eq_getElem_cons hkn
      have hidx2 : (2 + keys - 1).toNat = keys.toNat + 1 := by omega
      have hgt : getTop? (kv :: s1) (2 + keys) = some s1[keys.toNat] := by
        have h1 : (1 : Int) ≤ 2 + keys := by omega
        simp only [getTop?, h1, if_true, hidx2, List.getElem?_cons_succ, List.getElem?_eq_getElem hkn]
      rw [hdrop]
      simp only [hgt]
      have hcs2 := castToBigNum_eq s1[keys.toNat] ⟨kv :: s1, al, vf, pb, n + keys.toNat⟩
      cases hss : Ref.scriptNum? s1[keys.toNat] with
      | none =>
        simp only [hss] at hcs2
        obtain ⟨e, he⟩ := hcs2
        simp only [he]
        cases e <;> simp [SimT]
      | some sigs =>
        simp only [hss] at hcs2
        simp only [hcs2]
        by_cases hsr : sigs < 0 ∨ sigs > keys
        · rw [if_pos hsr]; simp [hsr]
        rw [if_neg hsr]
        simp only [hsr, if_false]
        have hs2len : (s1.drop (keys.toNat + 1)).length = s1.length - (keys.toNat + 1) := List.length_drop ..
        by_cases hl1' : ((kv :: s1).length : Int) < 2 + keys + 1 + sigs - 1
        · rw [if_pos hl1']
          have : s1.length - (keys.toNat + 1) < sigs.toNat + 1 := by
            simp only [List.length_cons] at hl1'; omega
          simp [this]
        rw [if_neg hl1']
        by_cases hl2 : ((kv :: s1).length : Int) < 2 + keys + 1 + sigs
        · rw [if_pos hl2]
          have : s1.length - (keys.toNat + 1) < sigs.toNat + 1 := by
            simp only [List.length_cons] at hl2; omega
          simp [this]
        rw [if_neg hl2]
        have hl3 : ¬ (s1.drop (keys.toNat + 1)).length < sigs.toNat + 1 := by
          rw [hs2len]; simp only [List.length_cons] at hl2; omega
        simp only [hl3, if_false]
        -- positions
        have hL : (kv :: s1).length = s1.length + 1 := rfl
        have hm : (2 + keys + 1 + sigs - 1).toNat = keys.toNat + 1 + sigs.toNat + 1 := by omega
        have hdd : (kv :: s1).drop (2 + keys + 1 + sigs - 1).toNat = (s1.drop (keys.toNat + 1)).drop sigs.toNat := by
          rw [hm, List.drop_drop]
          have : keys.toNat + 1 + sigs.toNat + 1 = (keys.toNat + 1 + sigs.toNat) + 1 := by omega
          rw [this, List.drop_succ_cons]
        have hdne : (s1.drop (keys.toNat + 1)).drop sigs.toNat ≠ [] := by
          intro h
          have := congrArg List.length h
          simp only [List.length_drop, List.length_nil] at this
          simp only [List.length_cons] at hl2; omega
        cases hdr : (s1.drop (keys.toNat + 1)).drop sigs.toNat with
        | nil => exact absurd hdr hdne
        | cons dummy rest =>
          simp only []
          have hpop : popN (2 + keys + 1 + sigs - 1).toNat (kv :: s1) = .ok (dummy :: rest) := by
            rw [popN_eq _ _ (by simp only [List.length_cons] at hl2 ⊢; omega), hdd, hdr]
          simp only [hpop, nullDummyCheck, List.length_cons, getTop?_1, pyIdx, pop?_cons, bind, Except.bind]
          have hnz : rest.length + 1 ≠ 0 := by omega
          simp only [hnz, ne_eq, not_false_eq_true, true_and]
          by_cases hpos : sigs > 0
          · -- at least one signature
            have hst : (⟨kv :: s1, al, vf, pb, n + keys.toNat⟩ : St).stack = kv :: s1 := rfl
            cases htl : (rawIter (script.drop pb)).2 with
            | some e =>
              obtain ⟨k', hk'⟩ : ∃ k', sigs.toNat = k' + 1 := ⟨sigs.toNat - 1, by omega⟩
              have hinv := msDropSigs_invalid ⟨kv :: s1, al, vf, pb, n + keys.toNat⟩ (2 + keys + 1) k' 0
                (script.drop pb) hel (by simp [htl]) (by omega)
                (by simp only [hst, List.length_cons] at hl2 ⊢; omega)
              rw [hk', hinv]
              simp [SimT]
            | none =>
              have hsub : SubRel (script.drop pb) code := by
                rcases hcode with ⟨rfl, rfl⟩ | h
                · left; simp
                · right; exact h
              obtain ⟨m', hm1, hm2, hml, hm3⟩ := msDropSigs_sim ⟨kv :: s1, al, vf, pb, n + keys.toNat⟩ (2 + keys + 1) hel
                sigs.toNat 0 (script.drop pb) code hsub htl (by omega)
                (by simp only [hst, List.length_cons] at hl2 ⊢; omega)
              have hml' : m'.length ≤ MAX_SCRIPT_SIZE := by
                simp only [List.length_drop] at hml; omega
              have hloop := msLoop_sim c sop m' _ ⟨kv :: s1, al, vf, pb, n + keys.toNat⟩ hsh hcs hm3 hm2 hml' keys.toNat
                (2 + keys + 1) sigs 2 keys rfl (by omega) (by omega) (by omega) (by omega)
                (by simp only [hst, List.length_cons] at hl2 ⊢; omega)
                (by simp only [hst, List.length_cons] at hlen ⊢; omega)
              have e1 : (2 + keys + 1 + ((0 : Nat) : Int) - 1).toNat = keys.toNat + 2 := by omega
              have e2 : (2 + keys + 1 - 1).toNat = keys.toNat + 2 := by omega
              have e3 : ((2 : Int) - 1).toNat = 1 := by omega
              have e4 : (kv :: s1).drop (keys.toNat + 2) = s1.drop (keys.toNat + 1) := by
                rw [show keys.toNat + 2 = (keys.toNat + 1) + 1 by omega, List.drop_succ_cons]
              simp only [hst, e1, e2, e3, e4, List.drop_succ_cons, List.drop_zero] at hm3 hloop
              rw [hm1]
              simp only [hpos, if_true, hloop]
              have hnop' : n + keys.toNat ≤ MAX_OPS_PER_SCRIPT := by omega
              cases hres : Ref.multiSigLoop
                  (fun sig key => Ref.checkSig c.env sig key
                    (List.foldl (fun sc sig => Ref.findAndDelete sc (Ref.pushEnc sig)) code
                      (List.take sigs.toNat (List.drop (keys.toNat + 1) s1))))
                  (List.take sigs.toNat (List.drop (keys.toNat + 1) s1)) (List.take keys.toNat s1) <;>
                by_cases hnd : fl.nullDummy = true <;> by_cases hde : dummy = [] <;> rcases hs with rfl | rfl <;>
                simp [hnd, hde, SimT, toRef, Ref.boolVch, Ref.vchTrue, Ref.vchFalse, hnop'] <;>
                (try (unfold namedErr; split <;> trivial))
          · -- no signatures: nothing is dropped, nothing is checked
            have hz : sigs.toNat = 0 := by omega
            simp only [hz, msDropSigs, hpos, if_false, List.take_zero, List.foldl_nil, Ref.multiSigLoop]
            have hnop' : n + keys.toNat ≤ MAX_OPS_PER_SCRIPT := by omega
            by_cases hnd : fl.nullDummy = true <;> by_cases hde : dummy = [] <;> rcases hs with rfl | rfl <;>
              simp [hnd, hde, SimT, toRef, Ref.boolVch, Ref.vchTrue, hnop'] <;>
              (try (unfold namedErr; split <;> trivial))

end BtcVerif.Model.ScriptEval
