/-
  C08 — reference definitions for script building, tokenising, script numbers and the
  classification predicates.  Written from Bitcoin Core's script.h / script.cpp
  (CScriptNum::serialize / set_vch / IsMinimallyEncoded, CScript::operator<<, GetScriptOp,
  IsPayToScriptHash, IsWitnessProgram, IsPushOnly, HasCanonicalPushes (0.9-era), GetSigOpCount)
  and BIP141, independently of how python-bitcoinlib computes them.  Mathlib-free.
-/
import BtcVerif.Basic.Bytes

namespace BtcVerif.Spec.Script
open BtcVerif

/-- what a script is built from / what cooked iteration yields -/
inductive Token
  | op (n : Nat)        -- a CScriptOp
  | int (z : Int)       -- a plain integer (or an instance of an int subclass other than bool / CScriptOp)
  | data (b : Bytes)    -- a byte string (bytes, bytearray, or an instance of a subclass such as CScript)
  | bool (b : Bool)     -- True / False (Python's bool is an int: they build as 1 / 0)
  | buffer (b : Bytes)  -- any other object supporting the buffer protocol (memoryview, array.array('B')):
                        -- no isinstance branch coerces it, and bytes.join / bytes.__add__ accept it, so its
                        -- bytes are spliced in RAW (no push opcode) — Python behaviour outside the property's
                        -- alphabet, modelled so that the model claims nothing false about it
  | other               -- an element of a type that is none of the above and has no buffer interface
                        -- (str, None, float, list, …): not a script element
deriving DecidableEq, Repr

/-- tokens for which the read-back laws are claimed: opcode tokens 0x4f..0xff (a CScriptOp below
    OP_1NEGATE is a push opcode and swallows what follows it), any integer, any byte string -/
def Token.inDomain : Token → Prop
  | .op n => 0x4f ≤ n
  | .buffer _ => False
  | .other => False
  | _ => True

/-! ### script numbers: minimal little-endian sign-magnitude -/

/-- number of base-256 digits of `n` (0 for 0) -/
def byteLen (n : Nat) : Nat := if h : n = 0 then 0 else byteLen (n / 256) + 1
decreasing_by omega

/-- least `k` such that the magnitude `m` fits into `8k − 1` bits (the top bit is the sign) -/
def numLen (m : Nat) : Nat := byteLen (2 * m)

/-- CScriptNum::serialize for an integer of any size: `numLen |z|` little-endian bytes of the
    magnitude, the sign in the top bit (value 128·256^(k−1)) of the last byte; zero is the empty
    string. -/
def numEncode (z : Int) : Bytes :=
  let m := z.natAbs
  let k := numLen m
  leBytes k (if z < 0 then m + 128 * 256 ^ (k - 1) else m)

/-- CScriptNum::set_vch (without the size limit): little-endian magnitude, top bit of the last
    byte is the sign and is not part of the magnitude. -/
def numDecode (b : Bytes) : Int :=
  match b.reverse with
  | [] => 0
  | top :: _ =>
    if top.toNat ≥ 0x80 then - ((leNat b - 0x80 * 256 ^ (b.length - 1) : Nat) : Int)
    else (leNat b : Int)

/-- CScriptNum's `fRequireMinimal` test: the last byte carries magnitude bits, or it is needed
    only because the byte before it has its top bit set. -/
def minimal (b : Bytes) : Prop :=
  match b.reverse with
  | [] => True
  | top :: below =>
    top.toNat % 128 ≠ 0 ∨
      (match below with
       | [] => False
       | nxt :: _ => nxt.toNat ≥ 128)

instance : DecidablePred minimal := fun b => by
  unfold minimal
  split
  · exact inferInstance
  · split <;> exact inferInstance

/-! ### building -/

def OP_0 : Nat := 0x00
def OP_PUSHDATA1 : Nat := 0x4c
def OP_PUSHDATA2 : Nat := 0x4d
def OP_PUSHDATA4 : Nat := 0x4e
def OP_1NEGATE : Nat := 0x4f
def OP_1 : Nat := 0x51
def OP_16 : Nat := 0x60
def OP_RETURN : Nat := 0x6a
def OP_EQUAL : Nat := 0x87
def OP_HASH160 : Nat := 0xa9
def OP_CHECKSIG : Nat := 0xac
def OP_CHECKSIGVERIFY : Nat := 0xad
def OP_CHECKMULTISIG : Nat := 0xae
def OP_CHECKMULTISIGVERIFY : Nat := 0xaf
def OP_INVALIDOPCODE : Nat := 0xff

/-- `CScript << vector`: the shortest push opcode that can carry `d`; none beyond 2³²−1 bytes -/
def pushEncode (d : Bytes) : Option Bytes :=
  let n := d.length
  if n < 0x4c then some (UInt8.ofNat n :: d)
  else if n ≤ 0xff then some (0x4c :: UInt8.ofNat n :: d)
  else if n ≤ 0xffff then some (0x4d :: (leBytes 2 n ++ d))
  else if n ≤ 0xffffffff then some (0x4e :: (leBytes 4 n ++ d))
  else none

/-- bytes emitted for one token (`CScript << opcode`, `CScript << int64`, `CScript << vector`) -/
def tokenBytes : Token → Option Bytes
  | .op n => if n < 256 then some [UInt8.ofNat n] else none
  | .int z =>
      if z = 0 then some [0x00]
      else if 1 ≤ z ∧ z ≤ 16 then some [UInt8.ofNat (0x50 + z.toNat)]
      else if z = -1 then some [0x4f]
      else pushEncode (numEncode z)
  | .data d => pushEncode d
  | .bool b => some [if b then 0x51 else 0x00]
  | .buffer b => some b
  | .other => none

def build : List Token → Option Bytes
  | [] => some []
  | t :: ts =>
    match tokenBytes t, build ts with
    | some a, some r => some (a ++ r)
    | _, _ => none

/-- the token a built token reads back as: opcodes OP_1..OP_16 as integers, the empty push as 0,
    −1 as OP_1NEGATE, every other integer as the bytes of its minimal number encoding -/
def canonTok : Token → Token
  | .op n => if 0x51 ≤ n ∧ n ≤ 0x60 then .int (n - 0x50 : Nat) else .op n
  | .int z =>
      if 0 ≤ z ∧ z ≤ 16 then .int z
      else if z = -1 then .op 0x4f
      else .data (numEncode z)
  | .data d => if d = [] then .int 0 else .data d
  | .bool b => .int (if b then 1 else 0)
  | .buffer b => .buffer b
  | .other => .other

def canon (ts : List Token) : List Token := ts.map canonTok

/-! ### tokenising (GetScriptOp) -/

/-- number of length bytes that follow a push opcode -/
def lenBytes (opc : Nat) : Nat :=
  if opc < 0x4c then 0 else if opc = 0x4c then 1 else if opc = 0x4d then 2 else 4

/-- declared payload size of the push `opc` whose remaining bytes are `t` -/
def declaredSize (opc : Nat) (t : Bytes) : Nat :=
  if opc < 0x4c then opc else leNat (t.take (lenBytes opc))

/-- GetScriptOp: (opcode, pushed data (empty for non-push opcodes), remaining bytes), or none when
    the script is exhausted or the push is malformed -/
def getOp : Bytes → Option (Nat × Bytes × Bytes)
  | [] => none
  | b :: t =>
    let opc := b.toNat
    if opc > 0x4e then some (opc, [], t)
    else if t.length < lenBytes opc then none
    else
      let r := t.drop (lenBytes opc)
      let n := declaredSize opc t
      if r.length < n then none else some (opc, r.take n, r.drop n)

/-- the bytes of one operation: opcode byte, little-endian length field of the push form, payload -/
def opEnc (opc : Nat) (d : Bytes) : Bytes :=
  if opc > 0x4e then [UInt8.ofNat opc]
  else UInt8.ofNat opc :: (leBytes (lenBytes opc) d.length ++ d)

/-- the bytes of a sequence of operations -/
def encOps (ops : List (Nat × Bytes)) : Bytes := (ops.map (fun p => opEnc p.1 p.2)).flatten

/-- (opcode, payload) pairs that are operations: an opcode byte; no payload above OP_PUSHDATA4;
    exactly `opc` payload bytes for the direct pushes; a payload length that fits the length field
    for OP_PUSHDATA1/2/4 -/
def ValidOp (opc : Nat) (d : Bytes) : Prop :=
  opc < 256 ∧
    (if opc > 0x4e then d = [] else if opc < 0x4c then d.length = opc else d.length < 256 ^ lenBytes opc)

/-- a byte string that begins with a push opcode whose length field or payload is cut short -/
def TruncatedPush (r : Bytes) : Prop :=
  ∃ b t, r = b :: t ∧ b.toNat ≤ 0x4e ∧
    (t.length < lenBytes b.toNat ∨ t.length - lenBytes b.toNat < declaredSize b.toNat t)

theorem getOp_rest_lt {s : Bytes} {o : Nat} {d rest : Bytes} (h : getOp s = some (o, d, rest)) :
    rest.length < s.length := by
  cases s with
  | nil => simp [getOp] at h
  | cons b t =>
    simp only [getOp] at h
    split at h
    · simp at h; simp [← h.2.2]
    · split at h
      · simp at h
      · split at h
        · simp at h
        · simp at h; rw [← h.2.2]; simp; omega

/-- the operations read by repeated GetOp, and whether the end was reached without a malformed push -/
def parse (s : Bytes) : List (Nat × Bytes) × Bool :=
  if s = [] then ([], true)
  else
    match _h : getOp s with
    | none => ([], false)
    | some (o, d, rest) =>
      let r := parse rest
      ((o, d) :: r.1, r.2)
termination_by s.length
decreasing_by exact getOp_rest_lt _h

/-! ### predicates -/

def isPayToScriptHash (s : Bytes) : Bool :=
  s.length = 23 ∧ s[0]? = some 0xa9 ∧ s[1]? = some 0x14 ∧ s[22]? = some 0x87

/-- DecodeOP_N -/
def decodeOPN (opc : Nat) : Nat := if opc = 0 then 0 else opc - 0x50

/-- IsWitnessProgram: (version, program) -/
def isWitnessProgram (s : Bytes) : Option (Nat × Bytes) :=
  if s.length < 4 ∨ s.length > 42 then none
  else
    match s with
    | v :: l :: prog =>
      if v.toNat ≠ 0 ∧ (v.toNat < 0x51 ∨ v.toNat > 0x60) then none
      else if l.toNat + 2 = s.length then some (decodeOPN v.toNat, prog)
      else none
    | _ => none

/-- BIP141 P2WPKH: version 0, 20-byte program -/
def isP2WPKH (s : Bytes) : Bool :=
  match isWitnessProgram s with
  | some (v, p) => v = 0 ∧ p.length = 20
  | none => false

/-- BIP141 P2WSH: version 0, 32-byte program -/
def isP2WSH (s : Bytes) : Bool :=
  match isWitnessProgram s with
  | some (v, p) => v = 0 ∧ p.length = 32
  | none => false

/-- BIP141 P2SH-nested form: the scriptSig is exactly one push of the witness program -/
def isSinglePushOf (pred : Bytes → Bool) (s : Bytes) : Bool :=
  match s with
  | [] => false
  | _ :: p => pred p && (pushEncode p == some s)

def isNestedP2WPKH (s : Bytes) : Bool := isSinglePushOf isP2WPKH s
def isNestedP2WSH (s : Bytes) : Bool := isSinglePushOf isP2WSH s

def isPushOnly (s : Bytes) : Bool :=
  let r := parse s
  r.2 && r.1.all (fun o => o.1 ≤ 0x60)

/-- `data.size() == 1 && data[0] <= 16` -/
def oneSmallByte : Bytes → Bool
  | [x] => x.toNat ≤ 16
  | _ => false

/-- one operation passes HasCanonicalPushes -/
def canonicalPush (o : Nat × Bytes) : Bool :=
  if o.1 > 0x60 then true
  else if o.1 < 0x4c ∧ o.1 > 0 ∧ oneSmallByte o.2 then false
  else if o.1 = 0x4c ∧ o.2.length < 0x4c then false
  else if o.1 = 0x4d ∧ o.2.length ≤ 0xff then false
  else if o.1 = 0x4e ∧ o.2.length ≤ 0xffff then false
  else true

def hasCanonicalPushes (s : Bytes) : Bool :=
  let r := parse s
  r.2 && r.1.all canonicalPush

/-- "all pushes are well formed" -/
def isValid (s : Bytes) : Bool := (parse s).2

/-- first opcode is OP_RETURN (python-bitcoinlib's `is_unspendable`; the size clause of Core's
    IsUnspendable is not part of it and the property does not name this predicate) -/
def startsWithReturn (s : Bytes) : Bool := s.head? = some 0x6a

/-- GetSigOpCount over the operations read before the first malformed push -/
def sigOpsFrom (accurate : Bool) : Nat → List (Nat × Bytes) → Nat
  | _, [] => 0
  | last, (o, _) :: r =>
    (if o = 0xac ∨ o = 0xad then 1
     else if o = 0xae ∨ o = 0xaf then
       (if accurate ∧ 0x51 ≤ last ∧ last ≤ 0x60 then decodeOPN last else 20)
     else 0) + sigOpsFrom accurate o r

def sigOpCount (accurate : Bool) (s : Bytes) : Nat := sigOpsFrom accurate 0xff (parse s).1

/-- the opcode GetSigOpCount remembers after reading `ops`, starting from `last` -/
def lastOpcodeFrom : Nat → List (Nat × Bytes) → Nat
  | last, [] => last
  | _, (o, _) :: r => lastOpcodeFrom o r

/-- what one more operation adds to the count, given the opcode before it (none at the start):
    1 for CHECKSIG(VERIFY); for CHECKMULTISIG(VERIFY) the n of a directly preceding OP_1..OP_16 in
    accurate mode and 20 in every other situation (legacy mode; at the start; after OP_0, OP_1NEGATE,
    a push or any other opcode); 0 for everything else -/
def sigWeight (accurate : Bool) (prev : Option Nat) (o : Nat) : Nat :=
  if o = 0xac ∨ o = 0xad then 1
  else if o = 0xae ∨ o = 0xaf then
    match prev with
    | some q => if accurate ∧ 0x51 ≤ q ∧ q ≤ 0x60 then q - 0x50 else 20
    | none => 20
  else 0

/-- OP_0 / OP_1..OP_16 for a version or small number 0..16 -/
def opN (v : Nat) : Nat := if v = 0 then 0x00 else 0x50 + v

end BtcVerif.Spec.Script
