/-
  Consensus limits used by the context-free checks (reference table).  Tied to /repo by T1:
  `Tables/Limits.lean` proves the values regenerated from the working tree equal to these.
  Mathlib-free (linked into btcmodel).
-/
import BtcVerif.Basic.Bytes

namespace BtcVerif.Spec

structure Limits where
  coin : Nat
  maxBlockSize : Nat
  maxBlockWeight : Nat
  maxBlockSigops : Nat
  witnessCommitMagic : List Nat     -- OP_RETURN, push-36, aa21a9ed
  maxSize : Nat
deriving DecidableEq, Repr

def limits : Limits :=
  { coin := 100000000, maxBlockSize := 1000000, maxBlockWeight := 4000000, maxBlockSigops := 20000,
    witnessCommitMagic := [0x6a, 0x24, 0xaa, 0x21, 0xa9, 0xed], maxSize := 0x02000000 }

def maxBlockSize : Nat := 1000000
def maxBlockWeight : Nat := 4000000
def maxBlockSigops : Nat := 20000
/-- BIP141 commitment header: OP_RETURN, push of 36 bytes, `aa21a9ed` -/
def witnessCommitMagic : Bytes := [0x6a, 0x24, 0xaa, 0x21, 0xa9, 0xed]

theorem limits_consistent :
    limits.maxBlockSize = maxBlockSize ∧ limits.maxBlockWeight = maxBlockWeight ∧
    limits.maxBlockSigops = maxBlockSigops ∧
    limits.witnessCommitMagic.map UInt8.ofNat = witnessCommitMagic := by decide

end BtcVerif.Spec
