/-
  Per-chain parameters (reference table).  Tied to /repo by T1: `Tables/Chain.lean` proves the table
  regenerated from the working tree equal to this one, entry by entry.
  Mathlib-free (linked into btcmodel).
-/
import BtcVerif.Basic.Bytes

namespace BtcVerif.Spec

structure ChainParams where
  name : String
  messageStart : List Nat        -- 4 magic bytes
  defaultPort : Nat
  rpcPort : Nat
  pubkeyAddr : Nat               -- base58 version bytes
  scriptAddr : Nat
  secretKey : Nat
  bech32Hrp : String
  maxMoney : Nat
  powLimit : Nat
  subsidyHalvingInterval : Nat
  genesisHash : String           -- hex of GetHash() (internal byte order)
deriving DecidableEq, Repr

def mainnet : ChainParams :=
  { name := "mainnet", messageStart := [0xf9, 0xbe, 0xb4, 0xd9], defaultPort := 8333, rpcPort := 8332,
    pubkeyAddr := 0, scriptAddr := 5, secretKey := 128, bech32Hrp := "bc",
    maxMoney := 21000000 * 100000000, powLimit := (2 ^ 256 - 1) / 2 ^ 32,
    subsidyHalvingInterval := 210000,
    genesisHash := "6fe28c0ab6f1b372c1a6a246ae63f74f931e8365e15a089c68d6190000000000" }

def testnet : ChainParams :=
  { name := "testnet", messageStart := [0x0b, 0x11, 0x09, 0x07], defaultPort := 18333, rpcPort := 18332,
    pubkeyAddr := 111, scriptAddr := 196, secretKey := 239, bech32Hrp := "tb",
    maxMoney := 21000000 * 100000000, powLimit := (2 ^ 256 - 1) / 2 ^ 32,
    subsidyHalvingInterval := 210000,
    genesisHash := "43497fd7f826957108f4a30fd9cec3aeba79972084e90ead01ea330900000000" }

def signet : ChainParams :=
  { name := "signet", messageStart := [0x0a, 0x03, 0xcf, 0x40], defaultPort := 38333, rpcPort := 38332,
    pubkeyAddr := 111, scriptAddr := 196, secretKey := 239, bech32Hrp := "tb",
    maxMoney := 21000000 * 100000000, powLimit := (2 ^ 256 - 1) / 2 ^ 32,
    subsidyHalvingInterval := 210000,
    genesisHash := "f61eee3b63a380a477a063af32b2bbc97c9ff9f01f2c4225e973988108000000" }

def regtest : ChainParams :=
  { name := "regtest", messageStart := [0xfa, 0xbf, 0xb5, 0xda], defaultPort := 18444, rpcPort := 18443,
    pubkeyAddr := 111, scriptAddr := 196, secretKey := 239, bech32Hrp := "bcrt",
    maxMoney := 21000000 * 100000000, powLimit := (2 ^ 256 - 1) / 2,
    subsidyHalvingInterval := 150,
    genesisHash := "06226e46111a0b59caaf126043eb5bbf28c34f3a5e332a1fc7b2b73cf188910f" }

def chainTable : List ChainParams := [mainnet, testnet, signet, regtest]

def chainByName? (n : String) : Option ChainParams := chainTable.find? (·.name == n)

end BtcVerif.Spec
