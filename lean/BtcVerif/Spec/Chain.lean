/-
  Per-chain parameters (reference table), restricted to the fields some property depends on.  Tied to /repo
  by T1: `Tables/ChainPow|ChainNet|ChainAddr.lean` prove the projections of the table regenerated from the
  working tree equal to those of this one (split so that a change to one field family does not touch
  properties that do not use it).
  Mathlib-free (linked into btcmodel).
-/
import BtcVerif.Basic.Bytes

namespace BtcVerif.Spec

/- The work limits are Bitcoin Core's `consensus.powLimit` values (chainparams.cpp): main/test
   00000000ffff…ff, signet 00000377ae00…00 (= the target of the signet genesis nBits 0x1e0377ae),
   regtest 7fff…ff — not copied from the library. -/

structure ChainParams where
  name : String
  messageStart : List Nat        -- 4 magic bytes
  pubkeyAddr : Nat               -- base58 version bytes
  scriptAddr : Nat
  secretKey : Nat
  bech32Hrp : String
  maxMoney : Nat
  powLimit : Nat
deriving DecidableEq, Repr

def mainnet : ChainParams :=
  { name := "mainnet", messageStart := [0xf9, 0xbe, 0xb4, 0xd9],
    pubkeyAddr := 0, scriptAddr := 5, secretKey := 128, bech32Hrp := "bc",
    maxMoney := 21000000 * 100000000, powLimit := (2 ^ 256 - 1) / 2 ^ 32 }

def testnet : ChainParams :=
  { name := "testnet", messageStart := [0x0b, 0x11, 0x09, 0x07],
    pubkeyAddr := 111, scriptAddr := 196, secretKey := 239, bech32Hrp := "tb",
    maxMoney := 21000000 * 100000000, powLimit := (2 ^ 256 - 1) / 2 ^ 32 }

def signet : ChainParams :=
  { name := "signet", messageStart := [0x0a, 0x03, 0xcf, 0x40],
    pubkeyAddr := 111, scriptAddr := 196, secretKey := 239, bech32Hrp := "tb",
    maxMoney := 21000000 * 100000000, powLimit := 0x00000377ae000000000000000000000000000000000000000000000000000000 }

def regtest : ChainParams :=
  { name := "regtest", messageStart := [0xfa, 0xbf, 0xb5, 0xda],
    pubkeyAddr := 111, scriptAddr := 196, secretKey := 239, bech32Hrp := "bcrt",
    maxMoney := 21000000 * 100000000, powLimit := (2 ^ 256 - 1) / 2 }

def chainTable : List ChainParams := [mainnet, testnet, signet, regtest]

def chainByName? (n : String) : Option ChainParams := chainTable.find? (·.name == n)

end BtcVerif.Spec
