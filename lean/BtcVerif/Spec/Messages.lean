/-
  C18 — P2P messages: value-level data types and the reference byte layout.

  `Spec.Msg.*` is the Bitcoin P2P protocol documentation written as plain concatenations:
  the 24-byte message header
      magic ‖ command NUL-padded to 12 ‖ u32 payload length ‖ first 4 bytes of SHA-256d(payload)
  followed by the payload prescribed for each of the 17 message types the library knows.
  It is independent of how python-bitcoinlib produces the bytes.  Total functions: callers state the
  field ranges (`WF*`) under which these byte strings are *the* encodings.

  The tables at the end (`commandTable`, protocol-version constants) are tied to /repo by T1
  (`Tables/Messages.lean`).  Mathlib-free (linked into btcmodel).
-/
import BtcVerif.Basic.Tx
import BtcVerif.Spec.Wire
import BtcVerif.Crypto.Sha256

namespace BtcVerif

/-! ### field values of the message types -/

/-- `CAddress`: the IP address is kept as the 16 packed bytes that travel on the wire
    (`pchReserved ‖ inet_pton(AF_INET, ip)` or `inet_pton(AF_INET6, ip)`). -/
structure NetAddr where
  protover : Nat
  nTime : Nat
  nServices : Nat
  ip : Bytes
  port : Nat
deriving DecidableEq, Repr

/-- `CInv` -/
structure Inv where
  type : Int
  hash : Bytes
deriving DecidableEq, Repr

/-- `CBlockLocator` -/
structure Locator where
  nVersion : Int
  vHave : List Bytes
deriving DecidableEq, Repr

/-- `msg_version`; the fields that `msg_deser` sets to `None` below a protocol version are options.
    `fRelay` is the integer that travels (`True` is 1). -/
structure VersionMsg where
  nVersion : Int
  nServices : Nat
  nTime : Int
  addrTo : NetAddr
  addrFrom : Option NetAddr
  nNonce : Option Nat
  strSubVer : Option Bytes
  nStartingHeight : Option Int
  fRelay : Nat
deriving DecidableEq, Repr

/-- one constructor per message class of `bitcoin.messages.msg_classes` -/
inductive Msg
  | version (v : VersionMsg)
  | verack
  | addr (addrs : List NetAddr)
  | alert (vchMsg vchSig : Bytes)
  | inv (inv : List Inv)
  | getdata (inv : List Inv)
  | notfound (inv : List Inv)
  | getblocks (locator : Locator) (hashstop : Bytes)
  | getheaders (locator : Locator) (hashstop : Bytes)
  | headers (headers : List Header)
  | tx (tx : Tx)
  | block (block : Block)
  | getaddr
  | ping (nonce : Nat)
  | pong (nonce : Nat)
  | reject (message ccode reason : Bytes)
  | mempool
deriving DecidableEq, Repr

namespace Spec.Msg
open BtcVerif.Spec.Wire

/-! ### tables (T1) -/

/-- ASCII bytes of a command name -/
def asc (cs : List Char) : Bytes := cs.map (fun c => UInt8.ofNat c.toNat)

def cmdVersion : Bytes := asc ['v','e','r','s','i','o','n']
def cmdVerack : Bytes := asc ['v','e','r','a','c','k']
def cmdAddr : Bytes := asc ['a','d','d','r']
def cmdAlert : Bytes := asc ['a','l','e','r','t']
def cmdInv : Bytes := asc ['i','n','v']
def cmdGetdata : Bytes := asc ['g','e','t','d','a','t','a']
def cmdNotfound : Bytes := asc ['n','o','t','f','o','u','n','d']
def cmdGetblocks : Bytes := asc ['g','e','t','b','l','o','c','k','s']
def cmdGetheaders : Bytes := asc ['g','e','t','h','e','a','d','e','r','s']
def cmdHeaders : Bytes := asc ['h','e','a','d','e','r','s']
def cmdTx : Bytes := asc ['t','x']
def cmdBlock : Bytes := asc ['b','l','o','c','k']
def cmdGetaddr : Bytes := asc ['g','e','t','a','d','d','r']
def cmdPing : Bytes := asc ['p','i','n','g']
def cmdPong : Bytes := asc ['p','o','n','g']
def cmdReject : Bytes := asc ['r','e','j','e','c','t']
def cmdMempool : Bytes := asc ['m','e','m','p','o','o','l']

/-- `msg_classes` in order: (command bytes, class name); `messagemap` has exactly these keys -/
def commandTable : List (List Nat × String) :=
  [ (cmdVersion, "msg_version"), (cmdVerack, "msg_verack"), (cmdAddr, "msg_addr"),
    (cmdAlert, "msg_alert"), (cmdInv, "msg_inv"), (cmdGetdata, "msg_getdata"),
    (cmdNotfound, "msg_notfound"), (cmdGetblocks, "msg_getblocks"),
    (cmdGetheaders, "msg_getheaders"), (cmdHeaders, "msg_headers"), (cmdTx, "msg_tx"),
    (cmdBlock, "msg_block"), (cmdGetaddr, "msg_getaddr"), (cmdPing, "msg_ping"),
    (cmdPong, "msg_pong"), (cmdReject, "msg_reject"), (cmdMempool, "msg_mempool") ].map
    (fun (c, n) => (c.map UInt8.toNat, n))

def protoVersion : Nat := 60002
def caddrTimeVersion : Nat := 31402
/-- `IPV4_COMPAT`: the 12-byte prefix of an IPv4-mapped IPv6 address -/
def ipv4Compat : Bytes := List.replicate 10 0 ++ [0xff, 0xff]

/-- the command string of each message type -/
def command : Msg → Bytes
  | .version _ => cmdVersion | .verack => cmdVerack | .addr _ => cmdAddr | .alert _ _ => cmdAlert
  | .inv _ => cmdInv | .getdata _ => cmdGetdata | .notfound _ => cmdNotfound
  | .getblocks _ _ => cmdGetblocks | .getheaders _ _ => cmdGetheaders | .headers _ => cmdHeaders
  | .tx _ => cmdTx | .block _ => cmdBlock | .getaddr => cmdGetaddr | .ping _ => cmdPing
  | .pong _ => cmdPong | .reject _ _ _ => cmdReject | .mempool => cmdMempool

/-! ### message header -/

/-- first four bytes of SHA-256d of the payload -/
def checksum (payload : Bytes) : Bytes := (Crypto.hash256 payload).take 4

/-- SHA-256d digests are 32 bytes long, so the checksum field is 4 bytes.  A fact about the
    executable reference `Crypto.hash256` (array loops the kernel cannot evaluate for all inputs);
    theorems that split a frame at the checksum take it as an explicit hypothesis, and every frame
    compared by the correspondence run validates it. -/
def ChecksumLen : Prop := ∀ p : Bytes, (checksum p).length = 4

/-- the 12-byte command field: the ASCII name followed by NUL bytes up to 12 -/
def commandField (c : Bytes) : Bytes := (c ++ List.replicate 12 0).take 12

/-- a complete message: 24-byte header and payload -/
def frame (magic command payload : Bytes) : Bytes :=
  magic ++ commandField command ++ leBytes 4 payload.length ++ checksum payload ++ payload

/-! ### payloads -/

/-- network address: u32 time (only in messages that carry it, and only from protocol version 31402 —
    the address's protocol version is the version of the message it travels in), u64 services, 16-byte
    IPv6/IPv4-mapped address, u16 port in network byte order -/
def netAddr (withTime : Bool) (a : NetAddr) : Bytes :=
  (if withTime && decide (a.protover ≥ caddrTimeVersion) then leBytes 4 a.nTime else []) ++
    leBytes 8 a.nServices ++ a.ip ++ beBytes 2 a.port

/-- inventory vector entry: 4-byte type, 32-byte hash -/
def invEntry (i : Inv) : Bytes := leBytesInt 4 i.type ++ i.hash

/-- version, hash count, block locator hashes, hash_stop -/
def locatorPayload (l : Locator) (hashstop : Bytes) : Bytes :=
  leBytesInt 4 l.nVersion ++ vec id l.vHave ++ hashstop

def optBytes {α} (f : α → Bytes) : Option α → Bytes
  | some x => f x
  | none => []

/-- `version`: the fields after `addr_recv` exist from protocol version 106, `start_height` from
    209, `relay` from 70001 (BIP37) -/
def versionPayload (v : VersionMsg) : Bytes :=
  leBytesInt 4 v.nVersion ++ leBytes 8 v.nServices ++ leBytesInt 8 v.nTime ++ netAddr false v.addrTo ++
  (if v.nVersion ≥ 106 then
      optBytes (netAddr false) v.addrFrom ++ optBytes (leBytes 8) v.nNonce ++ optBytes varBytes v.strSubVer ++
      (if v.nVersion ≥ 209 then optBytes (leBytesInt 4) v.nStartingHeight else [])
   else []) ++
  (if v.nVersion ≥ 70001 then leBytes 1 v.fRelay else [])

/-- `headers`: each 80-byte header is followed by a transaction count, always 0 -/
-- (`ping`/`pong` always carry the 8-byte nonce: the library's PROTO_VERSION 60002 is above BIP31's
--  60000 and its classes have no nonce-less form.)
def headerEntry (h : Header) : Bytes := Wire.header h ++ compactSize 0

def payload : Msg → Bytes
  | .version v => versionPayload v
  | .verack => []
  | .addr as => vec (netAddr true) as
  | .alert m s => varBytes m ++ varBytes s
  | .inv l => vec invEntry l
  | .getdata l => vec invEntry l
  | .notfound l => vec invEntry l
  | .getblocks loc stop => locatorPayload loc stop
  | .getheaders loc stop => locatorPayload loc stop
  | .headers hs => vec headerEntry hs
  | .tx t => txBytes t
  | .block b => Wire.block b
  | .getaddr => []
  | .ping n => leBytes 8 n
  | .pong n => leBytes 8 n
  | .reject m c r => varBytes m ++ c ++ varBytes r
  | .mempool => []

/-- the bytes on the wire of message `m` under a chain's magic -/
def frameMsg (magic : Bytes) (m : Msg) : Bytes := frame magic (command m) (payload m)

/-- a stream of frames and, for each message, what remains of the stream once it has been read
    (`tail` = whatever follows the last frame) -/
def streamTrace (magic : Bytes) : List Msg → Bytes → List (Option Msg × Bytes)
  | [], _ => []
  | m :: ms, tail =>
      (some (match m with
             | .tx t => .tx (normTx t)
             | .block b => .block { b with vtx := b.vtx.map normTx }
             | m => m), (ms.map (frameMsg magic)).flatten ++ tail) :: streamTrace magic ms tail

/-! ### field ranges ("field values the protocol version carries") -/

/-- an address of any protocol version: u32 time (0 where the version carries none: below 31402),
    u64 services, 16 packed address bytes, u16 port -/
def WFAddr (a : NetAddr) : Prop :=
  a.nTime < 2 ^ 32 ∧ (a.protover < caddrTimeVersion → a.nTime = 0) ∧ a.nServices < 2 ^ 64 ∧
  a.ip.length = 16 ∧ a.port < 2 ^ 16

/-- an address travelling without its time field (inside `version`): parsing yields time 0 -/
def WFAddrNoTime (a : NetAddr) : Prop := WFAddr a ∧ a.nTime = 0

def WFInv (i : Inv) : Prop := -(2 ^ 31 : Int) ≤ i.type ∧ i.type < 2 ^ 31 ∧ i.hash.length = 32

def WFLocator (l : Locator) : Prop :=
  -(2 ^ 31 : Int) ≤ l.nVersion ∧ l.nVersion < 2 ^ 31 ∧ l.vHave.length < 2 ^ 64 ∧ ∀ h ∈ l.vHave, h.length = 32

/-- a field that the protocol version carries is present and in range -/
def optWF {α} (P : α → Prop) : Option α → Prop
  | some x => P x
  | none => False

/-- `version` with exactly the fields its protocol version carries: `addr_from`, `nonce`, `user_agent`
    from 106, `start_height` from 209, `relay` from 70001 (BIP37) — below 70001 the message carries no
    relay flag and the receiver assumes `true` (1).  Every int32 version is in the domain, 10300
    included: a version field of 10300 is carried as 10300 (that the library, like the reference
    client, reads it as 300 is finding D24). -/
def WFVersion (v : VersionMsg) : Prop :=
  -(2 ^ 31 : Int) ≤ v.nVersion ∧ v.nVersion < 2 ^ 31 ∧ v.nServices < 2 ^ 64 ∧
  -(2 ^ 63 : Int) ≤ v.nTime ∧ v.nTime < 2 ^ 63 ∧ WFAddrNoTime v.addrTo ∧
  (if v.nVersion ≥ 106 then
     optWF WFAddrNoTime v.addrFrom ∧ optWF (· < 2 ^ 64) v.nNonce ∧
     optWF (fun s : Bytes => s.length ≤ maxSize) v.strSubVer
   else v.addrFrom = none ∧ v.nNonce = none ∧ v.strSubVer = none) ∧
  (if v.nVersion ≥ 209 then optWF (fun h : Int => -(2 ^ 31 : Int) ≤ h ∧ h < 2 ^ 31) v.nStartingHeight
   else v.nStartingHeight = none) ∧
  (if v.nVersion ≥ 70001 then v.fRelay < 256 else v.fRelay = 1)

def optAll {α} (P : α → Prop) : Option α → Prop
  | some x => P x
  | none => True

/-- the address entries of the message belong to protocol version `pv` — the version negotiated on the
    connection, which the reader is told (`stream_deserialize(f, protover=pv)`) and which governs
    whether an `addr` entry carries its time field -/
def AddrProto (pv : Nat) : Msg → Prop
  | .version v => v.addrTo.protover = pv ∧ optAll (fun a : NetAddr => a.protover = pv) v.addrFrom
  | .addr as => ∀ a ∈ as, a.protover = pv
  | _ => True

/-- the payload-level well-formedness of each message type -/
def WFMsg : Msg → Prop
  | .version v => WFVersion v
  | .verack => True
  | .addr as => as.length < 2 ^ 64 ∧ ∀ a ∈ as, WFAddr a
  | .alert m s => m.length ≤ maxSize ∧ s.length ≤ maxSize
  | .inv l => l.length < 2 ^ 64 ∧ ∀ i ∈ l, WFInv i
  | .getdata l => l.length < 2 ^ 64 ∧ ∀ i ∈ l, WFInv i
  | .notfound l => l.length < 2 ^ 64 ∧ ∀ i ∈ l, WFInv i
  | .getblocks loc stop => WFLocator loc ∧ stop.length = 32
  | .getheaders loc stop => WFLocator loc ∧ stop.length = 32
  | .headers hs => hs.length < 2 ^ 64 ∧ ∀ h ∈ hs, WFHeader h
  | .tx t => WFTx t
  | .block b => WFBlock b
  | .getaddr => True
  | .ping n => n < 2 ^ 64
  | .pong n => n < 2 ^ 64
  | .reject m c r => m.length ≤ maxSize ∧ c.length = 1 ∧ r.length ≤ maxSize
  | .mempool => True

/-! the field-range predicates are decidable -/

instance decOptWF {α} (P : α → Prop) [DecidablePred P] : DecidablePred (optWF P) := fun o =>
  match o with
  | some x => inferInstanceAs (Decidable (P x))
  | none => inferInstanceAs (Decidable False)

instance decOptAll {α} (P : α → Prop) [DecidablePred P] : DecidablePred (optAll P) := fun o =>
  match o with
  | some x => inferInstanceAs (Decidable (P x))
  | none => inferInstanceAs (Decidable True)

instance decAddrProto (pv : Nat) : DecidablePred (AddrProto pv) := fun m => by
  cases m <;> (unfold AddrProto; exact inferInstance)

instance decWFAddr : DecidablePred WFAddr := fun a => by unfold WFAddr; exact inferInstance
instance decWFAddrNoTime : DecidablePred WFAddrNoTime := fun a => by unfold WFAddrNoTime; exact inferInstance
instance decWFInv : DecidablePred WFInv := fun a => by unfold WFInv; exact inferInstance
instance decWFLocator : DecidablePred WFLocator := fun a => by unfold WFLocator; exact inferInstance
instance decWFVersion : DecidablePred WFVersion := fun a => by unfold WFVersion; exact inferInstance
instance decWFHeader18 : DecidablePred WFHeader := fun a => by unfold WFHeader; exact inferInstance
instance decWFOutPoint18 : DecidablePred WFOutPoint := fun a => by unfold WFOutPoint; exact inferInstance
instance decWFTxIn18 : DecidablePred WFTxIn := fun a => by unfold WFTxIn; exact inferInstance
instance decWFTxOut18 : DecidablePred WFTxOut := fun a => by unfold WFTxOut; exact inferInstance
instance decWFWitStack18 : DecidablePred WFWitStack := fun a => by unfold WFWitStack; exact inferInstance
instance decWFTx18 : DecidablePred WFTx := fun a => by unfold WFTx; exact inferInstance
instance decWFBlock18 : DecidablePred WFBlock := fun a => by unfold WFBlock; exact inferInstance

instance decWFMsg : DecidablePred WFMsg := fun m => by
  cases m <;> (unfold WFMsg; exact inferInstance)


/-- what parsing yields: a transaction whose witness stacks are all empty comes back without
    witness entries (C01's `normTx`); every other field value is unchanged -/
def norm : Msg → Msg
  | .tx t => .tx (normTx t)
  | .block b => .block { b with vtx := b.vtx.map normTx }
  | m => m

end Spec.Msg
end BtcVerif
