/-
  C15 — reference definitions: the Bitcoin merkle root (recursive, last node paired with itself on
  odd levels), txid / wtxid, the BIP141 witness merkle root and BIP141 weights, written over the
  wire format of `Spec.Wire` and independently of how python-bitcoinlib computes them.
  The double SHA-256 `Crypto.hash256` is an opaque symbol (never unfolded).  Mathlib-free.
-/
import BtcVerif.Crypto.Sha256
import BtcVerif.Spec.Wire

namespace BtcVerif.Spec.Merkle
open BtcVerif BtcVerif.Crypto

def zero32 : Bytes := List.replicate 32 0

/-- fields in wire range; unlike `Spec.Wire.WFTx` an empty input list is allowed (the checks must
    reject it) and there may be fewer witness stacks than inputs (the serialiser allows it) -/
def TxRange (t : Tx) : Prop :=
  -(2 ^ 31 : Int) ≤ t.nVersion ∧ t.nVersion < 2 ^ 31 ∧
  t.vin.length < 2 ^ 64 ∧ t.vout.length < 2 ^ 64 ∧
  (∀ i ∈ t.vin, Spec.Wire.WFTxIn i) ∧ (∀ o ∈ t.vout, Spec.Wire.WFTxOut o) ∧
  t.wit.length ≤ t.vin.length ∧ (∀ s ∈ t.wit, Spec.Wire.WFWitStack s) ∧
  t.nLockTime < 2 ^ 32

def BlockRange (b : Block) : Prop :=
  Spec.Wire.WFHeader b.hdr ∧ b.vtx.length < 2 ^ 64 ∧ ∀ t ∈ b.vtx, TxRange t

instance decTxRange (t : Tx) : Decidable (TxRange t) := by
  unfold TxRange Spec.Wire.WFTxIn Spec.Wire.WFOutPoint Spec.Wire.WFTxOut Spec.Wire.WFWitStack
  exact inferInstance

instance decBlockRange (b : Block) : Decidable (BlockRange b) := by
  unfold BlockRange Spec.Wire.WFHeader
  exact inferInstance


/-- one level up: neighbours are hashed pairwise, a last unpaired node is paired with itself -/
def pairUp : List Bytes → List Bytes
  | [] => []
  | [a] => [hash256 (a ++ a)]
  | a :: b :: rest => hash256 (a ++ b) :: pairUp rest

theorem pairUp_length (l : List Bytes) : (pairUp l).length = (l.length + 1) / 2 := by
  induction l using pairUp.induct with
  | case1 => rfl
  | case2 a => simp [pairUp]
  | case3 a b rest ih => simp only [pairUp, List.length_cons, ih]; omega

/-- `root [h] = h`, `root hs = root (pairUp hs)`; no root for the empty list -/
def root : List Bytes → Option Bytes
  | [] => none
  | [h] => some h
  | a :: b :: rest => root (pairUp (a :: b :: rest))
termination_by l => l.length
decreasing_by simp only [pairUp_length, List.length_cons]; omega

/-- txid: double SHA-256 of the legacy (witness-stripped) encoding -/
def txid (t : Tx) : Bytes := hash256 (Spec.Wire.txLegacy t)

/-- wtxid (BIP141): double SHA-256 of the BIP144 encoding (legacy encoding when no witness) -/
def wtxid (t : Tx) : Bytes := hash256 (Spec.Wire.txBytes t)

def merkleRoot (vtx : List Tx) : Option Bytes := root (vtx.map txid)

/-- BIP141: merkle root over wtxids with the coinbase's entry replaced by 32 zero bytes -/
def witnessRoot : List Tx → Option Bytes
  | [] => none
  | _ :: rest => root (zero32 :: rest.map wtxid)

/-- BIP141: weight = 3 · stripped size + total size -/
def txWeight (t : Tx) : Nat := 3 * (Spec.Wire.txLegacy t).length + (Spec.Wire.txBytes t).length

/-- block encoding without any witness data -/
def blockStripped (b : Block) : Bytes := Spec.Wire.header b.hdr ++ Spec.Wire.vec Spec.Wire.txLegacy b.vtx

def blockWeight (b : Block) : Nat := 3 * (blockStripped b).length + (Spec.Wire.block b).length

/-- what constructing a block with a declared merkle root must do (vtx non-empty) -/
inductive CtorSpec
  | filled (root : Bytes)      -- declared root all-zero: the computed root is filled in
  | kept                       -- declared root equals the computed one
  | refused                    -- declared root differs from the computed one
deriving DecidableEq, Repr

def ctorSpec (declared : Bytes) (vtx : List Tx) : Option CtorSpec :=
  match merkleRoot vtx with
  | none => none
  | some r =>
    if declared = zero32 then some (.filled r)
    else if declared = r then some .kept
    else some .refused

end BtcVerif.Spec.Merkle
