/-
  C06 — reference Script semantics.

  An interpreter in the shape of Bitcoin Core's `script/interpreter.cpp` (`EvalScript`,
  `VerifyScript`, `CastToBool`, `CScriptNum`, `FindAndDelete`, `CScript::GetOp`, `IsPushOnly`,
  `IsPayToScriptHash`), restricted to what python-bitcoinlib claims to implement:

  * flags P2SH, NULLDUMMY, CLEANSTACK, DISCOURAGE_UPGRADABLE_NOPS only (no MINIMALDATA, no
    STRICTENC/DERSIG/LOW_S/NULLFAIL, no CLTV/CSV, no witness): OP_NOP1 … OP_NOP10, the BIP65 and
    BIP112 slots included, are all upgradable NOPs;
  * signature checking is the opaque `Env.sigCheck` (legacy signature hash + ECDSA).

  Written from Core's source, independently of scripteval.py.  The stack is kept top-first:
  `stacktop(-1)` is the head of the list, `stacktop(-k)` its k-th element, `stack.push_back` is
  `::`; the per-opcode code pattern-matches the prefix of the list that Core addresses.
  `none` stands for `return set_error(…)` / a thrown `scriptnum_error` (EvalScript returns false).
  Mathlib-free (linked into btcmodel as the independent oracle).
-/
import BtcVerif.Spec.Opcodes
import BtcVerif.Spec.ScriptEnv

set_option linter.unusedVariables false

namespace BtcVerif.Spec.Script.Ref
open BtcVerif BtcVerif.Spec BtcVerif.Spec.Script

abbrev Stack := List Bytes

def vchFalse : Bytes := []
def vchTrue : Bytes := [1]

/-- interpreter.cpp `CastToBool`: any non-zero byte, except that a lone sign bit in the last byte
    (negative zero) is false -/
def castToBool : Bytes → Bool
  | [] => false
  | [b] => b.toNat ≠ 0 && b.toNat ≠ 0x80
  | b :: rest => b.toNat ≠ 0 || castToBool rest

/-! ### CScriptNum -/

/-- `CScriptNum::set_vch`: little-endian magnitude, sign in the top bit of the last byte -/
def scriptNumDecode (vch : Bytes) : Int :=
  match vch.getLast? with
  | none => 0
  | some last =>
    let result := leNat vch
    if last.toNat ≥ 0x80 then -((result - 0x80 * 256 ^ (vch.length - 1) : Nat) : Int) else (result : Int)

/-- `CScriptNum(vch, fRequireMinimal = false, nMaxNumSize = 4)`; `none` = `scriptnum_error` -/
def scriptNum? (vch : Bytes) : Option Int :=
  if vch.length > MAX_NUM_SIZE then none else some (scriptNumDecode vch)

/-- minimal little-endian bytes of a natural (the `while (absvalue)` loop) -/
def leMinimal (n : Nat) : Bytes :=
  if h : n = 0 then [] else UInt8.ofNat (n % 256) :: leMinimal (n / 256)
decreasing_by omega

/-- `CScriptNum::serialize` -/
def scriptNumSer (v : Int) : Bytes :=
  if v = 0 then [] else
  let neg := v < 0
  let result := leMinimal v.natAbs
  match result.getLast? with
  | none => []
  | some last =>
    if last.toNat ≥ 0x80 then result ++ [if neg then 0x80 else 0]
    else if neg then result.dropLast ++ [UInt8.ofNat (last.toNat + 0x80)]
    else result

/-! ### script parsing -/

/-- `CScript::GetOp` / `GetScriptOp` on the unread suffix `[pc, pend)`:
    `(opcode, vchPushValue, new suffix)`, `none` when it returns false -/
def getOp : Bytes → Option (Nat × Bytes × Bytes)
  | [] => none
  | b :: pc =>
    let opcode := b.toNat
    if opcode ≤ 0x4e then
      let sized : Option (Nat × Bytes) :=
        if opcode < 0x4c then some (opcode, pc)
        else if opcode = 0x4c then
          (if pc.length < 1 then none else some (leNat (pc.take 1), pc.drop 1))
        else if opcode = 0x4d then
          (if pc.length < 2 then none else some (leNat (pc.take 2), pc.drop 2))
        else
          (if pc.length < 4 then none else some (leNat (pc.take 4), pc.drop 4))
      match sized with
      | none => none
      | some (nSize, pc) =>
        if pc.length < nSize then none else some (opcode, pc.take nSize, pc.drop nSize)
    else some (opcode, [], pc)

theorem getOp_lt {s : Bytes} {op : Nat} {v rest : Bytes} (h : getOp s = some (op, v, rest)) :
    rest.length < s.length := by
  cases s with
  | nil => simp [getOp] at h
  | cons b pc =>
    simp only [getOp] at h
    split at h
    · split at h
      · simp at h
      · rename_i n pc' hs
        split at h
        · simp at h
        · simp only [Option.some.injEq, Prod.mk.injEq] at h
          have hp : pc'.length ≤ pc.length := by
            split at hs
            · simp at hs; simp [← hs.2]
            · split at hs
              · split at hs <;> simp at hs
                simp [← hs.2]
              · split at hs
                · split at hs <;> simp at hs
                  simp [← hs.2]
                · split at hs <;> simp at hs
                  simp [← hs.2]
          rw [← h.2.2]; simp; omega
    · simp only [Option.some.injEq, Prod.mk.injEq] at h
      rw [← h.2.2]; simp

/-- `CScript() << vch` -/
def pushEnc (b : Bytes) : Bytes :=
  if b.length < 0x4c then UInt8.ofNat b.length :: b
  else if b.length ≤ 0xff then 0x4c :: UInt8.ofNat b.length :: b
  else if b.length ≤ 0xffff then 0x4d :: (leBytes 2 b.length ++ b)
  else 0x4e :: (leBytes 4 b.length ++ b)

/-- the inner `while (end - pc >= b.size() && equal(b, pc)) pc += b.size()` of FindAndDelete -/
def skipMatches (b s : Bytes) : Bytes :=
  if h : b ≠ [] ∧ b.isPrefixOf s then skipMatches b (s.drop b.length) else s
termination_by s.length
decreasing_by
  have h1 : b.length ≤ s.length := (List.isPrefixOf_iff_prefix.mp h.2).length_le
  have h2 : 0 < b.length := List.length_pos_iff.mpr h.1
  simp; omega

theorem skipMatches_le (b s : Bytes) : (skipMatches b s).length ≤ s.length := by
  induction s using skipMatches.induct b with
  | case1 s h ih =>
    rw [skipMatches, dif_pos h]
    have : (List.drop b.length s).length ≤ s.length := by simp
    omega
  | case2 s h => rw [skipMatches, dif_neg h]; exact Nat.le_refl _

/-- the `do … while (script.GetOp(pc, opcode))` loop of `FindAndDelete`, from `pc = pc2 = s`:
    drop the occurrences of `b` at this operation boundary, keep the next operation, continue;
    when `GetOp` fails (end of script or malformed push) the remaining bytes are kept as they are -/
def fadLoop (b s : Bytes) : Bytes :=
  match h : getOp (skipMatches b s) with
  | none => skipMatches b s
  | some (_, _, rest) =>
    (skipMatches b s).take ((skipMatches b s).length - rest.length) ++ fadLoop b rest
termination_by s.length
decreasing_by
  have := getOp_lt h
  have := skipMatches_le b s
  omega

/-- `FindAndDelete(script, b)`.  (Core rebuilds the script only when something was found; when
    nothing is found the rebuilt script is the original, so the case split disappears.) -/
def findAndDelete (script b : Bytes) : Bytes :=
  if b = [] then script else fadLoop b script

/-- `CScript::IsPushOnly` -/
def isPushOnly (s : Bytes) : Bool :=
  if s = [] then true else
  match h : getOp s with
  | none => false
  | some (opcode, _, rest) => if opcode > 0x60 then false else isPushOnly rest
termination_by s.length
decreasing_by exact getOp_lt h

/-- `CScript::IsPayToScriptHash` -/
def isPayToScriptHash (s : Bytes) : Bool :=
  s.length = 23 && s[0]? = some 0xa9 && s[1]? = some 0x14 && s[22]? = some 0x87

/-! ### EvalScript -/

structure State where
  stack : Stack
  altstack : Stack
  vfExec : List Bool        -- `vfExec.back()` is the head
  codeHash : Bytes          -- `[pbegincodehash, pend)`
  nOpCount : Nat
deriving Repr

/-- the opcodes refused in executed and unexecuted branches alike (CVE-2010-5137) -/
def alwaysDisabled : List Nat :=
  [0x7e, 0x7f, 0x80, 0x81, 0x83, 0x84, 0x85, 0x86, 0x8d, 0x8e, 0x95, 0x96, 0x97, 0x98, 0x99]

def boolVch (b : Bool) : Bytes := if b then vchTrue else vchFalse

/-- `CheckECDSASignature`: empty signature fails; the last byte is the hash type -/
def checkSig (env : Env) (vchSig vchPubKey scriptCode : Bytes) : Bool :=
  match vchSig.getLast? with
  | none => false
  | some ht => env.sigCheck vchSig.dropLast vchPubKey scriptCode ht.toNat

/-- the `while (fSuccess && nSigsCount > 0)` loop of OP_CHECKMULTISIG over the signatures
    (`stacktop(-isig)` first) and the public keys (`stacktop(-ikey)` first) -/
def multiSigLoop (check : Bytes → Bytes → Bool) : List Bytes → List Bytes → Bool
  | [], _ => true
  | _ :: _, [] => false
  | sig :: sigs, key :: keys =>
    if check sig key then
      (if sigs.length > keys.length then false else multiSigLoop check sigs keys)
    else
      (if (sig :: sigs).length > keys.length then false else multiSigLoop check (sig :: sigs) keys)

/-- unary numeric opcodes: `none` when the opcode is not one of them -/
def unaryNum (opcode : Nat) (bn : Int) : Option Int :=
  match opcode with
  | 0x8b => some (bn + 1)
  | 0x8c => some (bn - 1)
  | 0x8f => some (-bn)
  | 0x90 => some (if bn < 0 then -bn else bn)
  | 0x91 => some (if bn = 0 then 1 else 0)
  | 0x92 => some (if bn ≠ 0 then 1 else 0)
  | _ => none

def b2i (b : Bool) : Int := if b then 1 else 0

/-- binary numeric opcodes -/
def binaryNum (opcode : Nat) (bn1 bn2 : Int) : Option Int :=
  match opcode with
  | 0x93 => some (bn1 + bn2)
  | 0x94 => some (bn1 - bn2)
  | 0x9a => some (b2i (bn1 ≠ 0 ∧ bn2 ≠ 0))
  | 0x9b => some (b2i (bn1 ≠ 0 ∨ bn2 ≠ 0))
  | 0x9c => some (b2i (bn1 = bn2))
  | 0x9d => some (b2i (bn1 = bn2))
  | 0x9e => some (b2i (bn1 ≠ bn2))
  | 0x9f => some (b2i (bn1 < bn2))
  | 0xa0 => some (b2i (bn1 > bn2))
  | 0xa1 => some (b2i (bn1 ≤ bn2))
  | 0xa2 => some (b2i (bn1 ≥ bn2))
  | 0xa3 => some (if bn1 < bn2 then bn1 else bn2)
  | 0xa4 => some (if bn1 > bn2 then bn1 else bn2)
  | _ => none

def hashOp (h : Hashes) (opcode : Nat) (vch : Bytes) : Option Bytes :=
  match opcode with
  | 0xa6 => some (h.ripemd160 vch)
  | 0xa7 => some (h.sha1 vch)
  | 0xa8 => some (h.sha256 vch)
  | 0xa9 => some (h.hash160 vch)
  | 0xaa => some (h.hash256 vch)
  | _ => none

/-- OP_CHECKMULTISIG / OP_CHECKMULTISIGVERIFY -/
def opCheckMultiSig (env : Env) (fl : Flags) (verify : Bool) (st : State) : Option State :=
  match st.stack with
  | [] => none                                                -- stack.size() < i (i = 1)
  | vchKeys :: s1 =>
    match scriptNum? vchKeys with
    | none => none
    | some nKeysCount =>
      if nKeysCount < 0 ∨ nKeysCount > MAX_PUBKEYS_PER_MULTISIG then none else
      let nKeys := nKeysCount.toNat
      let nOpCount := st.nOpCount + nKeys
      if nOpCount > MAX_OPS_PER_SCRIPT then none else
      if s1.length < nKeys + 1 then none else                 -- stack.size() < i (i = nKeys + 2)
      let keys := s1.take nKeys
      match s1.drop nKeys with
      | [] => none
      | vchSigs :: s2 =>
        match scriptNum? vchSigs with
        | none => none
        | some nSigsCount =>
          if nSigsCount < 0 ∨ nSigsCount > nKeysCount then none else
          let nSigs := nSigsCount.toNat
          if s2.length < nSigs + 1 then none else             -- stack.size() < i (the dummy included)
          let sigs := s2.take nSigs
          -- drop the signatures from the script code (pre-segwit)
          let scriptCode := sigs.foldl (fun sc sig => findAndDelete sc (pushEnc sig)) st.codeHash
          let fSuccess := multiSigLoop (fun sig key => checkSig env sig key scriptCode) sigs keys
          match s2.drop nSigs with
          | [] => none
          | dummy :: rest =>
            if fl.nullDummy ∧ dummy.length ≠ 0 then none else
            if verify then
              (if fSuccess then some { st with stack := rest, nOpCount := nOpCount } else none)
            else some { st with stack := boolVch fSuccess :: rest, nOpCount := nOpCount }

/-- the `switch (opcode)` of EvalScript, entered when `fExec` or `OP_IF ≤ opcode ≤ OP_ENDIF`
    (push opcodes are handled before); `pc` is the suffix after the current operation -/
def execOp (env : Env) (fl : Flags) (opcode : Nat) (pc : Bytes) (fExec : Bool) (st : State) :
    Option State :=
  let ret (s : Stack) : Option State := some { st with stack := s }
  match opcode with
  -- push value
  | 0x4f => ret (scriptNumSer (-1) :: st.stack)
  | 0x51 | 0x52 | 0x53 | 0x54 | 0x55 | 0x56 | 0x57 | 0x58
  | 0x59 | 0x5a | 0x5b | 0x5c | 0x5d | 0x5e | 0x5f | 0x60 =>
      ret (scriptNumSer ((opcode : Int) - 0x50) :: st.stack)
  -- control
  | 0x61 => some st
  | 0xb0 | 0xb1 | 0xb2 | 0xb3 | 0xb4 | 0xb5 | 0xb6 | 0xb7 | 0xb8 | 0xb9 =>
      if fl.discourageNops then none else some st
  | 0x63 | 0x64 =>
      if fExec then
        match st.stack with
        | [] => none
        | vch :: rest =>
          let fValue := castToBool vch
          let fValue := if opcode = 0x64 then !fValue else fValue
          some { st with stack := rest, vfExec := fValue :: st.vfExec }
      else some { st with vfExec := false :: st.vfExec }
  | 0x67 =>
      match st.vfExec with
      | [] => none
      | b :: r => some { st with vfExec := (!b) :: r }
  | 0x68 =>
      match st.vfExec with
      | [] => none
      | _ :: r => some { st with vfExec := r }
  | 0x69 =>
      match st.stack with
      | [] => none
      | vch :: rest => if castToBool vch then ret rest else none
  | 0x6a => none
  -- stack ops
  | 0x6b =>
      match st.stack with
      | [] => none
      | x :: rest => some { st with stack := rest, altstack := x :: st.altstack }
  | 0x6c =>
      match st.altstack with
      | [] => none
      | x :: rest => some { st with stack := x :: st.stack, altstack := rest }
  | 0x6d => match st.stack with
      | _ :: _ :: rest => ret rest
      | _ => none
  | 0x6e => match st.stack with
      | x2 :: x1 :: rest => ret (x2 :: x1 :: x2 :: x1 :: rest)
      | _ => none
  | 0x6f => match st.stack with
      | x3 :: x2 :: x1 :: rest => ret (x3 :: x2 :: x1 :: x3 :: x2 :: x1 :: rest)
      | _ => none
  | 0x70 => match st.stack with
      | x4 :: x3 :: x2 :: x1 :: rest => ret (x2 :: x1 :: x4 :: x3 :: x2 :: x1 :: rest)
      | _ => none
  | 0x71 => match st.stack with
      | x6 :: x5 :: x4 :: x3 :: x2 :: x1 :: rest => ret (x2 :: x1 :: x6 :: x5 :: x4 :: x3 :: rest)
      | _ => none
  | 0x72 => match st.stack with
      | x4 :: x3 :: x2 :: x1 :: rest => ret (x2 :: x1 :: x4 :: x3 :: rest)
      | _ => none
  | 0x73 => match st.stack with
      | vch :: rest => if castToBool vch then ret (vch :: vch :: rest) else ret (vch :: rest)
      | _ => none
  | 0x74 => ret (scriptNumSer st.stack.length :: st.stack)
  | 0x75 => match st.stack with
      | _ :: rest => ret rest
      | _ => none
  | 0x76 => match st.stack with
      | x :: rest => ret (x :: x :: rest)
      | _ => none
  | 0x77 => match st.stack with
      | x2 :: _ :: rest => ret (x2 :: rest)
      | _ => none
  | 0x78 => match st.stack with
      | x2 :: x1 :: rest => ret (x1 :: x2 :: x1 :: rest)
      | _ => none
  | 0x79 | 0x7a => match st.stack with
      | vchN :: x :: rest0 =>
        let rest := x :: rest0
        match scriptNum? vchN with
        | none => none
        | some n =>
          if n < 0 ∨ n ≥ rest.length then none else
          match rest[n.toNat]? with
          | none => none
          | some vch =>
            if opcode = 0x7a then ret (vch :: rest.eraseIdx n.toNat) else ret (vch :: rest)
      | _ => none
  | 0x7b => match st.stack with
      | x3 :: x2 :: x1 :: rest => ret (x1 :: x3 :: x2 :: rest)
      | _ => none
  | 0x7c => match st.stack with
      | x2 :: x1 :: rest => ret (x1 :: x2 :: rest)
      | _ => none
  | 0x7d => match st.stack with
      | x2 :: x1 :: rest => ret (x2 :: x1 :: x2 :: rest)
      | _ => none
  | 0x82 => match st.stack with
      | x :: rest => ret (scriptNumSer x.length :: x :: rest)
      | _ => none
  -- bitwise logic
  | 0x87 | 0x88 => match st.stack with
      | vch2 :: vch1 :: rest =>
        let fEqual := vch1 == vch2
        if opcode = 0x88 then (if fEqual then ret rest else none)
        else ret (boolVch fEqual :: rest)
      | _ => none
  -- numeric
  | 0x8b | 0x8c | 0x8f | 0x90 | 0x91 | 0x92 => match st.stack with
      | vch :: rest =>
        match scriptNum? vch with
        | none => none
        | some bn =>
          match unaryNum opcode bn with
          | none => none
          | some r => ret (scriptNumSer r :: rest)
      | _ => none
  | 0x93 | 0x94 | 0x9a | 0x9b | 0x9c | 0x9d | 0x9e | 0x9f | 0xa0 | 0xa1 | 0xa2 | 0xa3 | 0xa4 =>
      match st.stack with
      | vch2 :: vch1 :: rest =>
        match scriptNum? vch1, scriptNum? vch2 with
        | some bn1, some bn2 =>
          match binaryNum opcode bn1 bn2 with
          | none => none
          | some bn =>
            let out := scriptNumSer bn
            if opcode = 0x9d then (if castToBool out then ret rest else none)
            else ret (out :: rest)
        | _, _ => none
      | _ => none
  | 0xa5 => match st.stack with
      | vch3 :: vch2 :: vch1 :: rest =>
        match scriptNum? vch1, scriptNum? vch2, scriptNum? vch3 with
        | some bn1, some bn2, some bn3 => ret (boolVch (bn2 ≤ bn1 ∧ bn1 < bn3) :: rest)
        | _, _, _ => none
      | _ => none
  -- crypto
  | 0xa6 | 0xa7 | 0xa8 | 0xa9 | 0xaa => match st.stack with
      | vch :: rest =>
        match hashOp env.hashes opcode vch with
        | none => none
        | some h => ret (h :: rest)
      | _ => none
  | 0xab => some { st with codeHash := pc }
  | 0xac | 0xad => match st.stack with
      | vchPubKey :: vchSig :: rest =>
        let scriptCode := findAndDelete st.codeHash (pushEnc vchSig)
        let fSuccess := checkSig env vchSig vchPubKey scriptCode
        if opcode = 0xad then (if fSuccess then ret rest else none)
        else ret (boolVch fSuccess :: rest)
      | _ => none
  | 0xae => opCheckMultiSig env fl false st
  | 0xaf => opCheckMultiSig env fl true st
  | _ => none                                   -- SCRIPT_ERR_BAD_OPCODE (reserved, VERIF, unknown)

/-- one iteration of the `while (pc < pend)` loop after `GetOp` returned
    `(opcode, vchPushValue)` and left `pc` at the next operation -/
def loopBody (env : Env) (fl : Flags) (opcode : Nat) (vchPushValue pc : Bytes) (st : State) :
    Option State :=
  let fExec := st.vfExec.all id
  if vchPushValue.length > MAX_SCRIPT_ELEMENT_SIZE then none else
  let nOpCount := if opcode > 0x60 then st.nOpCount + 1 else st.nOpCount
  if nOpCount > MAX_OPS_PER_SCRIPT then none else
  if opcode ∈ alwaysDisabled then none else
  let st := { st with nOpCount := nOpCount }
  let r : Option State :=
    if fExec ∧ opcode ≤ 0x4e then some { st with stack := vchPushValue :: st.stack }
    else if fExec ∨ (0x63 ≤ opcode ∧ opcode ≤ 0x68) then execOp env fl opcode pc fExec st
    else some st
  match r with
  | none => none
  | some st' =>
    if st'.stack.length + st'.altstack.length > MAX_STACK_SIZE then none else some st'

/-- the `while (pc < pend)` loop -/
def evalLoop (env : Env) (fl : Flags) (pc : Bytes) (st : State) : Option State :=
  if pc = [] then some st else
  match h : getOp pc with
  | none => none                                                   -- SCRIPT_ERR_BAD_OPCODE
  | some (opcode, vchPushValue, pc') =>
    match loopBody env fl opcode vchPushValue pc' st with
    | none => none
    | some st' => evalLoop env fl pc' st'
termination_by pc.length
decreasing_by exact getOp_lt h

/-- `EvalScript(stack, script, flags, checker, SigVersion::BASE)`: the final stack, or `none`
    when it returns false -/
def evalScript (env : Env) (fl : Flags) (stack : Stack) (script : Bytes) : Option Stack :=
  if script.length > MAX_SCRIPT_SIZE then none else
  match evalLoop env fl script
      { stack := stack, altstack := [], vfExec := [], codeHash := script, nOpCount := 0 } with
  | none => none
  | some st => if st.vfExec ≠ [] then none else some st.stack

/-- `VerifyScript(scriptSig, scriptPubKey, flags, checker)` for an admissible flag set
    (`CLEANSTACK ⇒ P2SH`; Core `assert`s that, so other flag sets are outside its domain and are
    given `false` here) -/
def verifyScript (env : Env) (fl : Flags) (scriptSig scriptPubKey : Bytes) : Bool :=
  if ¬ fl.admissible then false else
  match evalScript env fl [] scriptSig with
  | none => false
  | some stack0 =>
    let stackCopy := stack0
    match evalScript env fl stack0 scriptPubKey with
    | none => false
    | some stack1 =>
      match stack1 with
      | [] => false
      | top :: _ =>
        if ¬ castToBool top then false else
        let afterP2sh : Option Stack :=
          if fl.p2sh ∧ isPayToScriptHash scriptPubKey then
            if ¬ isPushOnly scriptSig then none else
            match stackCopy with
            | [] => none                       -- unreachable (Core: assert(!stack.empty()))
            | pubKeySerialized :: stack =>
              match evalScript env fl stack pubKeySerialized with
              | none => none
              | some stack2 =>
                match stack2 with
                | [] => none
                | top2 :: _ => if castToBool top2 then some stack2 else none
          else some stack1
        match afterP2sh with
        | none => false
        | some stack =>
          if fl.cleanStack then stack.length = 1 else true

end BtcVerif.Spec.Script.Ref
