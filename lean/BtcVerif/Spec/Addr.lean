/-
  C12 — addresses ↔ standard scripts on the selected chain: reference definitions.

  * the four standard templates and their scriptPubKeys;
  * what the chain table prescribes for each template: address class, version byte / witness
    version, and (through `Spec.Chain`) the base58 version bytes and the bech32 prefix;
  * `ValidFor chain a s`: the text `s` is a valid address for the chain and denotes `a`
    (Base58Check rule of C10 with the chain's version byte; BIP173 validity of C11 with the chain's
    prefix, witness version 0 and a 20/32-byte program);
  * the chain selected by a history of `SelectParams` calls.
  Mathlib-free (linked into btcmodel).
-/
import BtcVerif.Spec.Chain
import BtcVerif.Spec.Base58
import BtcVerif.Spec.Bech32

namespace BtcVerif.Spec.Addr
open BtcVerif BtcVerif.Spec

/-- address classes of bitcoin/wallet.py (= standard templates) -/
inductive AddrClass
  | p2pkh | p2sh | p2wpkh | p2wsh
deriving DecidableEq, Repr

/-- an address object: class, `nVersion` (base58 classes) or `witver` (bech32 classes), payload bytes -/
structure Addr where
  cls : AddrClass
  ver : Nat
  payload : Bytes
deriving DecidableEq, Repr

def AddrClass.name : AddrClass → String
  | .p2pkh => "P2PKH" | .p2sh => "P2SH" | .p2wpkh => "P2WPKH" | .p2wsh => "P2WSH"

/-- payload length of the standard form of each template -/
def AddrClass.payloadLen : AddrClass → Nat
  | .p2pkh => 20 | .p2sh => 20 | .p2wpkh => 20 | .p2wsh => 32

/-- the standard scriptPubKey of a template (payload of the template's length, pushed directly) -/
def stdScript (t : AddrClass) (payload : Bytes) : Bytes :=
  match t with
  | .p2pkh => [0x76, 0xa9, 0x14] ++ payload ++ [0x88, 0xac]   -- DUP HASH160 <20> EQUALVERIFY CHECKSIG
  | .p2sh => [0xa9, 0x14] ++ payload ++ [0x87]                -- HASH160 <20> EQUAL
  | .p2wpkh => [0x00, 0x14] ++ payload                        -- 0 <20>
  | .p2wsh => [0x00, 0x20] ++ payload                         -- 0 <32>

/-- version byte (base58 classes) / witness version (bech32 classes) the chain prescribes -/
def prescribedVer (chain : ChainParams) : AddrClass → Nat
  | .p2pkh => chain.pubkeyAddr
  | .p2sh => chain.scriptAddr
  | .p2wpkh => 0
  | .p2wsh => 0

/-- the address the chain prescribes for a standard script -/
def prescribedAddr (chain : ChainParams) (t : AddrClass) (payload : Bytes) : Addr :=
  ⟨t, prescribedVer chain t, payload⟩

/-- the text the chain prescribes: Base58Check of version ‖ payload, or the BIP173 encoding under the
    chain's prefix -/
def prescribedText (H : Bytes → Bytes) (chain : ChainParams) (t : AddrClass) (payload : Bytes) :
    Option (List Char) :=
  match t with
  | .p2pkh => some (Base58.checkEnc H (UInt8.ofNat chain.pubkeyAddr) payload)
  | .p2sh => some (Base58.checkEnc H (UInt8.ofNat chain.scriptAddr) payload)
  | .p2wpkh | .p2wsh => Bech32.encodeAddr chain.bech32Hrp.toList 0 (payload.map UInt8.toNat)

/-- the fields of the core-only parameter classes (`bitcoin.core.Core*Params`): what
    `bitcoin.core.coreparams` offers before the first `SelectParams` call — no message start, ports,
    base58 prefixes or bech32 prefix -/
structure CoreFields where
  name : String
  maxMoney : Nat
  powLimit : Nat
deriving DecidableEq, Repr

/-- the core fields of a full parameter record (of those `Spec.ChainParams` carries) -/
def coreFields (p : ChainParams) : CoreFields := ⟨p.name, p.maxMoney, p.powLimit⟩

/-- the bare-pubkey scriptPubKey `<pubkey> CHECKSIG` (pubkey of 33 or 65 bytes, pushed directly) -/
def barePubkeyScript (pubkey : Bytes) : Bytes := UInt8.ofNat pubkey.length :: (pubkey ++ [0xac])

/-- the address the P2PKH converter must give for a bare-pubkey script: the P2PKH address of the
    hash160 of the FULL pushed public key, under the chain's PUBKEY_ADDR version byte -/
def barePubkeyAddr (H160 : Bytes → Bytes) (chain : ChainParams) (pubkey : Bytes) : Addr :=
  ⟨.p2pkh, chain.pubkeyAddr, H160 pubkey⟩

/-- `s` is a valid address text for `chain`, and `a` is what it denotes.

    For the base58 classes there is deliberately NO payload-length clause (DESIGN §8 O2): the library
    accepts a Base58Check text of the chain's version byte with a payload of any length, and the
    property constrains prefixes and the round trips of 20-byte hashes, not the payload length of
    foreign text.  Consequently an address that is `ValidFor` with a payload that is not 20 bytes
    converts to a script that does not convert back; `C12.roundtrip` is stated for 20-byte payloads. -/
def ValidFor (H : Bytes → Bytes) (chain : ChainParams) (a : Addr) (s : List Char) : Prop :=
  match a.cls with
  | .p2pkh => a.ver = chain.pubkeyAddr ∧ a.ver < 256 ∧
      ∃ k, Base58.dec s = some k ∧ Base58.CheckRule H (UInt8.ofNat a.ver) a.payload k
  | .p2sh => a.ver = chain.scriptAddr ∧ a.ver < 256 ∧
      ∃ k, Base58.dec s = some k ∧ Base58.CheckRule H (UInt8.ofNat a.ver) a.payload k
  | .p2wpkh => a.ver = 0 ∧ a.payload.length = 20 ∧
      Bech32.Decodes chain.bech32Hrp.toList s 0 (a.payload.map UInt8.toNat)
  | .p2wsh => a.ver = 0 ∧ a.payload.length = 32 ∧
      Bech32.Decodes chain.bech32Hrp.toList s 0 (a.payload.map UInt8.toNat)

/-- the chain a history of `SelectParams(name)` calls leaves selected: the last name that is a chain
    name (calls with other names raise and change nothing); `mainnet` initially -/
def selected (history : List String) : ChainParams :=
  match (history.filterMap chainByName?).getLast? with
  | some p => p
  | none => mainnet

end BtcVerif.Spec.Addr
