/-
  C09 — value semantics: the reference side.

  A store of plain values (`Basic/Tx.lean`), one per name; no addresses, no sharing, no caches.
  Every operation of the property's catalogue is a functional update of ONE entry (or adds an
  entry); identifiers, Python `hash()` and `==` are recomputed from the current field values
  on every call.  Serialisation is the shared function `Model.Wire.ser*` (opaque for C09), the
  hash is `Crypto.hash256` (never unfolded in the theorems).

  The operation catalogue `Op` (shared with the heap model, `Model/Heap.lean`) addresses an
  object as `Target = (name, path)`: `name` is the index of the history step that created the
  root object, `path` the list of child indices below it:
      tx:    [0]=vin  [0,i]=vin[i]  [0,i,0]=vin[i].prevout  [1]=vout  [1,j]=vout[j]
             [2]=wit  [2,0]=wit.vtxinwit  [2,0,i]=wit.vtxinwit[i]
      txin:  [0]=prevout          block: [0]=vtx  [0,k]=vtx[k] (then as tx)
  Mathlib-free.
-/
import BtcVerif.Basic.Outcome
import BtcVerif.Basic.Tx
import BtcVerif.Model.Wire
import BtcVerif.Crypto.Sha256

namespace BtcVerif.Spec.ValueSem
open BtcVerif BtcVerif.Model

/-- `List.mapM` in `Option`, written out so that it unfolds definitionally -/
def mapO {α β : Type} (f : α → Option β) : List α → Option (List β)
  | [] => some []
  | a :: as =>
    match f a with
    | none => none
    | some b =>
      match mapO f as with
      | none => none
      | some bs => some (b :: bs)

/-! ### values -/

/-- a value of any class of the catalogue; the four sequence cases are the values of the
    Python lists/tuples `vin`, `vout`, `vtxinwit`, `vtx` (not Serializable themselves) -/
inductive Val
  | outpoint (v : OutPoint)
  | txin (v : TxIn)
  | txout (v : TxOut)
  | inwit (v : WitStack)
  | wit (v : List WitStack)
  | tx (v : Tx)
  | header (v : Header)
  | block (v : Block)
  | ins (l : List TxIn)
  | outs (l : List TxOut)
  | stacks (l : List WitStack)
  | txs (l : List Tx)
deriving DecidableEq, Repr

def attributeError : Exc := .py "AttributeError"
def typeError : Exc := .py "TypeError"

def Val.isSeq : Val → Bool
  | .ins _ | .outs _ | .stacks _ | .txs _ => true
  | _ => false

/-- the classes that have no mutable variant -/
def Val.alwaysImm : Val → Bool
  | .inwit _ | .wit _ | .header _ | .block _ | .stacks _ | .txs _ => true
  | _ => false

/-- `obj.serialize()`; a list/tuple has no such method -/
def serVal : Val → Res Bytes
  | .outpoint v => Wire.serOutPoint v
  | .txin v => Wire.serTxIn v
  | .txout v => Wire.serTxOut v
  | .inwit v => Wire.serWitStack v
  | .wit v => Wire.serWitness v
  | .tx v => Wire.serTx v
  | .header v => Wire.serHeader v
  | .block v => Wire.serBlock v
  | _ => .error attributeError

/-- `obj.GetHash()`: SHA-256d of the serialisation; for a block, of its 80-byte header -/
def identOf : Val → Res Bytes
  | .block b => (Wire.serHeader b.hdr).map Crypto.hash256
  | v => (serVal v).map Crypto.hash256

/-- Python `hash(obj)` = `hash(obj.serialize())`: an (opaque) function of the serialisation -/
def pyHashBytes (b : Bytes) : Bytes := b

def pyHashOf (v : Val) : Res Bytes := (serVal v).map pyHashBytes

/-- what the `__init__` of the class (mutable or immutable variant alike) accepts; anything
    else is `ValueError`.  (`nVersion`, `nValue` and scripts are not checked by any constructor.) -/
def validOutPoint (o : OutPoint) : Bool := o.hash.length == 32 && o.n ≤ 0xffffffff
def validTxIn (i : TxIn) : Bool := validOutPoint i.prevout && i.nSequence ≤ 0xffffffff
def validTx (t : Tx) : Bool := t.nLockTime ≤ 0xffffffff && t.vin.all validTxIn

def validCtor : Val → Bool
  | .outpoint o => validOutPoint o
  | .txin i => validTxIn i
  | .tx t => validTx t
  | .ins l => l.all validTxIn
  | _ => true

/-- `CTransaction.GetTxid`: `wit != CTxWitness()` is decided on the serialisations; the stripped
    transaction is built with the immutable constructor (which validates) -/
def txidOf (t : Tx) : Res Bytes := do
  let a ← Wire.serWitness t.wit
  let b ← Wire.serWitness []
  if a ≠ b then
    if validTx t then (Wire.serTx t.strip).map Crypto.hash256 else .error .valueerr
  else (Wire.serTx t).map Crypto.hash256

/-- class relation used by `Serializable.__eq__` (`isinstance` either way): mutable and immutable
    variants are related, `CBlock` is a subclass of `CBlockHeader` -/
def Val.family : Val → Nat
  | .outpoint _ => 0 | .txin _ => 1 | .txout _ => 2 | .inwit _ => 3 | .wit _ => 4 | .tx _ => 5
  | .header _ => 6 | .block _ => 6 | .ins _ => 7 | .outs _ => 8 | .stacks _ => 9 | .txs _ => 10

/-- `a == b`: CPython calls `b.__eq__(a)` first when `type(b)` is a proper subclass of `type(a)`
    (mutable variant vs immutable, `CBlock` vs `CBlockHeader`); this only decides which of two
    *different* serialisation errors escapes.  Unrelated classes: `NotImplemented` twice → `False`. -/
def eqVals (ma : Bool) (va : Val) (mb : Bool) (vb : Val) : Res Bool :=
  if va.family ≠ vb.family then .ok false
  else
    let reflected := (mb && !ma) || (match va, vb with | .header _, .block _ => true | _, _ => false)
    if reflected then do let y ← serVal vb; let x ← serVal va; pure (x == y)
    else do let x ← serVal va; let y ← serVal vb; pure (x == y)

/-! ### merkle root as `CBlock.__init__` computes it (opaque for C09; C15 is about it) -/

def merkleLevel : List Bytes → List Bytes
  | [] => []
  | [a] => [Crypto.hash256 (a ++ a)]
  | a :: b :: r => Crypto.hash256 (a ++ b) :: merkleLevel r

def merkleUp : Nat → List Bytes → List Bytes
  | 0, l => l
  | f + 1, l => if l.length ≤ 1 then l else merkleUp f (merkleLevel l)

def merkleRoot (txids : List Bytes) : Bytes := ((merkleUp txids.length txids).head?).getD []

def zeros32 : Bytes := List.replicate 32 0

/-! ### navigation in values -/

def Val.child : Val → Nat → Option Val
  | .txin i, 0 => some (.outpoint i.prevout)
  | .wit w, 0 => some (.stacks w)
  | .tx t, 0 => some (.ins t.vin)
  | .tx t, 1 => some (.outs t.vout)
  | .tx t, 2 => some (.wit t.wit)
  | .block b, 0 => some (.txs b.vtx)
  | .ins l, i => l[i]?.map .txin
  | .outs l, i => l[i]?.map .txout
  | .stacks l, i => l[i]?.map .inwit
  | .txs l, i => l[i]?.map .tx
  | _, _ => none

/-- functional replacement of child `i` (defined when the child exists and the kinds agree) -/
def Val.putChild : Val → Nat → Val → Option Val
  | .txin i, 0, .outpoint o => some (.txin { i with prevout := o })
  | .wit _, 0, .stacks w => some (.wit w)
  | .tx t, 0, .ins l => some (.tx { t with vin := l })
  | .tx t, 1, .outs l => some (.tx { t with vout := l })
  | .tx t, 2, .wit w => some (.tx { t with wit := w })
  | .block b, 0, .txs l => some (.block { b with vtx := l })
  | .ins l, i, .txin x => if i < l.length then some (.ins (l.set i x)) else none
  | .outs l, i, .txout x => if i < l.length then some (.outs (l.set i x)) else none
  | .stacks l, i, .inwit x => if i < l.length then some (.stacks (l.set i x)) else none
  | .txs l, i, .tx x => if i < l.length then some (.txs (l.set i x)) else none
  | _, _, _ => none

def Val.get : Val → List Nat → Option Val
  | v, [] => some v
  | v, i :: p => (v.child i).bind (·.get p)

def Val.put : Val → List Nat → Val → Option Val
  | _, [], w => some w
  | v, i :: p, w => do
      let c ← v.child i
      let c' ← c.put p w
      v.putChild i c'

/-! ### the operation catalogue -/

structure Target where
  root : Nat
  path : List Nat
deriving DecidableEq, Repr

inductive Field
  | hash (b : Bytes) | n (k : Nat) | scriptSig (b : Bytes) | nSequence (k : Nat)
  | nValue (i : Int) | scriptPubKey (b : Bytes) | nVersion (i : Int) | nLockTime (k : Nat)
deriving DecidableEq, Repr

inductive Op
  /-- `CMutableTransaction([CMutableTxIn(CMutableOutPoint(h,n),s,q)…], [CMutableTxOut(v,s)…], lock, ver, CTxWitness((…)))` -/
  | newTx (v : Tx)
  /-- `CTransaction([CTxIn(COutPoint(h,n),s,q)…], [CTxOut(v,s)…], lock, ver[, CTxWitness((…))])`; the
      witness argument is omitted (shared default argument) when `v.wit = []` -/
  | newCTx (v : Tx)
  | newHeader (v : Header)
  /-- `CBlock(ver, prev, merkle, time, bits, nonce, vtx=[the named transactions])` -/
  | newBlock (hdr : Header) (txs : List Nat)
  /-- `C<Class>.from_<class>(target)` — immutable snapshot -/
  | snapshot (t : Target)
  /-- `CMutable<Class>.from_<class>(target)` — mutable copy -/
  | mutCopy (t : Target)
  /-- `target.<field> = value` -/
  | assign (t : Target) (f : Field)
  /-- `del target.<some existing attribute>` (only immutable targets are in the catalogue) -/
  | delAttr (t : Target)
  | setVin (r : Nat) (l : List TxIn)        -- `tx.vin = [fresh mutable inputs]`
  | setVout (r : Nat) (l : List TxOut)
  | appendIn (r : Nat) (v : TxIn)           -- `tx.vin.append(fresh)`
  | replaceIn (r i : Nat) (v : TxIn)        -- `tx.vin[i] = fresh`
  | removeIn (r i : Nat)                    -- `del tx.vin[i]`
  | appendOut (r : Nat) (v : TxOut)
  | replaceOut (r i : Nat) (v : TxOut)
  | removeOut (r i : Nat)
  | setWit (r : Nat) (w : List WitStack)    -- `tx.wit = CTxWitness((CTxInWitness(CScriptWitness(st))…))`
  | ser (t : Target)
  | getHash (t : Target)
  | txid (t : Target)
  | pyHash (t : Target)
  | eq (a b : Target)
  /-- `RawSignatureHash(script, tx, inIdx, hashtype)`; `sub` = `FindAndDelete(script, [CODESEPARATOR])` -/
  | sighash (r : Nat) (sub : Bytes) (inIdx hashtype : Nat)
  /-- `SignatureHash(script, tx, inIdx, hashtype, amount, SIGVERSION_WITNESS_V0)` -/
  | sighashW (r : Nat) (inIdx hashtype : Nat)
  /-- `VerifyScript(scriptSig, scriptPubKey, tx, inIdx, flags)`; `calls` are the (subscript, hashtype)
      pairs of the `RawSignatureHash` calls the interpreter makes (any list) -/
  | verify (r : Nat) (inIdx : Nat) (calls : List (Bytes × Nat))
deriving Repr

/-- what one step lets the caller observe -/
inductive Out
  | done                      -- statement completed (or raised, for sighash/verify, whose own
                              -- result C03–C07 constrain): nothing returned that C09 constrains
  | created                   -- a new name is bound
  | na                        -- the target is not an object this operation is defined for
  | badRef                    -- the name/path does not exist
  | bytes (r : Res Bytes)     -- a returned byte string, or the exception that escaped
  | bool (r : Res Bool)
  | err (e : Exc)             -- the statement raised
deriving Repr

/-! ### objects as class + value slots + referenced parts (shared with the heap model) -/

inductive SeqKind | ins | outs | stacks | txs
deriving DecidableEq, Repr

/-- class of an object together with its value-holding attribute slots -/
inductive Scalars
  | outpoint (hash : Bytes) (n : Nat)                 -- refs = []
  | txin (scriptSig : Bytes) (nSequence : Nat)        -- refs = [prevout]
  | txout (nValue : Int) (scriptPubKey : Bytes)       -- refs = []
  | seq (k : SeqKind)                                 -- refs = the items
  | inwit (stack : WitStack)                          -- refs = []
  | wit                                               -- refs = [vtxinwit]
  | tx (nVersion : Int) (nLockTime : Nat)             -- refs = [vin, vout, wit]
  | header (h : Header)                               -- refs = []
  | block (h : Header)                                -- refs = [vtx]
deriving DecidableEq, Repr

def Scalars.isSeq : Scalars → Bool
  | .seq _ => true
  | _ => false

/-- classes without a mutable variant -/
def Scalars.alwaysImm : Scalars → Bool
  | .inwit _ | .wit | .header _ | .block _ | .seq .stacks | .seq .txs => true
  | _ => false

/-- `vin`/`vout`: `from_tx` and `CTransaction.__init__` always build a new list/tuple for them -/
def Scalars.rebuilt : Scalars → Bool
  | .seq .ins | .seq .outs => true
  | _ => false

def asTxIn : Val → Option TxIn | .txin i => some i | _ => none
def asTxOut : Val → Option TxOut | .txout i => some i | _ => none
def asStack : Val → Option WitStack | .inwit i => some i | _ => none
def asTx : Val → Option Tx | .tx i => some i | _ => none

/-- the value of an object from its own slots and the values of the objects it refers to -/
def assemble : Scalars → List Val → Option Val
  | .outpoint h n, [] => some (.outpoint ⟨h, n⟩)
  | .txin s q, [.outpoint o] => some (.txin ⟨o, s, q⟩)
  | .txout v s, [] => some (.txout ⟨v, s⟩)
  | .seq .ins, vs => (mapO asTxIn vs).map .ins
  | .seq .outs, vs => (mapO asTxOut vs).map .outs
  | .seq .stacks, vs => (mapO asStack vs).map .stacks
  | .seq .txs, vs => (mapO asTx vs).map .txs
  | .inwit st, [] => some (.inwit st)
  | .wit, [.stacks w] => some (.wit w)
  | .tx ver lock, [.ins vin, .outs vout, .wit w] =>
      some (.tx { nVersion := ver, vin := vin, vout := vout, wit := w, nLockTime := lock })
  | .header hd, [] => some (.header hd)
  | .block hd, [.txs l] => some (.block ⟨hd, l⟩)
  | _, _ => none


/-- the class of an object / of a value as a number (same numbering on both) -/
def Scalars.kind : Scalars → Nat
  | .outpoint _ _ => 0 | .txin _ _ => 1 | .txout _ _ => 2 | .inwit _ => 3 | .wit => 4 | .tx _ _ => 5
  | .header _ => 6 | .block _ => 7 | .seq .ins => 8 | .seq .outs => 9 | .seq .stacks => 10 | .seq .txs => 11

def valKind : Val → Nat
  | .outpoint _ => 0 | .txin _ => 1 | .txout _ => 2 | .inwit _ => 3 | .wit _ => 4 | .tx _ => 5
  | .header _ => 6 | .block _ => 7 | .ins _ => 8 | .outs _ => 9 | .stacks _ => 10 | .txs _ => 11

def applySc : Field → Scalars → Option Scalars
  | .hash b, .outpoint _ n => some (.outpoint b n)
  | .n k, .outpoint h _ => some (.outpoint h k)
  | .scriptSig b, .txin _ q => some (.txin b q)
  | .nSequence k, .txin s _ => some (.txin s k)
  | .nValue x, .txout _ s => some (.txout x s)
  | .scriptPubKey b, .txout v _ => some (.txout v b)
  | .nVersion x, .tx _ l => some (.tx x l)
  | .nLockTime k, .tx v _ => some (.tx v k)
  | _, _ => none


/-! ### the store of values -/

structure Entry where
  isMut : Bool
  val : Val
deriving DecidableEq, Repr

abbrev Store := List (Option Entry)

/-- the part at a path together with its mutability: a part is an instance of a mutable class iff
    the root is and neither the part nor anything above it belongs to a class without a mutable
    variant (witness objects, tuples of a witness/block) -/
def Val.getM : Bool → Val → List Nat → Option (Bool × Val)
  | m, v, [] => some (m, v)
  | m, v, i :: p =>
    match v.child i with
    | none => none
    | some c => Val.getM (m && !c.alwaysImm) c p

def lookup (s : Store) (t : Target) : Option (Bool × Val) := do
  let e ← (s[t.root]?).join
  e.val.getM e.isMut t.path

def Field.apply : Field → Val → Option Val
  | .hash b, .outpoint o => some (.outpoint { o with hash := b })
  | .n k, .outpoint o => some (.outpoint { o with n := k })
  | .scriptSig b, .txin i => some (.txin { i with scriptSig := b })
  | .nSequence k, .txin i => some (.txin { i with nSequence := k })
  | .nValue x, .txout o => some (.txout { o with nValue := x })
  | .scriptPubKey b, .txout o => some (.txout { o with scriptPubKey := b })
  | .nVersion x, .tx t => some (.tx { t with nVersion := x })
  | .nLockTime k, .tx t => some (.tx { t with nLockTime := k })
  | _, _ => none

def bind (s : Store) (e : Option Entry) : Store := s ++ [e]

/-- replace the value at a target inside its entry -/
def update (s : Store) (t : Target) (w : Val) : Option Store := do
  let e ← (s[t.root]?).join
  let v' ← e.val.put t.path w
  pure (s.set t.root (some { e with val := v' }))

def lookupTx (s : Store) (r : Nat) : Option (Entry × Tx) :=
  match (s[r]?).join with
  | some e => match e.val with
    | .tx t => some (e, t)
    | _ => none
  | none => none

/-- an edit of `vin`/`vout`/`wit` of a transaction root.  `rhsOk`: the right-hand side of an
    assignment statement is constructed first (its constructor may raise `ValueError`); then the
    store into an immutable object/tuple raises `immErr`; then `f` maps the old value to the new
    one or to the exception raised (`IndexError`) -/
def editList (s : Store) (r : Nat) (rhsOk : Bool) (immErr : Exc)
    (f : Tx → Except Exc Tx) : Store × Out :=
  match lookupTx s r with
  | none => (bind s none, if (s[r]?).join.isSome then .na else .badRef)
  | some (e, t) =>
    if !rhsOk then (bind s none, .err .valueerr)
    else if !e.isMut then (bind s none, .err immErr)
    else match f t with
      | .error x => (bind s none, .err x)
      | .ok t' => (bind (s.set r (some { e with val := .tx t' })) none, .done)

def observe (s : Store) (t : Target) (f : Val → Out) : Store × Out :=
  match lookup s t with
  | none => (bind s none, .badRef)
  | some (_, v) => (bind s none, if v.isSeq then .na else f v)

/-- the checks of `CBlock.__init__` in their order; result: the header with its merkle root -/
def newBlockHdr (hdr : Header) (es : List (Entry × Tx)) : Res Header := do
  let vs := es.map (·.2)
  let merkle ←
    if vs.isEmpty then pure hdr.hashMerkleRoot
    else do
      let txids ← vs.mapM txidOf
      let root := merkleRoot txids
      if hdr.hashMerkleRoot == zeros32 then pure root
      else if hdr.hashMerkleRoot != root then throw .validation
      else pure hdr.hashMerkleRoot
  if hdr.hashPrevBlock.length ≠ 32 then throw assertionError
  if merkle.length ≠ 32 then throw assertionError
  -- build_witness_merkle_tree_from_txs: tx.GetHash() for every transaction
  let _ ← vs.mapM (fun t => Wire.serTx t)
  -- tuple(CTransaction.from_tx(tx) for tx in vtx)
  if es.all (fun (e, t) => !e.isMut || validTx t) then
    pure { hdr with hashMerkleRoot := merkle }
  else throw .valueerr

def newBlockVal (hdr : Header) (es : List (Entry × Tx)) : Res Block :=
  match newBlockHdr hdr es with
  | .ok h => .ok { hdr := h, vtx := es.map (·.2) }
  | .error x => .error x

def step (s : Store) : Op → Store × Out
  | .newTx v =>
      if validTx v then (bind s (some ⟨true, .tx v⟩), .created) else (bind s none, .err .valueerr)
  | .newCTx v =>
      if validTx v then (bind s (some ⟨false, .tx v⟩), .created) else (bind s none, .err .valueerr)
  | .newHeader v =>
      if v.hashPrevBlock.length = 32 ∧ v.hashMerkleRoot.length = 32 then
        (bind s (some ⟨false, .header v⟩), .created)
      else (bind s none, .err assertionError)
  | .newBlock hdr txs =>
      match mapO (lookupTx s) txs with
      | none => (bind s none, .badRef)
      | some es =>
        match newBlockVal hdr es with
        | .ok b => (bind s (some ⟨false, .block b⟩), .created)
        | .error x => (bind s none, .err x)
  | .snapshot t =>
      match lookup s t with
      | none => (bind s none, .badRef)
      | some (m, v) =>
        match v with
        | .outpoint _ | .txin _ | .txout _ | .tx _ | .inwit _ | .wit _ =>
          if !m then (bind s (some ⟨false, v⟩), .created)
          else if validCtor v then (bind s (some ⟨false, v⟩), .created)
          else (bind s none, .err .valueerr)
        | _ => (bind s none, .na)
  | .mutCopy t =>
      match lookup s t with
      | none => (bind s none, .badRef)
      | some (_, v) =>
        match v with
        | .outpoint _ | .txin _ | .txout _ | .tx _ =>
          if validCtor v then (bind s (some ⟨true, v⟩), .created)
          else (bind s none, .err .valueerr)
        | _ => (bind s none, .na)
  | .assign t f =>
      match lookup s t with
      | none => (bind s none, .badRef)
      | some (m, v) =>
        if v.isSeq then (bind s none, .na)
        else if !m then (bind s none, .err attributeError)
        else match f.apply v with
          | none => (bind s none, .err attributeError)
          | some w =>
            match update s t w with
            | some s' => (bind s' none, .done)
            | none => (bind s none, .badRef)
  | .delAttr t =>
      match lookup s t with
      | none => (bind s none, .badRef)
      | some (m, v) =>
        if v.isSeq then (bind s none, .na)
        else if !m then (bind s none, .err attributeError)
        else (bind s none, .na)
  | .setVin r l => editList s r (l.all validTxIn) attributeError fun t => .ok { t with vin := l }
  | .setVout r l => editList s r true attributeError fun t => .ok { t with vout := l }
  -- `tx.vin.append(CMutableTxIn(…))`: the bound method is looked up before the argument is built
  | .appendIn r v => editList s r true attributeError fun t =>
      if validTxIn v then .ok { t with vin := t.vin ++ [v] } else .error .valueerr
  | .replaceIn r i v => editList s r (validTxIn v) typeError fun t =>
      if i < t.vin.length then .ok { t with vin := t.vin.set i v } else .error indexError
  | .removeIn r i => editList s r true typeError fun t =>
      if i < t.vin.length then .ok { t with vin := t.vin.eraseIdx i } else .error indexError
  | .appendOut r v => editList s r true attributeError fun t => .ok { t with vout := t.vout ++ [v] }
  | .replaceOut r i v => editList s r true typeError fun t =>
      if i < t.vout.length then .ok { t with vout := t.vout.set i v } else .error indexError
  | .removeOut r i => editList s r true typeError fun t =>
      if i < t.vout.length then .ok { t with vout := t.vout.eraseIdx i } else .error indexError
  | .setWit r w => editList s r true attributeError fun t => .ok { t with wit := w }
  | .ser t => observe s t fun v => .bytes (serVal v)
  | .getHash t => observe s t fun v => .bytes (identOf v)
  | .txid t => observe s t fun v => match v with
      | .tx x => .bytes (txidOf x)
      | _ => .na
  | .pyHash t => observe s t fun v => .bytes (pyHashOf v)
  | .eq a b =>
      match lookup s a, lookup s b with
      | some (ma, va), some (mb, vb) =>
        if va.isSeq || vb.isSeq then (bind s none, .na)
        else (bind s none, .bool (eqVals ma va mb vb))
      | _, _ => (bind s none, .badRef)
  | .sighash r _ _ _ =>
      match lookupTx s r with
      | none => (bind s none, if (s[r]?).join.isSome then .na else .badRef)
      | some _ => (bind s none, .done)
  | .sighashW r _ _ =>
      match lookupTx s r with
      | none => (bind s none, if (s[r]?).join.isSome then .na else .badRef)
      | some _ => (bind s none, .done)
  | .verify r _ _ =>
      match lookupTx s r with
      | none => (bind s none, if (s[r]?).join.isSome then .na else .badRef)
      | some _ => (bind s none, .done)

def run : Store → List Op → Store × List Out
  | s, [] => (s, [])
  | s, op :: ops =>
      let (s1, o) := step s op
      let (s2, os) := run s1 ops
      (s2, o :: os)

def init : Store := []

/-! ### the value that `RawSignatureHash` serialises (used by the driver to print the digest) -/

def blankOut : TxOut := { nValue := -1, scriptPubKey := [] }

def hashOne : Bytes := 1 :: List.replicate 31 0

/-- `none` = the `HASH_ONE` cases -/
def sigTx (t : Tx) (sub : Bytes) (inIdx ht : Nat) : Option Tx :=
  if inIdx ≥ t.vin.length then none else
  let vin1 := (t.vin.map fun i => { i with scriptSig := [] })
  let vin1 := vin1.modify inIdx fun i => { i with scriptSig := sub }
  let zeroSeq (l : List TxIn) : List TxIn :=
    l.zipIdx.map fun (i, k) => if k ≠ inIdx then { i with nSequence := 0 } else i
  let r : Option (List TxIn × List TxOut) :=
    if ht % 32 = 2 then some (zeroSeq vin1, [])
    else if ht % 32 = 3 then
      match t.vout[inIdx]? with
      | none => none
      | some o => some (zeroSeq vin1, List.replicate inIdx blankOut ++ [o])
    else some (vin1, t.vout)
  match r with
  | none => none
  | some (vin2, vout2) =>
    let vin3 := if ht / 128 % 2 = 1 then (vin2[inIdx]?).toList else vin2
    some { t with vin := vin3, vout := vout2, wit := [] }

end BtcVerif.Spec.ValueSem
