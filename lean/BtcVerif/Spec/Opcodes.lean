/-
  Reference opcode table and interpreter limits (Bitcoin Core script.h / interpreter.cpp), the
  Spec side of the T1 obligation `Tables/Opcodes.lean`.  `Model/*`, `Spec/ScriptRef` and the driver
  use these tables, never `Generated`.  Mathlib-free.

  `opcodeNames` is the display table (value ↦ name; the BIP65/BIP112 names occupy the NOP2/NOP3
  slots), `opcodesByName` the name ↦ value map (aliases included, OP_INVALIDOPCODE is not a
  parsable name), both sorted.  Values absent from `opcodeNames` are the unnamed opcodes.
-/

namespace BtcVerif.Spec

def opcodeNames : List (Nat × String) := [
  (0, "OP_0"), (76, "OP_PUSHDATA1"), (77, "OP_PUSHDATA2"), (78, "OP_PUSHDATA4"),
  (79, "OP_1NEGATE"), (80, "OP_RESERVED"), (81, "OP_1"), (82, "OP_2"),
  (83, "OP_3"), (84, "OP_4"), (85, "OP_5"), (86, "OP_6"),
  (87, "OP_7"), (88, "OP_8"), (89, "OP_9"), (90, "OP_10"),
  (91, "OP_11"), (92, "OP_12"), (93, "OP_13"), (94, "OP_14"),
  (95, "OP_15"), (96, "OP_16"), (97, "OP_NOP"), (98, "OP_VER"),
  (99, "OP_IF"), (100, "OP_NOTIF"), (101, "OP_VERIF"), (102, "OP_VERNOTIF"),
  (103, "OP_ELSE"), (104, "OP_ENDIF"), (105, "OP_VERIFY"), (106, "OP_RETURN"),
  (107, "OP_TOALTSTACK"), (108, "OP_FROMALTSTACK"), (109, "OP_2DROP"), (110, "OP_2DUP"),
  (111, "OP_3DUP"), (112, "OP_2OVER"), (113, "OP_2ROT"), (114, "OP_2SWAP"),
  (115, "OP_IFDUP"), (116, "OP_DEPTH"), (117, "OP_DROP"), (118, "OP_DUP"),
  (119, "OP_NIP"), (120, "OP_OVER"), (121, "OP_PICK"), (122, "OP_ROLL"),
  (123, "OP_ROT"), (124, "OP_SWAP"), (125, "OP_TUCK"), (126, "OP_CAT"),
  (127, "OP_SUBSTR"), (128, "OP_LEFT"), (129, "OP_RIGHT"), (130, "OP_SIZE"),
  (131, "OP_INVERT"), (132, "OP_AND"), (133, "OP_OR"), (134, "OP_XOR"),
  (135, "OP_EQUAL"), (136, "OP_EQUALVERIFY"), (137, "OP_RESERVED1"), (138, "OP_RESERVED2"),
  (139, "OP_1ADD"), (140, "OP_1SUB"), (141, "OP_2MUL"), (142, "OP_2DIV"),
  (143, "OP_NEGATE"), (144, "OP_ABS"), (145, "OP_NOT"), (146, "OP_0NOTEQUAL"),
  (147, "OP_ADD"), (148, "OP_SUB"), (149, "OP_MUL"), (150, "OP_DIV"),
  (151, "OP_MOD"), (152, "OP_LSHIFT"), (153, "OP_RSHIFT"), (154, "OP_BOOLAND"),
  (155, "OP_BOOLOR"), (156, "OP_NUMEQUAL"), (157, "OP_NUMEQUALVERIFY"), (158, "OP_NUMNOTEQUAL"),
  (159, "OP_LESSTHAN"), (160, "OP_GREATERTHAN"), (161, "OP_LESSTHANOREQUAL"), (162, "OP_GREATERTHANOREQUAL"),
  (163, "OP_MIN"), (164, "OP_MAX"), (165, "OP_WITHIN"), (166, "OP_RIPEMD160"),
  (167, "OP_SHA1"), (168, "OP_SHA256"), (169, "OP_HASH160"), (170, "OP_HASH256"),
  (171, "OP_CODESEPARATOR"), (172, "OP_CHECKSIG"), (173, "OP_CHECKSIGVERIFY"), (174, "OP_CHECKMULTISIG"),
  (175, "OP_CHECKMULTISIGVERIFY"), (176, "OP_NOP1"), (177, "OP_CHECKLOCKTIMEVERIFY"), (178, "OP_CHECKSEQUENCEVERIFY"),
  (179, "OP_NOP4"), (180, "OP_NOP5"), (181, "OP_NOP6"), (182, "OP_NOP7"),
  (183, "OP_NOP8"), (184, "OP_NOP9"), (185, "OP_NOP10"), (250, "OP_SMALLINTEGER"),
  (251, "OP_PUBKEYS"), (253, "OP_PUBKEYHASH"), (254, "OP_PUBKEY"), (255, "OP_INVALIDOPCODE") ]

def opcodesByName : List (String × Nat) := [
  ("OP_0", 0), ("OP_0NOTEQUAL", 146), ("OP_1", 81), ("OP_10", 90),
  ("OP_11", 91), ("OP_12", 92), ("OP_13", 93), ("OP_14", 94),
  ("OP_15", 95), ("OP_16", 96), ("OP_1ADD", 139), ("OP_1NEGATE", 79),
  ("OP_1SUB", 140), ("OP_2", 82), ("OP_2DIV", 142), ("OP_2DROP", 109),
  ("OP_2DUP", 110), ("OP_2MUL", 141), ("OP_2OVER", 112), ("OP_2ROT", 113),
  ("OP_2SWAP", 114), ("OP_3", 83), ("OP_3DUP", 111), ("OP_4", 84),
  ("OP_5", 85), ("OP_6", 86), ("OP_7", 87), ("OP_8", 88),
  ("OP_9", 89), ("OP_ABS", 144), ("OP_ADD", 147), ("OP_AND", 132),
  ("OP_BOOLAND", 154), ("OP_BOOLOR", 155), ("OP_CAT", 126), ("OP_CHECKLOCKTIMEVERIFY", 177),
  ("OP_CHECKMULTISIG", 174), ("OP_CHECKMULTISIGVERIFY", 175), ("OP_CHECKSEQUENCEVERIFY", 178), ("OP_CHECKSIG", 172),
  ("OP_CHECKSIGVERIFY", 173), ("OP_CODESEPARATOR", 171), ("OP_DEPTH", 116), ("OP_DIV", 150),
  ("OP_DROP", 117), ("OP_DUP", 118), ("OP_ELSE", 103), ("OP_ENDIF", 104),
  ("OP_EQUAL", 135), ("OP_EQUALVERIFY", 136), ("OP_FROMALTSTACK", 108), ("OP_GREATERTHAN", 160),
  ("OP_GREATERTHANOREQUAL", 162), ("OP_HASH160", 169), ("OP_HASH256", 170), ("OP_IF", 99),
  ("OP_IFDUP", 115), ("OP_INVERT", 131), ("OP_LEFT", 128), ("OP_LESSTHAN", 159),
  ("OP_LESSTHANOREQUAL", 161), ("OP_LSHIFT", 152), ("OP_MAX", 164), ("OP_MIN", 163),
  ("OP_MOD", 151), ("OP_MUL", 149), ("OP_NEGATE", 143), ("OP_NIP", 119),
  ("OP_NOP", 97), ("OP_NOP1", 176), ("OP_NOP10", 185), ("OP_NOP2", 177),
  ("OP_NOP3", 178), ("OP_NOP4", 179), ("OP_NOP5", 180), ("OP_NOP6", 181),
  ("OP_NOP7", 182), ("OP_NOP8", 183), ("OP_NOP9", 184), ("OP_NOT", 145),
  ("OP_NOTIF", 100), ("OP_NUMEQUAL", 156), ("OP_NUMEQUALVERIFY", 157), ("OP_NUMNOTEQUAL", 158),
  ("OP_OR", 133), ("OP_OVER", 120), ("OP_PICK", 121), ("OP_PUBKEY", 254),
  ("OP_PUBKEYHASH", 253), ("OP_PUBKEYS", 251), ("OP_PUSHDATA1", 76), ("OP_PUSHDATA2", 77),
  ("OP_PUSHDATA4", 78), ("OP_RESERVED", 80), ("OP_RESERVED1", 137), ("OP_RESERVED2", 138),
  ("OP_RETURN", 106), ("OP_RIGHT", 129), ("OP_RIPEMD160", 166), ("OP_ROLL", 122),
  ("OP_ROT", 123), ("OP_RSHIFT", 153), ("OP_SHA1", 167), ("OP_SHA256", 168),
  ("OP_SIZE", 130), ("OP_SMALLINTEGER", 250), ("OP_SUB", 148), ("OP_SUBSTR", 127),
  ("OP_SWAP", 124), ("OP_TOALTSTACK", 107), ("OP_TUCK", 125), ("OP_VER", 98),
  ("OP_VERIF", 101), ("OP_VERIFY", 105), ("OP_VERNOTIF", 102), ("OP_WITHIN", 165),
  ("OP_XOR", 134) ]

/-- fail even in an unexecuted branch: the CVE-2010-5137 list plus OP_VERIF / OP_VERNOTIF -/
def disabledOpcodes : List Nat := [101, 102, 126, 127, 128, 129, 131, 132, 133, 134, 141, 142, 149, 150, 151, 152, 153]

/-- numeric opcodes with one operand (OP_2MUL / OP_2DIV are disabled) -/
def unaryNumOps : List Nat := [139, 140, 143, 144, 145, 146]

/-- numeric opcodes with two operands (the disabled ones excluded) -/
def binaryNumOps : List Nat := [147, 148, 154, 155, 156, 157, 158, 159, 160, 161, 162, 163, 164]

def MAX_SCRIPT_SIZE : Nat := 10000
def MAX_SCRIPT_ELEMENT_SIZE : Nat := 520
def MAX_OPS_PER_SCRIPT : Nat := 201
def MAX_STACK_SIZE : Nat := 1000
def MAX_PUBKEYS_PER_MULTISIG : Nat := 20
/-- CScriptNum default operand size -/
def MAX_NUM_SIZE : Nat := 4

/-- everything the repository's tables are compared against, as one record -/
structure OpcodeTables where
  names : List (Nat × String)
  byName : List (String × Nat)
  disabled : List Nat
  unary : List Nat
  binary : List Nat
  maxScriptSize : Nat
  maxElementSize : Nat
  maxOps : Nat
  maxStackItems : Nat
  maxNumSize : Nat
deriving DecidableEq, Repr

def opcodeTables : OpcodeTables :=
  { names := opcodeNames, byName := opcodesByName, disabled := disabledOpcodes,
    unary := unaryNumOps, binary := binaryNumOps,
    maxScriptSize := MAX_SCRIPT_SIZE, maxElementSize := MAX_SCRIPT_ELEMENT_SIZE,
    maxOps := MAX_OPS_PER_SCRIPT, maxStackItems := MAX_STACK_SIZE, maxNumSize := MAX_NUM_SIZE }

/-- `OPCODE_NAMES[v]` -/
def opcodeName? (v : Nat) : Option String := (opcodeNames.find? (·.1 == v)).map (·.2)

end BtcVerif.Spec
