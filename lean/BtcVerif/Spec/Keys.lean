/-
  C13 / C14 — reference definitions (SEC 1, BIP62 low-S rule, WIF, Bitcoin Core's signed-message
  format), independent of how python-bitcoinlib computes them.  Mathlib-free.
-/
import BtcVerif.Crypto.Sha256
import BtcVerif.Crypto.Secp256k1
import BtcVerif.Spec.Chain
import BtcVerif.Spec.Wire

namespace BtcVerif.Spec.Keys
open BtcVerif BtcVerif.Crypto

/-- group order of secp256k1 -/
abbrev n : Nat := Secp256k1.n

/-- ⌊n/2⌋ : the largest "low" S value -/
def halfOrder : Nat := n / 2

/-- BIP62 rule 5 / BIP146: a usable S is in `[1, n/2]` -/
def LowS (s : Nat) : Prop := 0 < s ∧ s ≤ halfOrder

instance (s : Nat) : Decidable (LowS s) := by unfold LowS; infer_instance

/-- the canonical representative of `{s, n − s}` -/
def lowS (s : Nat) : Nat := if s > halfOrder then n - s else s

/-! ### WIF (wallet import format) payload -/

/-- payload under the chain's SECRET_KEY version byte: 32-byte secret, then `01` iff the public key
    is to be used compressed -/
def wifPayload (secret : Bytes) (compressed : Bool) : Bytes :=
  secret ++ (if compressed then [1] else [])

/-! ### compact (recoverable) signatures: header byte as in Bitcoin Core `CKey::SignCompact` -/

def headerByte (recid : Nat) (compressed : Bool) : Nat := 27 + recid + (if compressed then 4 else 0)

/-- Core's `CPubKey::RecoverCompact`: `recid = (h − 27) & 3`, `compressed = (h − 27) & 4`;
    the header of a produced signature is in 27..34 -/
def headerDecode (h : Nat) : Option (Nat × Bool) :=
  if 27 ≤ h ∧ h ≤ 34 then some ((h - 27) % 4, decide ((h - 27) / 4 = 1)) else none

/-! ### signed messages -/

/-- "Bitcoin Signed Message:\n" -/
def messageMagic : Bytes := "Bitcoin Signed Message:\n".toUTF8.toList

/-- digest that is signed: SHA256d( varstr(magic) ‖ varstr(message) ) -/
def msgDigest (magic msg : Bytes) : Bytes :=
  hash256 (Spec.Wire.varBytes magic ++ Spec.Wire.varBytes msg)

end BtcVerif.Spec.Keys
