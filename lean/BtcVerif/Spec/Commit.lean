/-
  C05 — what a LEGACY signature hash commits to.

  Three layers, all decidable / executable, all independent of python-bitcoinlib:

  (1) `Part` — the parts a transaction is made of (version, lock time, witness, the number of inputs
      and outputs, and per position the four fields of an input and the two fields of an output),
      `Part.get` reads a part (`absent` beyond the end of the list), and
      `committed ht i p` — the commitment table of the legacy algorithm (interpreter.cpp
      `SignatureHash`, SigVersion::BASE) for the hash-type value `ht` and the signed input `i`:

                         ALL            NONE            SINGLE          … | ANYONECANPAY
        nVersion         yes            yes             yes             yes
        nLockTime        yes            yes             yes             yes
        witness          no             no              no              no
        scriptSig k      no             no              no              no        (the script code
                                                                                  replaces it)
        #inputs          yes            yes             yes             no
        prevout k        yes            yes             yes             k = i
        nSequence k      yes            k = i           k = i           k = i
        #outputs         yes            no              no (*)          as without ACP
        output k         yes            no              k = i           as without ACP

      (*) under SINGLE the hash covers "output i exists" (it is read), nothing else about the count.
      The mode is selected exactly as the algorithm does: `ht % 32 = 2` NONE, `ht % 32 = 3` SINGLE,
      everything else (0, 1, 4 … 31) behaves as ALL; bit 0x80 is ANYONECANPAY; bits 0x20, 0x40 select
      nothing (but all four bytes of `ht` are hashed).

  (2) `Edit` / `apply` — the catalogue of single edits of a transaction of the property's
      quantifier: set any field of any input or output, insert / remove / swap inputs or outputs at
      given positions, change nLockTime / nVersion / the witness.

  (3) `Committed ht i e` / `Uncommitted ht i e` — the syntactic table over edits: an edit is
      `Committed` when it addresses a committed part (for insert / remove / swap: when it can move a
      committed part), `Uncommitted` otherwise.  Whether a `Committed` edit really alters the signed
      message depends on the transaction (writing the value that is already there, swapping two
      inputs that differ only in their scriptSig …): `changes ht i e t` says that some committed part
      of `t` has a different value after the edit; `changedParts` computes those parts.

  Props/C05.lean proves: parts agree on everything committed ⇒ same signature hash; some committed
  part differs ⇒ different hashed message; `Uncommitted` edits never touch a committed part.
  Mathlib-free (linked into btcmodel).
-/
import BtcVerif.Spec.Sighash

namespace BtcVerif.Spec.Commit
open BtcVerif BtcVerif.Spec.Sighash

/-! ### (1) parts and the commitment table -/

inductive Part
  | version | lockTime | witness
  | inCount | outCount
  | prevHash (k : Nat) | prevN (k : Nat) | scriptSig (k : Nat) | sequence (k : Nat)
  | value (k : Nat) | spk (k : Nat)
deriving DecidableEq, Repr

/-- value of a part; `absent` = the list has no such position -/
inductive PVal
  | int (i : Int) | nat (n : Nat) | bytes (b : Bytes) | wit (w : List WitStack) | absent
deriving DecidableEq, Repr

def optNat : Option Nat → PVal
  | some n => .nat n
  | none => .absent
def optInt : Option Int → PVal
  | some n => .int n
  | none => .absent
def optBytes : Option Bytes → PVal
  | some n => .bytes n
  | none => .absent

def Part.get : Part → Tx → PVal
  | .version, t => .int t.nVersion
  | .lockTime, t => .nat t.nLockTime
  | .witness, t => .wit t.wit
  | .inCount, t => .nat t.vin.length
  | .outCount, t => .nat t.vout.length
  | .prevHash k, t => optBytes (t.vin[k]?.map (·.prevout.hash))
  | .prevN k, t => optNat (t.vin[k]?.map (·.prevout.n))
  | .scriptSig k, t => optBytes (t.vin[k]?.map (·.scriptSig))
  | .sequence k, t => optNat (t.vin[k]?.map (·.nSequence))
  | .value k, t => optInt (t.vout[k]?.map (·.nValue))
  | .spk k, t => optBytes (t.vout[k]?.map (·.scriptPubKey))

/-- neither NONE nor SINGLE: SIGHASH_ALL and every undefined value of `ht % 32` -/
def isAll (ht : Nat) : Bool := !isNone ht && !isSingle ht

/-- the commitment table of the legacy signature hash -/
def committed (ht i : Nat) : Part → Bool
  | .version => true
  | .lockTime => true
  | .witness => false
  | .scriptSig _ => false
  | .inCount => !isAnyoneCanPay ht
  | .prevHash k => k == i || !isAnyoneCanPay ht
  | .prevN k => k == i || !isAnyoneCanPay ht
  | .sequence k => k == i || (!isAnyoneCanPay ht && isAll ht)
  | .outCount => isAll ht
  | .value k => isAll ht || (isSingle ht && k == i)
  | .spk k => isAll ht || (isSingle ht && k == i)

/-- the two transactions agree on every part the hash type commits to -/
def Agree (ht i : Nat) (t t' : Tx) : Prop := ∀ p, committed ht i p = true → p.get t' = p.get t

/-- the signature hash is computed from the transaction (not one of the two historical
    "return one" cases): input `i` exists, and under SINGLE output `i` exists -/
def Regular (ht i : Nat) (t : Tx) : Prop :=
  i < t.vin.length ∧ (isSingle ht = true → i < t.vout.length)

instance (ht i : Nat) (t : Tx) : Decidable (Regular ht i t) := by unfold Regular; exact inferInstance

/-- field ranges of the wire format as far as the legacy signature hash reads the transaction:
    nothing is required of the scriptSigs or of the witness (they are not read) -/
def WFc (t : Tx) : Prop :=
  -(2 ^ 31 : Int) ≤ t.nVersion ∧ t.nVersion < 2 ^ 31 ∧
  t.vin.length < 2 ^ 64 ∧ t.vout.length < 2 ^ 64 ∧
  (∀ x ∈ t.vin, Spec.Wire.WFOutPoint x.prevout ∧ x.nSequence < 2 ^ 32) ∧
  (∀ o ∈ t.vout, Spec.Wire.WFTxOut o) ∧
  t.nLockTime < 2 ^ 32

/-! ### (2) the edit catalogue -/

inductive Edit
  | setPrevHash (k : Nat) (h : Bytes)
  | setPrevN (k : Nat) (n : Nat)
  | setScriptSig (k : Nat) (s : Bytes)
  | setSequence (k : Nat) (q : Nat)
  | setValue (k : Nat) (v : Int)
  | setSpk (k : Nat) (s : Bytes)
  | insertInput (k : Nat) (x : TxIn)
  | removeInput (k : Nat)
  | swapInputs (k l : Nat)
  | insertOutput (k : Nat) (o : TxOut)
  | removeOutput (k : Nat)
  | swapOutputs (k l : Nat)
  | setLockTime (n : Nat)
  | setVersion (v : Int)
  | setWitness (w : List WitStack)
deriving DecidableEq, Repr

/-- exchange positions `k` and `l`; nothing happens unless both exist -/
def swapAt {α} (xs : List α) (k l : Nat) : List α :=
  match xs[k]?, xs[l]? with
  | some a, some b => (xs.set k b).set l a
  | _, _ => xs

/-- Python `xs.insert(k, x)` for `k ≥ 0`: a position beyond the end APPENDS -/
def pyInsert {α} (xs : List α) (k : Nat) (x : α) : List α := xs.insertIdx (min k xs.length) x

/-- the edit can be carried out by ordinary Python list mutation: `xs.insert(k, x)` always can (see
    `pyInsert`); `xs[k].field = v`, `del xs[k]` and the swap `xs[k], xs[l] = xs[l], xs[k]` raise
    IndexError when a position does not exist — the edit is then NOT APPLICABLE (positions are
    naturals here; Python's negative positions are outside the catalogue) -/
def applicable : Edit → Tx → Bool
  | .setPrevHash k _, t | .setPrevN k _, t | .setScriptSig k _, t | .setSequence k _, t | .removeInput k, t =>
      k < t.vin.length
  | .setValue k _, t | .setSpk k _, t | .removeOutput k, t => k < t.vout.length
  | .swapInputs k l, t => k < t.vin.length && l < t.vin.length
  | .swapOutputs k l, t => k < t.vout.length && l < t.vout.length
  | _, _ => true

/-- the edited transaction.  Insertion follows `list.insert` (beyond the end: append).  An edit that
    is not `applicable` (Python raises IndexError and the transaction stays as it was) leaves the
    transaction unchanged. -/
def apply : Edit → Tx → Tx
  | .setPrevHash k h, t => { t with vin := t.vin.modify k fun x => { x with prevout := { x.prevout with hash := h } } }
  | .setPrevN k n, t => { t with vin := t.vin.modify k fun x => { x with prevout := { x.prevout with n := n } } }
  | .setScriptSig k s, t => { t with vin := t.vin.modify k fun x => { x with scriptSig := s } }
  | .setSequence k q, t => { t with vin := t.vin.modify k fun x => { x with nSequence := q } }
  | .setValue k v, t => { t with vout := t.vout.modify k fun o => { o with nValue := v } }
  | .setSpk k s, t => { t with vout := t.vout.modify k fun o => { o with scriptPubKey := s } }
  | .insertInput k x, t => { t with vin := pyInsert t.vin k x }
  | .removeInput k, t => { t with vin := t.vin.eraseIdx k }
  | .swapInputs k l, t => { t with vin := swapAt t.vin k l }
  | .insertOutput k o, t => { t with vout := pyInsert t.vout k o }
  | .removeOutput k, t => { t with vout := t.vout.eraseIdx k }
  | .swapOutputs k l, t => { t with vout := swapAt t.vout k l }
  | .setLockTime n, t => { t with nLockTime := n }
  | .setVersion v, t => { t with nVersion := v }
  | .setWitness w, t => { t with wit := w }

/-! ### (3) the table over edits -/

/-- the edit addresses a part the hash type commits to; for insertions, removals and swaps: it can
    move a committed part (it shifts / exchanges positions that are committed) -/
def Committed (ht i : Nat) : Edit → Bool
  | .setPrevHash k _ => committed ht i (.prevHash k)
  | .setPrevN k _ => committed ht i (.prevN k)
  | .setScriptSig _ _ => false
  | .setSequence k _ => committed ht i (.sequence k)
  | .setValue k _ => committed ht i (.value k)
  | .setSpk k _ => committed ht i (.spk k)
  | .insertInput k _ => !isAnyoneCanPay ht || k ≤ i
  | .removeInput k => !isAnyoneCanPay ht || k ≤ i
  | .swapInputs k l => k != l && (!isAnyoneCanPay ht || k == i || l == i)
  | .insertOutput k _ => isAll ht || (isSingle ht && k ≤ i)
  | .removeOutput k => isAll ht || (isSingle ht && k ≤ i)
  | .swapOutputs k l => k != l && (isAll ht || (isSingle ht && (k == i || l == i)))
  | .setLockTime _ => true
  | .setVersion _ => true
  | .setWitness _ => false

/-- the edit is confined to parts the hash type leaves uncommitted -/
def Uncommitted (ht i : Nat) (e : Edit) : Bool := !Committed ht i e

/-- side condition of the table row for insertions: the row "inserting after position `i` is
    uncommitted" reads the insert position literally; a position beyond the end appends, which is
    after position `i` only if input / output `i` exists.  (When it does not, the signature hash is
    in its "return one" case and an appended element can create position `i`.) -/
def insertSafe (i : Nat) : Edit → Tx → Bool
  | .insertInput k _, t => k ≤ t.vin.length || i < t.vin.length
  | .insertOutput k _, t => k ≤ t.vout.length || i < t.vout.length
  | _, _ => true

/-- an edit that writes one committable field: of an input, of an output, nLockTime or nVersion -/
def isFieldSet : Edit → Bool
  | .setPrevHash .. | .setPrevN .. | .setSequence .. | .setValue .. | .setSpk .. => true
  | .setLockTime _ | .setVersion _ => true
  | _ => false

/-- the edit gives some committed part of `t` a different value -/
def changes (ht i : Nat) (e : Edit) (t : Tx) : Prop :=
  ∃ p, committed ht i p = true ∧ p.get (apply e t) ≠ p.get t

/-- all parts of a transaction with at most `n` inputs and at most `n` outputs -/
def allParts (n : Nat) : List Part :=
  [.version, .lockTime, .witness, .inCount, .outCount] ++
  (List.range n).flatMap fun k => [.prevHash k, .prevN k, .scriptSig k, .sequence k, .value k, .spk k]

/-- the committed parts on which `t` and `t'` differ -/
def changedParts (ht i : Nat) (t t' : Tx) : List Part :=
  (allParts (max (max t.vin.length t'.vin.length) (max t.vout.length t'.vout.length))).filter
    fun p => committed ht i p && p.get t' != p.get t

end BtcVerif.Spec.Commit
