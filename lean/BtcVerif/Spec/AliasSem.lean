/-
  C09 — value semantics with explicit aliasing: the reference side for the extended catalogue
  (audit F4: operations whose argument is a REFERENCE to an existing object or list).

  * An instance of an immutable class has no identity here: it is its value (`Ref.val v`).
    Everything the library's `from_*` operations and constructors of immutable classes create is a value.
  * An instance of a mutable class (`CMutableTransaction`, `CMutableTxIn`, `CMutableOutPoint`,
    `CMutableTxOut`, a Python `list` used as `vin`/`vout`) is a *cell*: its own value slots plus
    references, each of which is a value or another cell.  Sharing exists exactly where a reference to
    the same cell was stored twice by an operation of the caller — it is explicit in the store.
  * No caches: identifiers, `hash()` and `==` are computed from the value a reference currently
    evaluates to (`evalRef`), every time.
  * `snapshot` (`CX.from_x`) evaluates and binds the value; `mutCopy` (`CMutableX.from_x`) evaluates
    and builds fresh cells for all mutable parts: by construction a copy shares no cell with anything
    that existed before.  `RawSignatureHash`/`VerifyScript` do not change the store.

  `Scalars`/`assemble`/`applySc` (class + value slots of one object, and how an object's value is put
  together from its slots and the values of its parts) are shared with the heap model; the observables
  are the same functions as in `Spec.ValueSem` (`serVal`, `identOf`, `txidOf`, `eqVals`, `validCtor`, …).
  Mathlib-free.
-/
import BtcVerif.Spec.ValueSem

namespace BtcVerif.Spec.AliasSem
open BtcVerif BtcVerif.Spec.ValueSem

/-! ### the extended catalogue -/

inductive OpX
  /-- the operations of `Spec.ValueSem.Op` (arguments are fresh values) -/
  | base (op : Op)
  /-- `target.<reference attribute #slot> = <object at src>`:
      `txin.prevout = o` (slot 0 of an input), `tx.vin = l` / `tx.vout = l` / `tx.wit = w` (slots 0/1/2) -/
  | assignRef (t : Target) (slot : Nat) (src : Target)
  /-- `txin.prevout = CMutableOutPoint(h, n)` -/
  | setPrevout (t : Target) (v : OutPoint)
  /-- `lst.append(<object at src>)` for a `vin`/`vout` list -/
  | appendRef (l : Target) (src : Target)
  /-- `lst[i] = <object at src>` -/
  | replaceRef (l : Target) (i : Nat) (src : Target)
  /-- `CMutableTransaction(<vin object>, <vout object>, lock, ver[, <witness object>])` — the
      constructor stores the sequences it is given; `wit = none`: the default `witness=None` -/
  | newTxFrom (vin vout : Target) (lock : Nat) (ver : Int) (wit : Option Target)
  /-- `CMutableTransaction([CMutableTxIn(…)…], [CMutableTxOut(…)…], lock, ver)` with the default
      `witness=None` (`v.wit` is ignored) -/
  | newTxDefault (v : Tx)
  /-- `CMutableTxIn(<outpoint object> | None, script, seq)` -/
  | newTxInFrom (prevout : Option Target) (script : Bytes) (seq : Nat)
  /-- `CTxIn(<outpoint object> | <default COutPoint()>, script, seq)`: an immutable class keeps an
      immutable copy of what it is given (`COutPoint.from_outpoint(prevout)`), never the caller's object (D23) -/
  | newCTxInFrom (prevout : Option Target) (script : Bytes) (seq : Nat)
  /-- `w.vtxinwit[i] = CTxInWitness(CScriptWitness(st))` (`i = some _`) / `w.vtxinwit.append(…)` (`i = none`)
      for a `CTxWitness` object `w`: `vtxinwit` of an immutable-class object is a tuple whatever sequence the
      constructor was given (`tuple(vtxinwit)`, D23) -/
  | witListEdit (t : Target) (i : Option Nat) (st : WitStack)
  /-- `iw.scriptWitness.stack[j] = b` / `iw.scriptWitness.stack.append(b)` for a `CTxInWitness` object `iw` -/
  | stackEdit (t : Target) (j : Option Nat) (b : Bytes)
  /-- `blk.get_header()` / `CBlockHeader(<the six header fields of the header or block at t>)` -/
  | newHeaderFrom (t : Target)
  /-- `CBlock(<the six header fields of the header or block at t>, vtx=[<roots>])`: same header fields
      (explicit `hashMerkleRoot`), another transaction list (possibly none) -/
  | newBlockFrom (t : Target) (txs : List Nat)
deriving Repr

/-! ### cells -/

inductive Ref
  | val (v : Val)
  | cell (c : Nat)
deriving DecidableEq, Repr

structure Cell where
  sc : Scalars
  refs : List Ref
deriving Repr

structure XStore where
  cells : List Cell
  names : List (Option Ref)
  /-- the sequence cells that are Python tuples (holding at least one mutable element): not editable -/
  tups : List Nat := []
deriving Repr

def init : XStore := { cells := [], names := [] }

def fuel : Nat := 8

/-- the value a reference currently denotes -/
def evalRef : Nat → List Cell → Ref → Option Val
  | _, _, .val v => some v
  | 0, _, .cell _ => none
  | f + 1, cs, .cell c =>
    match cs[c]? with
    | none => none
    | some cell => (mapO (evalRef f cs) cell.refs).bind (assemble cell.sc)

def eval (cs : List Cell) (r : Ref) : Option Val := evalRef fuel cs r

def Ref.isMut : Ref → Bool
  | .val _ => false
  | .cell _ => true

def refKind (cs : List Cell) : Ref → Option Nat
  | .val v => some (valKind v)
  | .cell c => (cs[c]?).map (·.sc.kind)

def childRef (cs : List Cell) : Ref → Nat → Option Ref
  | .val v, i => (v.child i).map .val
  | .cell c, i => (cs[c]?).bind (·.refs[i]?)

def resolveRef (cs : List Cell) : Ref → List Nat → Option Ref
  | r, [] => some r
  | r, i :: p => (childRef cs r i).bind (resolveRef cs · p)

def XStore.root (s : XStore) (r : Nat) : Option Ref := (s.names[r]?).join

def XStore.target (s : XStore) (t : Target) : Option Ref := (s.root t.root).bind (resolveRef s.cells · t.path)

def XStore.bind (s : XStore) (cs : List Cell) (n : Option Ref) : XStore :=
  { s with cells := cs, names := s.names ++ [n] }
def XStore.skip (s : XStore) : XStore := s.bind s.cells none

/-! ### fresh cells for a value (what the constructors of the mutable classes build) -/

def allocCell (cs : List Cell) (c : Cell) : List Cell × Ref := (cs ++ [c], .cell cs.length)

def allocOutPoint (cs : List Cell) (o : OutPoint) : List Cell × Ref := allocCell cs ⟨.outpoint o.hash o.n, []⟩

def allocTxIn (cs : List Cell) (i : TxIn) : List Cell × Ref :=
  let r := allocOutPoint cs i.prevout
  allocCell r.1 ⟨.txin i.scriptSig i.nSequence, [r.2]⟩

def allocTxOut (cs : List Cell) (o : TxOut) : List Cell × Ref := allocCell cs ⟨.txout o.nValue o.scriptPubKey, []⟩

def allocMany {α : Type} (f : List Cell → α → List Cell × Ref) : List Cell → List α → List Cell × List Ref
  | cs, [] => (cs, [])
  | cs, x :: xs =>
    let r1 := f cs x
    let r2 := allocMany f r1.1 xs
    (r2.1, r1.2 :: r2.2)

def allocIns (cs : List Cell) (l : List TxIn) : List Cell × Ref :=
  let r := allocMany allocTxIn cs l
  allocCell r.1 ⟨.seq .ins, r.2⟩

def allocOuts (cs : List Cell) (l : List TxOut) : List Cell × Ref :=
  let r := allocMany allocTxOut cs l
  allocCell r.1 ⟨.seq .outs, r.2⟩

/-- `CMutableTransaction` from fresh mutable parts; the witness is a value -/
def allocTx (cs : List Cell) (t : Tx) (w : List WitStack) : List Cell × Ref :=
  let r1 := allocIns cs t.vin
  let r2 := allocOuts r1.1 t.vout
  allocCell r2.1 ⟨.tx t.nVersion t.nLockTime, [r1.2, r2.2, .val (.wit w)]⟩

/-- the mutable deep copy of a value (`CMutableX.from_x`) -/
def allocMutable (cs : List Cell) : Val → Option (List Cell × Ref)
  | .outpoint o => some (allocOutPoint cs o)
  | .txin i => some (allocTxIn cs i)
  | .txout o => some (allocTxOut cs o)
  | .tx t => some (allocTx cs t t.wit)
  | _ => none

/-! ### one step -/

def entryOf (s : XStore) (r : Nat) : Option (Entry × Tx) :=
  match s.root r with
  | none => none
  | some rf =>
    match eval s.cells rf with
    | some (.tx t) => some (⟨rf.isMut, .tx t⟩, t)
    | _ => none

/-- the transaction cell at a root: its three references -/
def txCell (s : XStore) (r : Nat) : Option (Option (Nat × Cell × Ref × Ref × Ref)) :=
  -- outer none: no such name; inner none: an immutable transaction (a value)
  match s.root r with
  | none => none
  | some (.val _) => some none
  | some (.cell c) =>
    match s.cells[c]? with
    | some cell =>
      match cell.sc, cell.refs with
      | .tx _ _, [vi, vo, w] => some (some (c, cell, vi, vo, w))
      | _, _ => some none
    | none => none

def setCellRefs (cs : List Cell) (c : Nat) (refs : List Ref) : List Cell :=
  match cs[c]? with
  | some cell => cs.set c { cell with refs := refs }
  | none => cs

def rootIsTx (s : XStore) (r : Nat) : Option Bool :=
  (s.root r).map fun rf => match eval s.cells rf with
    | some (.tx _) => true
    | _ => false

/-- edits of a transaction root: `k` gets the cell index and its references when the root is a
    mutable transaction; an immutable transaction yields `immErr` (after the right-hand side was built) -/
def withTxX (s : XStore) (r : Nat) (rhsOk : Bool) (immErr : Exc)
    (k : Nat → Cell → Ref → Ref → Ref → XStore × Out) : XStore × Out :=
  match rootIsTx s r with
  | none => (s.skip, .badRef)
  | some false => (s.skip, .na)
  | some true =>
    if !rhsOk then (s.skip, .err .valueerr)
    else match txCell s r with
      | some (some (c, cell, vi, vo, w)) => k c cell vi vo w
      | _ => (s.skip, .err immErr)

/-- store into the list a reference denotes: a value (tuple) raises `immErr` -/
def withListX (s : XStore) (l : Ref) (immErr : Exc) (f : List Ref → Except Exc (List Cell × List Ref)) :
    XStore × Out :=
  match l with
  | .val _ => (s.skip, .err immErr)
  | .cell c =>
    match s.cells[c]? with
    | none => (s.skip, .badRef)
    | some cell =>
      if s.tups.contains c then (s.skip, .err immErr)
      else match f cell.refs with
        | .error e => (s.skip, .err e)
        | .ok (cs, items) => (s.bind (setCellRefs cs c items) none, .done)

def observeX (s : XStore) (t : Target) (f : Ref → Val → Out) : XStore × Out :=
  match s.target t with
  | none => (s.skip, .badRef)
  | some r =>
    match eval s.cells r with
    | none => (s.skip, .badRef)
    | some v => (s.skip, if v.isSeq then .na else f r v)

def stepBase (s : XStore) : Op → XStore × Out
  | .newTx v =>
      if validTx v then
        let r := allocTx s.cells v v.wit
        (s.bind r.1 (some r.2), .created)
      else (s.skip, .err .valueerr)
  | .newCTx v =>
      if validTx v then (s.bind s.cells (some (.val (.tx v))), .created) else (s.skip, .err .valueerr)
  | .newHeader v =>
      if v.hashPrevBlock.length = 32 ∧ v.hashMerkleRoot.length = 32 then
        (s.bind s.cells (some (.val (.header v))), .created)
      else (s.skip, .err assertionError)
  | .newBlock hdr txs =>
      match mapO (entryOf s) txs with
      | none => (s.skip, .badRef)
      | some es =>
        match newBlockVal hdr es with
        | .ok b => (s.bind s.cells (some (.val (.block b))), .created)
        | .error x => (s.skip, .err x)
  | .snapshot t =>
      match s.target t with
      | none => (s.skip, .badRef)
      | some r =>
        match eval s.cells r with
        | none => (s.skip, .badRef)
        | some v =>
          match v with
          | .outpoint _ | .txin _ | .txout _ | .tx _ | .inwit _ | .wit _ =>
            if !r.isMut then (s.bind s.cells (some r), .created)
            else if validCtor v then (s.bind s.cells (some (.val v)), .created)
            else (s.skip, .err .valueerr)
          | _ => (s.skip, .na)
  | .mutCopy t =>
      match s.target t with
      | none => (s.skip, .badRef)
      | some r =>
        match eval s.cells r with
        | none => (s.skip, .badRef)
        | some v =>
          match allocMutable s.cells v with
          | none => (s.skip, .na)
          | some (cs, r') =>
            if validCtor v then (s.bind cs (some r'), .created) else (s.skip, .err .valueerr)
  | .assign t f =>
      match s.target t with
      | none => (s.skip, .badRef)
      | some r =>
        match eval s.cells r with
        | none => (s.skip, .badRef)
        | some v =>
          if v.isSeq then (s.skip, .na)
          else match r with
            | .val _ => (s.skip, .err attributeError)
            | .cell c =>
              match s.cells[c]? with
              | none => (s.skip, .badRef)
              | some cell =>
                match applySc f cell.sc with
                | none => (s.skip, .err attributeError)
                | some sc' => (s.bind (s.cells.set c { cell with sc := sc' }) none, .done)
  | .delAttr t =>
      match s.target t with
      | none => (s.skip, .badRef)
      | some r =>
        match eval s.cells r with
        | none => (s.skip, .badRef)
        | some v =>
          if v.isSeq then (s.skip, .na)
          else if !r.isMut then (s.skip, .err attributeError)
          else (s.skip, .na)
  | .setVin r l => withTxX s r (l.all validTxIn) attributeError fun c _ _ vo w =>
      let a := allocIns s.cells l
      (s.bind (setCellRefs a.1 c [a.2, vo, w]) none, .done)
  | .setVout r l => withTxX s r true attributeError fun c _ vi _ w =>
      let a := allocOuts s.cells l
      (s.bind (setCellRefs a.1 c [vi, a.2, w]) none, .done)
  | .appendIn r v => withTxX s r true attributeError fun _ _ vi _ _ =>
      withListX s vi attributeError fun items =>
        if validTxIn v then
          let a := allocTxIn s.cells v
          .ok (a.1, items ++ [a.2])
        else .error .valueerr
  | .replaceIn r i v => withTxX s r (validTxIn v) typeError fun _ _ vi _ _ =>
      withListX s vi typeError fun items =>
        if i < items.length then
          let a := allocTxIn s.cells v
          .ok (a.1, items.set i a.2)
        else .error indexError
  | .removeIn r i => withTxX s r true typeError fun _ _ vi _ _ =>
      withListX s vi typeError fun items =>
        if i < items.length then .ok (s.cells, items.eraseIdx i) else .error indexError
  | .appendOut r v => withTxX s r true attributeError fun _ _ _ vo _ =>
      withListX s vo attributeError fun items =>
        let a := allocTxOut s.cells v
        .ok (a.1, items ++ [a.2])
  | .replaceOut r i v => withTxX s r true typeError fun _ _ _ vo _ =>
      withListX s vo typeError fun items =>
        if i < items.length then
          let a := allocTxOut s.cells v
          .ok (a.1, items.set i a.2)
        else .error indexError
  | .removeOut r i => withTxX s r true typeError fun _ _ _ vo _ =>
      withListX s vo typeError fun items =>
        if i < items.length then .ok (s.cells, items.eraseIdx i) else .error indexError
  | .setWit r w => withTxX s r true attributeError fun c _ vi vo _ =>
      (s.bind (setCellRefs s.cells c [vi, vo, .val (.wit w)]) none, .done)
  | .ser t => observeX s t fun _ v => .bytes (serVal v)
  | .getHash t => observeX s t fun _ v => .bytes (identOf v)
  | .txid t => observeX s t fun _ v => match v with
      | .tx x => .bytes (txidOf x)
      | _ => .na
  | .pyHash t => observeX s t fun _ v => .bytes (pyHashOf v)
  | .eq a b =>
      match s.target a, s.target b with
      | some ra, some rb =>
        match eval s.cells ra, eval s.cells rb with
        | some va, some vb =>
          if va.isSeq || vb.isSeq then (s.skip, .na)
          else (s.skip, .bool (eqVals ra.isMut va rb.isMut vb))
        | _, _ => (s.skip, .badRef)
      | _, _ => (s.skip, .badRef)
  | .sighash r _ _ _ | .sighashW r _ _ | .verify r _ _ =>
      match rootIsTx s r with
      | none => (s.skip, .badRef)
      | some false => (s.skip, .na)
      | some true => (s.skip, .done)

/-- the element class a `vin`/`vout` sequence holds -/
def elemKind : Nat → Option Nat
  | 8 => some 1
  | 9 => some 2
  | _ => none

def stepX (s : XStore) : OpX → XStore × Out
  | .base op => stepBase s op
  | .assignRef t slot src =>
      match s.target t, s.target src with
      | some r, some rs =>
        match eval s.cells r with
        | none => (s.skip, .badRef)
        | some v =>
          if v.isSeq then (s.skip, .na)
          else match childRef s.cells r slot with
            | none => (s.skip, .na)
            | some cur =>
              if refKind s.cells cur ≠ refKind s.cells rs then (s.skip, .na)
              else match r with
                | .val _ => (s.skip, .err attributeError)
                | .cell c =>
                  match s.cells[c]? with
                  | none => (s.skip, .badRef)
                  | some cell => (s.bind (s.cells.set c { cell with refs := cell.refs.set slot rs }) none, .done)
      | _, _ => (s.skip, .badRef)
  | .setPrevout t v =>
      match s.target t with
      | none => (s.skip, .badRef)
      | some r =>
        if refKind s.cells r ≠ some 1 then (s.skip, .na)
        else if !validOutPoint v then (s.skip, .err .valueerr)
        else match r with
          | .val _ => (s.skip, .err attributeError)
          | .cell c =>
            match s.cells[c]? with
            | none => (s.skip, .badRef)
            | some cell =>
              let a := allocOutPoint s.cells v
              (s.bind (a.1.set c { cell with refs := [a.2] }) none, .done)
  | .appendRef l src =>
      match s.target l, s.target src with
      | some rl, some rs =>
        match (refKind s.cells rl).bind elemKind with
        | none => (s.skip, .na)
        | some ek =>
          if refKind s.cells rs ≠ some ek then (s.skip, .na)
          else withListX s rl attributeError fun items => .ok (s.cells, items ++ [rs])
      | _, _ => (s.skip, .badRef)
  | .replaceRef l i src =>
      match s.target l, s.target src with
      | some rl, some rs =>
        match (refKind s.cells rl).bind elemKind with
        | none => (s.skip, .na)
        | some ek =>
          if refKind s.cells rs ≠ some ek then (s.skip, .na)
          else withListX s rl typeError fun items =>
            if i < items.length then .ok (s.cells, items.set i rs) else .error indexError
      | _, _ => (s.skip, .badRef)
  | .newTxFrom vin vout lock ver wit =>
      match s.target vin, s.target vout, wit.map s.target with
      | some rvi, some rvo, w =>
        if refKind s.cells rvi ≠ some 8 || refKind s.cells rvo ≠ some 9 then (s.skip, .na)
        else match w with
          | some none => (s.skip, .badRef)
          | some (some rw) =>
            if refKind s.cells rw ≠ some 4 then (s.skip, .na)
            else if lock ≤ 0xffffffff then
              let a := allocCell s.cells ⟨.tx ver lock, [rvi, rvo, rw]⟩
              (s.bind a.1 (some a.2), .created)
            else (s.skip, .err .valueerr)
          | none =>
            if lock ≤ 0xffffffff then
              match eval s.cells rvi with
              | some (.ins l) =>
                let a := allocCell s.cells
                  ⟨.tx ver lock, [rvi, rvo, .val (.wit (List.replicate l.length []))]⟩
                (s.bind a.1 (some a.2), .created)
              | _ => (s.skip, .badRef)
            else (s.skip, .err .valueerr)
      | _, _, _ => (s.skip, .badRef)
  | .newTxDefault v =>
      if validTx v then
        let r := allocTx s.cells v (List.replicate v.vin.length [])
        (s.bind r.1 (some r.2), .created)
      else (s.skip, .err .valueerr)
  | .newTxInFrom prevout script seq =>
      match prevout.map s.target with
      | some none => (s.skip, .badRef)
      | some (some rp) =>
        if refKind s.cells rp ≠ some 0 then (s.skip, .na)
        else if seq ≤ 0xffffffff then
          let a := allocCell s.cells ⟨.txin script seq, [rp]⟩
          (s.bind a.1 (some a.2), .created)
        else (s.skip, .err .valueerr)
      | none =>
        if seq ≤ 0xffffffff then
          let p := allocOutPoint s.cells ⟨List.replicate 32 0, 0xffffffff⟩
          let a := allocCell p.1 ⟨.txin script seq, [p.2]⟩
          (s.bind a.1 (some a.2), .created)
        else (s.skip, .err .valueerr)
  | .newCTxInFrom prevout script seq =>
      match prevout.map s.target with
      | some none => (s.skip, .badRef)
      | some (some rp) =>
        if refKind s.cells rp ≠ some 0 then (s.skip, .na)
        else if seq ≤ 0xffffffff then
          match eval s.cells rp with
          | some (.outpoint o) =>
            -- `COutPoint.from_outpoint`: a mutable argument is re-validated by the constructor of the copy
            if !rp.isMut || validOutPoint o then
              (s.bind s.cells (some (.val (.txin { prevout := o, scriptSig := script, nSequence := seq }))), .created)
            else (s.skip, .err .valueerr)
          | _ => (s.skip, .badRef)
        else (s.skip, .err .valueerr)
      | none =>
        if seq ≤ 0xffffffff then
          (s.bind s.cells (some (.val (.txin { prevout := ⟨List.replicate 32 0, 0xffffffff⟩, scriptSig := script,
                                               nSequence := seq }))), .created)
        else (s.skip, .err .valueerr)
  | .witListEdit t i _ =>
      match s.target t with
      | none => (s.skip, .badRef)
      | some r =>
        if refKind s.cells r ≠ some 4 then (s.skip, .na)
        else (s.skip, .err (if i.isSome then typeError else attributeError))
  | .stackEdit t j _ =>
      match s.target t with
      | none => (s.skip, .badRef)
      | some r =>
        if refKind s.cells r ≠ some 3 then (s.skip, .na)
        else (s.skip, .err (if j.isSome then typeError else attributeError))
  | .newHeaderFrom t =>
      match s.target t with
      | none => (s.skip, .badRef)
      | some r =>
        match eval s.cells r with
        | some (.header h) => stepBase s (.newHeader h)
        | some (.block b) => stepBase s (.newHeader b.hdr)
        | some _ => (s.skip, .na)
        | none => (s.skip, .badRef)
  | .newBlockFrom t txs =>
      match s.target t with
      | none => (s.skip, .badRef)
      | some r =>
        match eval s.cells r with
        | some (.header h) => stepBase s (.newBlock h txs)
        | some (.block b) => stepBase s (.newBlock b.hdr txs)
        | some _ => (s.skip, .na)
        | none => (s.skip, .badRef)

def runX : XStore → List OpX → XStore × List Out
  | s, [] => (s, [])
  | s, op :: ops =>
      let r1 := stepX s op
      let r2 := runX r1.1 ops
      (r2.1, r1.2 :: r2.2)

/-! ### container kinds (T2 only): sequences given as list / tuple / iterator / subclass -/

inductive OpY
  | x (op : OpX)
  /-- `[e₁,…]` (`isList`) or `(e₁,…)` of existing inputs (`outs = false`) / outputs, bound to a name;
      subclasses of `list`/`tuple` behave alike -/
  | mkSeq (outs : Bool) (isList : Bool) (items : List Target)
  /-- `CTransaction(<vin sequence>, <vout sequence>, lock, ver[, <witness>])`: the constructor iterates its
      arguments (any iterable: list, tuple, iterator, subclass) and takes an immutable copy of every element -/
  | newCTxFrom (vin vout : Target) (lock : Nat) (ver : Int) (wit : Option Target)
deriving Repr

def itemVals (cs : List Cell) (rs : List Ref) : Option (List Val) := mapO (eval cs) rs

def stepY (s : XStore) : OpY → XStore × Out
  | .x op => stepX s op
  | .mkSeq outs isList items =>
      match mapO s.target items with
      | none => (s.skip, .badRef)
      | some rs =>
        let ek := if outs then 2 else 1
        if rs.any (fun r => refKind s.cells r != some ek) then (s.skip, .na)
        else if !isList && rs.all (fun r => !r.isMut) then
          -- a tuple of immutable objects is a value
          match itemVals s.cells rs with
          | none => (s.skip, .badRef)
          | some vs =>
            let v : Option Val := if outs then (mapO asTxOut vs).map .outs else (mapO asTxIn vs).map .ins
            match v with
            | some v => (s.bind s.cells (some (.val v)), .created)
            | none => (s.skip, .badRef)
        else
          let a := allocCell s.cells ⟨.seq (if outs then .outs else .ins), rs⟩
          let s' := if isList then s else { s with tups := s.cells.length :: s.tups }
          (s'.bind a.1 (some a.2), .created)
  | .newCTxFrom vin vout lock ver wit =>
      match s.target vin, s.target vout, wit.map s.target with
      | some rvi, some rvo, w =>
        if refKind s.cells rvi ≠ some 8 || refKind s.cells rvo ≠ some 9 then (s.skip, .na)
        else
          let wv : Option (Option Val) := match w with
            | none => some (some (.wit []))
            | some none => none
            | some (some rw) => if refKind s.cells rw ≠ some 4 then some none else (eval s.cells rw).map some
          match wv with
          | none => (s.skip, .badRef)
          | some none => (s.skip, .na)
          | some (some (.wit ws)) =>
            if lock ≤ 0xffffffff then
              match eval s.cells rvi, eval s.cells rvo with
              | some (.ins li), some (.outs lo) =>
                -- `CTxIn.from_txin` validates the mutable elements it copies
                let mutItemsOk : Bool :=
                  match rvi with
                  | .val _ => true
                  | .cell c =>
                    match s.cells[c]? with
                    | none => true
                    | some cell => (cell.refs.zip li).all fun (r, i) => !r.isMut || validTxIn i
                if mutItemsOk then
                  (s.bind s.cells (some (.val (.tx { nVersion := ver, vin := li, vout := lo, wit := ws, nLockTime := lock }))),
                    .created)
                else (s.skip, .err .valueerr)
              | _, _ => (s.skip, .badRef)
            else (s.skip, .err .valueerr)
          | some (some _) => (s.skip, .badRef)
      | _, _, _ => (s.skip, .badRef)

end BtcVerif.Spec.AliasSem
