/-
  C10 — Base58 / Base58Check: reference definitions ("the big-integer definition of base58").

  A byte string `b` with `z` leading zero bytes and big-endian value `n` is written as `z` copies of
  the zero digit '1' followed by the base-58 numeral of `n` over the alphabet (most significant
  digit first; the number zero has no digits).  Decoding is the inverse on strings over the
  alphabet.  A Base58Check string carries `version ‖ payload ‖ check` with
  `check = first four bytes of H(version ‖ payload)`.

  Strings are `List Char` (the driver converts).  Mathlib-free (linked into btcmodel).
  The alphabet is tied to /repo by T1 (`Tables/Base58.lean`).
-/
import BtcVerif.Basic.Bytes

namespace BtcVerif.Spec.Base58

/-- the Bitcoin base58 alphabet: digits and letters without `0 O I l` -/
def alphabet : String := "123456789ABCDEFGHJKLMNPQRSTUVWXYZabcdefghijkmnopqrstuvwxyz"

def alphabetChars : List Char := alphabet.toList

theorem alphabetChars_length : alphabetChars.length = 58 := by decide

/-- the character of digit `n mod 58` -/
def digitChar (n : Nat) : Char :=
  alphabetChars[n % 58]'(by rw [alphabetChars_length]; exact Nat.mod_lt _ (by decide))

/-- the digit value of a character; `none` outside the alphabet -/
def charDigit? (c : Char) : Option Nat := alphabetChars.idxOf? c

/-- base-58 numeral of `n` over the alphabet, most significant digit first; zero has no digits -/
def numeral58 (n : Nat) : List Char :=
  if _h : n = 0 then [] else numeral58 (n / 58) ++ [digitChar n]
decreasing_by omega

/-- value of a base-58 numeral (leading zero digits allowed); `none` if a character is outside the
    alphabet -/
def value58 : List Char → Option Nat
  | s => s.foldl (fun acc c => match acc, charDigit? c with
                    | some a, some d => some (a * 58 + d)
                    | _, _ => none) (some 0)

/-- minimal big-endian byte string of `n`; zero is the empty string -/
def bytesBE (n : Nat) : Bytes :=
  if _h : n = 0 then [] else bytesBE (n / 256) ++ [UInt8.ofNat (n % 256)]
decreasing_by omega

/-- number of leading zero bytes -/
def leadingZeros (b : Bytes) : Nat := (b.takeWhile (· == 0)).length

/-- number of leading '1' characters -/
def leadingOnes (s : List Char) : Nat := (s.takeWhile (· == '1')).length

/-- reference encoder -/
def enc (b : Bytes) : List Char :=
  List.replicate (leadingZeros b) '1' ++ numeral58 (beNat b)

/-- reference decoder: defined exactly on the strings over the alphabet -/
def dec (s : List Char) : Option Bytes :=
  (value58 s).map fun n => List.replicate (leadingOnes s) (0 : UInt8) ++ bytesBE n

/-- The Base58Check rule: `k` is `version ‖ payload ‖ check` where `check` has four bytes and equals
    the first four bytes of `H (version ‖ payload)`.  (So `k` has at least five bytes.) -/
def CheckRule (H : Bytes → Bytes) (v : UInt8) (payload k : Bytes) : Prop :=
  ∃ c : Bytes, k = v :: payload ++ c ∧ c.length = 4 ∧ c = (H (v :: payload)).take 4

/-- executable form of the rule: split `k` or refuse -/
def checkSplit? (H : Bytes → Bytes) (k : Bytes) : Option (UInt8 × Bytes) :=
  match k with
  | [] => none
  | v :: rest =>
    if rest.length < 4 then none
    else
      let payload := rest.take (rest.length - 4)
      let c := rest.drop (rest.length - 4)
      if c = (H (v :: payload)).take 4 then some (v, payload) else none

/-- reference text form of (version, payload) -/
def checkEnc (H : Bytes → Bytes) (v : UInt8) (payload : Bytes) : List Char :=
  enc (v :: payload ++ (H (v :: payload)).take 4)

end BtcVerif.Spec.Base58
