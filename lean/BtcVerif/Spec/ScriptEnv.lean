/-
  Parameters shared by the reference interpreter (Spec/ScriptRef) and the model of
  scripteval.py (Model/ScriptEval): the verification flags the library implements and the
  cryptographic primitives, which both sides use as opaque functions (DESIGN §4).  Mathlib-free.
-/
import BtcVerif.Basic.Bytes

namespace BtcVerif.Spec.Script

/-- the SCRIPT_VERIFY_* flags python-bitcoinlib implements -/
structure Flags where
  p2sh : Bool := false
  nullDummy : Bool := false
  cleanStack : Bool := false
  discourageNops : Bool := false
deriving DecidableEq, Repr

/-- Bitcoin Core asserts `CLEANSTACK ⇒ P2SH`; these are the 12 flag sets of the property's domain -/
def Flags.admissible (f : Flags) : Bool := !f.cleanStack || f.p2sh

def Flags.all : List Flags :=
  [false, true].flatMap fun a => [false, true].flatMap fun b => [false, true].flatMap fun c =>
    [false, true].map fun d => { p2sh := a, nullDummy := b, cleanStack := c, discourageNops := d }

/-- the three hash primitives (RIPEMD-160, SHA-1, SHA-256); HASH160/HASH256 are compositions -/
structure Hashes where
  sha1 : Bytes → Bytes
  ripemd160 : Bytes → Bytes
  sha256 : Bytes → Bytes

def Hashes.hash160 (h : Hashes) (x : Bytes) : Bytes := h.ripemd160 (h.sha256 x)
def Hashes.hash256 (h : Hashes) (x : Bytes) : Bytes := h.sha256 (h.sha256 x)

/-- `sigCheck sigBody pubkey scriptCode hashType`: the legacy signature hash of the spending
    transaction/input (fixed, hidden in the closure) for `scriptCode` and `hashType`, verified with
    ECDSA over secp256k1 against `pubkey` (SEC1) and `sigBody` (DER, hash-type byte removed). -/
abbrev SigCheck := Bytes → Bytes → Bytes → Nat → Bool

structure Env where
  hashes : Hashes
  sigCheck : SigCheck

end BtcVerif.Spec.Script
