/-
  C19 — reference definitions for the RPC proxy.

  * amounts: a JSON number text is sign, integer digits, optional fraction digits, optional exponent;
    it denotes sign · (int.frac) · 10^exp.  "denotes k satoshis" = that value times 10^8 equals k,
    stated over integers (no rounding anywhere).
  * hashes: Bitcoin Core prints a uint256 as the hex of its bytes in reverse order.
  * JSON-RPC error codes and the exception classes registered for them (T1 table).

  Mathlib-free.
-/
import BtcVerif.Basic.Bytes

namespace BtcVerif.Spec.Rpc

def COIN : Nat := 100000000

/-! ### JSON number texts -/

def isDigit (c : Char) : Bool := '0' ≤ c && c ≤ '9'

/-- value of a string of decimal digits -/
def digitsVal (ds : List Char) : Nat := ds.foldl (fun acc c => acc * 10 + (c.toNat - 48)) 0

/-- the components of a JSON number (RFC 8259 §6) -/
structure NumText where
  neg : Bool
  intDigits : List Char
  frac : Option (List Char)
  exp : Option (Char × Option Char × List Char)     -- 'e'|'E', optional sign, digits
deriving DecidableEq, Repr

def NumText.WF (t : NumText) : Prop :=
  t.intDigits ≠ [] ∧ (∀ c ∈ t.intDigits, isDigit c = true) ∧ (t.intDigits = ['0'] ∨ t.intDigits.head? ≠ some '0') ∧
  (∀ f, t.frac = some f → f ≠ [] ∧ ∀ c ∈ f, isDigit c = true) ∧
  (∀ m s ds, t.exp = some (m, s, ds) → (m = 'e' ∨ m = 'E') ∧ (s = none ∨ s = some '+' ∨ s = some '-') ∧
      ds ≠ [] ∧ ∀ c ∈ ds, isDigit c = true)

def fracText : Option (List Char) → List Char
  | none => []
  | some f => '.' :: f

def expSignText : Option Char → List Char
  | none => []
  | some c => [c]

def expText : Option (Char × Option Char × List Char) → List Char
  | none => []
  | some (m, s, ds) => m :: (expSignText s ++ ds)

def NumText.render (t : NumText) : List Char :=
  (if t.neg then ['-'] else []) ++ (t.intDigits ++ (fracText t.frac ++ expText t.exp))

/-- coefficient and exponent: the text denotes  ±coeff · 10^expo -/
def NumText.coeff (t : NumText) : Nat := digitsVal (t.intDigits ++ (t.frac.getD []))

def NumText.expo (t : NumText) : Int :=
  (match t.exp with
   | none => 0
   | some (_, s, ds) => if s = some '-' then -(digitsVal ds : Int) else (digitsVal ds : Int))
  - ((t.frac.getD []).length : Int)

/-- `±c · 10^e = k / 10^8`, over the integers: `c · 10^(e+8) = |k|` with the sign of `k` (zero has
    either sign) -/
def denotesSat (neg : Bool) (c : Nat) (e : Int) (k : Int) : Prop :=
  (if 0 ≤ e + 8 then c * 10 ^ (e + 8).toNat = k.natAbs else c = k.natAbs * 10 ^ (-(e + 8)).toNat) ∧
  (k < 0 → neg = true) ∧ (0 < k → neg = false)

def NumText.denotes (t : NumText) (k : Int) : Prop := denotesSat t.neg t.coeff t.expo k

/-! ### hashes -/

/-- Bitcoin Core's `uint256::GetHex`: the bytes in reverse order, lower-case hex -/
def coreHex (h : Bytes) : String := toHex h.reverse

def isLowerHexChar (c : Char) : Bool := ('0' ≤ c && c ≤ '9') || ('a' ≤ c && c ≤ 'f')

/-! ### error classes (T1) -/

def baseClass : String := "JSONRPCError"

def errorClasses : List (Int × String) :=
  [ (-2, "ForbiddenBySafeModeError"), (-5, "InvalidAddressOrKeyError"), (-8, "InvalidParameterError"),
    (-25, "VerifyError"), (-26, "VerifyRejectedError"), (-27, "VerifyAlreadyInChainError"),
    (-28, "InWarmupError") ]

/-- the class registered for a code, the base class otherwise -/
def classOf (code : Int) : String :=
  match errorClasses.lookup code with
  | some c => c
  | none => baseClass

end BtcVerif.Spec.Rpc
