/-
  BIP173 data tables (reference).  Tied to /repo by T1: `Tables/Bech32.lean` proves the tables
  regenerated from the working tree (module-level CHARSET; the function-local `generator` literal of
  `bech32_polymod`, read from the AST) equal to these, entry by entry.
  Mathlib-free (linked into btcmodel).
-/

namespace BtcVerif.Spec.Bech32

/-- BIP173 "Bech32" section: the 32 data characters, value = position -/
def charset : List Char := "qpzry9x8gf2tvdw0s3jn54khce6mua7l".toList

/-- BIP173 checksum: the five generator constants of `bech32_polymod` -/
def generator : List Nat := [0x3b6a57b2, 0x26508e6d, 0x1ea119fa, 0x3d4233dd, 0x2a1462b3]

end BtcVerif.Spec.Bech32
