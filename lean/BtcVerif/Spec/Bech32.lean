/-
  BIP173 — reference definitions for property C11, written from the BIP text and independently of how
  python-bitcoinlib computes them:

  * the two data tables (tied to /repo by T1: `Tables/Bech32.lean` proves the tables regenerated from
    the working tree — module-level CHARSET; the function-local `generator` literal of
    `bech32_polymod`, read from the AST — equal to these, entry by entry);
  * the checksum polynomial-modulus function in arithmetic form;
  * `Decodes h s ver prog` / `ValidSegwit h s`: the validity predicate of a segwit address as the
    conjunction of the BIP's rules;
  * `encodeAddr`: the reference encoding.
  Mathlib-free (linked into btcmodel).
-/

namespace BtcVerif.Spec.Bech32

/-- BIP173 "Bech32": the 32 data characters, value = position
    (`qpzry9x8gf2tvdw0s3jn54khce6mua7l`) -/
def charset : List Char :=
  ['q', 'p', 'z', 'r', 'y', '9', 'x', '8', 'g', 'f', '2', 't', 'v', 'd', 'w',
   '0', 's', '3', 'j', 'n', '5', '4', 'k', 'h', 'c', 'e', '6', 'm', 'u', 'a', '7', 'l']

/-- BIP173 "Checksum": the five generator constants -/
def generator : List Nat := [0x3b6a57b2, 0x26508e6d, 0x1ea119fa, 0x3d4233dd, 0x2a1462b3]

/-! ### checksum -/

/-- one step of BIP173's `bech32_polymod`: the 30-bit state is six 5-bit coefficients; the state is
    multiplied by x (top coefficient `b` shifted out), the value added, and `b·g(x)` added, where the
    multiples of g(x) by 1, 2, 4, 8, 16 are the five generator constants -/
def polymodStep (chk v : Nat) : Nat :=
  let b := chk / 2 ^ 25
  ((chk % 2 ^ 25) * 32) ^^^ v
    ^^^ (if b % 2 = 1 then 0x3b6a57b2 else 0)
    ^^^ (if b / 2 % 2 = 1 then 0x26508e6d else 0)
    ^^^ (if b / 4 % 2 = 1 then 0x1ea119fa else 0)
    ^^^ (if b / 8 % 2 = 1 then 0x3d4233dd else 0)
    ^^^ (if b / 16 % 2 = 1 then 0x2a1462b3 else 0)

def polymod (values : List Nat) : Nat := values.foldl polymodStep 1

/-- "the high bits of each character, a zero, the low bits of each character" -/
def hrpExpand (hrp : List Char) : List Nat :=
  hrp.map (fun c => c.toNat / 32) ++ [0] ++ hrp.map (fun c => c.toNat % 32)

/-- a checksum is valid when the polymod of expanded prefix ++ data values (checksum included) is 1 -/
def checksumValid (hrp : List Char) (values : List Nat) : Prop :=
  polymod (hrpExpand hrp ++ values) = 1

/-- the six checksum values: `polymod(values ++ [0]*6) xor 1`, most significant 5 bits first -/
def checksum (hrp : List Char) (data : List Nat) : List Nat :=
  let pm := polymod (hrpExpand hrp ++ data ++ [0, 0, 0, 0, 0, 0]) ^^^ 1
  [pm / 32 ^ 5 % 32, pm / 32 ^ 4 % 32, pm / 32 ^ 3 % 32, pm / 32 ^ 2 % 32, pm / 32 % 32, pm % 32]

/-! ### the same checksum as a BCH code over GF(32)

BIP173: the checksum is a BCH code over GF(32) = GF(2)[a]/(a⁵ + a³ + 1) with generator polynomial
g(x) = x⁶ + {29}x⁵ + {22}x⁴ + {20}x³ + {21}x² + {29}x + {18}.  A 5-bit value is the field element
whose bits are its coefficients; the 30-bit state is the residue polynomial c₅x⁵ + … + c₀. -/

/-- multiplication by `a` in GF(32): shift, reduce by a⁵ + a³ + 1 (`0b101001`) -/
def gfMulA (e : Nat) : Nat := if 16 ≤ e then (2 * e) ^^^ 41 else 2 * e

/-- product of two field elements (shift-and-add over the bits of `t`) -/
def gfMul (t e : Nat) : Nat :=
  (if t % 2 = 1 then e else 0)
    ^^^ (if t / 2 % 2 = 1 then gfMulA e else 0)
    ^^^ (if t / 4 % 2 = 1 then gfMulA (gfMulA e) else 0)
    ^^^ (if t / 8 % 2 = 1 then gfMulA (gfMulA (gfMulA e)) else 0)
    ^^^ (if t / 16 % 2 = 1 then gfMulA (gfMulA (gfMulA (gfMulA e))) else 0)

/-- coefficients of g(x) below x⁶, highest first -/
def bchGen : List Nat := [29, 22, 20, 21, 29, 18]

/-- residue state: coefficients c₅ … c₀ -/
structure Residue where
  (c5 c4 c3 c2 c1 c0 : Nat)
deriving DecidableEq, Repr

/-- `c(x) ↦ c(x)·x + v  mod g(x)` -/
def bchStep (r : Residue) (v : Nat) : Residue :=
  { c5 := r.c4 ^^^ gfMul r.c5 29, c4 := r.c3 ^^^ gfMul r.c5 22, c3 := r.c2 ^^^ gfMul r.c5 20,
    c2 := r.c1 ^^^ gfMul r.c5 21, c1 := r.c0 ^^^ gfMul r.c5 29, c0 := v ^^^ gfMul r.c5 18 }

/-- residue of `x^n + Σ vᵢ x^(n-1-i)` modulo g(x), starting from the constant polynomial 1 -/
def bchResidue (values : List Nat) : Residue := values.foldl bchStep ⟨0, 0, 0, 0, 0, 1⟩

/-- the six 5-bit coefficients packed in a 30-bit state -/
def unpack (c : Nat) : Residue :=
  ⟨c / 2 ^ 25 % 32, c / 2 ^ 20 % 32, c / 2 ^ 15 % 32, c / 2 ^ 10 % 32, c / 2 ^ 5 % 32, c % 32⟩

/-! ### characters -/

/-- the character of a data value (`none` for values ≥ 32) -/
def charOf? (d : Nat) : Option Char := charset[d]?

/-- the characters of a list of data values -/
def dataChars? (ds : List Nat) : Option (List Char) := ds.mapM charOf?

/-- "the lowercase form" of a string (ASCII) -/
def lowerStr (s : List Char) : List Char := s.map Char.toLower

/-! ### regrouping 5-bit values into bytes -/

/-- the number written by the digits `ds` in base `b`, most significant first; for `b = 2^w` this is the
    concatenated bit string of the `w`-bit groups -/
def beValue (b : Nat) (ds : List Nat) : Nat := ds.foldl (fun a d => a * b + d) 0

/-- `n` digits of `v` in base `b`, most significant first -/
def beDigits (b : Nat) : Nat → Nat → List Nat
  | 0, _ => []
  | n + 1, v => beDigits b n (v / b) ++ [v % b]

/-- BIP173 "Segwit address format": the 5-bit groups `rest` regroup into the bytes `prog` followed by
    `pad < 5` padding bits which are all zero.  (`beValue 32 rest` is the bit string of `rest`;
    `beValue 256 prog * 2^pad` is the bit string of `prog` followed by `pad` zero bits.) -/
def Regroup (rest prog : List Nat) : Prop :=
  (∀ b ∈ prog, b < 256) ∧
  ∃ pad, pad < 5 ∧ 5 * rest.length = 8 * prog.length + pad ∧
    beValue 32 rest = beValue 256 prog * 2 ^ pad

/-- the 5-bit groups of a byte string: bits packed most significant first, zero-padded at the end -/
def toBase32 (prog : List Nat) : List Nat :=
  let n := (8 * prog.length + 4) / 5
  beDigits 32 n (beValue 256 prog * 2 ^ (5 * n - 8 * prog.length))

/-! ### the validity predicate -/

/-- `s` is a valid segwit address for the expected prefix `h`, carrying version `ver` and program `prog` -/
def Decodes (h s : List Char) (ver : Nat) (prog : List Nat) : Prop :=
  -- only printable US-ASCII
  (∀ c ∈ s, 33 ≤ c.toNat ∧ c.toNat ≤ 126) ∧
  -- a single letter case
  ¬ ((∃ c ∈ s, c.isLower) ∧ (∃ c ∈ s, c.isUpper)) ∧
  -- at most 90 characters
  s.length ≤ 90 ∧
  -- the prefix is not empty
  h ≠ [] ∧
  ∃ (rest ck : List Nat) (dchars : List Char),
    -- six checksum characters; every data character is in the alphabet
    ck.length = 6 ∧ dataChars? (ver :: rest ++ ck) = some dchars ∧
    -- expected prefix, then the separator, then the data part (the separator is the last '1' since
    -- '1' is not in the alphabet); the lowercase form is what counts
    lowerStr s = h ++ '1' :: dchars ∧
    -- valid checksum
    checksumValid h (ver :: rest ++ ck) ∧
    -- witness version
    ver ≤ 16 ∧
    -- regrouping with fewer than five padding bits, all zero
    Regroup rest prog ∧
    -- program length
    2 ≤ prog.length ∧ prog.length ≤ 40 ∧
    -- BIP141 version-0 rule
    (ver = 0 → prog.length = 20 ∨ prog.length = 32)

def ValidSegwit (h s : List Char) : Prop := ∃ ver prog, Decodes h s ver prog

/-- a prefix the BIP allows an encoder to use: 1..83 printable US-ASCII characters, no upper case -/
def validHrp (h : List Char) : Prop :=
  1 ≤ h.length ∧ h.length ≤ 83 ∧ ∀ c ∈ h, 33 ≤ c.toNat ∧ c.toNat ≤ 126 ∧ c.isUpper = false

/-- the reference encoding (`none` only when a value has no character, i.e. `ver ≥ 32`) -/
def encodeAddr (h : List Char) (ver : Nat) (prog : List Nat) : Option (List Char) :=
  let data := ver :: toBase32 prog
  (dataChars? (data ++ checksum h data)).map (fun cs => h ++ '1' :: cs)

end BtcVerif.Spec.Bech32
