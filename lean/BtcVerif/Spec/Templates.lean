/-
  C05 — the standard script templates as byte strings (Bitcoin Core `script/standard.cpp`
  `GetScriptForDestination` / `GetScriptForRawPubKey` / `GetScriptForMultisig`, and the scriptSigs that
  spend them), and what "the signatures are valid for the keys, in key order" means.
  Independent of python-bitcoinlib; the tie compares these bytes with the scripts the library builds
  (`CScript([...])`, `P2PKHBitcoinAddress.to_scriptPubKey`, `CScript.to_p2sh_scriptPubKey`).
  Mathlib-free (linked into btcmodel).
-/
import BtcVerif.Spec.ScriptEnv
import BtcVerif.Spec.Sighash

namespace BtcVerif.Spec.Templates
open BtcVerif BtcVerif.Spec.Script

/-- direct push of `d` (opcode = length; for lengths below OP_PUSHDATA1 = 0x4c) -/
def pushData (d : Bytes) : Bytes := UInt8.ofNat d.length :: d

/-- shortest push of `d` for lengths up to 65535: direct, OP_PUSHDATA1, OP_PUSHDATA2 -/
def pushEnc (d : Bytes) : Bytes :=
  if d.length < 0x4c then UInt8.ofNat d.length :: d
  else if d.length ≤ 0xff then 0x4c :: UInt8.ofNat d.length :: d
  else 0x4d :: UInt8.ofNat (d.length % 256) :: UInt8.ofNat (d.length / 256) :: d

/-- a sequence of direct pushes -/
def pushAll (ds : List Bytes) : Bytes := (ds.map pushData).flatten

/-- OP_1 … OP_16 -/
def opN (n : Nat) : UInt8 := UInt8.ofNat (0x50 + n)

/-- a small number as `CScript([n])` writes it: OP_0 (the empty push) for 0, OP_1 … OP_16, beyond
    that a one-byte push (17 … 127) -/
def numPush (n : Nat) : Bytes :=
  if n = 0 then [0x00] else if n ≤ 16 then [opN n] else pushData [UInt8.ofNat n]

/-- pay-to-pubkey: `<key> OP_CHECKSIG`; spent by `<sig>` -/
def p2pkScript (key : Bytes) : Bytes := pushData key ++ [0xac]
def p2pkScriptSig (sig : Bytes) : Bytes := pushData sig

/-- pay-to-pubkey-hash: `OP_DUP OP_HASH160 <h> OP_EQUALVERIFY OP_CHECKSIG`; spent by `<sig> <key>` -/
def p2pkhScript (h : Bytes) : Bytes := [0x76, 0xa9] ++ pushData h ++ [0x88, 0xac]
def p2pkhScriptSig (sig key : Bytes) : Bytes := pushData sig ++ pushData key

/-- bare multisig: `<m> <key 1> … <key n> <n> OP_CHECKMULTISIG`; spent by `OP_0 <sig 1> … <sig m>` -/
def multisigScript (m : Nat) (keys : List Bytes) : Bytes :=
  numPush m ++ (pushAll keys ++ (numPush keys.length ++ [0xae]))
def multisigScriptSig (sigs : List Bytes) : Bytes := pushAll ([] :: sigs)

/-- pay-to-script-hash: `OP_HASH160 <h> OP_EQUAL`; spent by `<inner scriptSig> <serialised script>` -/
def p2shScript (h : Bytes) : Bytes := [0xa9] ++ pushData h ++ [0x87]
def p2shScriptSig (inner redeem : Bytes) : Bytes := inner ++ pushEnc redeem

/-- `_CheckSig(sig, key, scriptCode)` as a Boolean: an empty signature fails; otherwise the last
    byte is the hash type and the rest goes to the signature oracle of the environment (the digest
    of the spending transaction is hidden in `env.sigCheck`, see Spec/ScriptEnv) -/
def chkSig (env : Env) (script sig key : Bytes) : Bool :=
  match sig.getLast? with
  | none => false
  | some ht => env.sigCheck sig.dropLast key script ht.toNat

/-- `Matching chk sigs keys`: the signatures can be assigned, in order, to a subsequence of the keys
    such that `chk sig key` holds for every assigned pair ("valid signatures in key order") -/
inductive Matching (chk : Bytes → Bytes → Bool) : List Bytes → List Bytes → Prop
  | nil (ks : List Bytes) : Matching chk [] ks
  | take {s k : Bytes} {ss ks : List Bytes} : chk s k = true → Matching chk ss ks → Matching chk (s :: ss) (k :: ks)
  | skip {k : Bytes} {ss ks : List Bytes} : Matching chk ss ks → Matching chk ss (k :: ks)

/-- the decision procedure for `Matching`: try the first signature against the keys one by one; a
    key is used up by every attempt -/
def greedy (chk : Bytes → Bytes → Bool) : List Bytes → List Bytes → Bool
  | [], _ => true
  | _ :: _, [] => false
  | s :: ss, k :: ks => if chk s k then greedy chk ss ks else greedy chk (s :: ss) ks

/-- the environment of input `i` of the spending transaction `tx`: a signature is checked by
    `ecdsa body key digest` (any function — the ECDSA verifier is not unfolded by any theorem) against
    the legacy signature hash of `tx` for the script code and hash type handed over by the interpreter -/
def txEnv (hashes : Hashes) (ecdsa : Bytes → Bytes → Bytes → Bool) (tx : Tx) (i : Nat) : Env :=
  { hashes := hashes
    sigCheck := fun body key scriptCode ht => ecdsa body key (Spec.Sighash.legacySighash scriptCode tx i ht).1 }

end BtcVerif.Spec.Templates
