/-
  C20 — reference definitions for the Bloom filter of BIP37.

  * MurmurHash3 x86_32 (Appleby's MurmurHash3.cpp) on `UInt32` with wrap-around arithmetic.
  * BIP37 bit schedule: hash function `i` uses seed `i * 0xFBA4C795 + nTweak` (uint32 arithmetic)
    and selects bit `murmur(seed, element) mod nbits`; bit `j` of the filter is bit `j & 7` of byte
    `j >> 3` of the data.
  * A filter, abstractly, is the set of bit indices that are set.
  * The protocol constants (T1 table).

  Written from the references, independently of bitcoin/bloom.py.  Mathlib-free.
-/
import BtcVerif.Basic.Bytes

namespace BtcVerif.Spec.Bloom

/-! ### MurmurHash3 x86_32 -/

def rotl32 (x r : UInt32) : UInt32 := (x <<< r) ||| (x >>> (32 - r))

def c1 : UInt32 := 0xcc9e2d51
def c2 : UInt32 := 0x1b873593

/-- `k1 *= c1; k1 = ROTL32(k1,15); k1 *= c2` -/
def scramble (k : UInt32) : UInt32 := rotl32 (k * c1) 15 * c2

/-- one body round: `h1 ^= k1'; h1 = ROTL32(h1,13); h1 = h1*5+0xe6546b64` -/
def mixBlock (h k : UInt32) : UInt32 := rotl32 (h ^^^ scramble k) 13 * 5 + 0xe6546b64

/-- `getblock32`: the little-endian 32-bit word made of four bytes -/
def le32 (a b c d : UInt8) : UInt32 := UInt32.ofNat (leNat [a, b, c, d])

/-- feed all complete 4-byte blocks, in order, to `f`; returns the state and the 0..3 bytes left over -/
def foldBlocks (f : UInt32 → UInt32 → UInt32) (h : UInt32) : Bytes → UInt32 × Bytes
  | a :: b :: c :: d :: rest => foldBlocks f (f h (le32 a b c d)) rest
  | t => (h, t)

/-- the body: every complete block goes through `mixBlock` -/
def blocks (h : UInt32) (data : Bytes) : UInt32 × Bytes := foldBlocks mixBlock h data

/-- the `switch (len & 3)` of the reference: nothing happens when no byte is left -/
def tailMix (h : UInt32) : Bytes → UInt32
  | [a] => h ^^^ scramble a.toUInt32
  | [a, b] => h ^^^ scramble ((b.toUInt32 <<< 8) ^^^ a.toUInt32)
  | [a, b, c] => h ^^^ scramble ((c.toUInt32 <<< 16) ^^^ (b.toUInt32 <<< 8) ^^^ a.toUInt32)
  | _ => h

/-- `fmix32` -/
def fmix32 (h : UInt32) : UInt32 :=
  let h := h ^^^ (h >>> 16)
  let h := h * 0x85ebca6b
  let h := h ^^^ (h >>> 13)
  let h := h * 0xc2b2ae35
  h ^^^ (h >>> 16)

/-- the state before finalisation, given the number of bytes already consumed by earlier blocks -/
def finishFrom (h : UInt32) (rest : Bytes) (totalLen : Nat) : UInt32 :=
  let (h', t) := blocks h rest
  fmix32 (tailMix h' t ^^^ UInt32.ofNat totalLen)

def murmur3 (seed : UInt32) (data : Bytes) : UInt32 := finishFrom seed data data.length

/-! ### BIP37 bit schedule -/

def seedOf (i : Nat) (tweak : UInt32) : UInt32 := UInt32.ofNat i * 0xFBA4C795 + tweak

/-- the bit selected by hash function `i` for element `e` in a filter of `nbits` bits -/
def bitIndex (nbits : Nat) (tweak : UInt32) (i : Nat) (e : Bytes) : Nat :=
  (murmur3 (seedOf i tweak) e).toNat % nbits

/-- all bits selected for `e` by `k` hash functions -/
def bitsOf (nbits k : Nat) (tweak : UInt32) (e : Bytes) : List Nat :=
  (List.range k).map (fun i => bitIndex nbits tweak i e)

/-- bit `j` of the filter data: bit `j & 7` of byte `j >> 3` (false beyond the data) -/
def bitSet (data : Bytes) (j : Nat) : Prop :=
  ∃ b : UInt8, data[j / 8]? = some b ∧ b.toNat.testBit (j % 8) = true

instance (data : Bytes) (j : Nat) : Decidable (bitSet data j) :=
  match h : data[j / 8]? with
  | some b => if hb : b.toNat.testBit (j % 8) = true then isTrue ⟨b, h, hb⟩
              else isFalse (fun ⟨b', h', hb'⟩ => by rw [h] at h'; cases h'; exact hb hb')
  | none => isFalse (fun ⟨_, h', _⟩ => by rw [h] at h'; cases h')

/-- membership answer prescribed by BIP37 (with Core's CVE-2013-5700 rule: a filter without data
    matches everything) -/
def specMatches (data : Bytes) (k : Nat) (tweak : UInt32) (e : Bytes) : Prop :=
  data = [] ∨ ∀ j ∈ bitsOf (data.length * 8) k tweak e, bitSet data j

/-! ### protocol constants (T1) -/

def MAX_BLOOM_FILTER_SIZE : Nat := 36000
def MAX_HASH_FUNCS : Nat := 50

def consts : List (String × Nat) :=
  [ ("MAX_BLOOM_FILTER_SIZE", 36000), ("MAX_HASH_FUNCS", 50),
    ("UPDATE_NONE", 0), ("UPDATE_ALL", 1), ("UPDATE_P2PUBKEY_ONLY", 2), ("UPDATE_MASK", 3) ]

end BtcVerif.Spec.Bloom
