/-
  C17 — reference definitions: Bitcoin Core's arith_uint256::SetCompact / GetCompact and pow.cpp
  CheckProofOfWork, the decoding formula and the truncation the property speaks about.
  Independent of Model/Compact.lean (shares only the byte-length function `nbytes`).  Mathlib-free.
-/
import BtcVerif.Basic.NatBytes

namespace BtcVerif

namespace Spec

/-- arith_uint256::SetCompact, value (256-bit arithmetic) -/
def compactValue (c : Nat) : Nat :=
  let nSize := c / 2 ^ 24
  let nWord := c % 2 ^ 23
  if nSize ≤ 3 then nWord / 2 ^ (8 * (3 - nSize))
  else (nWord * 2 ^ (8 * (nSize - 3))) % 2 ^ 256

/-- SetCompact's `fNegative` -/
def compactNeg (c : Nat) : Prop := c % 2 ^ 23 ≠ 0 ∧ (c / 2 ^ 23) % 2 = 1

/-- SetCompact's `fOverflow` -/
def compactOvf (c : Nat) : Prop :=
  let nSize := c / 2 ^ 24
  let nWord := c % 2 ^ 23
  nWord ≠ 0 ∧ (nSize > 34 ∨ (nWord > 0xff ∧ nSize > 33) ∨ (nWord > 0xffff ∧ nSize > 32))

instance : DecidablePred compactNeg := fun c => by unfold compactNeg; exact inferInstance
instance : DecidablePred compactOvf := fun c => by unfold compactOvf; exact inferInstance

/-- pow.cpp CheckProofOfWork -/
def powValid (limit : Nat) (hash : Bytes) (nBits : Nat) : Prop :=
  ¬ compactNeg nBits ∧ ¬ compactOvf nBits ∧ compactValue nBits ≠ 0 ∧
    compactValue nBits ≤ limit ∧ leNat hash ≤ compactValue nBits

instance (l : Nat) (h : Bytes) (b : Nat) : Decidable (powValid l h b) := by
  unfold powValid; exact inferInstance

/-- mantissa * 256^(exponent-3), floor for exponents below 3 -/
def decodeMantExp (mant exp : Nat) : Nat :=
  if exp ≤ 3 then mant / 256 ^ (3 - exp) else mant * 256 ^ (exp - 3)

/-- "truncated to its three most significant bytes", over the sign-magnitude representation:
    when the top byte is ≥ 0x80 a leading 00 byte is one of the three. -/
def truncTop3 (v : Nat) : Nat :=
  let nb := nbytes v
  if v / 256 ^ (nb - 1) ≥ 0x80 then
    (if nb ≤ 2 then v else (v / 256 ^ (nb - 2)) * 256 ^ (nb - 2))
  else
    (if nb ≤ 3 then v else (v / 256 ^ (nb - 3)) * 256 ^ (nb - 3))

/-- canonical compact values: what GetCompact can produce -/
def canonical (c : Nat) : Prop :=
  c = 0 ∨
  (let e := c / 2 ^ 24
   let m := c % 2 ^ 24
   1 ≤ e ∧ e ≤ 255 ∧ 0x8000 ≤ m ∧ m < 0x800000 ∧ m % 256 ^ (3 - e) = 0)

instance : DecidablePred canonical := fun c => by unfold canonical; exact inferInstance

end Spec

end BtcVerif
