/-
  C16 — reference rules of the context-free transaction and block checks, as conjunctions of the
  rules named in the property text (Bitcoin Core CheckTransaction / CheckBlock, BIP141 commitment
  structure), over the wire format of `Spec.Wire`, the merkle definitions of `Spec.Merkle` and
  Core's proof-of-work rule `Spec.powValid` (C17).  Mathlib-free.
-/
import BtcVerif.Spec.Merkle
import BtcVerif.Spec.Chain
import BtcVerif.Spec.Limits
import BtcVerif.Spec.Compact

namespace BtcVerif.Spec.BlockCheck
open BtcVerif BtcVerif.Crypto BtcVerif.Spec

/-! ### legacy signature-operation count (Core `CScript::GetSigOpCount(false)`) -/

/-- Core `GetScriptOp`: the next opcode and the script after it (push data skipped);
    `none` at the end of the script and at a push whose length or data is cut short -/
def getOp : Bytes → Option (Nat × Bytes)
  | [] => none
  | b :: rest =>
    let op := b.toNat
    if op < 0x4c then
      if rest.length < op then none else some (op, rest.drop op)
    else if op = 0x4c then
      match rest with
      | l :: r => if r.length < l.toNat then none else some (op, r.drop l.toNat)
      | _ => none
    else if op = 0x4d then
      match rest with
      | l0 :: l1 :: r =>
        let n := l0.toNat + 256 * l1.toNat
        if r.length < n then none else some (op, r.drop n)
      | _ => none
    else if op = 0x4e then
      match rest with
      | l0 :: l1 :: l2 :: l3 :: r =>
        let n := l0.toNat + 256 * l1.toNat + 65536 * l2.toNat + 16777216 * l3.toNat
        if r.length < n then none else some (op, r.drop n)
      | _ => none
    else some (op, rest)

theorem getOp_rest_lt {s : Bytes} {op : Nat} {rest : Bytes} (h : getOp s = some (op, rest)) :
    rest.length < s.length := by
  cases s with
  | nil => simp [getOp] at h
  | cons b t =>
    simp only [getOp] at h
    split at h
    · split at h
      · simp at h
      · simp at h; simp [← h.2]; omega
    · split at h
      · split at h
        · split at h
          · simp at h
          · simp at h; simp [← h.2]; omega
        · simp at h
      · split at h
        · split at h
          · split at h
            · simp at h
            · simp at h; simp [← h.2]; omega
          · simp at h
        · split at h
          · split at h
            · split at h
              · simp at h
              · simp at h; simp [← h.2]; omega
            · simp at h
          · simp at h; simp [← h.2]

/-- CHECKSIG / CHECKSIGVERIFY count 1, CHECKMULTISIG / CHECKMULTISIGVERIFY count 20 -/
def opSigOps (op : Nat) : Nat :=
  if op = 0xac ∨ op = 0xad then 1 else if op = 0xae ∨ op = 0xaf then 20 else 0

/-- inaccurate count: stops at the first malformed push -/
def sigOps (s : Bytes) : Nat :=
  match h : getOp s with
  | none => 0
  | some (op, rest) => opSigOps op + sigOps rest
termination_by s.length
decreasing_by exact getOp_rest_lt h

/-- Core `GetLegacySigOpCount` -/
def txSigOps (t : Tx) : Nat :=
  (t.vin.map (fun i => sigOps i.scriptSig)).sum + (t.vout.map (fun o => sigOps o.scriptPubKey)).sum

/-! ### transactions -/

def moneyRange (p : ChainParams) (v : Int) : Prop := 0 ≤ v ∧ v ≤ (p.maxMoney : Int)

instance (p : ChainParams) (v : Int) : Decidable (moneyRange p v) := by
  unfold moneyRange; exact inferInstance

/-- the null outpoint (Core `COutPoint::IsNull`): 32 zero bytes and index 2³² − 1 -/
def NullOutPoint (o : OutPoint) : Prop := o.hash = Merkle.zero32 ∧ o.n = 0xffffffff

instance (o : OutPoint) : Decidable (NullOutPoint o) := by unfold NullOutPoint; exact inferInstance

/-- a coinbase (Core `CTransaction::IsCoinBase`): exactly one input, and it spends the null outpoint.
    Stated here on the fields, independently of the helpers `Tx.isCoinbase` / `OutPoint.isNull`
    of Basic/Tx that mirror the Python methods. -/
def IsCoinbase (t : Tx) : Prop :=
  match t.vin with
  | [i] => NullOutPoint i.prevout
  | _ => False

instance (t : Tx) : Decidable (IsCoinbase t) := by
  unfold IsCoinbase; split <;> exact inferInstance

/-- the context-free transaction rules -/
def ValidTx (p : ChainParams) (t : Tx) : Prop :=
  t.vin ≠ [] ∧ t.vout ≠ [] ∧
  (Spec.Wire.txLegacy t).length ≤ maxBlockSize ∧
  (∀ o ∈ t.vout, moneyRange p o.nValue) ∧
  (∀ k ∈ List.range (t.vout.length + 1), moneyRange p ((t.vout.take k).map (·.nValue)).sum) ∧
  (t.vin.map (fun i => (i.prevout.hash, i.prevout.n))).Nodup ∧
  (if IsCoinbase t then ∀ i ∈ t.vin, 2 ≤ i.scriptSig.length ∧ i.scriptSig.length ≤ 100
   else ∀ i ∈ t.vin, ¬ NullOutPoint i.prevout)

instance (p : ChainParams) (t : Tx) : Decidable (ValidTx p t) := by
  unfold ValidTx; exact inferInstance

/-! ### BIP141 commitment structure -/

/-- an output script that can carry the commitment: at least 38 bytes, starting 6a24aa21a9ed -/
def isCommitScript (s : Bytes) : Bool := decide (38 ≤ s.length) && (s.take 6 == witnessCommitMagic)

/-- "If there are more than one scriptPubKey matching the pattern, the one with highest output
    index is assumed to be the commitment." -/
def commitScript? (cb : Tx) : Option Bytes :=
  ((cb.vout.map (·.scriptPubKey)).filter isCommitScript).getLast?

/-- the coinbase's input witness is exactly one 32-byte item (the witness reserved value) and the
    32 bytes after the header of the commitment script are Hash(witness root ‖ reserved value) -/
def CommitmentOk (vtx : List Tx) : Prop :=
  match vtx with
  | [] => False
  | cb :: _ =>
    match cb.wit with
    | [nonce] :: _ =>
      nonce.length = 32 ∧
      (match commitScript? cb, Merkle.witnessRoot vtx with
       | some s, some r => (s.drop 6).take 32 = hash256 (r ++ nonce)
       | _, _ => False)
    | _ => False

instance (vtx : List Tx) : Decidable (CommitmentOk vtx) := by
  unfold CommitmentOk; split
  · exact inferInstance
  · split
    · split <;> exact inferInstance
    · exact inferInstance

/-! ### blocks -/

/-- exactly the first transaction is a coinbase -/
def CoinbaseFirstOnly : List Tx → Prop
  | [] => False
  | cb :: rest => IsCoinbase cb ∧ ∀ t ∈ rest, ¬ IsCoinbase t

instance (vtx : List Tx) : Decidable (CoinbaseFirstOnly vtx) := by
  unfold CoinbaseFirstOnly; split <;> exact inferInstance

/-- the context-free block rules; `fPoW` / `fMerkle` are the two switches of the check
    (the property speaks about both switched on) -/
def ValidBlock (p : ChainParams) (now : Int) (fPoW fMerkle : Bool) (b : Block) : Prop :=
  (fPoW = true → Spec.powValid p.powLimit (hash256 (Spec.Wire.header b.hdr)) b.hdr.nBits) ∧
  (b.hdr.nTime : Int) ≤ now + 7200 ∧
  b.vtx ≠ [] ∧
  (Merkle.blockStripped b).length ≤ maxBlockSize ∧
  Merkle.blockWeight b ≤ maxBlockWeight ∧
  CoinbaseFirstOnly b.vtx ∧
  (∀ t ∈ b.vtx, ValidTx p t) ∧
  (b.vtx.map Merkle.txid).Nodup ∧
  (b.vtx.map txSigOps).sum ≤ maxBlockSigops ∧
  (fMerkle = true →
    Merkle.merkleRoot b.vtx = some b.hdr.hashMerkleRoot ∧
    ((∃ t ∈ b.vtx, t.hasWitness = true) → CommitmentOk b.vtx))

instance (p : ChainParams) (now : Int) (f g : Bool) (b : Block) : Decidable (ValidBlock p now f g b) := by
  unfold ValidBlock; exact inferInstance

/-- header rules alone -/
def ValidHeader (p : ChainParams) (now : Int) (fPoW : Bool) (h : Header) : Prop :=
  (fPoW = true → Spec.powValid p.powLimit (hash256 (Spec.Wire.header h)) h.nBits) ∧
  (h.nTime : Int) ≤ now + 7200

instance (p : ChainParams) (now : Int) (f : Bool) (h : Header) : Decidable (ValidHeader p now f h) := by
  unfold ValidHeader; exact inferInstance

end BtcVerif.Spec.BlockCheck
