/-
  C01 — the Bitcoin wire format as plain concatenations (protocol documentation / BIP144),
  independent of how python-bitcoinlib produces it.  Total functions: callers state the field
  ranges (`WF*`) under which these byte strings are *the* encodings.  Mathlib-free.
-/
import BtcVerif.Basic.Tx

namespace BtcVerif.Spec.Wire
open BtcVerif

/-- CompactSize -/
def compactSize (n : Nat) : Bytes :=
  if n < 0xfd then [UInt8.ofNat n]
  else if n ≤ 0xffff then 0xfd :: leBytes 2 n
  else if n ≤ 0xffffffff then 0xfe :: leBytes 4 n
  else 0xff :: leBytes 8 n

def varBytes (b : Bytes) : Bytes := compactSize b.length ++ b

def vec {α} (enc : α → Bytes) (xs : List α) : Bytes := compactSize xs.length ++ (xs.map enc).flatten

def outPoint (o : OutPoint) : Bytes := o.hash ++ leBytes 4 o.n

def txIn (i : TxIn) : Bytes := outPoint i.prevout ++ varBytes i.scriptSig ++ leBytes 4 i.nSequence

def txOut (o : TxOut) : Bytes := leBytesInt 8 o.nValue ++ varBytes o.scriptPubKey

def witStack (s : WitStack) : Bytes := vec varBytes s

/-- legacy (pre-BIP144) transaction encoding -/
def txLegacy (t : Tx) : Bytes :=
  leBytesInt 4 t.nVersion ++ vec txIn t.vin ++ vec txOut t.vout ++ leBytes 4 t.nLockTime

/-- BIP144 extended encoding: marker 00, flag 01, one witness stack per input -/
def txExtended (t : Tx) : Bytes :=
  leBytesInt 4 t.nVersion ++ [0x00, 0x01] ++ vec txIn t.vin ++ vec txOut t.vout ++
    (t.wit.map witStack).flatten ++ leBytes 4 t.nLockTime

/-- the extended form if and only if some witness stack is non-empty -/
def txBytes (t : Tx) : Bytes := if t.hasWitness then txExtended t else txLegacy t

def header (h : Header) : Bytes :=
  leBytesInt 4 h.nVersion ++ h.hashPrevBlock ++ h.hashMerkleRoot ++
    leBytes 4 h.nTime ++ leBytes 4 h.nBits ++ leBytes 4 h.nNonce

def block (b : Block) : Bytes := header b.hdr ++ vec txBytes b.vtx

/-! ### field ranges ("whose fields lie in their wire ranges") -/

def maxSize : Nat := 0x02000000

def WFOutPoint (o : OutPoint) : Prop := o.hash.length = 32 ∧ o.n < 2 ^ 32
def WFTxIn (i : TxIn) : Prop := WFOutPoint i.prevout ∧ i.scriptSig.length ≤ maxSize ∧ i.nSequence < 2 ^ 32
def WFTxOut (o : TxOut) : Prop :=
  -(2 ^ 63 : Int) ≤ o.nValue ∧ o.nValue < 2 ^ 63 ∧ o.scriptPubKey.length ≤ maxSize
def WFWitStack (s : WitStack) : Prop := s.length < 2 ^ 64 ∧ ∀ b ∈ s, b.length ≤ maxSize

/-- at least one input; one witness stack per input or none -/
def WFTx (t : Tx) : Prop :=
  -(2 ^ 31 : Int) ≤ t.nVersion ∧ t.nVersion < 2 ^ 31 ∧
  1 ≤ t.vin.length ∧ t.vin.length < 2 ^ 64 ∧ t.vout.length < 2 ^ 64 ∧
  (∀ i ∈ t.vin, WFTxIn i) ∧ (∀ o ∈ t.vout, WFTxOut o) ∧
  (t.wit = [] ∨ t.wit.length = t.vin.length) ∧ (∀ s ∈ t.wit, WFWitStack s) ∧
  t.nLockTime < 2 ^ 32

def WFHeader (h : Header) : Prop :=
  -(2 ^ 31 : Int) ≤ h.nVersion ∧ h.nVersion < 2 ^ 31 ∧
  h.hashPrevBlock.length = 32 ∧ h.hashMerkleRoot.length = 32 ∧
  h.nTime < 2 ^ 32 ∧ h.nBits < 2 ^ 32 ∧ h.nNonce < 2 ^ 32

def WFBlock (b : Block) : Prop := WFHeader b.hdr ∧ b.vtx.length < 2 ^ 64 ∧ ∀ t ∈ b.vtx, WFTx t

/-- what the Python constructor yields after a round trip: an all-empty witness becomes no witness -/
def normTx (t : Tx) : Tx := if t.hasWitness then t else { t with wit := [] }

end BtcVerif.Spec.Wire
