/-
  C02 — identifiers as the protocol defines them (BIP141): txid = H(legacy encoding, no witness),
  wtxid = H(full encoding), block hash = H(80-byte header); H = SHA-256d.  Mathlib-free.
-/
import BtcVerif.Spec.Wire

namespace BtcVerif.Spec.Ident
open BtcVerif

def txid (H : Bytes → Bytes) (t : Tx) : Bytes := H (Spec.Wire.txLegacy t)

def wtxid (H : Bytes → Bytes) (t : Tx) : Bytes := H (Spec.Wire.txBytes t)

def blockHash (H : Bytes → Bytes) (b : Block) : Bytes := H (Spec.Wire.header b.hdr)

def headerHash (H : Bytes → Bytes) (h : Header) : Bytes := H (Spec.Wire.header h)

end BtcVerif.Spec.Ident
