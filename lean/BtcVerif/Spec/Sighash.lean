/-
  C03 / C04 — reference definitions of the two signature-hash algorithms.

  (a) Legacy: Bitcoin Core's `SignatureHash` (script/interpreter.cpp, SigVersion::BASE) in the
      on-the-fly formulation of `CTransactionSignatureSerializer` — no scratch copy of the
      transaction is made; every field is emitted directly from the transaction being signed.
  (b) Witness v0: the text of BIP143 (hashPrevouts / hashSequence / hashOutputs selection table and
      the ten-field preimage).

  Written from those references, independently of how python-bitcoinlib computes the digests.
  The wire-format primitives (CompactSize, outpoint, txout, little-endian integers) are the ones
  of `Spec.Wire`.  SHA-256d is `Crypto.hash256`, an opaque symbol in all theorems.  Mathlib-free.
-/
import BtcVerif.Spec.Wire
import BtcVerif.Crypto.Sha256

namespace BtcVerif.Spec.Sighash
open BtcVerif BtcVerif.Spec.Wire

/-! ### script tokenisation (script.h `GetScriptOp`) -/

def OP_CODESEPARATOR : UInt8 := 0xab

/-- `GetScriptOp`: the opcode at the front of `s` and the total size of the operation (opcode byte,
    length field and payload); `none` at the end of the script and when a length field or a payload
    runs past the end. -/
def getOp (s : Bytes) : Option (UInt8 × Nat) :=
  match s with
  | [] => none
  | b :: r =>
    if b.toNat ≤ 0x4e then                 -- opcode <= OP_PUSHDATA4
      -- (width of the length field, payload size)
      let hdr : Option (Nat × Nat) :=
        if b.toNat < 0x4c then some (0, b.toNat)                                             -- < OP_PUSHDATA1
        else if b.toNat = 0x4c then (if r.length < 1 then none else some (1, leNat (r.take 1)))  -- OP_PUSHDATA1
        else if b.toNat = 0x4d then (if r.length < 2 then none else some (2, leNat (r.take 2)))  -- OP_PUSHDATA2
        else (if r.length < 4 then none else some (4, leNat (r.take 4)))                         -- OP_PUSHDATA4
      match hdr with
      | none => none
      | some (w, n) => if r.length - w < n then none else some (b, 1 + w + n)
    else some (b, 1)

theorem getOp_bounds {s : Bytes} {op : UInt8} {n : Nat} (h : getOp s = some (op, n)) :
    1 ≤ n ∧ n ≤ s.length := by
  cases s with
  | nil => simp [getOp] at h
  | cons b r =>
    simp only [getOp] at h
    split at h
    · split at h
      · simp at h
      · rename_i w m hh
        split at h
        · simp at h
        · simp only [Option.some.injEq, Prod.mk.injEq] at h
          have hw : w ≤ r.length := by
            split at hh
            · simp at hh; omega
            · split at hh
              · split at hh <;> simp at hh; omega
              · split at hh
                · split at hh <;> simp at hh; omega
                · split at hh <;> simp at hh; omega
          simp only [List.length_cons]; omega
    · simp only [Option.some.injEq, Prod.mk.injEq] at h
      simp only [List.length_cons]; omega

/-- The byte strings of the operations of a script, when the whole script tokenises. -/
def ops (s : Bytes) : Option (List Bytes) :=
  match h : getOp s with
  | none => if s = [] then some [] else none
  | some (_, n) => (ops (s.drop n)).map (s.take n :: ·)
termination_by s.length
decreasing_by
  have := getOp_bounds h
  simp only [List.length_drop]; omega

/-- "the script parses": every byte belongs to a complete operation -/
def parses (s : Bytes) : Prop := (ops s).isSome = true

instance (s : Bytes) : Decidable (parses s) := by unfold parses; exact inferInstance

/-- `CTransactionSignatureSerializer::SerializeScriptCode` without the length prefix: the script
    code with every OP_CODESEPARATOR *operation* left out.  Core walks the script with `GetOp`; where
    tokenisation stops, the remaining bytes are written verbatim. -/
def scriptCodeNoSep (s : Bytes) : Bytes :=
  match h : getOp s with
  | none => s
  | some (op, n) =>
      (if op = OP_CODESEPARATOR then [] else s.take n) ++ scriptCodeNoSep (s.drop n)
termination_by s.length
decreasing_by
  have := getOp_bounds h
  simp only [List.length_drop]; omega

/-- BIP141 witness program: a version opcode (OP_0 or OP_1 … OP_16) followed by a single direct push
    of 2 to 40 bytes, and nothing else (total size 4 … 42). -/
def isWitnessProgram (s : Bytes) : Bool :=
  match s with
  | v :: l :: _ =>
      (v.toNat = 0 ∨ (0x51 ≤ v.toNat ∧ v.toNat ≤ 0x60)) ∧ 4 ≤ s.length ∧ s.length ≤ 42 ∧ l.toNat + 2 = s.length
  | _ => false

/-! ### hash-type decoding (interpreter.cpp: `nHashType & 0x1f`, `nHashType & SIGHASH_ANYONECANPAY`) -/

def SIGHASH_ALL : Nat := 1
def SIGHASH_NONE : Nat := 2
def SIGHASH_SINGLE : Nat := 3
def SIGHASH_ANYONECANPAY : Nat := 0x80

def isNone (ht : Nat) : Bool := ht % 32 = SIGHASH_NONE
def isSingle (ht : Nat) : Bool := ht % 32 = SIGHASH_SINGLE
/-- bit 0x80 -/
def isAnyoneCanPay (ht : Nat) : Bool := (ht / SIGHASH_ANYONECANPAY) % 2 = 1

/-- the historical constant `uint256::ONE` -/
def hashOne : Bytes := 1 :: List.replicate 31 0

def zero32 : Bytes := List.replicate 32 0

/-- the constants of the library that the property statements name (SIGHASH_NONE / SINGLE /
    ANYONECANPAY, OP_CODESEPARATOR, the historical constant 1) — T1 table; `Tables/Sighash.lean` proves
    the values regenerated from the working tree equal `table`.  SIGHASH_ALL and the SIGVERSION_*
    selectors are mentioned by no property: the dumper records them as evidence only. -/
structure SighashTable where
  sighashNone : Nat
  sighashSingle : Nat
  sighashAnyoneCanPay : Nat
  opCodeSeparator : Nat
  hashOne : List Nat
deriving DecidableEq, Repr

def table : SighashTable :=
  { sighashNone := SIGHASH_NONE, sighashSingle := SIGHASH_SINGLE,
    sighashAnyoneCanPay := SIGHASH_ANYONECANPAY,
    opCodeSeparator := OP_CODESEPARATOR.toNat, hashOne := hashOne.map (·.toNat) }

/-- Field ranges of the wire format, as far as the signature hashes read the transaction
    (no condition on the witness, and zero inputs are allowed — weaker than `Spec.Wire.WFTx`). -/
def FieldsWF (t : Tx) : Prop :=
  -(2 ^ 31 : Int) ≤ t.nVersion ∧ t.nVersion < 2 ^ 31 ∧
  t.vin.length < 2 ^ 64 ∧ t.vout.length < 2 ^ 64 ∧
  (∀ i ∈ t.vin, WFOutPoint i.prevout ∧ i.nSequence < 2 ^ 32) ∧
  (∀ o ∈ t.vout, -(2 ^ 63 : Int) ≤ o.nValue ∧ o.nValue < 2 ^ 63 ∧ o.scriptPubKey.length < 2 ^ 64) ∧
  t.nLockTime < 2 ^ 32

/-! ### (a) legacy signature hash -/

/-- `SerializeInput(nInput)`: the signed input carries the script code, every other input an empty
    script; under NONE / SINGLE the other inputs' sequence numbers are written as zero. -/
def legacyInput (scriptCode : Bytes) (nIn : Nat) (ht : Nat) (k : Nat) (i : TxIn) : Bytes :=
  outPoint i.prevout ++
  (if k = nIn then varBytes (scriptCodeNoSep scriptCode) else compactSize 0) ++
  (if k ≠ nIn ∧ (isSingle ht ∨ isNone ht) then leBytes 4 0 else leBytes 4 i.nSequence)

/-- `SerializeOutput(nOutput)`: under SINGLE the outputs before `nIn` are blank `CTxOut()`
    (value −1, empty script). -/
def legacyOutput (nIn : Nat) (ht : Nat) (k : Nat) (o : TxOut) : Bytes :=
  if isSingle ht ∧ k ≠ nIn then txOut { nValue := -1, scriptPubKey := [] } else txOut o

/-- `CTransactionSignatureSerializer::Serialize`, for `nIn < |vin|` (and `nIn < |vout|` under SINGLE) -/
def legacyTxBytes (scriptCode : Bytes) (t : Tx) (nIn : Nat) (ht : Nat) : Bytes :=
  -- under ANYONECANPAY only the signed input is serialised (as input number nIn)
  let ins : List Bytes :=
    if isAnyoneCanPay ht then t.vin[nIn]?.toList.map (legacyInput scriptCode nIn ht nIn)
    else t.vin.mapIdx (legacyInput scriptCode nIn ht)
  let nOut : Nat := if isNone ht then 0 else if isSingle ht then nIn + 1 else t.vout.length
  let outs : List Bytes := (t.vout.take nOut).mapIdx (legacyOutput nIn ht)
  leBytesInt 4 t.nVersion ++
  compactSize ins.length ++ ins.flatten ++
  compactSize nOut ++ outs.flatten ++
  leBytes 4 t.nLockTime

/-- the hashed message: the serialisation followed by the hash type as four little-endian bytes -/
def legacyPreimage (scriptCode : Bytes) (t : Tx) (nIn : Nat) (ht : Nat) : Bytes :=
  legacyTxBytes scriptCode t nIn ht ++ leBytes 4 ht

/-- interpreter.cpp `SignatureHash` (BASE): digest and the error indication of the two historical
    "return one" cases. -/
def legacySighash (scriptCode : Bytes) (t : Tx) (nIn : Nat) (ht : Nat) : Bytes × Bool :=
  if nIn ≥ t.vin.length then (hashOne, true)
  else if isSingle ht ∧ nIn ≥ t.vout.length then (hashOne, true)
  else (Crypto.hash256 (legacyPreimage scriptCode t nIn ht), false)

/-! ### (b) BIP143 -/

/-- hashPrevouts: double SHA256 of all input outpoints unless ANYONECANPAY, else 32 zero bytes -/
def hashPrevouts (t : Tx) (ht : Nat) : Bytes :=
  if ¬ isAnyoneCanPay ht then Crypto.hash256 (t.vin.map (fun i => outPoint i.prevout)).flatten else zero32

/-- hashSequence: double SHA256 of all nSequence unless ANYONECANPAY, SINGLE or NONE -/
def hashSequence (t : Tx) (ht : Nat) : Bytes :=
  if ¬ isAnyoneCanPay ht ∧ ¬ isSingle ht ∧ ¬ isNone ht then
    Crypto.hash256 (t.vin.map (fun i => leBytes 4 i.nSequence)).flatten
  else zero32

/-- hashOutputs: all outputs; under SINGLE the output of the same index if there is one; zero
    otherwise (NONE, or SINGLE with no matching output) -/
def hashOutputs (t : Tx) (nIn : Nat) (ht : Nat) : Bytes :=
  if ¬ isSingle ht ∧ ¬ isNone ht then Crypto.hash256 (t.vout.map txOut).flatten
  else if isSingle ht then
    (match t.vout[nIn]? with
     | some o => Crypto.hash256 (txOut o)
     | none => zero32)
  else zero32

/-- the ten fields of the BIP143 preimage, for the input `i = vin[nIn]` -/
def bip143Preimage (scriptCode : Bytes) (t : Tx) (nIn : Nat) (i : TxIn) (ht : Nat) (amount : Int) : Bytes :=
  leBytesInt 4 t.nVersion ++          --  1. nVersion
  hashPrevouts t ht ++                --  2.
  hashSequence t ht ++                --  3.
  outPoint i.prevout ++               --  4. outpoint (32-byte hash + 4-byte little endian)
  varBytes scriptCode ++              --  5. scriptCode of the input
  leBytesInt 8 amount ++              --  6. value of the output spent by this input
  leBytes 4 i.nSequence ++            --  7. nSequence of the input
  hashOutputs t nIn ht ++             --  8.
  leBytes 4 t.nLockTime ++            --  9. nLocktime
  leBytes 4 ht                        -- 10. sighash type

/-- BIP143 digest; defined for an existing input -/
def bip143Sighash (scriptCode : Bytes) (t : Tx) (nIn : Nat) (ht : Nat) (amount : Int) : Option Bytes :=
  t.vin[nIn]?.map (fun i => Crypto.hash256 (bip143Preimage scriptCode t nIn i ht amount))

end BtcVerif.Spec.Sighash
