-- Root of the proof library: `lake build` re-checks every model, theorem and table obligation.
import BtcVerif.Basic.Bytes
import BtcVerif.Basic.Outcome
import BtcVerif.Basic.Tx
import BtcVerif.Crypto.Sha256
import BtcVerif.Spec.Chain
import BtcVerif.Spec.Wire
import BtcVerif.Model.Wire
import BtcVerif.Model.ScriptIter
import BtcVerif.Model.Compact
import BtcVerif.Tables.Chain
import BtcVerif.Props.C17
