import Driver.Main
