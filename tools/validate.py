#!/opt/veriftools/pyvenv/bin/python
"""Validate MANIFEST.json and every evidence file against the schemas in /root/.vp."""
import glob, json, sys, jsonschema
ok = True
m = json.load(open('/verif/MANIFEST.json'))
jsonschema.validate(m, json.load(open('/root/.vp/MANIFEST.schema.json')))
es = json.load(open('/root/.vp/EVIDENCE.schema.json'))
for c in m['checks']:
    f = '/verif/' + c['evidence_file']
    try:
        e = json.load(open(f))
        jsonschema.validate(e, es)
        if e['level'] != c['level_claimed']['category']:
            print('LEVEL MISMATCH', f, e['level']); ok = False
        cov = e['coverage']
        if cov.get('obligations') != cov.get('discharged'):
            print('UNDISCHARGED', f, cov.get('obligations'), cov.get('discharged')); ok = False
    except Exception as ex:
        print('INVALID', f, str(ex)[:200]); ok = False
print('ok' if ok else 'PROBLEMS')
sys.exit(0 if ok else 1)
