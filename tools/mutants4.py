#!/venv/bin/python
"""Re-run the audit-4 mutants (seeded-audit4/*.patch) against their property's quick check; writes seeded-audit4/results.json."""
import glob, json, os, re, subprocess, sys
VERIF = os.path.dirname(os.path.dirname(os.path.abspath(__file__)))
res = {}
only = sys.argv[1:]
for p in sorted(glob.glob(os.path.join(VERIF, 'seeded-audit4', '*.patch'))):
    name = os.path.basename(p)[:-6]
    if only and not any(name.startswith(o) for o in only):
        continue
    prop = re.search(r'-c(\d\d)-', name).group(1)
    wt = '/tmp/mut4/%s.%d' % (name, os.getpid())
    subprocess.run('mkdir -p /tmp/mut4 && git -C /repo worktree add --detach %s HEAD' % wt, shell=True, capture_output=True)
    try:
        a = subprocess.run(['git', 'apply', p], cwd=wt, capture_output=True)
        t = subprocess.run('/venv/bin/python -m pytest -q -p no:cacheprovider 2>&1 | tail -1', shell=True, cwd=wt,
                           capture_output=True, text=True).stdout.strip()
        r = subprocess.run([os.path.join(VERIF, 'check'), 'C' + prop, 'quick'], cwd=VERIF,
                           env=dict(os.environ, REPO_ROOT=wt), capture_output=True, text=True)
        lines = [l for l in r.stdout.splitlines() if l.startswith(('VIOLATION', 'NOTE', 'INFRA'))][:3]
        res[name] = dict(applies=a.returncode == 0, tests=t, exit=r.returncode, caught=r.returncode == 1, lines=lines)
        print(name, 'caught' if r.returncode == 1 else 'MISSED(exit %d)' % r.returncode, t, flush=True)
    finally:
        subprocess.run('git -C /repo worktree remove --force ' + wt, shell=True, capture_output=True)
out = os.path.join(VERIF, 'seeded-audit4', 'results.json')
old = json.load(open(out)) if os.path.exists(out) else {}
old.update(res)
json.dump(old, open(out, 'w'), indent=1)
