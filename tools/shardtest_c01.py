#!/venv/bin/python
"""One-off self-test of the shard partition of harness/props/c01.py and c02.py (not part of any check).

Runs `generate()` of every shard (each with its own per-shard rng, exactly as framework._worker seeds it),
collects the identity tags of the exhaustive / boundary sub-domains and verifies that every element of each
sub-domain — computed directly, without any sharding — is produced by at least one shard (and none twice).

  tools/shardtest_c01.py [quick|thorough] [seed]
"""
import collections
import os
import random
import sys

VERIF = os.path.dirname(os.path.dirname(os.path.abspath(__file__)))
sys.path.insert(0, VERIF)
from harness import framework as fw, litmine            # noqa: E402
from harness.props.c01 import C01, MAX_SIZE, hist_domain   # noqa: E402
from harness.props.c02 import C02                        # noqa: E402


def collect(prop, tier, seed, nshards, want):
    got = collections.Counter()
    total = 0
    for shard in range(nshards):
        rng = random.Random('%s:%s:%s:%d' % (seed, prop.id, tier, shard))      # as in framework._worker
        for c in prop.generate(rng, tier, shard, nshards):
            total += 1
            t = want(c)
            if t is not None:
                got[t] += 1
    return got, total


def report(name, got, expected):
    missing = sorted(set(expected) - set(got))
    extra = sorted(set(got) - set(expected))
    dup = sorted(k for k, v in got.items() if v > 1)
    print('%-34s expected %5d  produced %5d  missing %d  unexpected %d  duplicated %d' %
          (name, len(set(expected)), len(got), len(missing), len(extra), len(dup)))
    for m in missing[:5]:
        print('    MISSING', m)
    for m in extra[:5]:
        print('    UNEXPECTED', m)
    return not missing and not extra and not dup


def main():
    tier = sys.argv[1] if len(sys.argv) > 1 else 'quick'
    seed = int(sys.argv[2]) if len(sys.argv) > 2 else 0
    nshards = 16
    fw.ensure_repo_on_path()
    ok = True
    p = C01()
    p.pool = litmine.pool(fw.REPO, p.anchors)
    p.seed, p.tier = seed, tier
    p.setup()

    def want(c):
        tag = c.get('tag', '')
        if c['op'] == 'c01.ser.tx' and tag.startswith('ser:sys:'):
            return tag[4:]
        if c['op'] == 'c01.ser.blk' and tag.startswith('ser:blkcount:'):
            return tag[4:]
        if c['op'] in ('c01.de.tx', 'c01.de.blk') and (':n=' in tag):
            return c['op'] + ' ' + tag
        if tag == 'default':
            return c['op'] + ' default'
        if tag.startswith('hist:') or tag == 'varint':
            return 'M ' + c.line
        return None
    got, total = collect(p, tier, seed, nshards, want)
    print('C01 %s seed %d: %d cases over %d shards' % (tier, seed, total, nshards))
    sysgot = collections.Counter({k: v for k, v in got.items() if k.startswith('sys:')})
    ok &= report('boundary lengths/counts (this run)', sysgot,
                 ['sys:%s:%s:%s:%d' % x for x in p.systematic_specs(tier)])
    if tier == 'thorough':
        ok &= report('boundary lengths/counts (domain)', sysgot, ['sys:%s:%s:%s:%d' % x for x in p.systematic_domain()])
    else:
        dom = p.systematic_domain()
        vals = {(k, v) for (_, k, _, v) in dom}
        covered = {(k.split(':')[2], int(k.split(':')[4])) for k in sysgot}
        print('%-34s every boundary value in some slot: %s' % ('', 'yes' if vals <= covered else 'NO ' + str(sorted(vals - covered))))
        ok &= vals <= covered
        small = ['sys:%s:%s:%s:%d' % x for x in dom if x[3] <= (0x100 if x[1] == 'len' else 2)]
        ok &= report('  small values in every slot', collections.Counter({k: v for k, v in sysgot.items() if k in set(small)}), small)
    ok &= report('blocks with boundary tx counts', collections.Counter({k: v for k, v in got.items() if k.startswith('blkcount:')}),
                 ['blkcount:%d' % c for c in p.block_counts(tier)])
    exp = []
    for (n, have, place) in p.maxsize_domain():
        tag = ('prefix-of-valid' if n <= MAX_SIZE else 'size-guard') + ':%s:n=%d:have=%d' % (place, n, have)
        exp += ['c01.de.tx ' + tag, 'c01.de.blk blk:' + tag]
    ok &= report('MAX_SIZE guard probes', collections.Counter({k: v for k, v in got.items() if k.startswith('c01.de.')}), exp)
    ok &= report('default object (shard 0 only)', collections.Counter({k: v for k, v in got.items() if k.endswith(' default')}),
                 ['c01.ser.tx default', 'c01.spec.tx default'])

    mat = collections.Counter({k: v for k, v in got.items() if k.startswith('M ')})
    exp = ['M ' + '\t'.join(x) for x in hist_domain(p, tier, 'c01')] + ['M ' + op + '\t' + a for op, a in p.varint_domain(tier)]
    ok &= report('observer-pair matrix + varint', mat, exp)

    q = C02()
    q.pool = litmine.pool(fw.REPO, q.anchors)
    q.seed, q.tier = seed, tier
    q.setup()
    got, total = collect(q, tier, seed, nshards, lambda c: 'default' if c.get('tag') == 'default' else
                         ('M ' + c.line if c.get('tag', '').startswith('hist:') else None))
    obs = ('ser', 'ser0', 'hash', 'txid', 'pyh', 'eq', 'weight')
    ok &= report('observer-pair matrix', collections.Counter({k: v for k, v in got.items() if k.startswith('M ')}),
                 ['M ' + '\t'.join(x) for x in hist_domain(q, tier, 'c02', obs, tuple(o for o in obs if o != 'txid'))])
    got = collections.Counter({k: v for k, v in got.items() if k == 'default'})
    print('C02 %s seed %d: %d cases over %d shards (no index-partitioned sub-domain; per-shard random families only)'
          % (tier, seed, total, nshards))
    ok &= report('default object (shard 0 only)', got, ['default'])
    print('PARTITION OK' if ok else 'PARTITION BROKEN')
    return 0 if ok else 1


if __name__ == '__main__':
    sys.exit(main())
