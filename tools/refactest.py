#!/venv/bin/python
"""False-alarm test: apply a behaviour-preserving refactoring of /repo in a scratch worktree and run every
registered quick check against it; all must exit 0.   tools/refactest.py <dir-with-patch.diff> [Cxx,Cyy]
   The corpus is /verif/refactorings/<name>/{patch.diff,meta.json} (16 from four refactoring agents, 13 from docs/AUDIT-3.md)."""
import json, os, subprocess, sys, time
VERIF = os.path.dirname(os.path.dirname(os.path.abspath(__file__)))


def sh(cmd, cwd=None, env=None):
    p = subprocess.run(cmd, shell=True, cwd=cwd, env=env, stdout=subprocess.PIPE, stderr=subprocess.STDOUT)
    return p.returncode, p.stdout.decode(errors='replace')


d = os.path.abspath(sys.argv[1])
name = os.path.basename(d)
ALL = [c['property_id'] for c in json.load(open(os.path.join(VERIF, 'MANIFEST.json')))['checks']]


def relevant(patch):
    """Properties anchored in (or whose harness imports) a file the patch touches; `all` on the command line = every check."""
    import re
    touched = set(re.findall(r'^\+\+\+ b/(\S+)', open(patch).read(), re.M))
    out = set()
    for l in open(os.path.join(VERIF, 'properties.jsonl')):
        pr = json.loads(l)
        if touched & set(pr['anchors']['files']):
            out.add(pr['id'])
    # files almost every check goes through
    if touched & {'bitcoin/core/serialize.py', 'bitcoin/__init__.py', 'bitcoin/core/__init__.py', 'bitcoin/core/script.py'}:
        return ALL
    return sorted(out) or ALL


if len(sys.argv) > 2 and sys.argv[2] != 'all':
    checks = sys.argv[2].split(',')
elif len(sys.argv) > 2:
    checks = ALL
else:
    checks = relevant(os.path.join(d, 'patch.diff'))
wt = '/tmp/refaccheck/' + name
sh('git -C /repo worktree remove --force ' + wt)
rc, out = sh('mkdir -p /tmp/refaccheck && git -C /repo worktree add --detach %s HEAD' % wt)
res = dict(refactoring=name, checks={}, at=time.strftime('%F %T'))
try:
    rc, out = sh('git apply %s/patch.diff' % d, cwd=wt)
    res['applies'] = rc == 0
    rc, out = sh('/venv/bin/python -m pytest -q -p no:cacheprovider 2>&1 | tail -1', cwd=wt)
    res['tests'] = out.strip()
    env = dict(os.environ, REPO_ROOT=wt, VERIF_SEED=str(abs(hash(name)) % 1000))
    for c in checks:
        t0 = time.time()
        rc, out = sh('./check %s quick' % c, cwd=VERIF, env=env)
        lines = [l for l in out.splitlines() if l.startswith(('VIOLATION', 'DIVERGENCE', 'BROKEN-TIE', 'INFRA', '  impl', '  model'))]
        res['checks'][c] = dict(exit=rc, wall_s=round(time.time() - t0, 1), lines=lines[:8])
finally:
    sh('git -C /repo worktree remove --force ' + wt)
res['alarms'] = sorted(c for c, v in res['checks'].items() if v['exit'] != 0)
json.dump(res, open(os.path.join(d, 'result.json'), 'w'), indent=1)
print(name, 'tests:', res.get('tests'), 'ALARMS:', res['alarms'])
for c in res['alarms']:
    print('  ', c, res['checks'][c]['lines'][:4])
