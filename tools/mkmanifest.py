#!/usr/bin/env python3
"""Regenerate MANIFEST.json from the per-property descriptions below and the harness modules present."""
import json
import os

VERIF = os.path.dirname(os.path.dirname(os.path.abspath(__file__)))

TB = ("Trusted: Lean 4.33 kernel; axioms propext/Classical.choice/Quot.sound only (audited by #print axioms on "
      "every run); the Spec.* transcription of the reference; the compiled driver (Lean compiler); the Python "
      "harness. ")

P = {
 'C01': dict(
  text="Lean theorems for every well-formed transaction/header/block of any size: Model serialisation = Spec wire "
       "bytes (ser_eq_spec, marker_iff), deserialise∘serialise = normalised object that re-serialises identically "
       "(de_ser), every strict prefix → truncation (prefix_trunc), surplus → extra-data error carrying object and "
       "padding (extra_data), padding allowed; generic codec library (Dec/Sound closed under sequencing, vectors, "
       "var-bytes). Model tied to the code by T1 (MAX_SIZE) and a differential run of every prefix/extension of "
       "generated encodings on both the mutable and immutable classes.",
  note=TB + "CPython struct/BytesIO semantics are modelled (range errors explicit). WF = the property's wire ranges incl. ≥1 input and item lengths ≤ MAX_SIZE.",
  tech="Lean 4 proof (codec soundness by induction) + generated-table equality + model/implementation correspondence"),
 'C02': dict(
  text="Lean theorems for every hash function H (SHA-256d opaque): txid = H(stripped bytes) and independent of any "
       "witness assignment, wtxid = H(full bytes), full = stripped bytes iff no witness (so ids differ exactly when "
       "a stack is non-empty, collision-freeness an explicit hypothesis), block hash = header hash independent of "
       "vtx, ==/hash determined by the serialisation. Tied by differential runs of GetTxid/GetHash/==/hash() on "
       "immutable and mutable classes against the Lean SHA-256.",
  note=TB + "SHA-256 is an executable reference validated against hashlib by the run, never unfolded in proofs.",
  tech="Lean 4 proof (algebraic laws over an opaque hash) + model/implementation correspondence"),
 'C08': dict(
  text="Lean theorems for all integers / all byte strings / all token lists: script-number codec bijection at spec and "
       "at code level (MPI route), builder = reference minimal encoding, iter∘build = canonical tokens, "
       "build∘iter∘build = build, raw iteration is a partition (with truncated-push remainder), every predicate = its "
       "reference definition, sigop counts (both modes) = Core's GetOp-based count. Tied by exhaustive runs over all "
       "scripts ≤ 2 bytes, generated token lists and scripts.",
  note=TB + "bn2vch/encode_op_pushdata fail at 2^32-byte encodings; theorems state that boundary.",
  tech="Lean 4 proof (structural induction over scripts) + model/implementation correspondence (exhaustive short scripts)"),
 'C10': dict(
  text="Lean theorems for every byte string / every string: encode/decode = big-integer reference, mutual inverses "
       "(leading zeros/'1's), invalid character ⇔ InvalidBase58Error, CBase58Data accepts exactly version‖payload‖"
       "H(version‖payload)[:4] with total length ≥ 5 and otherwise raises the checksum error, text round trip for all "
       "256 versions. Tied by T1 (alphabet) and exhaustive short strings + every single-character corruption of valid "
       "strings.",
  note=TB + "check_roundtrip assumes |H x| ≥ 4 (true of SHA-256; not proved for the array implementation).",
  tech="Lean 4 proof (Nat.digits-style numeral lemmas) + generated-table equality + model/implementation correspondence"),
 'C11': dict(
  text="Lean theorems: polymod = BIP173 BCH residue, checksum_verifies, convertbits padding rule and round trip, "
       "decode accepts ⇔ Spec.ValidSegwit, encode_decode for all versions/lengths, mixed case rejected, and the code "
       "distance: any 1–4 substitutions anywhere in a valid ≤90-char address are rejected (detects_le2, "
       "detects_le4 — both kernel-checked with the standard axioms: the weight-3/4 bound is reduced to 963 "
       "`decide +kernel` shard theorems over a generated, untrusted look-up table). Truncation/extension/insertion/"
       "deletion are covered by the run only (the BCH code guarantees nothing there). Tied by T1 (charset, generator "
       "read from the AST) and exhaustive single/sampled-or-exhaustive double substitutions.",
  note=TB + "No native_decide anywhere.",
  tech="Lean 4 proof (GF(2)-linear algebra of the BCH code; sharded decide +kernel for the distance bound) + tables + correspondence"),
 'C12': dict(
  text="Lean theorems over all selection histories and all strings: SelectParams invariant (params = coreparams = last "
       "selected), round trip script→address→text→address→script for 4 templates × 4 chains with the prescribed "
       "class/prefix/payload, refuse_total (any text is a valid address of the selected chain or CBitcoinAddressError — "
       "no other outcome), cross-chain refusal. Tied by T1 (chain table) and runs over random selection histories, "
       "cross-chain addresses, witness versions 1..16 and mutated strings.",
  note=TB + "cross_chain_refused_bech32's base58 re-reading clause has the 32-bit checksum as explicit hypothesis.",
  tech="Lean 4 proof (invariant over selection histories, decision logic) + generated-table equality + correspondence"),
 'C15': dict(
  text="Lean theorems for every non-empty hash list / transaction list: the loop-based merkle tree's last node = "
       "recursive reference root, witness root with coinbase zeroed / NoWitnessData, constructor decision (zero root "
       "filled, wrong root refused), weight = 3·stripped + full for transactions (both code branches) and blocks. Tied "
       "by runs over counts 1..70, 2^k±1, CompactSize boundaries, duplicates, ± witness.",
  note=TB + "hash256 opaque; merkleRoot_length assumes |hash256 x| = 32.",
  tech="Lean 4 proof (loop invariant = recursion) + model/implementation correspondence"),
 'C16': dict(
  text="Lean theorems: CheckTransaction accepts ⇔ Spec.ValidTx, CheckBlockHeader ⇔ Spec.ValidHeader, CheckBlock ⇔ "
       "Spec.ValidBlock (both switches), every rejection is a validation error (no IndexError/invalid-script outcome "
       "reachable), commitment index = last matching output, sigop count = Core's. Tied by T1 (limits, chain table) "
       "and, per generated valid block, every single-rule violation on both sides of each boundary under each chain.",
  note=TB + "PoW part reuses C17's pow_iff; hash256/merkle are shared opaque symbols.",
  tech="Lean 4 proof (decision logic accept ⇔ Spec) + generated-table equality + correspondence (fault catalogue)"),
 'C17': dict(
  text="Lean theorems over all compact values / all 256-bit integers: decode_spec, toCompact_canonical, decode_encode "
       "(= truncation to three sign-magnitude bytes), encode_decode on canonical values, pow_iff against Bitcoin "
       "Core's SetCompact/CheckProofOfWork. Tied by T1 (chain limits) and a differential run over all exponents × "
       "boundary mantissas, all bit lengths, hashes at target±1 under the four chains.",
  note=TB + "Python int &,>>,<< modelled as mod/div/mul by powers of two.",
  tech="Lean 4 proof (omega/interval_cases arithmetic) + generated-table equality + correspondence"),
 'C18': dict(
  text="Lean theorems for all 17 message types and any field values in range: payload = protocol layout "
       "(payload_eq_spec), frame = magic‖command‖length‖checksum‖payload (frame_eq_spec), parse∘frame = message with "
       "the stream left exactly after the frame (parse_frame, reframe_identical), streams of frames parse in order "
       "(parse_stream, parse_stream_append), wrong magic/checksum rejected, every strict prefix → truncation, "
       "length_guard and position_le_frame_end (never reads beyond the frame; > MAX_SIZE → error after 24 bytes). Tied "
       "by T1 (commands, messagemap, version constants, chain magic) and runs with every single-byte corruption and "
       "truncation of small frames under the four chains.",
  note=TB + "SHA-256d checksum has ≥ 4 bytes is an explicit hypothesis (ChecksumLen); altered-payload rejection assumes the 32-bit checksum differs (explicit hypothesis).",
  tech="Lean 4 proof (codec round trip with stream position, fault-class decision logic) + tables + correspondence"),
 'C03': dict(
  text="Lean theorems for every transaction, every subscript that parses, every index 0..|vin| and all hash types: "
       "FindAndDelete of OP_CODESEPARATOR = concatenation of the other operations (push data untouched), "
       "RawSignatureHash as written (scratch copy, blanking, list surgery) = Bitcoin Core's on-the-fly "
       "CTransactionSignatureSerializer digest incl. the HASH_ONE cases (raw_eq_spec, err_iff), wrapper raises "
       "ValueError iff err. Tied by T1 (SIGHASH constants, HASH_ONE from the AST) and runs over all 256 hash types "
       "per sampled (tx, subscript, index), checking that the caller's transaction is unchanged.",
  note=TB + "SHA-256d opaque; the aliasing half (never changes the transaction it was given) is observed by T2 and modelled in C09's heap model.",
  tech="Lean 4 proof (Model = Spec for all hash types) + tables + correspondence (256 hash types exhaustive per case)"),
 'C04': dict(
  text="Lean theorems for every transaction in wire range, valid index, script code of any length, amount in "
       "[0,2^63), all hash types: witness-v0 SignatureHash = BIP143 digest (bip143_eq_spec) and is defined on the "
       "whole range (bip143_defined / bip143_no_pyexc: no struct.error branch reachable). Tied by runs over all 256 "
       "hash types with lock time/sequence/amount at their unsigned and signed edges.",
  note=TB + "SHA-256d opaque.",
  tech="Lean 4 proof (Model = BIP143 Spec; definedness = dead error branches) + correspondence"),
 'C09': dict(
  text="Lean theorems over all operation histories on a heap model with Python reference semantics (objects, shared "
       "children, per-object hash caches, from_* constructors as coded, RawSignatureHash executed on the heap): "
       "invariant (immutable roots reach only immutable objects; filled caches equal the hash of the current "
       "serialisation; no mutable object shared between copies) holds initially and is preserved by every operation "
       "(inv_reachable), the heap model refines the pure value-semantics spec on every observable "
       "(refines_value_spec), setattr/delattr on immutables rejected with the state unchanged, sighash/verify "
       "preserve every existing object (sighash_keeps_objects, verify_keeps_objects), copies unaffected by later "
       "edits (copy_unaffected). Tied by random histories (all histories ≤ 3 ops exhaustively in the thorough tier) "
       "executed on real objects and on the model, comparing serialisation/ids/hash/== of every live object after "
       "every step.",
  note=TB + "Objects are created through the property's operation catalogue only; witness-v0 sighash is modelled by its heap footprint.",
  tech="Lean 4 proof (invariant by induction over histories + refinement to a value spec) + correspondence on operation histories"),
 'C19': dict(
  text="Lean theorems: amount_in_exact (any JSON number text denoting k satoshis is converted to exactly k, incl. the "
       "number scanner and Decimal's 28-digit context), hash_roundtrip / b2lx_is_core_form (byte-reversed hex both "
       "ways), hex_transport, error_reply_raises (a non-null error always raises the class registered for its code, "
       "never a result — registered, unregistered, missing, non-dict), ids_strictly_increase over all call "
       "histories. PARTIAL on the send side: amount_out_exact_partial is proved over the rationals with binary64 "
       "spacing and the shortest-repr contract as hypotheses (IEEE-754/float.__repr__ are not modelled); every "
       "request body is re-parsed with exact decimal arithmetic in the run. Tied by T1 (error-code table) and an "
       "injected scripted HTTP connection.",
  note=TB + "Partial: float(amount)/COIN and float.__repr__ are covered by the correspondence run only.",
  tech="Lean 4 proof (decimal exactness, decision logic, counter invariant) + tables + correspondence via injected connection"),
 'C20': dict(
  text="Lean theorems for every seed/tweak and every byte list: Python-int MurmurHash3 with late masking = UInt32 "
       "reference (murmur_eq_spec), bits set by insert = BIP37 schedule (bits_eq_schedule), contains = membership "
       "predicate, no_false_negative over all histories of inserts and wire round trips, caps (≤ 36000 bytes, ≤ 50 "
       "functions) for all sizing inputs, ser_roundtrip, empty_matches_all. PARTIAL: math.log and the float products "
       "of the constructor are abstract rationals. Tied by T1 (caps, flags) and runs over all tail lengths, insertion "
       "histories interleaved with queries and round trips, wire filters with empty data.",
  note=TB + "Partial: the exact size for (nElements, nFPRate) is not claimed (floating point).",
  tech="Lean 4 proof (UInt32 wrap-around = masked Nat arithmetic; monotone-bits invariant over histories) + tables + correspondence"),
 'C13': dict(
  text="PARTIAL: proof for what python-bitcoinlib itself computes (the glue); the clauses about the curve (pubkey = k·G, verify ⇔ reference, is_fullyvalid ⇔ SEC1 point) are tied by the correspondence run only. Lean theorems: strict-DER "
       "encode/decode round trip and strictness (der_roundtrip, der_strict), CompareBigEndian = sign of the integer "
       "difference, IsLowDERSignature ⇔ 0 < s ≤ n/2 on strict DER with no IndexError (isLowDer_iff), low-S "
       "normalisation spec (∈ {s, n−s}, low, idempotent), CECKey.sign = strict DER of (r, lowS s), WIF payload layout "
       "and round trip under every chain's version byte, curve-constant kernel checks (G on curve, n·G = ∞), abstract "
       "ECDSA over any prime-order group (verify_sign, verify_lowS_twin). PARTIAL: the elliptic-curve arithmetic runs "
       "inside OpenSSL; k·G, ECDSA_sign/verify, point validation are tied only by the correspondence run against the "
       "independent Lean secp256k1 (secrets 1,2,n−1,n−2,…; verification matrix incl. twins, 0, n; on/off-curve, "
       "hybrid keys; four chains). T1: chain version bytes.",
  note=TB + "Not proved: that the Lean secp256k1 formulas form a group of order n; OpenSSL behaviour; random nonces. These are covered by T2 only.",
  tech="Lean 4 proof of the glue (DER, low-S, WIF, header bytes) + abstract ECDSA algebra + correspondence against a Lean reference curve"),
 'C14': dict(
  text="PARTIAL: proof for the glue; recovery of the signer's key and rejection of other messages are tied by the correspondence run only. Lean theorems: message digest = SHA-256d of varint-prefixed magic ‖ "
       "varint-prefixed UTF-8 message for any length (msg_digest_eq_spec), header byte 27+recid+4·compressed and its "
       "inverse (header_roundtrip), sign_compact layout (r‖s 32-byte big-endian, recid < 4), VerifyMessage's decision "
       "(true only for the address of the recovered key and the same message), abstract recovery algebra "
       "(recover_correct). UNPROVED (kept at full strength in Props/C14.lean): recover_eq_reference (the Python "
       "recovery code = SEC1 §4.1.6). PARTIAL: OpenSSL arithmetic is tied only by the run: Lean recovery reproduces "
       "the signer's key, VerifyMessage true for the signer's P2PKH address, false for other keys, other address "
       "types with the same hash160, and perturbed messages.",
  note=TB + "OpenSSL (BN_*, EC_POINT_*) inside recover is covered by T2 only.",
  tech="Lean 4 proof of the glue (digest layout, header byte, decision logic) + abstract recovery algebra + correspondence against a Lean reference curve"),
 'C06': dict(
  text="Lean simulation theorems between the model of scripteval.py (as written, every Python exception site "
       "explicit) and a reference interpreter in the shape of Bitcoin Core's interpreter.cpp, for arbitrary byte "
       "lists as scripts, arbitrary initial stacks and contexts: step_equiv per opcode class, lifted to eval_equiv / "
       "eval_fails_iff (fails exactly when the reference fails) and eval_stack (same final stack), and verify_equiv "
       "(VerifyScript accepts exactly when the reference accepts) under the 12 admissible flag sets — every opcode "
       "class including CHECKSIG/CHECKMULTISIG with FindAndDelete, CODESEPARATOR, NULLDUMMY, and all four limits; "
       "script-number codec = CScriptNum on all integers. Tied by T1 (all 256 opcodes, names, disabled set, limits) "
       "and runs: every 1-opcode program × ~60 stacks × 12 flag sets, grammar-generated programs with real "
       "signatures, limit probes, multi-call histories.",
  note=TB + "Hypotheses of the full theorems: 0 ≤ inIdx; the signature check ignores a leading OP_CODESEPARATOR of the script code (what C03's findAndDelete_codesep gives for the real sighash); hash outputs ≤ 520 bytes; EvalScript caller stack ≤ 1000 items. Signature checking is an opaque function shared by both sides (strict-DER/SEC1 domain of the property).",
  tech="Lean 4 proof (forward simulation model ↔ reference interpreter, induction over the operation list) + tables + correspondence (exhaustive short programs)"),
 'C07': dict(
  text="Lean theorems for ARBITRARY byte lists as scriptSig/scriptPubKey: verify_total (structural termination), "
       "only_known_findings / verify_contained (with 0 ≤ inIdx and admissible flags the outcome is ok or a "
       "validation error: every IndexError / KeyError / struct.error / AssertionError / invalid-script site of the "
       "model is dead), error_state_limits (captured state ≤ 1003 items, ≤ 221 counted ops, elements ≤ 520 bytes), "
       "and the same for EvalScript. Side-effect freedom is proved on C09's heap model and observed here. Tied by "
       "runs on random and structure-aware mutated byte strings (0..10 001 bytes, truncated pushes at every position, "
       "P2SH with garbage redeem scripts), mutable and immutable transactions, in/out-of-range indices; txTo and "
       "scripts compared before/after. Known findings D6, D7 are listed in known_findings.json.",
  note=TB + "HashesOK (hash outputs ≤ 520 bytes) is a hypothesis; OpenSSL's tolerant DER parsing is outside the model (domain restriction of the property).",
  tech="Lean 4 proof (dead-branch / invariant by induction over interpreter steps) + correspondence on arbitrary byte strings"),
 'C05': dict(
  text="PARTIAL (cryptographic half assumed). Lean theorems. Commitment table, exact, for all transactions: two transactions that agree on every part the "
       "hash type commits to have the same legacy digest (agree_sighash_eq, uncommitted_edit_preserves — no "
       "hypothesis); a committed edit that changes a committed part changes the hashed message "
       "(committed_edit_changes, from injectivity of the wire encoding = C01's round trip) and hence the digest under "
       "the explicit collision-resistance hypothesis. Closed-form verdicts of the C06 interpreter model on P2PK, "
       "P2PKH, bare m-of-n (1 ≤ m ≤ n ≤ 20: accepted iff the signatures match a subsequence of the keys in order) and "
       "their P2SH wrappings with the signature check abstract (template_accepts_*, template_rejects_wrong_key_*), "
       "and verdict-under-edit theorems (uncommitted edit: same verdict, no assumption; committed edit: rejected, "
       "given collision resistance and signature uniqueness). PARTIAL by nature: ECDSA correctness/unforgeability and "
       "SHA-256d collision resistance are hypotheses. Tied end to end: spends of every template are signed with the "
       "library, verified by VerifyScript and by the model with the Lean ECDSA, then every single edit of the "
       "catalogue is applied and impl = model = table prediction is required.",
  note=TB + "Cryptographic half (unforgeability, collision resistance) is assumed, never an axiom; OpenSSL signing is covered by the run.",
  tech="Lean 4 proof (commitment table via encoding injectivity; symbolic evaluation of the interpreter model on templates) + end-to-end sign/verify/edit correspondence"),
}

REASON_PENDING = "check under construction in this build round (model/theorems not yet merged); see DESIGN.md §10/§11"


def main():
    props = [json.loads(l)['id'] for l in open(os.path.join(VERIF, 'properties.jsonl'))]
    checks = []
    for pid in props:
        if pid not in P or not os.path.exists(os.path.join(VERIF, 'harness', 'props', pid.lower() + '.py')):
            continue
        d = P[pid]
        checks.append({
            "property_id": pid, "quick_cmd": "./check %s quick" % pid, "thorough_cmd": "./check %s thorough" % pid,
            "evidence_file": "evidence/%s.json" % pid, "replay_cmd_template": "./check %s --replay {path}" % pid,
            "engine": "lean4-proof+correspondence",
            "level_claimed": {"category": "proof", "text": d['text'], "design_ref": "DESIGN.md §6 %s, §11" % pid},
            "level_note": d['note'], "technique": d['tech']})
    claimed = [c['property_id'] for c in checks]
    m = {"version": 1,
         "setup_cmd": "cd lean && lake build",
         "hooks": {"guard": "PYTHON_BITCOINLIB_VERIF",
                   "enable": "no source hooks are needed; checks import /repo's working tree in-process",
                   "baseline_off_cmd": "cd /repo && /venv/bin/python -m pytest -q -p no:cacheprovider",
                   "source_commits": [], "add_only": True},
         "engines": [{"name": "lean4-proof+correspondence", "path": "lean/", "serves_properties": claimed,
                      "kind_free_text": "Lean 4 model + theorems (lake build, #print axioms audit, leanchecker in "
                                        "the thorough tier), T1 regenerated tables, T2 differential run of the "
                                        "compiled model driver against the real code"}],
         "checks": checks,
         "not_applicable": [{"property_id": p, "reason": P.get(p, {}).get('na', REASON_PENDING)}
                            for p in props if p not in claimed],
         "notes": "See DESIGN.md. Exit 2 = infrastructure failure (no VIOLATION line). known_findings.json lists "
                  "recorded and repaired defects."}
    json.dump(m, open(os.path.join(VERIF, 'MANIFEST.json'), 'w'), indent=1)
    print('claimed:', claimed)


if __name__ == '__main__':
    main()
