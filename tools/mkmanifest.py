#!/usr/bin/env python3
"""Regenerate MANIFEST.json from the per-property descriptions below and the harness modules present.

The texts are kept in step with docs/THEOREMS.md (generated inventory of the audited theorems) and with the
four independent audits (docs/AUDIT-1.md … AUDIT-4.md): each says what is PROVED (kernel-checked theorem
about the model), under which remaining hypotheses, and what rests on the correspondence run only ("T2 only").
"""
import json
import os

VERIF = os.path.dirname(os.path.dirname(os.path.abspath(__file__)))

TB = ("Trusted beyond the Lean kernel (axioms propext/Classical.choice/Quot.sound only, audited by #print axioms on "
      "every run; no native_decide anywhere): the Spec.* transcription of the reference; that Model.* matches the "
      "Python code — established only by the differential run of the compiled model (Lean compiler) against the real "
      "code on generated inputs, by the regenerated tables (T1) and by reading; CPython semantics as modelled; the "
      "Python harness. The cross-property theorems of Props/Coherence.lean and Props/Concrete.lean (digest / checksum "
      "lengths of the concrete hashes, shared-definition coherence) are built by setup_cmd; they are rebuilt and "
      "their axioms audited in the thorough tier only (quick evidence lists them under system_theorems, not "
      "obligations); leanchecker (thorough tier) re-checks the property's own modules. Inputs outside a property's quantifier are exercised as observations "
      "(evidence: out_of_domain_divergences), never as verdicts; auxiliary observables the harness cannot reach in "
      "a tree are reported as unobservable_cases. ")

P = {
 'C01': dict(
  text="PROVED for every well-formed transaction/header/block of any size (WF = the property's wire ranges, ≥ 1 "
       "input, item lengths ≤ MAX_SIZE): Model serialisation = Spec wire bytes, the BIP144 form iff some witness "
       "stack is non-empty (Spec condition independent of the model's is_null mirror), deserialise∘serialise = the "
       "normalised object that re-serialises identically for the immutable AND the mutable class, every strict "
       "prefix → truncation error, surplus → extra-data error carrying object and padding, padding allowed; and for "
       "ARBITRARY bytes the deserialisers only return ok / truncation / size error (deTx_total etc.). Generic codec "
       "library (Dec/Sound closed under sequencing, vectors, var-bytes). T1: MAX_SIZE. T2: every prefix/extension of "
       "generated encodings on both classes, CompactSize boundaries of every count/length.",
  note=TB + "Fields are Nat/Int in wire range; negative values assigned to mutable objects are outside the model.",
  tech="Lean 4 proof (codec soundness by induction) + generated-table equality + model/implementation correspondence"),
 'C02': dict(
  text="PROVED for every hash function H (SHA-256d opaque): txid = H(stripped bytes), independent of any witness "
       "assignment; wtxid = H(full bytes); full = stripped bytes iff no witness (ids differ exactly when a stack is "
       "non-empty, collision-freeness on the two preimages an explicit hypothesis); block hash = header hash "
       "whatever vtx; == determined by the serialisation and equal objects report one hash() (model fact: hash is a function "
       "of the serialisation; T2 compares only the RELATION — all constructions of equal field values report one "
       "hash() value, before and after the caches are filled — never hash(x) == hash(bytes); == across class "
       "families is observed out of domain only). The clause "
       "'mutable and immutable objects agree' is definitional in this value-level model (the class tag is never "
       "read) — its content is proved on C09's heap model (heap_ident_eq_value) and tied by T2: hash/==/GetHash/dict "
       "membership compared for every class pair, also after in-place edits.",
  note=TB + "SHA-256 is an executable reference validated against hashlib by the run, never unfolded in proofs.",
  tech="Lean 4 proof (algebraic laws over an opaque hash) + model/implementation correspondence"),
 'C03': dict(
  text="PROVED for every transaction in wire range, every subscript that parses (shorter than 2^64 bytes), every "
       "index incl. non-existing ones, and for RawSignatureHash every Python-int hash type in int32 (raw_eq_spec_int: "
       "negatives reduce mod 2^32; outside int32 the two constant-one cases are still answered, otherwise "
       "struct.error); the convenience-form theorems (wrapper_eq_spec, wrapper_raises_iff) are proved for the 256 "
       "hash-type bytes (ht < 256): FindAndDelete of OP_CODESEPARATOR = the other operations (push data untouched), RawSignatureHash as written "
       "(scratch copy, blanking, list surgery) = Bitcoin Core's on-the-fly serializer digest incl. the HASH_ONE "
       "cases (raw_eq_spec, err_iff); the convenience form returns that digest or raises ValueError iff err — stated "
       "for the property-conforming wrapper; the shipped wrapper additionally asserts on witness-program-SHAPED "
       "subscripts: KNOWN FINDING D17 (not repaired; the as-coded wrapper is modelled and tied too). 'Never changes "
       "the transaction' holds by purity of the model; its content is C09's sighash_keeps_objects and T2 "
       "(serialisation compared before/after, histories on one live object). Negative input indices are outside the "
       "quantifier and not modelled here. T1: SIGHASH_NONE/SINGLE/ANYONECANPAY, OP_CODESEPARATOR, the constant "
       "'one' (read behaviourally; SIGVERSION values are evidence only). T2: all 256 hash types per case, standard "
       "template shapes as subscripts, transactions with 253..1000 inputs/outputs at indices around 256; subscripts "
       "that do not parse and hash types beyond a byte are out-of-domain observations, not compared strictly.",
  note=TB + "SHA-256d opaque.",
  tech="Lean 4 proof (Model = Spec for all hash types) + tables + correspondence (256 hash types exhaustive per case)"),
 'C04': dict(
  text="PROVED for every transaction in wire range, valid index, script code of any length, amount in the whole "
       "int64 range and hash types in int32: witness-v0 SignatureHash = BIP143 digest (bip143_eq_spec) and is defined "
       "(no struct.error branch reachable: bip143_defined / bip143_no_pyexc); the digest ignores scriptSigs and "
       "witness. T2: all 256 hash types with lock time/sequence/amount at unsigned and signed edges, standard "
       "template shapes as script codes, out-of-domain inputs (non-existing index, amount None / negative / outside int64, hash types beyond a byte) "
       "exercised as observations only (which error wins there is not constrained by the statement), "
       "histories on one live mutable object.",
  note=TB + "SHA-256d opaque. Negative input indices are outside the quantifier and not modelled.",
  tech="Lean 4 proof (Model = BIP143 Spec; definedness = dead error branches) + correspondence"),
 'C05': dict(
  text="PARTIAL (the cryptographic half is assumed). PROVED, commitment table for all transactions: agreement on "
       "every part the hash type commits to ⇒ same legacy digest (no hypothesis); a committed edit that changes a "
       "committed part changes the hashed message (from injectivity of the wire encoding = C01) and hence the digest "
       "under collision resistance on those two messages (explicit hypothesis). PROVED, closed-form verdicts of the "
       "C06 interpreter model on P2PK, P2PKH, bare m-of-n (1 ≤ m ≤ n ≤ 20: accepted iff the signatures match a "
       "subsequence of the keys in order) and their P2SH wrappings, also for the concrete context (C03 model of "
       "RawSignatureHash + strict-DER ECDSA over the Lean curve); an uncommitted edit leaves the verdict unchanged "
       "(no assumption); a committed edit is rejected given that the old signature does not verify for the new "
       "digest (single-instance unforgeability hypothesis — its consequent is equivalent to the conclusion: the "
       "theorem's content is the table plus the template evaluation). ASSUMED, never proved: a library-made signature "
       "verifies (needs the group law of the curve) — tied end to end by T2: every template is signed with the "
       "library, verified by VerifyScript and by the model with the Lean ECDSA, then every single edit of the "
       "catalogue is applied and impl = model = table prediction is required.",
  note=TB + "Hypotheses: SHA-256d collision resistance per instance; ECDSA correctness/unforgeability per instance; OpenSSL signing covered by the run.",
  tech="Lean 4 proof (commitment table via encoding injectivity; symbolic evaluation of the interpreter model on templates) + end-to-end sign/verify/edit correspondence"),
 'C06': dict(
  text="PROVED: forward simulation between the model of scripteval.py (as written, every Python exception site "
       "explicit) and a reference interpreter in the shape of Bitcoin Core's interpreter.cpp, for arbitrary byte "
       "lists as scripts: step_equiv_full for every opcode class incl. CHECKSIG/CHECKMULTISIG with FindAndDelete, "
       "CODESEPARATOR, NULLDUMMY and all four limits, lifted to eval_equiv/eval_fails_iff/eval_stack and "
       "verify_equiv under the 12 admissible flag sets; instantiated on the CONCRETE environment the driver runs "
       "(real hashes with proved digest lengths, C03's model of RawSignatureHash incl. Python's wrap-around for "
       "in-range negative indices, strict-DER ECDSA over the Lean curve): eval_equiv_real/verify_equiv_real with "
       "CodesepInsensitive and HashesOK discharged. Remaining hypotheses: transaction fields in wire range, index "
       "not below −|vin| (D7), admissible flags (D6), EvalScript caller stack ≤ 1000 items. The signature check is "
       "the same function on both sides (the property's strict-DER/SEC1 domain). T1: opcode values, disabled set, "
       "numeric sets, limits (display names: evidence only). T2 compares the VERDICT (accepted / fails; EvalScript: "
       "fails vs the exact final stack) — which error is raised is C07's business: every 1-opcode program × ~60 stacks × 12 flag sets, grammar programs with real "
       "signatures, the multisig signature-list matrix, limit probes, multi-call histories.",
  note=TB + "OpenSSL's tolerant DER/pubkey parsing is outside the model (the property's stated domain restriction).",
  tech="Lean 4 proof (forward simulation model ↔ reference interpreter, induction over the operation list) + tables + correspondence (exhaustive short programs)"),
 'C07': dict(
  text="PROVED for ARBITRARY byte lists as scriptSig/scriptPubKey and any integer index: structural termination; the "
       "only non-validation outcomes are IndexError at an index below −|vin| (or SINGLE below −|vout|) and "
       "AssertionError for CLEANSTACK without P2SH (only_known_findings_real, raises_real_iff — KNOWN FINDINGS D7, "
       "D6), every other IndexError/KeyError/struct.error/AssertionError/invalid-script site of the model is dead "
       "(verify_contained_real, for transactions with fields in wire range); the captured error state respects "
       "≤ 1003 items / ≤ 221 counted ops / ≤ 520-byte elements (error_state_limits_real, no hypothesis) and ≤ 1000 / "
       "≤ 201 between operations. 'Never modifies transaction or scripts' holds by purity of the model; its content "
       "is C09's verify_keeps_objects and T2. T2: random and structure-aware mutated byte strings (0..10 001 bytes, "
       "truncated pushes at every position, P2SH with garbage redeem scripts), the signature/pubkey operand matrix "
       "(every truncation point, every short string), mutable and immutable transactions, indices incl. wrapping "
       "negatives; compared: the outcome family (normal return / validation-error family / anything else = "
       "violation), the limit clause evaluated on Python's own captured state (e.stack, e.altstack, e.nOpCount), "
       "txTo / scripts / the caller's stack list unchanged, and inside C06's domain the verdict; the exact captured "
       "state is printed as a diagnostic only. Transactions whose fields are outside the wire range (accepted by the public "
       "constructors) make struct.error / ValueError escape from a signature check that serialises the field: "
       "KNOWN FINDING D21 (the model mirrors it, the containment theorems carry FieldsWF; generated and recognised "
       "only when both sides escape and the fields are out of range; a contained implementation is never an alarm). loop_append / "
       "state_limits_every_iteration lift the tight limits to the head of every iteration reached.",
  note=TB + "OpenSSL's tolerant DER parsing: where the library accepts what the strict model rejects only containment is compared.",
  tech="Lean 4 proof (dead-branch / invariant by induction over interpreter steps) + correspondence on arbitrary byte strings"),
 'C08': dict(
  text="PROVED for all integers / all byte strings / all token lists: script-number codec bijection at spec and at "
       "code level (MPI route), builder = reference minimal encoding (incl. bool and non-coercible element kinds), "
       "iter∘build = canonical tokens, build∘iter∘build = build, raw iteration is a partition with the truncated-push "
       "remainder and its carried data (carried data: theorem about the model; T2 compares the error family only), every predicate = an independent generative characterisation (concatenation "
       "of valid operations / fixed byte layouts), sigop counts (both modes) = Core's GetOp-based count, and the "
       "parser-free compositional laws (SigOpLaws) hold and determine the count uniquely (sigops_laws_hold, "
       "sigops_laws_unique); buffer-protocol elements are spliced raw (build_buffer_raw, outside the read-back "
       "domain); CScriptOp(n) for n in 0..255 returns the instance of that opcode "
       "(opcode_lookup_in_table; T2 on 0..255); calls outside 0..255 and the growth of the private instance table are "
       "statements about the model only, run out-of-domain in T2 (never an obligation). T2: all scripts ≤ 2 bytes exhaustively through every observer, token lists through every "
       "iterable and element kind, bytes/bytearray.",
  note=TB + "bn2vch/encode_op_pushdata fail at 2^32-byte encodings; theorems state that boundary.",
  tech="Lean 4 proof (structural induction over scripts) + model/implementation correspondence (exhaustive short scripts)"),
 'C09': dict(
  text="PARTIAL (two statements UNPROVED, see below). PROVED over all operation histories on a heap model with Python reference semantics (objects, shared "
       "children, per-object hash caches, from_* constructors as coded, RawSignatureHash executed on the heap): the "
       "invariant (filled caches equal the hash of the current serialisation; immutable roots reach only immutable "
       "objects; copies are fresh) holds initially and is preserved by every operation of the property's catalogue "
       "AND of the extended catalogue with by-reference assignments (inv_reachable, inv_reachable_ext); identifiers "
       "and serialisation reflect current values incl. shared parts; immutable objects/snapshots are stable under "
       "every operation; sighash/verify leave every existing object unchanged; setattr/delattr on immutables "
       "rejected; refinement to the pure value-semantics spec for the base catalogue (refines_value_spec — it can "
       "only detect aliasing/caching/mutability errors: serialisation and identifiers are shared terms whose content "
       "is C01/C02). Immutable constructors freeze what they are given (ImmClosedX without exceptions: an immutable "
       "object refers only to immutable objects; witness-list / stack edits and CTxIn over a mutable outpoint are in "
       "the catalogue) — the library did not until defect D23 was found by this check and FIXED (3757b45). UNPROVED "
       "(kept at full strength in Props/C09.lean): refines_alias_spec for the by-reference catalogue "
       "(refines_alias_spec_partial: histories without by-reference ops) and rawSigHash_eq_sighash_model (heap "
       "digest = Model.Sighash on the value; _partial: the early exits) — both tied by T2: every history is run on "
       "the heap model AND the aliasing spec, every sighash step through both digest functions, inside the driver. T2: "
       "random histories (all histories ≤ 3 ops exhaustively in the thorough tier) on real objects, every container "
       "kind, default-witness construction; serialisation/ids/hash/== of every live object compared after every step.",
  note=TB + "Objects are created through the operation catalogue; witness-v0 sighash is modelled by its heap footprint.",
  tech="Lean 4 proof (invariant by induction over histories + refinement to a value spec) + correspondence on operation histories"),
 'C10': dict(
  text="PROVED for every byte string / every string: encode/decode = big-integer reference, mutual inverses "
       "(leading zeros/'1's), invalid character ⇔ InvalidBase58Error, CBase58Data accepts exactly "
       "version‖payload‖H(version‖payload)[:4] with total length ≥ 5 and otherwise raises the checksum error, text "
       "round trip for all 256 versions (for SHA-256d with the digest length proved: check_roundtrip_sha256d). "
       "Corollaries: encode_injective, decode_injective. "
       "T1: alphabet. T2: all byte strings ≤ 2 and alphabet strings ≤ 3 exhaustively, every single-character "
       "corruption of valid strings, non-ASCII input.",
  note=TB,
  tech="Lean 4 proof (Nat.digits-style numeral lemmas) + generated-table equality + model/implementation correspondence"),
 'C11': dict(
  text="PROVED: polymod = BIP173 BCH residue, checksum_verifies, convertbits padding rule and round trip, decode "
       "accepts ⇔ the declarative Spec.ValidSegwit, a string is valid for at most ONE expected prefix (prefix_unique, "
       "decode_rejects_shorter_prefix), encode_decode for all versions/lengths, mixed case rejected, and "
       "the code distance: a same-length string whose LOWER-CASE form differs from a valid ≤ 90-character address "
       "in 1–4 places is rejected; after ≤ 4 character substitutions the result is rejected unless only letter case "
       "changed (then mixed case is rejected, all-upper-case is the same address: mixed_case_rejected, "
       "uppercase_accepted) (detects_le2, detects_le4 — both kernel-checked with the standard axioms: the weight-3/4 bound is reduced to "
       "963 `decide +kernel` shard theorems over a generated, untrusted look-up table whose coverage is itself a "
       "theorem). Truncation/extension/insertion/deletion: T2 only (the BCH code guarantees nothing there). T1: "
       "charset and generator read behaviourally. T2: every single substitution incl. non-ASCII code points with "
       "special case mappings, sampled-or-exhaustive doubles, sampled triples/quadruples.",
  note=TB,
  tech="Lean 4 proof (GF(2)-linear algebra of the BCH code; sharded decide +kernel for the distance bound) + tables + correspondence"),
 'C12': dict(
  text="PROVED over all selection histories from the fresh-import state and all strings: after any history "
       "bitcoin.params carries the last selected chain's address/network values and bitcoin.core.coreparams that "
       "chain's consensus values (mainnet before any call; whether the two globals are one object is a fact about the "
       "model only and is not checked); round trip "
       "script→address→text→address→script for the 4 templates × 4 chains with the prescribed class/prefix/payload; "
       "refuse_total (any text is a valid address of the selected chain or CBitcoinAddressError — no other outcome); "
       "cross-chain refusal (base58: unconditional; bech32 vs base58 re-reading: under the explicit 32-bit-checksum "
       "hypothesis). Bare UNCOMPRESSED pubkey scripts are converted by hashing 64 of the 65 key bytes: KNOWN FINDING "
       "D18 (the test suite pins it; the model is property-conforming; recognised only when the implementation's "
       "outcome equals field by field the as-coded outcome and the model's the conforming one; bare_pubkey_dispatch / "
       "bare_pubkey_flag_off state when the bare-key branch is taken at all). The witness-keyhash branches of the "
       "P2PKH converter have no Spec (T2 ONLY). T1: chain version bytes/HRP. T2: random "
       "selection histories incl. fresh import, cross-chain addresses, witness versions 1..16, mutated strings.",
  note=TB + "Base58 payload length of foreign text is deliberately not constrained (O2).",
  tech="Lean 4 proof (invariant over selection histories, decision logic) + generated-table equality + correspondence"),
 'C13': dict(
  text="PARTIAL. PROVED (what python-bitcoinlib itself computes): strict-DER encode/decode round trip and "
       "strictness, CompareBigEndian = sign of the integer difference, IsLowDERSignature ⇔ 0 < s ≤ n/2 on strict DER "
       "with no IndexError, signature_to_low_s mirrored over a contract of the three OpenSSL calls (result ∈ {s, n−s}, "
       "low, idempotent), CECKey.sign = strict DER of (r, lowS s) under that contract, WIF round trip at payload AND "
       "text level under every chain's version byte, SEC1 decoding of the reference for uncompressed/hybrid keys, "
       "curve-constant kernel checks (G on curve, n·G = ∞), abstract ECDSA over any prime-order group. T2 ONLY (the "
       "arithmetic runs inside OpenSSL): public key = k·G, verify ⇔ reference verification, is_fullyvalid ⇔ SEC1 "
       "point — tied against the independent Lean secp256k1 on secrets 1, 2, n−1, n−2, …, a verification matrix "
       "incl. twins/0/n, on/off-curve and hybrid keys, several live key objects used in interleaved order, four "
       "chains. T1: chain version bytes.",
  note=TB + "Not proved: that the Lean secp256k1 formulas form a group of order n; OpenSSL behaviour; random nonces.",
  tech="Lean 4 proof of the glue (DER, low-S, WIF, SEC1) + abstract ECDSA algebra + correspondence against a Lean reference curve"),
 'C14': dict(
  text="PARTIAL. PROVED: message digest = SHA-256d of varint-prefixed magic ‖ varint-prefixed UTF-8 message for any "
       "length, header byte 27+recid+4·compressed and its inverse as used by recover_compact, sign_compact layout, "
       "recover models the digest shift for long hashes, VerifyMessage's decision over address TEXT (true only for "
       "the Base58Check text of the recovered key's P2PKH address: false for any other text incl. other address "
       "types with the same hash160), abstract recovery algebra (recover_correct; a different digest residue "
       "recovers a different key). UNPROVED (kept at full strength): recover_eq_reference. T2 ONLY: that the "
       "recovered key is the signer's, rejection of other messages on the concrete curve — Lean recovery must "
       "reproduce the signer's key, VerifyMessage true for the signer's address, false for other keys, other "
       "address types and perturbed messages; histories with several keys across chain switches.",
  note=TB + "OpenSSL (BN_*, EC_POINT_*) inside recover is covered by T2 only. Observation O15 (outside the property: a forged, not a library-made, signature): the infinity key 00 makes VerifyMessage accept for one fixed address (mirrored in the model: o15_verify_accepts_infinity_key, o15_recovery_gives_infinity; tied by T2).",
  tech="Lean 4 proof of the glue (digest layout, header byte, decision logic) + abstract recovery algebra + correspondence against a Lean reference curve"),
 'C15': dict(
  text="PROVED for every non-empty hash list / transaction list in wire range: the loop-based merkle tree's last "
       "node = the recursive reference root (incl. the known duplicate-leaf malleability of the consensus algorithm), "
       "witness root with coinbase zeroed (on a list without any witness data the library refuses with its documented "
       "NoWitnessData — observation O5; T2 accepts that refusal or the Spec root, nothing else), constructor decision (zero root filled, wrong root "
       "refused), weight = 3·stripped + full for transactions (both code branches) and blocks; digest length proved "
       "for SHA-256d. T2: counts 1..70, 2^k±1, every CompactSize boundary of every count/length for every size "
       "observable, duplicates, ± witness, blocks built from transactions with a history (warmed caches, in-place "
       "edits), out-of-range mutable fields.",
  note=TB + "hash256 opaque in the abstract theorems.",
  tech="Lean 4 proof (loop invariant = recursion) + model/implementation correspondence"),
 'C16': dict(
  text="PROVED for blocks/transactions with fields in wire range: CheckTransaction accepts ⇔ Spec.ValidTx, "
       "CheckBlockHeader ⇔ Spec.ValidHeader, CheckBlock ⇔ Spec.ValidBlock (both switches; Spec with its own "
       "characterisation of coinbase/null outpoint/witness presence), every rejection is a validation error (no "
       "IndexError/invalid-script outcome reachable), commitment index = last matching output, sigop count = Core's, "
       "monotonicity in the switches, a duplicated last transaction is never valid. T1: limits and the chain table "
       "whose work limits are Bitcoin Core's values. T2: per generated valid block every single-rule violation on "
       "both sides of each boundary under each chain.",
  note=TB + "PoW part reuses C17's pow_iff; hash256/merkle are shared opaque symbols (digest length proved).",
  tech="Lean 4 proof (decision logic accept ⇔ Spec) + generated-table equality + correspondence (fault catalogue)"),
 'C17': dict(
  text="PROVED over all 32-bit compact values / all 256-bit integers: decode_spec, toCompact_canonical, decode_encode "
       "(= truncation to three sign-magnitude bytes), encode_decode on canonical values, pow_iff against Bitcoin "
       "Core's SetCompact/CheckProofOfWork and pow_iff_target in the property's own wording, rejection is a "
       "validation error for a ≥ 32-byte hash (the struct.error branch of a short hash is explicit), byte length = "
       "(bit_length+7)>>3; truncation never rounds up and loses less than one unit of the lowest kept byte "
       "(truncTop3_le/_close, decode_encode_le, pow_accept_below_value). T1: per-chain work limits = Bitcoin Core's consensus.powLimit values (D22: signet had "
       "mainnet's). T2: the full exponent × boundary-mantissa grid, wrap-around words at the overflow exponents, all bit lengths, hashes at target±1 under the "
       "four chains in both orders.",
  note=TB + "Python int &,>>,<< on non-negative ints modelled as mod/div/mul by powers of two.",
  tech="Lean 4 proof (omega/interval_cases arithmetic) + generated-table equality + correspondence"),
 'C18': dict(
  text="PROVED for all 17 message types and any field values in range, for every protocol version with exactly the "
       "fields it carries: payload = protocol layout, frame = magic‖command‖length‖checksum‖payload (Spec command "
       "padding and checksum defined independently of the model), parse∘frame = message with the stream left exactly "
       "after the frame, re-framing identical, streams of frames parse in order (parseAll, the function the driver "
       "runs), wrong magic/checksum rejected, every strict prefix → truncation, length_guard and "
       "position_le_frame_end (never reads beyond the frame; > MAX_SIZE → error after 24 bytes); checksum length "
       "proved. Altered-payload rejection assumes the 32-bit checksum differs (explicit hypothesis). The Spec domain includes "
       "version 10300 and addresses of any protocol version (read with the version they were written for; parse "
       "theorems carry AddrProto pv m); the implementation reads nVersion 10300 as 300 (KNOWN FINDING D24, mirrors "
       "Bitcoin Core) and never passes protover to the address parser, so sub-31402 address entries cannot be read "
       "back (KNOWN FINDING D25) — the model is conforming for both and each is recognised only when the "
       "implementation's answer equals the model's with exactly that substitution. T1: the 17 command "
       "strings exist, chain magic (version constants and class names are evidence, not obligations). T2: every "
       "single-byte corruption and truncation of small frames under the four chains, histories on live objects "
       "(in-place edits, chain tours, stream reuse, parse after a parse that raised). For REJECTED frames only what "
       "the statement gives is compared: an error of the library's families (the truncation error where the frame "
       "is truncated), nothing returned, position within the frame; returned messages are compared exactly (type, "
       "fields, position at the frame end, re-framing).",
  note=TB,
  tech="Lean 4 proof (codec round trip with stream position, fault-class decision logic) + tables + correspondence"),
 'C19': dict(
  text="PARTIAL on the send side. PROVED: amount_in_exact (any JSON number text within CPython's numeral limits — "
       "InLimits: ≤ 4300 integer digits, exponent magnitude below 10^18; beyond them JSONRPCError −342 on both sides — "
       "denoting k satoshis, |k| < 10^28, is converted to exactly k, incl. the number scanner and Decimal's 28-digit "
       "context; amount_in_outcomes: integer, Overflow or −342, nothing else), hash_roundtrip / "
       "b2lx_is_core_form, hex_transport, error_reply_raises (a non-null error always raises the class registered for "
       "its code, never a result — registered, unregistered, missing, unhashable codes, non-dict errors), "
       "ids_strictly_increase over all call/batch histories whatever becomes of each call (any reply kind or a "
       "connection error: ids_independent_of_fate), the checker satoshisDenoted decides 'the emitted text "
       "denotes exactly k satoshis'. Send side: amount_out_exact_partial is proved over the rationals with spacing "
       "and shortest-repr contracts as hypotheses (IEEE-754/float.__repr__ are not modelled) — T2 ONLY in effect: "
       "every request body is re-parsed with exact decimal arithmetic. Non-reply bodies (non-UTF-8, non-object JSON) "
       "are modelled outcomes compared strictly (observations outside the statement). T1: error-code table. T2 via "
       "an injected scripted HTTP connection: amounts at boundaries and every fractional-digit pattern both "
       "directions, chained hash-carrying calls, every registered/unregistered code, id sequences across faults.",
  note=TB + "Which method converts which field is T2 only.",
  tech="Lean 4 proof (decimal exactness, decision logic, counter invariant) + tables + correspondence via injected connection"),
 'C20': dict(
  text="PARTIAL for the constructor's floating-point sizing. PROVED for every seed/tweak and every byte list: "
       "Python-int MurmurHash3 with late masking = UInt32 reference, bits set by insert = BIP37 schedule, bits after "
       "any history = initial bits ∪ scheduled bits of the inserted elements, contains = membership predicate, "
       "no_false_negative over all histories of inserts and wire round trips, caps (≤ 36000 bytes, ≤ 50 functions) "
       "and built ≤ requested for all sizing inputs, the constructor's exceptions decided by the model from its "
       "arguments (ctor_rate_nonpos, ctor_zero_elements, ctor_caps), ser_roundtrip, empty_matches_all. math.log and the float "
       "products are abstract rationals (the harness evaluates the BIP37 formula with 60-digit decimals and compares "
       "where robust). T1: caps, flags. T2: all tail lengths, insertion histories interleaved with queries and "
       "round trips, wire filters with empty data and any hash-function count.",
  note=TB,
  tech="Lean 4 proof (UInt32 wrap-around = masked Nat arithmetic; monotone-bits invariant over histories) + tables + correspondence"),
}


def main():
    props = [json.loads(l)['id'] for l in open(os.path.join(VERIF, 'properties.jsonl'))]
    checks = []
    for pid in props:
        if pid not in P or not os.path.exists(os.path.join(VERIF, 'harness', 'props', pid.lower() + '.py')):
            continue
        d = P[pid]
        checks.append({
            "property_id": pid, "quick_cmd": "./check %s quick" % pid, "thorough_cmd": "./check %s thorough" % pid,
            "evidence_file": "evidence/%s.json" % pid, "replay_cmd_template": "./check %s --replay {path}" % pid,
            "engine": "lean4-proof+correspondence",
            "level_claimed": {"category": "proof", "text": d['text'],
                              "design_ref": "DESIGN.md §6 %s, §11; docs/THEOREMS.md; docs/AUDIT-1.md … AUDIT-4.md" % pid},
            "level_note": d['note'], "technique": d['tech']})
    claimed = [c['property_id'] for c in checks]
    m = {"version": 1,
         "setup_cmd": "cd lean && lake build",
         "hooks": {"guard": "PYTHON_BITCOINLIB_VERIF",
                   "enable": "no source hooks are needed; checks import /repo's working tree in-process",
                   "baseline_off_cmd": "cd /repo && /venv/bin/python -m pytest -q -p no:cacheprovider",
                   "source_commits": [], "add_only": True},
         "engines": [{"name": "lean4-proof+correspondence", "path": "lean/", "serves_properties": claimed,
                      "kind_free_text": "Lean 4 model + theorems (lake build, #print axioms audit, leanchecker and "
                                        "system-module audit in the thorough tier), T1 regenerated tables, T2 "
                                        "differential run of the compiled model driver against the real code"}],
         "checks": checks,
         "not_applicable": [{"property_id": p, "reason": "check under construction"} for p in props if p not in claimed],
         "notes": "See DESIGN.md. Exit 2 = infrastructure failure (no VIOLATION line). known_findings.json lists "
                  "recorded (known) and repaired (fixed) defects; category 'proof' with a text starting PARTIAL "
                  "means: theorems for the part the model can carry, the rest tied by the correspondence run only."}
    json.dump(m, open(os.path.join(VERIF, 'MANIFEST.json'), 'w'), indent=1)
    print('claimed:', claimed)


if __name__ == '__main__':
    main()
