#!/usr/bin/env python3
"""Rewrite the table of seeded regressions in DESIGN.md (between the SEEDTABLE markers) from seeded/*/."""
import glob
import json
import os
V = os.path.dirname(os.path.dirname(os.path.abspath(__file__)))
rows = []
for d in sorted(glob.glob(os.path.join(V, 'seeded', '*'))):
    try:
        m = json.load(open(os.path.join(d, 'meta.json')))
        r = json.load(open(os.path.join(d, 'result.json')))
    except OSError:
        continue
    caught = '; '.join('%s: %s' % (c, ('caught, concrete replay' if v['concrete'] else 'caught (tie only)') if v['caught']
                                   else 'MISSED') for c, v in r['checks'].items())
    hist = ''
    hp = os.path.join(d, 'history.txt')
    if os.path.exists(hp):
        hist = ' ' + open(hp).read().strip().replace('\n', ' ')
    rows.append('| %s | %s | %s | %s | %s%s |' % (os.path.basename(d), m['property'],
                m['summary'].replace('|', '/').replace('\n', ' ')[:230], m['needs'].replace('|', '/').replace('\n', ' ')[:200],
                caught, hist))
tbl = ('| seed | property | change | needs to manifest | quick check result |\n|---|---|---|---|---|\n' + '\n'.join(rows))
p = os.path.join(V, 'DESIGN.md')
s = open(p).read()
a, b = '<!-- SEEDTABLE-BEGIN -->', '<!-- SEEDTABLE-END -->'
if a not in s:
    s = s.rstrip('\n') + '\n\n## 12. Seeded regressions and which checks catch them\n\n' + a + '\n' + b + '\n'
i, j = s.index(a) + len(a), s.index(b)
s = s[:i] + '\n' + tbl + '\n' + s[j:]
open(p, 'w').write(s)
print(len(rows), 'seeds')
