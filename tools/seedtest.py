#!/venv/bin/python
"""Confirm a seeded change and run the registered check(s) against it.

  tools/seedtest.py <seed-dir> [--check Cxx[,Cyy]] [--tier quick|thorough] [--inplace]

<seed-dir> holds patch.diff, demo.py, meta.json.  By default everything runs in a scratch worktree of
/repo (REPO_ROOT), so concurrent work on /repo is not disturbed; --inplace applies the patch to /repo
itself and reverts it afterwards (the way the checks are finally exercised).
Writes <seed-dir>/result.json.
"""
import json
import os
import subprocess
import sys
import time

VERIF = os.path.dirname(os.path.dirname(os.path.abspath(__file__)))


def sh(cmd, cwd=None, env=None, timeout=3600):
    p = subprocess.run(cmd, shell=True, cwd=cwd, env=env, stdout=subprocess.PIPE, stderr=subprocess.STDOUT,
                       timeout=timeout)
    return p.returncode, p.stdout.decode(errors='replace')


def main():
    d = os.path.abspath(sys.argv[1])
    meta = json.load(open(os.path.join(d, 'meta.json')))
    checks = [meta['property']]
    tier = 'quick'
    inplace = '--inplace' in sys.argv
    if '--check' in sys.argv:
        checks = sys.argv[sys.argv.index('--check') + 1].split(',')
    if '--tier' in sys.argv:
        tier = sys.argv[sys.argv.index('--tier') + 1]
    patch = os.path.join(d, 'patch.diff')
    demo = os.path.join(d, 'demo.py')
    res = dict(seed=os.path.basename(d), property=meta['property'], checks={}, at=time.strftime('%F %T'))
    name = os.path.basename(d)
    wt = '/repo' if inplace else '/tmp/seedcheck/%s.%d' % (name, os.getpid())
    env = dict(os.environ)
    try:
        if not inplace:
            sh('git -C /repo worktree remove --force %s' % wt)
            rc, out = sh('mkdir -p /tmp/seedcheck && git -C /repo worktree add --detach %s HEAD' % wt)
            assert rc == 0, out
            env['REPO_ROOT'] = wt
        rc, out = sh('PYTHONPATH=%s /venv/bin/python %s' % (wt, demo), cwd=d)
        res['demo_clean_exit'] = rc
        rc, out = sh('git apply %s' % patch, cwd=wt)
        assert rc == 0, 'patch does not apply: ' + out
        rc, out = sh('/venv/bin/python -m pytest -q -p no:cacheprovider 2>&1 | tail -1', cwd=wt)
        res['tests'] = out.strip()
        rc, out = sh('PYTHONPATH=%s /venv/bin/python %s' % (wt, demo), cwd=d)
        res['demo_patched_exit'] = rc
        res['demo_patched_tail'] = out[-300:]
        for c in checks:
            t0 = time.time()
            rc, out = sh('./check %s %s' % (c, tier), cwd=VERIF, env=env)
            lines = [l for l in out.splitlines() if l.startswith(('VIOLATION', 'DIVERGENCE', 'BROKEN-TIE', 'INFRA',
                                                                   'KNOWN-FINDING', '  impl', '  model'))]
            res['checks'][c] = dict(exit=rc, wall_s=round(time.time() - t0, 1), lines=lines[:12],
                                    caught=(rc == 1 and any(l.startswith('VIOLATION') for l in lines)),
                                    concrete=any(l.startswith('VIOLATION') and 'no-failing-input-found' not in l
                                                 for l in lines))
    finally:
        if inplace:
            sh('git -C /repo checkout -- .')
        else:
            sh('git -C /repo worktree remove --force %s' % wt)
    res['confirmed'] = (res.get('demo_clean_exit') == 0 and res.get('demo_patched_exit', 0) != 0
                        and '149 passed' in res.get('tests', ''))
    json.dump(res, open(os.path.join(d, 'result.json'), 'w'), indent=1)
    print(json.dumps(res, indent=1))


if __name__ == '__main__':
    main()
