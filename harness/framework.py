"""Correspondence-check framework (T2) and check driver shared by all properties.

A property module (harness/props/cXX.py) defines a subclass of `Prop`.  The framework

  1. regenerates the T1 tables from the working tree and rebuilds the Lean side (harness/build.py);
  2. audits the axioms of the property theorems;
  3. runs corpus + generated cases through the real code (in-process) and through the compiled
     Lean model driver (`btcmodel`), and compares canonical outcomes;
  4. filters known findings, shrinks and writes replay files for the rest;
  5. writes evidence/<id>.json and sets the exit code.

Exit codes: 0 held, 1 VIOLATION printed, 2 infrastructure failure (no VIOLATION line).
"""
import hashlib
import json
import multiprocessing as mp
import os
import random
import subprocess
import sys
import time
import traceback

VERIF = os.path.dirname(os.path.dirname(os.path.abspath(__file__)))
REPO = os.environ.get('REPO_ROOT', '/repo')
LEAN_DIR = os.path.join(VERIF, 'lean')
DRIVER = os.path.join(LEAN_DIR, '.lake', 'build', 'bin', 'btcmodel')
WORK = os.path.join(VERIF, '.work')
REPLAYS = os.path.join(VERIF, 'replays')
# evidence committed under evidence/ must describe runs against /repo itself; runs against a scratch copy
# (REPO_ROOT set by the seed / refactoring test tools) write elsewhere
EVIDENCE = os.path.join(VERIF, 'evidence') if REPO == '/repo' else os.path.join(WORK, 'evidence-scratch')
CORPUS = os.path.join(VERIF, 'corpus')
NCPU = int(os.environ.get('VERIF_JOBS', str(min(16, os.cpu_count() or 1))))

ALLOWED_AXIOMS = {'propext', 'Classical.choice', 'Quot.sound'}


def ensure_repo_on_path():
    """Import the working tree, never an installed copy."""
    if sys.path[0] != REPO:
        sys.path.insert(0, REPO)
    for m in list(sys.modules):
        if m == 'bitcoin' or m.startswith('bitcoin.'):
            f = getattr(sys.modules[m], '__file__', '') or ''
            if not f.startswith(REPO):
                del sys.modules[m]


class Case(dict):
    """{'op': str, 'args': [str], 'tag': str}; JSON-serialisable."""
    @property
    def line(self):
        return '\t'.join([self['op']] + list(self['args']))

    def key(self):
        return hashlib.blake2b(self.line.encode(), digest_size=8).digest()


def mk(op, *args, tag='', ood=False):
    """ood=True marks an input OUTSIDE the property's quantifier (kept to exercise the model's explicit error
    branches): a divergence on it is recorded in the evidence as an observation, never reported as a violation."""
    c = Case(op=op, args=[str(a) for a in args], tag=tag)
    if ood:
        c['ood'] = True
    return c


def hx(b):
    return bytes(b).hex()


# --------------------------------------------------------------------------------------------
# exception families: only what the properties constrain is compared, never messages/subclasses

def exc_family(e):
    """Map an exception raised by the real code to the small canonical enum."""
    ensure_repo_on_path()
    import bitcoin.core as C
    import bitcoin.core.serialize as S
    import bitcoin.core.script as SC
    fam = None
    try:
        import bitcoin.base58 as B58
        import bitcoin.bech32 as B32
        import bitcoin.wallet as W
        if isinstance(e, W.CBitcoinAddressError):
            return 'addrerr'
        if isinstance(e, B58.Base58ChecksumError):
            return 'b58checksum'
        if isinstance(e, B58.InvalidBase58Error):
            return 'b58err'
        if isinstance(e, B58.Base58Error):
            return 'b58err'
        if isinstance(e, B32.Bech32Error):
            return 'bech32err'
    except ImportError:
        pass
    if isinstance(e, S.SerializationTruncationError):
        return 'trunc'
    if isinstance(e, S.DeserializationExtraDataError):
        return 'extra'
    if isinstance(e, S.SerializationError):
        return 'sererr'
    if isinstance(e, C.ValidationError):
        return 'validation'
    if isinstance(e, SC.CScriptInvalidError):
        return 'invalidscript'
    try:
        import bitcoin.rpc as R
        if isinstance(e, R.JSONRPCError):
            return 'rpcerr'
    except ImportError:
        pass
    if isinstance(e, ValueError) and (type(e) is ValueError
                                      or (type(e).__module__ or '').split('.')[0] == 'bitcoin'):
        return 'valueerr'          # plain ValueError or a subclass the library itself defines
    if isinstance(e, HARNESS_REACH_ERRORS) and _raised_in_harness(e):
        # the harness (not the library) failed to reach a name it uses as an auxiliary observable (a private
        # attribute, an internal helper, a monkeypatch point): the case is not observable, not a verdict
        return 'harness:' + type(e).__name__
    return 'py:' + type(e).__name__


HARNESS_REACH_ERRORS = (AttributeError, ImportError, NameError)
HARNESS_DIR = os.path.join(VERIF, 'harness')


def _raised_in_harness(e):
    """True when the HARNESS failed to reach an auxiliary name: the exception was raised in a harness frame and
    what is missing is a module-level name (a helper function / private module a rewrite may move or rename) or
    a private attribute.  A missing PUBLIC attribute of a library object or class is the library's API changing
    under a property — an ordinary outcome (`py:AttributeError`), compared like any other (docs/AUDIT-4.md m25)."""
    tb = e.__traceback__
    last = None
    while tb is not None:
        last = tb
        tb = tb.tb_next
    if last is None or not last.tb_frame.f_code.co_filename.startswith(HARNESS_DIR):
        return False
    if isinstance(e, AttributeError):
        import types
        name = getattr(e, 'name', None) or ''
        obj = getattr(e, 'obj', None)
        return isinstance(obj, types.ModuleType) or name.startswith('_')
    return True


def unobservable(impl_out):
    return 'err:harness:' in impl_out


def guarded(fn):
    """Run fn(); return its string, or err:<family> when the real code raises."""
    try:
        return fn()
    except RecursionError:
        return 'err:py:RecursionError'
    except Exception as e:  # noqa: BLE001 - every escaping exception is an observation
        return 'err:' + exc_family(e)


# --------------------------------------------------------------------------------------------

class Prop:
    id = 'C00'
    title = ''
    lean_targets = []        # lake targets holding the theorems
    table_groups = []        # T1 groups this property relies on
    theorems = []            # fully qualified names, audited with #print axioms
    native_theorems = []     # theorems allowed to depend on Lean.ofReduceBool (declared in DESIGN)
    anchors = []             # [(relative file, function-or-class qualname)] for literal mining/coverage
    trusted_base = []
    assumptions = []
    level = 'proof'
    shards = NCPU
    rule = ''

    # ---- hooks -------------------------------------------------------------------------
    def setup(self):
        """Import what impl() needs from the working tree (raise if the API is gone)."""

    def corpus(self):
        return load_corpus(self.id)

    def generate(self, rng, tier, shard, nshards):
        """Yield Cases.  Exhaustive enumerations partition by `shard`."""
        return iter(())

    def impl(self, case):
        raise NotImplementedError

    def model_line(self, case):
        return case.line

    def agree(self, case, impl_out, model_out):
        return impl_out == model_out

    def nontrivial(self, case, impl_out):
        return True

    def shrink_candidates(self, case):
        return iter(())

    def signature(self, case, impl_out, model_out):
        """Identify a failing case for the known-findings file (None = anonymous)."""
        return None

    def describe(self, case):
        return case.get('tag', '')

    # ---- helpers available to generators -------------------------------------------------
    pool = ()                # mined literal boundary pool, filled by the framework

    def ask(self, lines):
        return run_driver(lines)


def load_corpus(pid):
    d = os.path.join(CORPUS, pid)
    out = []
    if os.path.isdir(d):
        for fn in sorted(os.listdir(d)):
            if fn.endswith('.json'):
                with open(os.path.join(d, fn)) as f:
                    j = json.load(f)
                for c in j.get('cases', [j.get('case')] if j.get('case') else []):
                    out.append(Case(c))
    return out


class DriverError(RuntimeError):
    """The model driver itself failed: an infrastructure problem, never attributable to /repo."""


def run_driver(lines):
    if not lines:
        return []
    data = ('\n'.join(lines) + '\n').encode()
    try:
        p = subprocess.run([os.environ.get('VERIF_DRIVER', DRIVER)], input=data, stdout=subprocess.PIPE,
                           stderr=subprocess.PIPE)
    except OSError as e:
        raise DriverError('cannot run btcmodel: %s' % e)
    if p.returncode != 0:
        raise DriverError('btcmodel exited %d: %s' % (p.returncode, p.stderr.decode()[-400:]))
    outs = p.stdout.decode().split('\n')
    if outs and outs[-1] == '':
        outs.pop()
    if len(outs) != len(lines):
        raise DriverError('btcmodel answered %d lines for %d requests' % (len(outs), len(lines)))
    return outs


# --------------------------------------------------------------------------------------------
# line coverage of the anchored functions (sys.monitoring, cheap: each line reported once)

class LineCov:
    def __init__(self, files):
        self.files = set(files)
        self.hits = set()
        self.on = False

    def start(self):
        mon = getattr(sys, 'monitoring', None)
        if mon is None or not self.files:
            return
        try:
            mon.use_tool_id(3, 'verifcov')
        except ValueError:
            return
        self.on = True

        def on_line(code, lineno):
            fn = code.co_filename
            if fn in self.files:
                self.hits.add((fn, lineno))
            return mon.DISABLE
        mon.register_callback(3, mon.events.LINE, on_line)
        mon.set_events(3, mon.events.LINE)

    def stop(self):
        if self.on:
            mon = sys.monitoring
            mon.set_events(3, 0)
            mon.free_tool_id(3)
            self.on = False
        return self.hits


def anchor_lines(anchors):
    """{abs file: {qualname: set(lines with code)}} from the working tree's AST."""
    import ast
    out = {}
    for rel, qual in anchors:
        path = os.path.join(REPO, rel)
        try:
            tree = ast.parse(open(path).read())
        except (OSError, SyntaxError):
            continue
        node = tree
        ok = True
        for part in qual.split('.'):
            nxt = None
            for ch in ast.iter_child_nodes(node):
                if isinstance(ch, (ast.FunctionDef, ast.ClassDef, ast.AsyncFunctionDef)) and ch.name == part:
                    nxt = ch
                    break
            if nxt is None:
                ok = False
                break
            node = nxt
        if not ok:
            out.setdefault(path, {})[qual] = None
            continue
        lines = set()
        body = node.body
        for st in body:
            # skip docstring
            if isinstance(st, ast.Expr) and isinstance(getattr(st, 'value', None), ast.Constant) \
                    and isinstance(st.value.value, str):
                continue
            for n in ast.walk(st):
                if isinstance(n, ast.stmt):
                    lines.add(n.lineno)
        out.setdefault(path, {})[qual] = lines
    return out


# --------------------------------------------------------------------------------------------

def _worker(args):
    modname, clsname, tier, seed, shard, nshards, budget_s, pool, want_cov = args
    ensure_repo_on_path()
    import importlib
    mod = importlib.import_module(modname)
    prop = getattr(mod, clsname)()
    prop.pool = pool
    prop.seed, prop.tier = seed, tier      # for generators that need shard-independent randomness
    res = dict(n=0, keys=set(), mism=[], samples=[], dist={}, cov=set(), err=None, truncated=False)
    try:
        prop.setup()
    except Exception:  # noqa: BLE001
        res['err'] = 'setup: ' + traceback.format_exc(limit=3)
        return res
    cov_files = set(anchor_lines(prop.anchors).keys()) if want_cov else set()
    if want_cov and os.environ.get('VERIF_FULLCOV'):
        # inventory mode (tools/coverage.py): every library module, not only the anchored files
        for root, _dirs, fs in os.walk(os.path.join(REPO, 'bitcoin')):
            if os.sep + 'tests' in root:
                continue
            cov_files.update(os.path.join(root, f) for f in fs if f.endswith('.py'))
    cov = LineCov(cov_files)
    rng = random.Random('%s:%s:%s:%d' % (seed, prop.id, tier, shard))
    t0 = time.time()
    batch = []

    def flush():
        if not batch:
            return
        outs = run_driver([prop.model_line(c) for c, _ in batch])
        for (c, io), mo in zip(batch, outs):
            if unobservable(io):
                k = res.setdefault('skipped', {})
                k[c['op']] = k.get(c['op'], 0) + 1
                if len(res.setdefault('skipped_ex', [])) < 3:
                    res['skipped_ex'].append((dict(c), io[:200]))
                continue
            if not prop.agree(c, io, mo):
                if c.get('ood'):
                    k = res.setdefault('ood', {})
                    k[c['op']] = k.get(c['op'], 0) + 1
                    if len(res.setdefault('ood_ex', [])) < 3:
                        res['ood_ex'].append((dict(c), io[:200], mo[:200]))
                    continue
                # keep a few examples per failure class so one flood cannot hide another defect
                try:
                    cls = prop.signature(c, io, mo)
                except Exception:  # noqa: BLE001
                    cls = None
                cls = cls or (c['op'], io.split(':')[0:2].__repr__(), mo.split(':')[0:2].__repr__())
                k = res.setdefault('mism_classes', {})
                k[cls] = k.get(cls, 0) + 1
                if k[cls] <= 5 and len(res['mism']) < 400:
                    res['mism'].append((dict(c), io, mo))
        batch.clear()

    cov.start()
    try:
        it = []
        if shard == 0:
            it = list(prop.corpus())
        import itertools
        for c in itertools.chain(it, prop.generate(rng, tier, shard, nshards)):
            io = prop.impl(c)
            res['n'] += 1
            d = res['dist']
            k = c['op'] + ' ' + (io.split(':', 2)[1] if io.startswith('err:') else 'ok')
            d[k] = d.get(k, 0) + 1
            if prop.nontrivial(c, io):
                res['keys'].add(c.key())
            if len(res['samples']) < 3 or (res['n'] % 997 == 0 and len(res['samples']) < 8):
                res['samples'].append(dict(case=dict(c), impl=io[:300]))
            batch.append((c, io))
            if len(batch) >= 4000:
                flush()
            if budget_s and time.time() - t0 > budget_s:
                res['truncated'] = True
                break
        flush()
    except DriverError:
        res['infra'] = traceback.format_exc(limit=4)
    except Exception:  # noqa: BLE001
        res['err'] = 'run: ' + traceback.format_exc(limit=6)
    finally:
        res['cov'] = cov.stop()
    return res


def write_replay(prop, case, impl_out, model_out, note=''):
    os.makedirs(REPLAYS, exist_ok=True)
    h = hashlib.blake2b(Case(case).line.encode(), digest_size=6).hexdigest()
    path = os.path.join(REPLAYS, '%s-%s.json' % (prop.id, h))
    with open(path, 'w') as f:
        json.dump(dict(property=prop.id, case=case, impl=impl_out, model=model_out, note=note,
                       how='./check %s --replay %s' % (prop.id, path)), f, indent=1)
    return path


def write_tie_replay(prop, what, detail):
    os.makedirs(REPLAYS, exist_ok=True)
    h = hashlib.blake2b(what.encode(), digest_size=6).hexdigest()
    path = os.path.join(REPLAYS, '%s-tie-%s.json' % (prop.id, h))
    with open(path, 'w') as f:
        json.dump(dict(property=prop.id, broken_tie=what, detail=detail[-4000:],
                       note='no concrete failing input found; the named theorem/correspondence no longer checks'),
                  f, indent=1)
    return path


def load_known():
    p = os.path.join(VERIF, 'known_findings.json')
    try:
        with open(p) as f:
            return json.load(f).get('findings', [])
    except OSError:
        return []


def shrink(prop, case, impl_out, model_out, limit_s=20):
    """Greedy shrinking: accept a candidate that still disagrees (any disagreement)."""
    t0 = time.time()
    cur = (Case(case), impl_out, model_out)
    improved = True
    while improved and time.time() - t0 < limit_s:
        improved = False
        for cand in prop.shrink_candidates(cur[0]):
            if time.time() - t0 > limit_s:
                break
            try:
                io = prop.impl(cand)
                mo = run_driver([prop.model_line(cand)])[0]
            except Exception:  # noqa: BLE001
                continue
            if not prop.agree(cand, io, mo) and prop.signature(cand, io, mo) == prop.signature(*cur):
                cur = (cand, io, mo)
                improved = True
                break
    return cur


def write_evidence(prop, tier, seed, wall, cov, audit, extra, violations):
    os.makedirs(EVIDENCE, exist_ok=True)
    coverage = dict(
        obligations=audit.get('obligations', 0),
        discharged=audit.get('discharged', 0),
        checker_cmd=audit.get('checker_cmd', ''),
        trusted_base=list(prop.trusted_base) + audit.get('trusted_base', []),
        theorems=audit.get('theorems', {}),
        table_obligations=audit.get('tables', {}),
        system_theorems=audit.get('system_theorems', 'audited in the thorough tier'),
        rule=prop.rule,
    )
    coverage.update(cov)
    ev = dict(property_id=prop.id, tier=tier, seed=int(seed), level=prop.level, coverage=coverage,
              assumptions=list(prop.assumptions), wall_s=round(wall, 2), violations=violations)
    ev.update(extra)
    with open(os.path.join(EVIDENCE, prop.id + '.json'), 'w') as f:
        json.dump(ev, f, indent=1, default=str)


def run_cases(prop, modname, clsname, tier, seed, budget_s=None, want_cov=True):
    nsh = max(1, min(prop.shards, NCPU))
    args = [(modname, clsname, tier, seed, s, nsh, budget_s, tuple(prop.pool), want_cov) for s in range(nsh)]
    if nsh == 1:
        results = [_worker(args[0])]
    else:
        ctx = mp.get_context('fork')
        with ctx.Pool(nsh) as p:
            results = p.map(_worker, args)
    return results


def main_check(prop, modname, clsname, tier, seed):
    from . import build
    t0 = time.time()
    ensure_repo_on_path()
    os.makedirs(WORK, exist_ok=True)

    # -- 1/2: T1 tables, Lean build, axiom audit ------------------------------------------
    b = build.prepare(prop, tier)
    if b['infra_error']:
        print('INFRA-ERROR: ' + b['infra_error'])
        return 2
    broken_ties = list(b['broken_ties'])          # [(name, detail)]

    # -- literal mining for the boundary pool -----------------------------------------------
    from . import litmine
    prop.pool = litmine.pool(REPO, prop.anchors)

    # -- 3: correspondence ----------------------------------------------------------------------
    setup_err = None
    try:
        prop.setup()
    except Exception:  # noqa: BLE001
        setup_err = traceback.format_exc(limit=4)
        broken_ties.append(('correspondence:%s:harness-setup' % prop.id, setup_err))

    results = []
    run_tier = tier
    budget = None
    if broken_ties and tier == 'quick':
        run_tier, budget = 'thorough', 300      # failing-input search (DESIGN §3)
    if setup_err is None:
        results = run_cases(prop, modname, clsname, run_tier, seed, budget)

    infra = [r['infra'] for r in results if r.get('infra')]
    if infra:
        print('INFRA-ERROR: model driver failed: ' + infra[0][-600:])
        return 2
    n = sum(r['n'] for r in results)
    keys = set()
    for r in results:
        keys |= r['keys']
    errs = [r['err'] for r in results if r['err']]
    mism = [m for r in results for m in r['mism']]
    dist = {}
    for r in results:
        for k, v in r['dist'].items():
            dist[k] = dist.get(k, 0) + v
    samples = [s for r in results for s in r['samples']][:8]
    hits = set()
    for r in results:
        hits |= r['cov']
    if os.environ.get('VERIF_FULLCOV'):
        d = os.path.join(WORK, 'fullcov')
        os.makedirs(d, exist_ok=True)
        with open(os.path.join(d, prop.id + '.json'), 'w') as fh:
            json.dump(sorted([os.path.relpath(f, REPO), l] for f, l in hits), fh)
    al = anchor_lines(prop.anchors)
    line_cov = {}
    for path, quals in al.items():
        for q, lines in quals.items():
            name = os.path.relpath(path, REPO) + ':' + q
            if lines is None:
                line_cov[name] = 'anchor-not-found'
            else:
                hit = sorted(l for l in lines if (path, l) in hits)
                line_cov[name] = dict(lines=len(lines), hit=len(hit),
                                      missed=sorted(lines - set(hit))[:40])

    if errs and not mism:
        # the harness itself failed on the working tree: the correspondence cannot be established
        broken_ties.append(('correspondence:%s:harness-run' % prop.id, errs[0]))

    # cases the harness could not observe (an auxiliary observable — private attribute, internal helper,
    # monkeypatch point — is not reachable in this tree) and divergences on inputs outside the property's
    # quantifier: recorded, never verdicts.  If most of the run is unobservable the correspondence is lost.
    skipped, ood = {}, {}
    for r in results:
        for k, v in r.get('skipped', {}).items():
            skipped[k] = skipped.get(k, 0) + v
        for k, v in r.get('ood', {}).items():
            ood[k] = ood.get(k, 0) + v
    skipped_ex = [e for r in results for e in r.get('skipped_ex', [])][:3]
    ood_ex = [e for r in results for e in r.get('ood_ex', [])][:3]
    nskip = sum(skipped.values())
    if nskip:
        print('NOTE %s: %d case(s) of op(s) %s could not be observed by the harness in this tree (e.g. %s) — '
              'not compared' % (prop.id, nskip, ','.join(sorted(skipped)), skipped_ex[0][1][:120] if skipped_ex else ''))
    if ood:
        print('NOTE %s: %d divergence(s) on inputs outside the property\'s domain (op(s) %s) — recorded as '
              'observations, not violations' % (prop.id, sum(ood.values()), ','.join(sorted(ood))))
    if n and 2 * nskip > n and not mism:
        broken_ties.append(('correspondence:%s:harness-run' % prop.id,
                            '%d of %d cases unobservable: %r' % (nskip, n, skipped_ex[:1])))

    # -- 4: known findings, shrinking, replays ---------------------------------------------------
    known = {k['signature']: k for k in load_known()
             if k.get('property') == prop.id and k.get('kind') == 'known'}
    seen_known = {}
    viol = []
    seen_sig = set()
    for (c, io, mo) in mism:
        c = Case(c)
        sig = prop.signature(c, io, mo)
        if sig is not None and sig in known:
            seen_known.setdefault(sig, (c, io, mo))
            continue
        dedup = sig or (c['op'], io.split(':')[0:2].__repr__(), mo[:40])
        if dedup in seen_sig:
            continue
        seen_sig.add(dedup)
        viol.append((c, io, mo, sig))

    exit_code = 0
    for sig, (c, io, mo) in seen_known.items():
        print('KNOWN-FINDING: property=%s %s [%s] e.g. %s' % (prop.id, known[sig].get('what', ''), sig,
                                                            c.line[:160].replace('\t', ' ')))
    nviol = 0
    for (c, io, mo, sig) in viol[:5]:
        try:
            c2, io2, mo2 = shrink(prop, c, io, mo)
        except DriverError:
            raise
        except Exception:  # noqa: BLE001 - a failing shrinker must never lose the violation it was shrinking
            print('NOTE %s: shrinking failed (%s); the unshrunk case is reported' %
                  (prop.id, traceback.format_exc(limit=1).strip().splitlines()[-1][:160]))
            c2, io2, mo2 = c, io, mo
        path = write_replay(prop, dict(c2), io2, mo2, note='impl=%s model=%s sig=%s' % (io2[:200], mo2[:200], sig))
        print('DIVERGENCE %s: %s\n  impl : %s\n  model: %s' % (prop.id, c2.line[:300].replace('\t', ' | '), io2[:300], mo2[:300]))
        print('VIOLATION property=%s replay=%s' % (prop.id, path))
        nviol += 1
        exit_code = 1
    if not nviol and broken_ties:
        for name, detail in broken_ties[:3]:
            path = write_tie_replay(prop, name, detail)
            print('BROKEN-TIE %s: %s' % (prop.id, name))
            print('VIOLATION property=%s replay=%s no-failing-input-found' % (prop.id, path))
            nviol += 1
        exit_code = 1

    # -- thorough tier: tests of the Spec — the vectors shipped with the repository replayed through the
    #    Lean reference definitions only (never through Model.*, never through python-bitcoinlib) ----
    spec_vectors = 'not run (thorough tier only)'
    if tier == 'thorough':
        try:
            from . import specvec
            spec_vectors = specvec.run_for(prop.id, tier='quick')
            bad = {f: c for f, c in spec_vectors.items() if isinstance(c, dict) and c.get('disagree')}
            if bad:
                print('INFRA-ERROR: the Spec definitions disagree with shipped vectors: %r' % bad)
                return 2
        except DriverError as e:
            print('INFRA-ERROR: ' + str(e))
            return 2

    # -- canary: the comparison must fire on a deliberately wrong model answer -------------------
    canary = canary_selftest(prop, samples)
    if canary['tried'] and canary['fired'] < canary['tried']:
        print('INFRA-ERROR: the comparison of %s did not notice a deliberately corrupted model answer '
              '(%d of %d canaries fired)' % (prop.id, canary['fired'], canary['tried']))
        return 2

    # -- 5: evidence ----------------------------------------------------------------------------
    cov = dict(evaluations=n, distinct_nontrivial=len(keys), samples=samples,
               input_distribution=dict(sorted(dist.items(), key=lambda kv: -kv[1])[:60]),
               line_coverage=line_cov, mined_literals=len(prop.pool),
               known_findings_seen=sorted(seen_known), broken_ties=[n_ for n_, _ in broken_ties],
               shards=len(results), tier_run=run_tier,
               truncated_by_budget=any(r['truncated'] for r in results), canary=canary,
               spec_vectors_as_tests=spec_vectors,
               unobservable_cases=dict(count=nskip, by_op=skipped, examples=skipped_ex),
               out_of_domain_divergences=dict(count=sum(ood.values()), by_op=ood, examples=ood_ex),
               leanchecker=b['audit'].get('leanchecker', 'not run (thorough tier only)'))
    write_evidence(prop, tier, seed, time.time() - t0, cov, b['audit'], {}, nviol)
    print('%s %s: %d cases (%d distinct non-trivial), %d theorem obligations discharged of %d, %d violation(s), %.1fs'
          % (prop.id, tier, n, len(keys), b['audit'].get('discharged', 0), b['audit'].get('obligations', 0),
             nviol, time.time() - t0))
    return exit_code


def canary_selftest(prop, samples):
    """Corrupt the model's answer for sampled cases and require `agree` to notice."""
    tried = fired = 0
    for smp in samples:
        c = Case(smp['case'])
        try:
            io = prop.impl(c)
            mo = run_driver([prop.model_line(c)])[0]
        except Exception:  # noqa: BLE001
            continue
        if not prop.agree(c, io, mo):
            continue
        tried += 1
        wrong = (mo + '00') if not mo.startswith('err:') else 'ok'
        if not prop.agree(c, io, wrong):
            fired += 1
    return dict(tried=tried, fired=fired)


def main_replay(prop, path, modname=None, clsname=None):
    ensure_repo_on_path()
    with open(path) as f:
        j = json.load(f)
    if 'broken_tie' in j:
        name = j['broken_tie']
        if name.startswith('correspondence:'):
            # the harness could not establish the correspondence (setup or run raised): try again
            still = None
            try:
                prop.setup()
            except Exception:  # noqa: BLE001
                still = traceback.format_exc(limit=4)
            if still is None and not name.endswith(':harness-setup') and modname:
                from . import litmine
                prop.pool = litmine.pool(REPO, prop.anchors)
                results = run_cases(prop, modname, clsname, 'quick', 0, budget_s=120, want_cov=False)
                errs = [r['err'] for r in results if r['err']]
                n = sum(r['n'] for r in results)
                nskip = sum(sum(r.get('skipped', {}).values()) for r in results)
                if errs:
                    still = errs[0]
                elif n and 2 * nskip > n:
                    still = '%d of %d cases unobservable' % (nskip, n)
            if still is not None:
                print('tie %s is still broken:\n%s' % (name, still[-800:]))
                print('VIOLATION property=%s replay=%s no-failing-input-found' % (prop.id, path))
                return 1
            print('replay: tie %s checks again' % name)
            return 0
        from . import build
        b = build.prepare(prop)
        still = [n for n, _ in b['broken_ties'] if n == name]
        if still or b['infra_error']:
            print('VIOLATION property=%s replay=%s no-failing-input-found' % (prop.id, path))
            return 1
        print('replay: tie %s checks again' % name)
        return 0
    prop.setup()
    c = Case(j['case'])
    io = prop.impl(c)
    mo = run_driver([prop.model_line(c)])[0]
    print('case : ' + c.line[:400].replace('\t', ' | '))
    print('impl : ' + io[:400])
    print('model: ' + mo[:400])
    if prop.agree(c, io, mo):
        print('replay: agrees now')
        return 0
    print('VIOLATION property=%s replay=%s' % (prop.id, path))
    return 1
