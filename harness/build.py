"""T1 table regeneration, Lean build, axiom audit and forbidden-token scan."""
import fcntl
import importlib
import os
import re
import subprocess
import traceback

from .framework import VERIF, LEAN_DIR, WORK, DRIVER, ALLOWED_AXIOMS, ensure_repo_on_path, REPO

FORBIDDEN = re.compile(r'\bsorry\b|\badmit\b|^\s*axiom\s|\bnative_decide\b|\bbv_decide\b|implemented_by|'
                       r'\bunsafe\s|maxHeartbeats\s+0\b', re.M)
# table groups that are projections of one generated file
DUMPER_OF = {'ChainPow': 'Chain', 'ChainNet': 'Chain', 'ChainAddr': 'Chain'}
NATIVE_OK_FILES = set()   # no file may use native_decide any more (C11's 3-4 substitution bound is kernel-checked in shards)


def _strip_comments(src):
    src = re.sub(r'/-.*?-/', lambda m: '\n' * m.group(0).count('\n'), src, flags=re.S)
    src = re.sub(r'--[^\n]*', '', src)
    return src


def forbidden_scan():
    hits = []
    for root in ('BtcVerif', 'Driver'):
        for dp, _, fns in os.walk(os.path.join(LEAN_DIR, root)):
            for fn in fns:
                if not fn.endswith('.lean'):
                    continue
                p = os.path.join(dp, fn)
                rel = os.path.relpath(p, LEAN_DIR)
                src = _strip_comments(open(p).read())
                for m in FORBIDDEN.finditer(src):
                    tok = m.group(0).strip()
                    if rel in NATIVE_OK_FILES and 'native_decide' in tok:
                        continue
                    line = src.count('\n', 0, m.start()) + 1
                    hits.append('%s:%d: %s' % (rel, line, tok))
    return hits


def lake(*targets, timeout=3600):
    p = subprocess.run(['lake', 'build', *targets], cwd=LEAN_DIR, stdout=subprocess.PIPE,
                       stderr=subprocess.STDOUT, timeout=timeout)
    return p.returncode, p.stdout.decode(errors='replace')


_RESTORE = []


def regen_table(group):
    """Regenerate lean/BtcVerif/Generated/<group>.lean from the working tree; rewrite only if changed."""
    ensure_repo_on_path()
    group = DUMPER_OF.get(group, group)
    mod = importlib.import_module('harness.tables.' + group.lower())
    src = mod.dump(REPO)
    path = os.path.join(LEAN_DIR, 'BtcVerif', 'Generated', group + '.lean')
    old = None
    try:
        old = open(path).read()
    except OSError:
        pass
    if old != src:
        with open(path, 'w') as f:
            f.write(src)
    if REPO != '/repo':
        # a run against a scratch tree (REPO_ROOT) must not leave its tables behind in the shared Lean tree:
        # when the run is over put back the committed table (falling back to what was there before)
        back = old
        try:
            rel = os.path.relpath(path, VERIF)
            p = subprocess.run(['git', '-C', VERIF, 'show', 'HEAD:' + rel], stdout=subprocess.PIPE,
                               stderr=subprocess.DEVNULL, timeout=30)
            if p.returncode == 0 and p.stdout:
                back = p.stdout.decode()
        except Exception:  # noqa: BLE001
            pass
        if back is not None and back != src:
            _RESTORE.append((path, back))


def theorems_in(relpath):
    """Names of the theorems declared in a Lean file (with its namespace prefix)."""
    src = _strip_comments(open(os.path.join(LEAN_DIR, relpath)).read())
    ns = re.search(r'^namespace\s+(\S+)', src, re.M)
    pre = ns.group(1) + '.' if ns else ''
    return [pre + m.group(1) for m in re.finditer(r'^\s*theorem\s+([A-Za-z_][\w\'.]*)', src, re.M)]


def audit(prop, modules, theorem_names):
    """Run `#print axioms` for every theorem; returns {name: [axioms]} or raises."""
    os.makedirs(WORK, exist_ok=True)
    path = os.path.join(WORK, 'audit_%s.lean' % prop.id)
    with open(path, 'w') as f:
        for m in modules:
            f.write('import %s\n' % m)
        for t in theorem_names:
            f.write('#print axioms %s\n' % t)
    p = subprocess.run(['lake', 'env', 'lean', path], cwd=LEAN_DIR, stdout=subprocess.PIPE,
                       stderr=subprocess.STDOUT, timeout=1800)
    out = p.stdout.decode(errors='replace')
    res = {}
    for m in re.finditer(r"'([^']+)' depends on axioms: \[([^\]]*)\]", out, re.S):
        res[m.group(1)] = [a.strip() for a in m.group(2).replace('\n', ' ').split(',') if a.strip()]
    for m in re.finditer(r"'([^']+)' does not depend on any axioms", out):
        res[m.group(1)] = []
    return p.returncode, out, res


def leanchecker(mods):
    """Independent re-check of the compiled .olean files (thorough tier)."""
    p = subprocess.run(['lake', 'env', 'leanchecker', *mods], cwd=LEAN_DIR, stdout=subprocess.PIPE,
                       stderr=subprocess.STDOUT, timeout=3600)
    return p.returncode, p.stdout.decode(errors='replace')


SYSTEM_MODULES = ['Props/Coherence.lean', 'Props/Concrete.lean']


def audit_system_modules(prop):
    """Thorough tier: theorems that tie the per-property models into one system (coherence of duplicated
    definitions, concrete instances that discharge hypotheses) are rebuilt and audited too."""
    mods, names = [], []
    for rel in SYSTEM_MODULES:
        if os.path.exists(os.path.join(LEAN_DIR, 'BtcVerif', rel)):
            mods.append('BtcVerif.' + rel[:-5].replace('/', '.'))
            names += theorems_in('BtcVerif/' + rel)
    if not mods:
        return {}
    rc, log = lake(*mods)
    if rc != 0:
        return 'lake build of system modules failed:\n' + log[-1200:]
    class P:  # audit() only needs an id for the scratch file name
        id = prop.id + '_system'
    rc, log, res = audit(P, mods, names)
    missing = [t for t in names if t not in res]
    bad = {t: [a for a in axs if a not in ALLOWED_AXIOMS] for t, axs in res.items()}
    bad = {t: a for t, a in bad.items() if a}
    if rc != 0 or missing or bad:
        return 'system theorem audit failed: missing=%r bad=%r\n%s' % (missing[:5], bad, log[-800:])
    return dict(modules=mods, theorems=len(names), axioms_ok=True)


def prepare(prop, tier='quick'):
    os.makedirs(WORK, exist_ok=True)
    out = dict(infra_error=None, broken_ties=[], audit={})
    lockf = open(os.path.join(WORK, 'lake.lock'), 'w')
    fcntl.flock(lockf, fcntl.LOCK_EX)
    try:
        out = _prepare(prop, out)
        if tier == 'thorough' and not out['infra_error']:
            sysres = audit_system_modules(prop)
            if isinstance(sysres, str):
                out['infra_error'] = sysres
                return out
            out['audit']['system_theorems'] = sysres
            rc, log = leanchecker(prop.lean_targets)
            if rc != 0:
                out['infra_error'] = 'leanchecker rejected the compiled theorems:\n' + log[-1500:]
            else:
                out['audit']['leanchecker'] = 'ok: ' + ' '.join(prop.lean_targets)
        return out
    finally:
        for path, old in _RESTORE:
            with open(path, 'w') as f:
                f.write(old)
        del _RESTORE[:]
        fcntl.flock(lockf, fcntl.LOCK_UN)
        lockf.close()


def _prepare(prop, out):
    hits = forbidden_scan()
    if hits:
        out['infra_error'] = 'forbidden tokens in Lean sources: ' + '; '.join(hits[:5])
        return out

    # theorems and the driver do not depend on /repo: a failure here is ours, not the repository's
    rc, log = lake(*prop.lean_targets, 'btcmodel')
    if rc != 0 or not os.path.exists(DRIVER):
        out['infra_error'] = 'lake build failed:\n' + log[-1500:]
        return out
    # private copy of the driver for this run: a concurrent build may relink the shared binary
    import atexit
    import shutil
    mine = os.path.join(WORK, 'btcmodel.run.%d' % os.getpid())
    shutil.copy2(DRIVER, mine)
    os.environ['VERIF_DRIVER'] = mine
    atexit.register(lambda: os.path.exists(mine) and os.remove(mine))

    # T1: regenerate and re-prove the table obligations
    tables = {}
    ok_table_modules = []
    for g in prop.table_groups:
        name = 'T1:Tables.%s' % g
        try:
            regen_table(g)
        except Exception:  # noqa: BLE001
            detail = traceback.format_exc(limit=4)
            out['broken_ties'].append((name + ':regenerate', detail))
            tables[g] = 'cannot-regenerate'
            continue
        rc, log = lake('BtcVerif.Tables.' + g)
        if rc != 0:
            lines = log.splitlines()
            keep = []
            for k, l in enumerate(lines):
                if 'error' in l.lower():
                    keep += lines[k:k + 12]
            errs = ('obligations of BtcVerif/Tables/%s.lean (%s) against the table regenerated from the working '
                    'tree:\n' % (g, ', '.join(theorems_in('BtcVerif/Tables/%s.lean' % g)))
                    + '\n'.join(keep))[:3000]
            out['broken_ties'].append((name, errs or log[-1500:]))
            tables[g] = 'obligation-failed'
        else:
            tables[g] = 'ok'
            ok_table_modules.append(g)

    mods = list(prop.lean_targets) + ['BtcVerif.Tables.' + g for g in ok_table_modules]
    names = list(prop.theorems)
    tnames = []
    for g in ok_table_modules:
        tnames += theorems_in('BtcVerif/Tables/%s.lean' % g)
    rc, log, res = audit(prop, mods, names + tnames)
    missing = [t for t in names + tnames if t not in res]
    if rc != 0 or missing:
        out['infra_error'] = 'axiom audit failed (missing: %s):\n%s' % (missing[:5], log[-1200:])
        return out
    bad = {}
    native = []
    for t, axs in res.items():
        extra = [a for a in axs if a not in ALLOWED_AXIOMS]
        if extra:
            if t in prop.native_theorems:
                native.append(t)
            else:
                bad[t] = extra
    if bad:
        out['infra_error'] = 'theorems depend on non-standard axioms: %r' % bad
        return out
    n_failed_tables = sum(1 for v in tables.values() if v != 'ok')
    out['audit'] = dict(
        obligations=len(names) + len(tnames) + n_failed_tables,
        discharged=len(names) + len(tnames),
        checker_cmd='cd lean && lake build %s && lake env lean .work/audit_%s.lean  (#print axioms)'
                    % (' '.join(mods), prop.id),
        theorems={t: res[t] for t in names},
        tables=dict(status=tables, theorems={t: res[t] for t in tnames}),
        trusted_base=['Lean 4.33 kernel', 'axioms ⊆ {propext, Classical.choice, Quot.sound}'
                      + (' except native: %s' % native if native else '')],
    )
    return out
