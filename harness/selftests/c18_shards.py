"""One-off self-test (not part of the check): run C18's generator for all shards and verify that every case of each
exhaustive / boundary sub-domain is produced by at least one shard (the expected sets are computed directly here).

    cd /verif && /venv/bin/python -m harness.selftests.c18_shards [quick|thorough] [nshards]
"""
import hashlib
import random
import struct
import sys

from .. import framework as fw, litmine
from ..props import c18 as T


def main(tier='quick', nshards=16, seed=0):
    fw.ensure_repo_on_path()
    cases = []
    pool = litmine.pool(fw.REPO, T.C18.anchors)
    for shard in range(nshards):
        p = T.C18()
        p.pool, p.seed, p.tier = pool, seed, tier
        p.setup()
        rng = random.Random('%s:%s:%s:%d' % (seed, p.id, tier, shard))
        cs = list(p.generate(rng, tier, shard, nshards))
        cases.append(cs)
        print('shard %2d: %d cases' % (shard, len(cs)), flush=True)
    allc = [c for cs in cases for c in cs]
    parse = {(c['args'][0], c['args'][1]) for c in allc if c['op'] == 'c18.parse'}
    tags = {}
    for c in allc:
        tags[c['tag']] = tags.get(c['tag'], 0) + 1
    big = tier == 'thorough'
    missing = []

    # minimal frames of every type under every chain, from the model
    p = T.C18()
    items = [(ch, T.minimal_msg(k)) for k in T.NAMES for ch in T.CHAINS]
    frames = p.model_frames(items)
    empty_ck = hashlib.sha256(hashlib.sha256(b'').digest()).digest()[:4]
    n_exp = 0
    for si, ((ch, m), b) in enumerate(zip(items, frames)):
        tail = T.py_frame(T.MAGIC[ch], b'verack', b'')
        hexes = {h for (c2, h) in parse if c2 == ch}
        # every truncation point
        for cut in range(len(b)):
            n_exp += 1
            if b[:cut].hex() not in hexes:
                missing.append(('truncate', m[0], ch, cut))
        # every corruption position the tier promises (thorough: every value at every position of frames <= 130 B)
        full = big or (si % 4) == (si // 4) % 4
        for pos in range(len(b) if full else 24):
            vals = range(256) if (big and len(b) <= 130) else None
            found = set()
            for v in (vals if vals is not None else range(256)):
                if v == b[pos]:
                    continue
                mut = b[:pos] + bytes([v]) + b[pos + 1:]
                if mut.hex() in hexes or (mut + tail).hex() in hexes:
                    found.add(v)
            n_exp += 1
            need = 255 if vals is not None else (3 if pos >= 24 else 4)
            if len(found) < min(need, 3 if not big else need):
                missing.append(('corrupt', m[0], ch, pos, len(found)))
        # the fixed length-field values, with the checksum as framed and nothing following
        payload, cmd, n = b[24:], b[4:16].split(b'\x00', 1)[0], len(b) - 24
        for ln in (0, n, n + 1, max(n - 1, 0), T.MAX_SIZE - 1, T.MAX_SIZE, T.MAX_SIZE + 1, (1 << 31) - 1, 1 << 31,
                   (1 << 31) + 1, (1 << 32) - 1, (1 << 32) - 2, (1 << 32) - 24, (1 << 32) - 25, (1 << 32) - 30):
            for ck in (b[20:24], empty_ck):
                for follow in (b'', tail):
                    n_exp += 1
                    s = T.py_frame(T.MAGIC[ch], cmd, payload + follow, length=ln, checksum=ck)
                    if s.hex() not in hexes:
                        missing.append(('length', m[0], ch, ln))
    # every boundary protocol version is framed by some shard
    vers = sorted(set(T.VERSIONS) | {v for v in pool if -(1 << 31) <= v < (1 << 31)})
    seen = {int(c['args'][1].split(' ')[1]) for c in allc if c['op'] == 'c18.frame' and c['args'][1].startswith('version ')}
    for v in vers:
        n_exp += 1
        if v not in seen:
            missing.append(('version-boundary', v))
    # histories: every type has an edit, a chain-tour and a pair history; the long strings / vectors exist
    for k in T.NAMES:
        for t in ('hist:edit:', 'hist:chains:', 'hist:pair:', 'hist:observers:'):
            n_exp += 1
            if not tags.get(t + k):
                missing.append(('history', t + k))
    for t in ['hist:stream', 'hist:after-raise', 'hist:D24', 'hist:D25:addr', 'frame:alert-long'] + (['frame:inv-65536'] if big else []):
        n_exp += 1
        if not tags.get(t):
            missing.append(('tag', t))
    # no case of the index-partitioned sub-domains is produced twice
    keys = [c.key() for c in allc if c['tag'].split(':')[0] in ('truncate', 'length-field')]
    print('%d cases in all, %d expected members checked, %d missing; partitioned cases %d (distinct %d)'
          % (len(allc), n_exp, len(missing), len(keys), len(set(keys))))
    for x in missing[:20]:
        print('  MISSING', x)
    return 1 if missing else 0


if __name__ == '__main__':
    a = sys.argv[1:]
    sys.exit(main(a[0] if a else 'quick', int(a[1]) if len(a) > 1 else 16))
