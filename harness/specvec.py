"""Tests of the Spec (DESIGN §4, "trusted base"): Bitcoin's own test vectors replayed through the
hand-written Lean reference definitions, independently of python-bitcoinlib.

The theorems prove Model = Spec and the differential runs tie Model to the Python code.  What this
module checks is the remaining leg: that `Spec.*` / `Crypto.*` themselves agree with the vectors the
repository ships under bitcoin/tests/data (and with a few published standard vectors).  These are
TESTS, labelled as tests; they prove nothing.

  * The expected answer always comes from the vector (valid / invalid, the encoded string, the digest),
    never from python-bitcoinlib: this module does not import `bitcoin` at all.  Wire parsing, the
    script assembly mini-language of the JSON files and the crediting/spending transactions of
    script_*.json are re-implemented here.
  * The computed answer always comes from the Lean driver, through ops that call `Spec.*`/`Crypto.*`
    only: the `cXX.spec.*` ops of the property drivers and the `sv.*` ops of lean/Driver/SpecVec.lean
    (reference interpreter `Spec.Script.Ref.verifyScript` with the signature hash of `Spec.Sighash`;
    clause-by-clause evaluation of `Spec.Bech32.Decodes`; signed-message recovery from `Spec.Keys`).
    No `Model.*` function computes an answer.  (One labelled guard: `Spec.Bech32.Decodes` is a
    proposition with existential witnesses, so Driver/SpecVec.lean evaluates it by a transcription of
    its clauses; the bech32 runners additionally require that transcription to coincide with
    `Model.Bech32.decode`, which Props/C11 `decode_returns` proves equivalent to `Decodes`.)

Usage
    ./specvec [quick|thorough]        one line per vector file: total / agree / disagree / skipped(reasons);
                                      exit 0 iff nothing disagrees; writes specvec_report.json
        quick     every vector of every file (a few seconds)
        thorough  additionally: the one-million-'a' digests, and a second pass of all script / tx vectors
                  with strict-DER signature parsing that reports how many verdicts rest on consensus (lax)
                  signature parsing
    from harness import specvec
    specvec.run_for('C06')            -> {vector file: {'total','agree','disagree','skipped','expected_failures'}}
                                      the vector files relevant to one property (for the thorough tier of
                                      ./check; does not print).  specvec.PROPERTY_FILES lists the mapping.
    specvec.run_all(tier)             -> (results, exit code)

A disagreement prints the vector and both answers.  A disagreement that has been investigated and
found to be a defect of a `Spec.*` definition is listed in EXPECTED_FAILURES with its analysis; it is
then printed as `SPEC-FINDING: …` and does not fail the run (the Spec files belong to their owners).

How vectors with verification flags outside the reference are treated (the reference implements
P2SH, NULLDUMMY, CLEANSTACK, DISCOURAGE_UPGRADABLE_NOPS; the repository's own test passes every flag
name to VerifyScript, which ignores the others).  Verification flags only ever tighten the rules, so
  valid   under F  ⇒ valid   under F ∩ implemented : the vector is replayed with the implemented subset
                                                     and must be accepted;
  invalid under F  ⇐ invalid under F ∩ implemented : replayed with the subset; a rejection agrees;
          an acceptance cannot be judged when F had a flag outside the reference (the rejection may rest
          on it) and is counted as skipped with the flag named; with no such flag it is a disagreement.
"""
import base64
import hashlib
import json
import os
import subprocess
import sys
import time
from concurrent.futures import ThreadPoolExecutor

from . import framework as fw
from .txfmt import show_tx, show_block, show_header

DATA = os.path.join(fw.REPO, 'bitcoin', 'tests', 'data')
HERE = os.path.dirname(os.path.abspath(__file__))
REPORT = os.path.join(fw.VERIF, 'specvec_report.json')

# (file, vector key) -> analysis.  Key = _vkey(vector).  Entries are Spec defects reported to the
# integrator; they print as SPEC-FINDING and do not fail the run.
EXPECTED_FAILURES = {}


# ------------------------------------------------------------------------------------------------
# driver access

def ask(lines, jobs=None):
    """i-th reply answers the i-th request; the requests are spread over several driver processes."""
    lines = list(lines)
    if not lines:
        return []
    jobs = jobs or fw.NCPU
    if len(lines) < 8 or jobs <= 1:
        return fw.run_driver(lines)
    n = min(jobs, len(lines))
    chunks = [lines[i::n] for i in range(n)]
    with ThreadPoolExecutor(n) as ex:
        outs = list(ex.map(fw.run_driver, chunks))
    res = [None] * len(lines)
    for i, o in enumerate(outs):
        res[i::n] = o
    return res


def L(op, *args):
    return '\t'.join([op] + [str(a) for a in args])


def utf8hex(s):
    return s.encode('utf8').hex()


# ------------------------------------------------------------------------------------------------
# result bookkeeping

class Result:
    def __init__(self, name, covers):
        self.name = name
        self.covers = covers            # which Spec definitions the file exercises
        self.total = 0
        self.agree = 0
        self.disagree = []              # (vector, expected, got)
        self.skipped = {}               # reason -> count
        self.findings = []              # (vector, expected, got, analysis)
        self.notes = []

    def ok(self):
        self.total += 1
        self.agree += 1

    def bad(self, vector, expected, got):
        self.total += 1
        why = EXPECTED_FAILURES.get((self.name, _vkey(vector)))
        if why:
            self.findings.append((vector, expected, got, why))
        else:
            self.disagree.append((vector, expected, got))

    def check(self, vector, expected, got):
        if expected == got:
            self.ok()
        else:
            self.bad(vector, expected, got)

    def skip(self, reason):
        self.total += 1
        self.skipped[reason] = self.skipped.get(reason, 0) + 1

    def counts(self):
        return dict(total=self.total, agree=self.agree, disagree=len(self.disagree),
                    skipped=dict(sorted(self.skipped.items())), expected_failures=len(self.findings))

    def line(self):
        sk = sum(self.skipped.values())
        s = '%-34s total %4d  agree %4d  disagree %d  skipped %d' % (
            self.name, self.total, self.agree, len(self.disagree), sk)
        if self.skipped:
            s += ' (' + '; '.join('%d: %s' % (n, r) for r, n in sorted(self.skipped.items())) + ')'
        if self.findings:
            s += '  expected-failures %d' % len(self.findings)
        return s


def _vkey(vector):
    return hashlib.blake2b(json.dumps(vector, sort_keys=True, default=str).encode(), digest_size=6).hexdigest()


def _short(v, n=400):
    s = json.dumps(v, default=str)
    return s if len(s) <= n else s[:n] + '…(%d chars)' % len(s)


# ------------------------------------------------------------------------------------------------
# wire format (own parser; the serialisation direction is Spec.Wire's, checked in `wire-roundtrip`)

class Rd:
    def __init__(self, b):
        self.b = b
        self.p = 0

    def take(self, n):
        if self.p + n > len(self.b):
            raise ValueError('truncated')
        x = self.b[self.p:self.p + n]
        self.p += n
        return x

    def u(self, n):
        return int.from_bytes(self.take(n), 'little')

    def i(self, n):
        return int.from_bytes(self.take(n), 'little', signed=True)

    def cs(self):
        x = self.u(1)
        if x < 0xfd:
            return x
        return self.u({0xfd: 2, 0xfe: 4, 0xff: 8}[x])

    def vb(self):
        return self.take(self.cs())

    def done(self):
        return self.p == len(self.b)


def read_tx(r):
    """Bitcoin Core's UnserializeTransaction (BIP144 aware)."""
    ver = r.i(4)

    def read_vin():
        out = []
        for _ in range(r.cs()):
            h = r.take(32)
            n = r.u(4)
            s = r.vb()
            q = r.u(4)
            out.append((h, n, s, q))
        return out

    def read_vout():
        out = []
        for _ in range(r.cs()):
            v = r.i(8)
            out.append((v, r.vb()))
        return out
    vin = read_vin()
    wit = None
    if not vin:
        flags = r.u(1)
        if flags != 0:
            vin = read_vin()
            vout = read_vout()
            if flags & 1:
                wit = [[r.vb() for _ in range(r.cs())] for _ in vin]
            if flags & ~1:
                raise ValueError('unknown optional data')
        else:
            vout = []
    else:
        vout = read_vout()
    lock = r.u(4)
    return dict(ver=ver, lock=lock, vin=vin, vout=vout, wit=wit)


def parse_tx(b):
    r = Rd(b)
    t = read_tx(r)
    if not r.done():
        raise ValueError('trailing bytes after transaction')
    return t


def read_header(r):
    return dict(ver=r.i(4), prev=r.take(32), merkle=r.take(32), time=r.u(4), bits=r.u(4), nonce=r.u(4))


def parse_block(b):
    r = Rd(b)
    h = read_header(r)
    vtx = [read_tx(r) for _ in range(r.cs())]
    if not r.done():
        raise ValueError('trailing bytes after block')
    return dict(hdr=h, vtx=vtx)


# ------------------------------------------------------------------------------------------------
# the script assembly language of script_*.json / tx_*.json (Bitcoin Core core_read.cpp ParseScript)

# Bitcoin Core script.h, written out independently of Spec.Opcodes (compared with it in `opcode-table`)
_OPS = """0:0 FALSE:0 PUSHDATA1:76 PUSHDATA2:77 PUSHDATA4:78 1NEGATE:79 RESERVED:80 1:81 TRUE:81 2:82 3:83 4:84 5:85
6:86 7:87 8:88 9:89 10:90 11:91 12:92 13:93 14:94 15:95 16:96 NOP:97 VER:98 IF:99 NOTIF:100 VERIF:101
VERNOTIF:102 ELSE:103 ENDIF:104 VERIFY:105 RETURN:106 TOALTSTACK:107 FROMALTSTACK:108 2DROP:109 2DUP:110
3DUP:111 2OVER:112 2ROT:113 2SWAP:114 IFDUP:115 DEPTH:116 DROP:117 DUP:118 NIP:119 OVER:120 PICK:121 ROLL:122
ROT:123 SWAP:124 TUCK:125 CAT:126 SUBSTR:127 LEFT:128 RIGHT:129 SIZE:130 INVERT:131 AND:132 OR:133 XOR:134
EQUAL:135 EQUALVERIFY:136 RESERVED1:137 RESERVED2:138 1ADD:139 1SUB:140 2MUL:141 2DIV:142 NEGATE:143 ABS:144
NOT:145 0NOTEQUAL:146 ADD:147 SUB:148 MUL:149 DIV:150 MOD:151 LSHIFT:152 RSHIFT:153 BOOLAND:154 BOOLOR:155
NUMEQUAL:156 NUMEQUALVERIFY:157 NUMNOTEQUAL:158 LESSTHAN:159 GREATERTHAN:160 LESSTHANOREQUAL:161
GREATERTHANOREQUAL:162 MIN:163 MAX:164 WITHIN:165 RIPEMD160:166 SHA1:167 SHA256:168 HASH160:169 HASH256:170
CODESEPARATOR:171 CHECKSIG:172 CHECKSIGVERIFY:173 CHECKMULTISIG:174 CHECKMULTISIGVERIFY:175 NOP1:176
NOP2:177 CHECKLOCKTIMEVERIFY:177 NOP3:178 CHECKSEQUENCEVERIFY:178 NOP4:179 NOP5:180 NOP6:181 NOP7:182 NOP8:183
NOP9:184 NOP10:185"""
OPCODES = {}
for _w in _OPS.split():
    _n, _v = _w.rsplit(':', 1)
    OPCODES['OP_' + _n] = int(_v)
    OPCODES[_n] = int(_v)


def scriptnum(n):
    """CScriptNum::serialize"""
    if n == 0:
        return b''
    neg = n < 0
    a = abs(n)
    out = bytearray()
    while a:
        out.append(a & 0xff)
        a >>= 8
    if out[-1] & 0x80:
        out.append(0x80 if neg else 0)
    elif neg:
        out[-1] |= 0x80
    return bytes(out)


def push(data):
    """CScript::operator<<(std::vector<unsigned char>)"""
    n = len(data)
    if n < 0x4c:
        return bytes([n]) + data
    if n <= 0xff:
        return bytes([0x4c, n]) + data
    if n <= 0xffff:
        return bytes([0x4d]) + n.to_bytes(2, 'little') + data
    return bytes([0x4e]) + n.to_bytes(4, 'little') + data


def _ishex(s):
    return all(c in '0123456789abcdefABCDEF' for c in s)


def assemble(s):
    out = b''
    for w in s.split():
        if w.isdigit() or (w[0] == '-' and w[1:].isdigit()):
            n = int(w)
            if n == 0:
                out += b'\x00'
            elif n == -1 or 1 <= n <= 16:
                out += bytes([n + 0x50])
            else:
                out += push(scriptnum(n))
        elif w.startswith('0x') and _ishex(w[2:]):
            out += bytes.fromhex(w[2:])             # raw bytes, inserted, not pushed
        elif len(w) >= 2 and w[0] == "'" and w[-1] == "'":
            out += push(w[1:-1].encode('utf8'))
        elif w in OPCODES:
            out += bytes([OPCODES[w]])
        else:
            raise ValueError('cannot assemble %r in %r' % (w, s))
    return out


IMPLEMENTED_FLAGS = {'P2SH': 1, 'NULLDUMMY': 2, 'CLEANSTACK': 4, 'DISCOURAGE_UPGRADABLE_NOPS': 8}
OTHER_FLAGS = {'STRICTENC', 'DERSIG', 'LOW_S', 'SIGPUSHONLY', 'MINIMALDATA', 'CHECKLOCKTIMEVERIFY',
               'CHECKSEQUENCEVERIFY', 'NULLFAIL', 'MINIMALIF', 'WITNESS', 'WITNESS_PUBKEYTYPE',
               'DISCOURAGE_UPGRADABLE_WITNESS_PROGRAM', 'CONST_SCRIPTCODE'}


def parse_flags(s):
    """-> (bit mask of the implemented flags, sorted list of the named flags outside the reference)"""
    mask, other = 0, []
    for f in s.split(','):
        if f in ('', 'NONE'):
            continue
        if f in IMPLEMENTED_FLAGS:
            mask |= IMPLEMENTED_FLAGS[f]
        elif f in OTHER_FLAGS:
            other.append(f)
        else:
            raise ValueError('unknown verification flag %r' % f)
    return mask, sorted(other)


def load(name):
    with open(os.path.join(DATA, name)) as f:
        return json.load(f)


# ------------------------------------------------------------------------------------------------
# script_valid.json / script_invalid.json

NULL32 = bytes(32)


def credit_tx(spk):
    """test_scripteval.py create_test_txs / Core script_tests.cpp BuildCreditingTransaction"""
    return dict(ver=1, lock=0, vin=[(NULL32, 0xffffffff, b'\x00\x00', 0xffffffff)], vout=[(0, spk)], wit=None)


def spend_tx(sig, credit_txid):
    return dict(ver=1, lock=0, vin=[(credit_txid, 0, sig, 0xffffffff)], vout=[(0, b'')], wit=None)


def _script_cases(name):
    cases = []
    for v in load(name):
        if len(v) == 1:
            continue
        sig, spk, flags = assemble(v[0]), assemble(v[1]), v[2]
        mask, other = parse_flags(flags)
        cases.append(dict(vector=v, sig=sig, spk=spk, mask=mask, other=other))
    # the crediting transaction's id through Spec.Ident.txid
    ids = ask([L('c02.spec.ids', show_tx(credit_tx(c['spk']))) for c in cases])
    for c, r in zip(cases, ids):
        c['txid'] = bytes.fromhex(r.split(':')[0])
        c['tx'] = spend_tx(c['sig'], c['txid'])
    return cases


def _verify_lines(cases, der):
    return [L('sv.verify', c['sig'].hex(), c['spk'].hex(), c['mask'], show_tx(c['tx']), c.get('idx', 0), der)
            for c in cases]


def run_script_file(name, want_valid, tier):
    res = Result(name, 'Spec.Script.Ref.verifyScript, Spec.Sighash.legacySighash, Spec.Ident.txid, Crypto.*')
    cases = _script_cases(name)
    outs = ask(_verify_lines(cases, 'lax'))
    dropped = 0
    for c, o in zip(cases, outs):
        if c['other']:
            dropped += 1
        if want_valid:
            res.check(c['vector'], 'ok', o)
        elif o == 'fail':
            res.ok()
        elif c['other']:
            res.skip('accepted without %s; the rejection may rest on that flag, which the reference does '
                     'not implement' % ','.join(c['other']))
        else:
            res.bad(c['vector'], 'fail', o)
    res.notes.append('%d vectors name flags outside the reference; replayed with the implemented subset' % dropped)
    # canary against a vacuous signature check: the same vectors with the spending transaction altered
    alt = ask(_verify_lines([dict(c, tx=dict(c['tx'], lock=1)) for c in cases], 'lax'))
    flips = sum(1 for a, b in zip(outs, alt) if a != b)
    res.notes.append('canary: %d verdicts flip when nLockTime of the spending transaction is changed (these '
                     'vectors exercise Spec.Sighash + ECDSA)' % flips)
    if want_valid and flips == 0:
        res.bad(['canary'], 'some verdict depends on the spending transaction', 'none does')
    if tier == 'thorough':
        strict = ask(_verify_lines(cases, 'strict'))
        n = sum(1 for a, b in zip(outs, strict) if a != b)
        res.notes.append('%d verdicts change under strict-DER signature parsing (they rest on consensus lax '
                         'parsing, Driver/SpecVec.lean derDecodeLax)' % n)
    return res


# ------------------------------------------------------------------------------------------------
# tx_valid.json / tx_invalid.json

# tx_invalid.json: which modelled rule the vector's own comment names.  `checktx` = CheckTransaction
# (Spec.BlockCheck.ValidTx), `script` = some input fails script verification.
TX_INVALID_CLASS = [
    ('extra junk appended to the end of the scriptPubKey', 'script'),
    ('non-standard pushdata prefix', 'script'),
    ('also pushed with the same non-standard OP_PUSHDATA', 'script'),
    ('An invalid P2SH Transaction', 'script'),
    ('No outputs', 'checktx'),
    ('Negative output', 'checktx'),
    ('MAX_MONEY + 1 output', 'checktx'),
    ('MAX_MONEY output + 1 output', 'checktx'),
    ('Duplicate inputs', 'checktx'),
    ('Coinbase of size 1', 'checktx'),
    ('Coinbase of size 101', 'checktx'),
    ('Null txin', 'checktx'),
    ('invalidating the SIGHASH_ALL signature', 'script'),
    ('Incorrect signature order', 'script'),
    ('Empty stack when we try to run CHECKSIG', 'script'),
]


def _tx_cases(name):
    cases, comments = [], []
    for v in load(name):
        if len(v) == 1:
            comments.append(v[0])
            continue
        prevouts = {}
        for h, n, spk in v[0]:
            prevouts[(bytes.fromhex(h)[::-1], 0xffffffff if n == -1 else n)] = assemble(spk)
        raw = bytes.fromhex(v[1])
        cases.append(dict(vector=v, comment=' / '.join(comments), prevouts=prevouts, raw=raw, tx=parse_tx(raw),
                          mask=1 if v[2] else 0))
        comments = []
    return cases


def _tx_verdicts(cases, der='lax'):
    """-> per case (checktx verdict, [per-input verdict])"""
    lines, slots = [], []
    for k, c in enumerate(cases):
        lines.append(L('c16.spec.checktx', 'mainnet', show_tx(c['tx'])))
        slots.append((k, 'tx'))
        for i, (h, n, s, q) in enumerate(c['tx']['vin']):
            spk = c['prevouts'].get((h, n))
            if spk is None:
                raise ValueError('vector does not give the output spent by input %d: %s' % (i, _short(c['vector'])))
            lines.append(L('sv.verify', s.hex(), spk.hex(), c['mask'], show_tx(c['tx']), i, der))
            slots.append((k, i))
    outs = ask(lines)
    verdicts = [[None, []] for _ in cases]
    for (k, what), o in zip(slots, outs):
        if what == 'tx':
            verdicts[k][0] = o
        else:
            verdicts[k][1].append(o)
    return verdicts


def run_tx_file(name, want_valid, tier):
    res = Result(name, 'Spec.BlockCheck.ValidTx, Spec.Script.Ref.verifyScript, Spec.Sighash.legacySighash')
    cases = _tx_cases(name)
    verdicts = _tx_verdicts(cases)
    for c, (ctx, ins) in zip(cases, verdicts):
        got = dict(checktx=ctx, inputs=ins)
        if want_valid:
            res.check(c['vector'], dict(checktx='ok', inputs=['ok'] * len(ins)), got)
            continue
        # Core's test: invalid iff CheckTransaction fails or some input fails script verification
        why = 'checktx' if ctx != 'ok' else ('script' if 'fail' in ins else None)
        cls = [k for (pat, k) in TX_INVALID_CLASS if pat in c['comment']]
        if not cls:
            res.skip('no classification for the comment %r: cannot tell whether the invalidity is within the '
                     'modelled rules' % c['comment'][:60])
        elif why == cls[-1]:
            res.ok()
        else:
            res.bad(c['vector'], 'rejected by: ' + cls[-1], dict(rejected_by=why, **got))
    alt = _tx_verdicts([dict(c, tx=dict(c['tx'], lock=c['tx']['lock'] ^ 1)) for c in cases])
    flips = sum(1 for a, b in zip(verdicts, alt) if a != b)
    res.notes.append('canary: %d of %d verdicts flip when nLockTime is changed (these vectors exercise '
                     'Spec.Sighash + ECDSA)' % (flips, len(cases)))
    if want_valid and flips == 0:
        res.bad(['canary'], 'some verdict depends on the transaction', 'none does')
    if tier == 'thorough':
        strict = _tx_verdicts(cases, 'strict')
        n = sum(1 for a, b in zip(verdicts, strict) if a != b)
        res.notes.append('%d verdicts change under strict-DER signature parsing' % n)
    return res


# ------------------------------------------------------------------------------------------------
# base58 / bech32

def run_base58(tier):
    name = 'base58_encode_decode.json'
    res = Result(name, 'Spec.Base58.enc, Spec.Base58.dec')
    vs = load(name)
    enc = ask([L('c10.spec.enc', h) for h, _ in vs])
    dec = ask([L('c10.spec.dec', utf8hex(s)) for _, s in vs])
    for v, e, d in zip(vs, enc, dec):
        res.check(v, dict(enc=v[1], dec='ok:' + v[0].lower()), dict(enc=e, dec=d))
    return res


def _witver(op):
    if op == 0:
        return 0
    if 0x51 <= op <= 0x60:
        return op - 0x50
    raise ValueError('not a witness version opcode: %d' % op)


def _cps(s):
    return ','.join(str(ord(c)) for c in s)


def _b32_crosscheck(res, queries, direct):
    """`sv.b32.valid` evaluates the clauses of `Spec.Bech32.Decodes` by a transcription in Driver/SpecVec.lean.
    As a guard on that transcription, the same (hrp, text) pairs are put to `c11.decode`
    (Model.Bech32.decode), which Props/C11 `decode_returns` proves to return (v, p) exactly when
    `Decodes h s v p` holds: the two evaluations of the Spec predicate must coincide.  (This is the only
    place where a Model function is consulted; it never supplies an expected answer.)"""
    proven = ask([L('c11.decode', _cps(h), _cps(t)) for h, t in queries], jobs=1)
    bad = 0
    for (h, t), d, m in zip(queries, direct, proven):
        d2 = d[len('valid:'):] if d.startswith('valid:') else 'none'
        if d2 != m:
            bad += 1
            res.bad(['transcription of Decodes vs proven decision procedure', h, t], m, d)
    res.notes.append('clause-by-clause evaluation of Spec.Bech32.Decodes coincides with the proven decision '
                     'procedure (Props/C11 decode_returns) on %d of %d (hrp, text) pairs'
                     % (len(queries) - bad, len(queries)))


def run_bech32_valid(tier):
    name = 'bech32_encode_decode.json'
    res = Result(name, 'Spec.Bech32.encodeAddr, Spec.Bech32.Decodes')
    vs = load(name)
    lines = []
    for spk, text in vs:
        b = bytes.fromhex(spk)
        assert b[1] == len(b) - 2
        hrp = text[:text.rindex('1')].lower()
        lines.append(L('sv.b32.enc', utf8hex(hrp), _witver(b[0]), b[2:].hex()))
        lines.append(L('sv.b32.valid', utf8hex(hrp), utf8hex(text)))
        # the other network's prefix must refuse it
        lines.append(L('sv.b32.valid', utf8hex('tb' if hrp == 'bc' else 'bc'), utf8hex(text)))
    outs = ask(lines)
    qs, ds = [], []
    for k, (spk, text) in enumerate(vs):
        hrp = text[:text.rindex('1')].lower()
        qs += [(hrp, text), ('tb' if hrp == 'bc' else 'bc', text)]
        ds += [outs[3 * k + 1], outs[3 * k + 2]]
    _b32_crosscheck(res, qs, ds)
    for k, (spk, text) in enumerate(vs):
        b = bytes.fromhex(spk)
        exp = dict(enc=text.lower(), dec='valid:%d:%s' % (_witver(b[0]), b[2:].hex()), other_hrp='invalid')
        got = dict(enc=outs[3 * k], dec=outs[3 * k + 1], other_hrp=outs[3 * k + 2].split(':')[0])
        res.check([spk, text], exp, got)
    return res


BECH32_REASON = {
    'Invalid human-readable part': 'prefix-or-separator',
    'Invalid checksum': 'checksum',
    'Invalid witness version': 'witness-version',
    'Invalid program length': 'program-length',
    'Invalid program length for witness version 0 (per BIP141)': 'v0-program-length',
    'Mixed case': 'mixed-case',
    'zero padding of more than 4 bits': 'padding-5-or-more-bits',
    'Non-zero padding in 8-to-5 conversion': 'non-zero-padding',
    'Empty data section': 'data-too-short',
}


def run_bech32_invalid(tier):
    name = 'bech32_invalid.json'
    res = Result(name, 'Spec.Bech32.Decodes (each clause)')
    vs = load(name)
    lines, qs = [], []
    for text, why in vs:
        own = text[:text.rindex('1')].lower()
        if why == 'Invalid human-readable part':
            own = 'bc'
        for hrp in ('bc', 'tb', own):
            lines.append(L('sv.b32.valid', utf8hex(hrp), utf8hex(text)))
            qs.append((hrp, text))
    outs = ask(lines)
    _b32_crosscheck(res, qs, outs)
    for k, (text, why) in enumerate(vs):
        bc, tb, own = outs[3 * k:3 * k + 3]
        exp = dict(bc='invalid', tb='invalid', clause='invalid:' + BECH32_REASON.get(why, '?'))
        got = dict(bc=bc.split(':')[0], tb=tb.split(':')[0], clause=own)
        res.check([text, why], exp, got)
    return res


# ------------------------------------------------------------------------------------------------
# checkblock_valid.json / checkblock_invalid.json

GENESIS_HASH = '000000000019d6689c085ae165831e934ff763ae46a2a6c172b3f1b60a8ce26f'


def _block_cases(name):
    out = []
    for v in load(name):
        if len(v) == 1:
            continue
        comment, f_header, f_pow, cur_time, hexblk = v
        raw = bytes.fromhex(hexblk)
        out.append(dict(vector=v, header=f_header, pow=f_pow, now=cur_time, raw=raw,
                        obj=(read_header(Rd(raw)) if f_header else parse_block(raw))))
    return out


# checkblock_invalid.json: the rule each vector's comment names, and the change that must make the block pass
# if that is really the only rule it breaks (`structure` = broken whatever the switches)
CHECKBLOCK_INVALID_CLASS = {
    'Genesis block with time set to two hours + 1 second behind': 'time',
    'Genesis with one byte changed': 'pow',
    'Empty vtx': 'structure',
    'One tx, but not a coinbase': 'structure',
    'More than one coinbase (different coinbases)': 'structure',
    'Duplicate transaction': 'structure',
    'Merkle root mismatch': 'merkle',
}


def run_checkblock(name, want_valid, tier):
    res = Result(name, 'Spec.BlockCheck.ValidBlock/ValidHeader (mainnet), Spec.powValid, Spec.Merkle.merkleRoot')
    cases = _block_cases(name)
    lines = []
    for c in cases:
        # test_checkblock.py: CheckBlock(blk, fCheckPoW=fCheckPoW, cur_time=cur_time), merkle check on, mainnet
        if c['header']:
            lines.append(L('c16.spec.checkheader', 'mainnet', c['now'], int(c['pow']), show_header(c['obj'])))
        else:
            lines.append(L('c16.spec.checkblock', 'mainnet', c['now'], int(c['pow']), 1, show_block(c['obj'])))
    # second question for the invalid blocks: the same block with the named rule taken out of play
    alt = []
    for c in cases:
        cls = CHECKBLOCK_INVALID_CLASS.get(c['vector'][0]) if not want_valid else None
        c['cls'] = cls
        if cls and not c['header']:
            now, fpow, fmerkle = c['now'], int(c['pow']), 1
            if cls == 'time':
                now += 1
            elif cls == 'pow':
                fpow = 0
            elif cls == 'merkle':
                fmerkle = 0
            else:
                fpow, fmerkle = 0, 0
            alt.append(L('c16.spec.checkblock', 'mainnet', now, fpow, fmerkle, show_block(c['obj'])))
        else:
            alt.append(None)
    outs = ask(lines, jobs=1)
    alts = iter(ask([a for a in alt if a], jobs=1))
    for c, o, a in zip(cases, outs, alt):
        v = [c['vector'][0], c['vector'][1], c['vector'][2], c['vector'][3], c['vector'][4][:80] + '…']
        if want_valid:
            res.check(v, 'ok', o)
        elif a is None:
            if c['cls'] is None:
                res.notes.append('no classification for %r: only the verdict is compared' % c['vector'][0])
            res.check(v, 'err:validation', o)
        else:
            relaxed = next(alts)
            exp = dict(verdict='err:validation', rule=c['cls'],
                       without_that_rule='err:validation' if c['cls'] == 'structure' else 'ok')
            res.check(v, exp, dict(verdict=o, rule=c['cls'], without_that_rule=relaxed))
    return res


# ------------------------------------------------------------------------------------------------
# signmessage.json

def run_signmessage(tier):
    name = 'signmessage.json'
    res = Result(name, 'Spec.Keys.msgDigest/headerDecode/wifPayload, Crypto.Secp256k1.recover/pubkeyOf, '
                       'Crypto.hash160, Spec.Base58.checkEnc/dec/checkSplit?')
    vs = load(name)
    lines = []
    for v in vs:
        sig = base64.b64decode(v['signature'])
        # test_signmessage.py: the signed message is the address text itself
        lines.append(L('sv.msgaddr', 'mainnet', utf8hex(v['address']), sig.hex()))
        lines.append(L('sv.wifaddr', 'mainnet', utf8hex(v['wif'])))
    outs = ask(lines)
    for k, v in enumerate(vs):
        rec, wif = outs[2 * k], outs[2 * k + 1]
        got = dict(recovered_from_signature=rec, address_of_wif=wif.split(':')[0])
        res.check(v, dict(recovered_from_signature=v['address'], address_of_wif=v['address']), got)
    return res


# ------------------------------------------------------------------------------------------------
# published standard vectors

ABCQ = b'abcdbcdecdefdefgefghfghighijhijkijkljklmklmnlmnomnopnopq'
HASH_VECTORS = [
    # FIPS 180 / NIST examples
    ('c13.sha256', b'', 'e3b0c44298fc1c149afbf4c8996fb92427ae41e4649b934ca495991b7852b855'),
    ('c13.sha256', b'abc', 'ba7816bf8f01cfea414140de5dae2223b00361a396177a9cb410ff61f20015ad'),
    ('c13.sha256', ABCQ, '248d6a61d20638b8e5c026930c3e6039a33ce45964ff2167f6ecedd419db06c1'),
    ('c13.sha1', b'', 'da39a3ee5e6b4b0d3255bfef95601890afd80709'),
    ('c13.sha1', b'abc', 'a9993e364706816aba3e25717850c26c9cd0d89d'),
    ('c13.sha1', ABCQ, '84983e441c3bd26ebaae4aa1f95129e5e54670f1'),
    # Dobbertin / Bosselaers / Preneel, "RIPEMD-160", appendix B
    ('c13.ripemd160', b'', '9c1185a5c5e9fc54612808977ee8f548b2258d31'),
    ('c13.ripemd160', b'a', '0bdc9d2d256b3ee9daae347be6f4dc835a467ffe'),
    ('c13.ripemd160', b'abc', '8eb208f7e05d987a9b044a8e98c6b087f15a0bfc'),
    ('c13.ripemd160', b'message digest', '5d0689ef49d2fae572b881b123a85ffa21595f36'),
    ('c13.ripemd160', b'abcdefghijklmnopqrstuvwxyz', 'f71c27109c692c1b56bbdceb5b9d2865b3708dbc'),
    ('c13.ripemd160', ABCQ, '12a053384a9c0c88e405a06c27dcf49ada62eb2b'),
    # Bitcoin wiki, "Protocol documentation", hashes of "hello"
    ('c13.hash256', b'hello', '9595c9df90075148eb06860365df33584b75bff782a510c6cd4883a419833d50'),
    ('c13.hash160', b'hello', 'b6a9c8c230722b7c748331a8b450f05566dc7d0f'),
]
MILLION_A = [
    ('c13.sha256', 'cdc76e5c9914fb9281a1c7e284d73e67f1809a48a497200e046d39ccc7112cd0'),
    ('c13.sha1', '34aa973cd4c4daa4f61eeb2bdbad27316534016f'),
    ('c13.ripemd160', '52783243c1697bdbe16d37f97f68f08325dc1528'),
]
# the secret key 1: its WIF forms and P2PKH addresses (public key = the generator point)
KEY_ONE = [
    ('KwDiBf89QgGbjEhKnhXJuH7LrciVrZi3qYjgd9M7rFU73sVHnoWn', '1BgGZ9tcN4rm9KBzDn7KprQz87SZ26SAMH', '1'),
    ('5HpHagT65TZzG1PH3CSu63k8DbpvD8s5ip4nEB3kEsreAnchuDf', '1EHNa6Q4Jz2uvNExL497mE43ikXhwF6kZm', '0'),
]


def run_std_crypto(tier):
    res = Result('std:hash+key vectors', 'Crypto.sha256/sha1/ripemd160/hash256/hash160, Crypto.Secp256k1.pubkeyOf, '
                                         'Spec.Keys.wifPayload, Spec.Base58')
    lines = [L(op, m.hex()) for op, m, _ in HASH_VECTORS]
    if tier == 'thorough':
        lines += [L(op, (b'a' * 1000000).hex()) for op, _ in MILLION_A]
    lines += [L('sv.wifaddr', 'mainnet', utf8hex(w)) for w, _, _ in KEY_ONE]
    outs = ask(lines)
    k = 0
    for op, m, d in HASH_VECTORS:
        res.check([op, m.decode()], d, outs[k])
        k += 1
    if tier == 'thorough':
        for op, d in MILLION_A:
            res.check([op, "one million 'a'"], d, outs[k])
            k += 1
    else:
        for op, d in MILLION_A:
            res.skip("one million 'a': thorough tier only")
    for w, a, c in KEY_ONE:
        res.check([w, a], '%s:%s:%s' % (a, '%064x' % 1, c), outs[k])
        k += 1
    return res


# /repo/bitcoin/tests/test_bloom.py Test_MurmurHash3 (from Bitcoin Core hash_tests.cpp)
MURMUR = [(0x00000000, 0x00000000, ''), (0x6a396f08, 0xFBA4C795, ''), (0x81f16f39, 0xffffffff, ''),
          (0x514e28b7, 0x00000000, '00'), (0xea3f0b17, 0xFBA4C795, '00'), (0xfd6cf10d, 0x00000000, 'ff'),
          (0x16c6b7ab, 0x00000000, '0011'), (0x8eb51c3d, 0x00000000, '001122'), (0xb4471bf8, 0x00000000, '00112233'),
          (0xe2301fa8, 0x00000000, '0011223344'), (0xfc2e4a15, 0x00000000, '001122334455'),
          (0xb074502c, 0x00000000, '00112233445566'), (0x8034d2a0, 0x00000000, '0011223344556677'),
          (0xb4698def, 0x00000000, '001122334455667788')]
# test_bloom.py Test_CBloomFilter (Bitcoin Core bloom_tests.cpp): the filter dimensions (3 bytes, 5 hash
# functions / 3 bytes, 8 functions) are read off the expected serialisations
BLOOM_KEY = ('045b81f0017e2091e2edcd5eecf10d5bdd120a5514cb3ee65b8447ec18bfc4575c6d5bf415e54e03b1067934a0f0ba76b01c6b9a'
             'b227142ee1d543764b69d901e0')
_E = ['99108ad8ed9bb6274d3980bab5a85c048f0950c8', '19108ad8ed9bb6274d3980bab5a85c048f0950c8',
      'b5a2c786d9ef4658287ced5914b37a1b4aa32eee', 'b9300670b4c5366e95b2699e8b18bc75e5f729c5']
_BLOOM_OPS = 'i:%s,c:%s,c:%s,i:%s,c:%s,i:%s,c:%s,s' % (_E[0], _E[0], _E[1], _E[2], _E[2], _E[3], _E[3])


def run_bloom(tier):
    res = Result('test_bloom.py vectors', 'Spec.Bloom.murmur3, Crypto.murmur3, Spec.Bloom.bitsOf (BIP37 schedule)')
    lines = []
    for _, seed, d in MURMUR:
        lines.append(L('c20.spec.murmur', seed, d))
        lines.append(L('c13.murmur3', seed, d))
    lines.append(L('c13.hash160', BLOOM_KEY))
    outs = ask(lines, jobs=1)
    for k, (exp, seed, d) in enumerate(MURMUR):
        res.check(['MurmurHash3', hex(seed), d], dict(spec=str(exp), crypto=str(exp)),
                  dict(spec=outs[2 * k], crypto=outs[2 * k + 1]))
    keyhash = outs[-1]
    hist = [
        ('bloom_create_insert_serialize', 'n:3:0.01:3:5:0:1', _BLOOM_OPS, '.,1,0,.,1,.,1,03614e9b050000000000000001'),
        ('deserialised filter', 'w:03614e9b050000000000000001', 'c:%s,c:%s,c:%s,c:%s' % tuple(_E), '1,0,1,1'),
        ('bloom_create_insert_serialize_with_tweak', 'n:3:0.01:3:5:2147483649:1', _BLOOM_OPS,
         '.,1,0,.,1,.,1,03ce4299050000000100008001'),
        ('bloom_create_insert_key', 'n:2:0.001:3:8:0:1', 'i:%s,i:%s,s' % (BLOOM_KEY, keyhash),
         '.,.,038fc16b080000000000000001'),
    ]
    outs = ask([L('c20.spec.hist', init, ops) for _, init, ops, _ in hist], jobs=1)
    for (nm, init, ops, exp), o in zip(hist, outs):
        res.check([nm, init, ops], exp, o)
    return res


def run_bip143(tier):
    res = Result('test_segwit.py BIP143 examples', 'Spec.Sighash.bip143Sighash')
    with open(os.path.join(HERE, 'specvec_vectors.json')) as f:
        vs = json.load(f)['bip143']
    lines = [L('c04.spec.bip143', v['scriptcode'], show_tx(parse_tx(bytes.fromhex(v['tx']))), v['idx'], v['ht'],
               v['amount']) for v in vs]
    for v, o in zip(vs, ask(lines, jobs=1)):
        res.check(v, v['expect'], o)
    return res


# ------------------------------------------------------------------------------------------------
# every serialised object of the vector files: Spec.Wire re-serialises what the parser read; ids

def run_wire(tier):
    res = Result('wire-roundtrip (all files)', 'Spec.Wire.txBytes/block/header, Spec.Ident.blockHash, '
                                               'Spec.Merkle.txWeight')
    items = []
    for name in ('tx_valid.json', 'tx_invalid.json'):
        for c in _tx_cases(name):
            items.append(('c01.spec.tx', show_tx(c['tx']), c['raw'].hex(), [name, c['vector'][1][:64] + '…']))
    blocks = []
    for name in ('checkblock_valid.json', 'checkblock_invalid.json'):
        for c in _block_cases(name):
            tag = [name, c['vector'][0]]
            if c['header']:
                items.append(('c01.spec.hdr', show_header(c['obj']), c['raw'].hex(), tag))
            else:
                items.append(('c01.spec.blk', show_block(c['obj']), c['raw'].hex(), tag))
                blocks.append((c, tag))
    with open(os.path.join(HERE, 'specvec_vectors.json')) as f:
        extra = json.load(f)
    for v in extra['weights']:
        t = parse_tx(bytes.fromhex(v['tx']))
        items.append(('c01.spec.tx', show_tx(t), v['tx'], ['test_transactions.py calc_weight', v['tx'][:64] + '…']))
        items.append(('c15.spec.weight', show_tx(t), str(v['weight']), ['test_transactions.py calc_weight (weight)',
                                                                        v['tx'][:64] + '…']))
    for v in extra['bip143']:
        items.append(('c01.spec.tx', show_tx(parse_tx(bytes.fromhex(v['tx']))), v['tx'], ['BIP143', v['name']]))
    # the genesis block's hash, as everybody knows it
    gen = [c for c, _ in blocks if c['vector'][0] == 'Genesis block']
    for c in gen:
        items.append(('c02.spec.blockhash', show_block(c['obj']), bytes.fromhex(GENESIS_HASH)[::-1].hex(),
                      ['genesis block hash']))
    outs = ask([L(op, arg) for op, arg, _, _ in items])
    for (op, _, exp, tag), o in zip(items, outs):
        res.check([op] + tag, exp, o)
    return res


def run_opcode_table(tier):
    res = Result('opcode-table', 'Spec.opcodesByName vs Bitcoin Core script.h names')
    spec = dict((kv.split('=')[0], int(kv.split('=')[1])) for kv in ask([L('sv.opcodes')])[0].split(','))
    for nm, v in sorted(OPCODES.items()):
        if not nm.startswith('OP_'):
            continue
        if nm in ('OP_FALSE', 'OP_TRUE'):
            # aliases that python-bitcoinlib's name table (and hence Spec.opcodesByName) does not carry
            if nm not in spec:
                res.skip('alias OP_FALSE/OP_TRUE absent from the name table (unused by the vectors)')
                continue
        res.check([nm], v, spec.get(nm))
    return res


# ------------------------------------------------------------------------------------------------

RUNNERS = {
    'script_valid.json': lambda t: run_script_file('script_valid.json', True, t),
    'script_invalid.json': lambda t: run_script_file('script_invalid.json', False, t),
    'tx_valid.json': lambda t: run_tx_file('tx_valid.json', True, t),
    'tx_invalid.json': lambda t: run_tx_file('tx_invalid.json', False, t),
    'base58_encode_decode.json': run_base58,
    'bech32_encode_decode.json': run_bech32_valid,
    'bech32_invalid.json': run_bech32_invalid,
    'checkblock_valid.json': lambda t: run_checkblock('checkblock_valid.json', True, t),
    'checkblock_invalid.json': lambda t: run_checkblock('checkblock_invalid.json', False, t),
    'signmessage.json': run_signmessage,
    'std:hash+key vectors': run_std_crypto,
    'test_bloom.py vectors': run_bloom,
    'test_segwit.py BIP143 examples': run_bip143,
    'wire-roundtrip (all files)': run_wire,
    'opcode-table': run_opcode_table,
}

PROPERTY_FILES = {
    'C01': ['wire-roundtrip (all files)'],
    'C02': ['wire-roundtrip (all files)', 'script_valid.json'],
    'C03': ['tx_valid.json', 'tx_invalid.json', 'script_valid.json', 'script_invalid.json'],
    'C04': ['test_segwit.py BIP143 examples'],
    'C05': ['tx_valid.json', 'tx_invalid.json'],
    'C06': ['script_valid.json', 'script_invalid.json', 'tx_valid.json', 'tx_invalid.json'],
    'C07': ['script_valid.json', 'script_invalid.json'],
    'C08': ['opcode-table'],
    'C09': [],
    'C10': ['base58_encode_decode.json', 'signmessage.json'],
    'C11': ['bech32_encode_decode.json', 'bech32_invalid.json'],
    'C12': ['bech32_encode_decode.json', 'bech32_invalid.json', 'signmessage.json'],
    'C13': ['std:hash+key vectors', 'signmessage.json'],
    'C14': ['signmessage.json'],
    'C15': ['checkblock_valid.json', 'checkblock_invalid.json', 'wire-roundtrip (all files)'],
    'C16': ['checkblock_valid.json', 'checkblock_invalid.json', 'tx_valid.json', 'tx_invalid.json'],
    'C17': ['checkblock_valid.json', 'checkblock_invalid.json'],
    'C18': [],
    'C19': [],
    'C20': ['test_bloom.py vectors'],
}


def ensure_driver():
    """(Re)build the model driver; returns an error text or None."""
    import fcntl
    os.makedirs(fw.WORK, exist_ok=True)
    with open(os.path.join(fw.WORK, 'lake.lock'), 'w') as lockf:
        fcntl.flock(lockf, fcntl.LOCK_EX)
        try:
            p = subprocess.run(['lake', 'build', 'btcmodel'], cwd=fw.LEAN_DIR, stdout=subprocess.PIPE,
                               stderr=subprocess.STDOUT, timeout=3600)
        finally:
            fcntl.flock(lockf, fcntl.LOCK_UN)
    if p.returncode != 0 or not os.path.exists(fw.DRIVER):
        return 'lake build btcmodel failed:\n' + p.stdout.decode(errors='replace')[-1500:]
    return None


def run_files(names, tier='thorough'):
    out = {}
    for n in names:
        out[n] = RUNNERS[n](tier)
    return out


def run_for(property_id, tier='thorough'):
    """{vector file: counts} for the vector files relevant to one property (see PROPERTY_FILES).
    `counts['disagree'] > 0` means a Spec definition (or this module's reading of the vector format)
    disagrees with Bitcoin's vectors."""
    names = PROPERTY_FILES[property_id.upper()]
    return dict((n, r.counts()) for n, r in run_files(names, tier).items())


def run_all(tier='quick', out=sys.stdout):
    t0 = time.time()
    results = run_files(list(RUNNERS), tier)
    bad = 0
    for n, r in results.items():
        print(r.line(), file=out)
        for note in r.notes:
            print('    note: ' + note, file=out)
        for vec, exp, got in r.disagree:
            bad += 1
            print('  DISAGREE %s\n    vector:   %s\n    vector says: %s\n    Spec says:   %s'
                  % (n, _short(vec), _short(exp), _short(got)), file=out)
        for vec, exp, got, why in r.findings:
            print('  SPEC-FINDING: %s %s\n    vector says: %s\n    Spec says:   %s\n    analysis: %s'
                  % (n, _short(vec, 200), _short(exp), _short(got), why), file=out)
    wall = time.time() - t0
    tot = dict(total=sum(r.total for r in results.values()), agree=sum(r.agree for r in results.values()),
               disagree=bad, skipped=sum(sum(r.skipped.values()) for r in results.values()),
               expected_failures=sum(len(r.findings) for r in results.values()))
    print('specvec %s: %d vectors, %d agree, %d disagree, %d skipped, %d expected failures, %.1f s'
          % (tier, tot['total'], tot['agree'], tot['disagree'], tot['skipped'], tot['expected_failures'], wall),
          file=out)
    report = dict(what='tests of the Spec: vectors replayed through Spec.*/Crypto.* only (harness/specvec.py)',
                  tier=tier, totals=tot,
                  files=dict((n, dict(r.counts(), covers=r.covers, notes=r.notes)) for n, r in results.items()),
                  spec_findings=[dict(file=n, vector=_short(v, 300), analysis=w)
                                 for n, r in results.items() for (v, _, _, w) in r.findings])
    with open(REPORT, 'w') as f:
        json.dump(report, f, indent=1, sort_keys=True)
        f.write('\n')
    return results, (1 if bad else 0)


def main(argv):
    tier = argv[1] if len(argv) > 1 else 'quick'
    if tier not in ('quick', 'thorough'):
        print(__doc__)
        return 2
    err = ensure_driver()
    if err:
        print('INFRA-ERROR: ' + err)
        return 2
    try:
        _, rc = run_all(tier)
    except Exception:  # noqa: BLE001
        import traceback
        print('INFRA-ERROR: ' + traceback.format_exc(limit=8))
        return 2
    return rc
