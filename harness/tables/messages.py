"""T1: message command table and protocol-version constants of the working tree
   -> lean/BtcVerif/Generated/Messages.lean"""


def dump(repo):
    import bitcoin.messages as M
    import bitcoin.net as N
    import bitcoin.core.serialize as S

    def row(cmd, cls):
        return '  (%s, %s)' % (list(bytes(cmd)), _s(cls.__name__))

    classes = ',\n'.join(row(c.command, c) for c in M.msg_classes)
    mmap = ',\n'.join(row(k, v) for k, v in M.messagemap.items())
    return ('-- GENERATED from the working tree by harness/tables/messages.py on every run; do not edit.\n'
            'import BtcVerif.Spec.Messages\n\nnamespace BtcVerif.Generated.Messages\n\n'
            '/-- `msg_classes`: (command, class name) in order -/\n'
            'def msgClasses : List (List Nat × String) := [\n' + classes + ' ]\n\n'
            '/-- `messagemap` items in insertion order -/\n'
            'def messagemap : List (List Nat × String) := [\n' + mmap + ' ]\n\n'
            'def protoVersion : Nat := %d\n'
            'def caddrTimeVersion : Nat := %d\n'
            'def ipv4Compat : List Nat := %s\n'
            'def maxSize : Nat := %d\n\n'
            'end BtcVerif.Generated.Messages\n'
            % (N.PROTO_VERSION, N.CADDR_TIME_VERSION, list(bytes(N.IPV4_COMPAT)), S.MAX_SIZE))


def _s(x):
    return '"' + str(x).replace('\\', '\\\\').replace('"', '\\"') + '"'
