"""T1: the command strings of the message types of the working tree -> lean/BtcVerif/Generated/Messages.lean

Only what property C18's statement names is an obligation: the seventeen message types (their protocol command
strings) exist.  How the library organises its classes (`msg_classes`, `messagemap`, class names) and its own
constants (`PROTO_VERSION`, `CADDR_TIME_VERSION`, `IPV4_COMPAT`, `MAX_SIZE`) are not named by the statement: they are
written into the generated file as evidence (comments), never compared; the behaviour that depends on them is tied
by the correspondence run."""


def dump(repo):
    import inspect
    import bitcoin.messages as M
    cmds = []

    def add(c):
        try:
            c = bytes(c)
        except Exception:  # noqa: BLE001
            return
        if c not in cmds:
            cmds.append(c)
    base = getattr(M, 'MsgSerializable', None)
    for cls in list(getattr(M, 'msg_classes', ())) + [v for v in vars(M).values() if inspect.isclass(v)]:
        if getattr(cls, 'command', None) is not None and (base is None or (inspect.isclass(cls) and issubclass(cls, base))):
            add(cls.command)
    for k in getattr(M, 'messagemap', {}):
        add(k)
    cmds.sort()
    ev = []
    for mod, name in (('bitcoin.net', 'PROTO_VERSION'), ('bitcoin.net', 'CADDR_TIME_VERSION'),
                      ('bitcoin.net', 'IPV4_COMPAT'), ('bitcoin.core.serialize', 'MAX_SIZE')):
        try:
            v = getattr(__import__(mod, fromlist=['x']), name, None)
        except Exception:  # noqa: BLE001
            v = None
        ev.append('--   %s.%s = %r' % (mod, name, v))
    return ('-- GENERATED from the working tree by harness/tables/messages.py on every run; do not edit.\n'
            'import BtcVerif.Spec.Messages\n\nnamespace BtcVerif.Generated.Messages\n\n'
            '/-- the command strings of the message classes / `messagemap` keys of the working tree (sorted) -/\n'
            'def commands : List (List Nat) := [\n' + ',\n'.join('  %s' % list(c) for c in cmds) + ' ]\n\n'
            '-- evidence only (not compared):\n' + '\n'.join(ev) + '\n\n'
            'end BtcVerif.Generated.Messages\n')
