"""T1: Bloom filter protocol constants of the working tree -> lean/BtcVerif/Generated/Bloom.lean"""

NAMES = ('MAX_BLOOM_FILTER_SIZE', 'MAX_HASH_FUNCS', 'UPDATE_NONE', 'UPDATE_ALL', 'UPDATE_P2PUBKEY_ONLY',
         'UPDATE_MASK')


def dump(repo):
    import bitcoin.bloom as B
    rows = []
    for n in NAMES:
        v = getattr(B.CBloomFilter, n)
        assert isinstance(v, int) and not isinstance(v, bool) and v >= 0, (n, v)
        rows.append('("%s", %d)' % (n, v))
    return ('-- GENERATED from the working tree by harness/tables/bloom.py on every run; do not edit.\n'
            'namespace BtcVerif.Generated\n\n'
            'def bloomConsts : List (String × Nat) :=\n  [ ' + ',\n    '.join(rows) + ' ]\n\n'
            'end BtcVerif.Generated\n')
