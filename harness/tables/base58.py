"""T1: base58 alphabet of the working tree -> lean/BtcVerif/Generated/Base58.lean"""


def dump(repo):
    import bitcoin.base58 as B
    a = B.B58_DIGITS
    if not isinstance(a, str):
        raise TypeError('B58_DIGITS is not a str')
    return ('-- GENERATED from the working tree by harness/tables/base58.py on every run; do not edit.\n'
            'namespace BtcVerif.Generated\n\n'
            'def b58Alphabet : String := %s\n\nend BtcVerif.Generated\n' % _s(a))


def _s(x):
    out = ['"']
    for ch in x:
        o = ord(ch)
        if ch in '\\"':
            out.append('\\' + ch)
        elif 0x20 <= o < 0x7f:
            out.append(ch)
        else:
            out.append('\\u{%x}' % o)
    out.append('"')
    return ''.join(out)
