"""T1: base58 alphabet of the working tree -> lean/BtcVerif/Generated/Base58.lean

The alphabet is read BEHAVIOURALLY — digit d is the text of the one-byte string d (d = 1..57; the byte 0 is written as
the zero digit) — so the obligation depends on what `encode` does, not on the existence, name or type of a module
constant."""


def dump(repo):
    import bitcoin.base58 as B
    a = ''.join(B.encode(bytes([d])) for d in range(58))
    return ('-- GENERATED from the working tree by harness/tables/base58.py on every run; do not edit.\n'
            'namespace BtcVerif.Generated\n\n'
            'def b58Alphabet : String := %s\n\nend BtcVerif.Generated\n' % _s(a))


def _s(x):
    out = ['"']
    for ch in x:
        o = ord(ch)
        if ch in '\\"':
            out.append('\\' + ch)
        elif 0x20 <= o < 0x7f:
            out.append(ch)
        else:
            out.append('\\u{%x}' % o)
    out.append('"')
    return ''.join(out)
