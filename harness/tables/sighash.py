"""T1: signature-hash constants of the working tree -> lean/BtcVerif/Generated/Sighash.lean

Module-level constants are read by importing bitcoin.core.script.  The historical constant "one" is a
function-local literal of RawSignatureHash: it is read BEHAVIOURALLY (the digest RawSignatureHash returns for an
input index that does not exist), so that renaming or hoisting the literal does not break the tie while a
change of its value does.
"""


def _hash_one(repo):
    import bitcoin.core as C
    import bitcoin.core.script as S
    tx = C.CTransaction([C.CTxIn(C.COutPoint(b'\x11' * 32, 0))], [C.CTxOut(1, S.CScript())])
    h, err = S.RawSignatureHash(S.CScript(), tx, 1, S.SIGHASH_ALL)
    if err is None or not isinstance(h, bytes) or len(h) != 32:
        raise LookupError('RawSignatureHash(script, tx, len(vin), ALL) does not return (32-byte constant, error)')
    return h


def dump(repo):
    import bitcoin.core.script as S
    h1 = _hash_one(repo)
    # names no property statement mentions: recorded as evidence (a comment), never an obligation
    extra = ', '.join('%s = %r' % (n, getattr(S, n, None)) for n in ('SIGHASH_ALL', 'SIGVERSION_BASE', 'SIGVERSION_WITNESS_V0'))
    return ('-- GENERATED from the working tree by harness/tables/sighash.py on every run; do not edit.\n'
            '-- evidence only (not part of the obligation): %s\n'
            'import BtcVerif.Spec.Sighash\n\nnamespace BtcVerif.Generated\nopen BtcVerif.Spec.Sighash\n\n'
            'def sighashTable : SighashTable :=\n'
            '  { sighashNone := %d, sighashSingle := %d, sighashAnyoneCanPay := %d, opCodeSeparator := %d,\n'
            '    hashOne := %s }\n\nend BtcVerif.Generated\n'
            % (extra, int(S.SIGHASH_NONE), int(S.SIGHASH_SINGLE), int(S.SIGHASH_ANYONECANPAY),
               int(S.OP_CODESEPARATOR), list(h1)))
