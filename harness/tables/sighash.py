"""T1: signature-hash constants of the working tree -> lean/BtcVerif/Generated/Sighash.lean

Module-level constants are read by importing bitcoin.core.script; the function-local literal HASH_ONE is read
from the AST of RawSignatureHash (function name, assigned name).  If it cannot be located the dump raises and
the tie is reported as broken rather than guessed.
"""
import ast
import os


def _hash_one(repo):
    tree = ast.parse(open(os.path.join(repo, 'bitcoin', 'core', 'script.py')).read())
    for node in ast.walk(tree):
        if isinstance(node, ast.FunctionDef) and node.name == 'RawSignatureHash':
            for st in ast.walk(node):
                if isinstance(st, ast.Assign) and any(isinstance(t, ast.Name) and t.id == 'HASH_ONE' for t in st.targets):
                    val = ast.literal_eval(st.value) if isinstance(st.value, ast.Constant) else \
                        eval(compile(ast.Expression(st.value), '<HASH_ONE>', 'eval'), {'__builtins__': {}})
                    if isinstance(val, bytes):
                        return val
    raise LookupError('literal HASH_ONE not found in RawSignatureHash')


def dump(repo):
    import bitcoin.core.script as S
    h1 = _hash_one(repo)
    return ('-- GENERATED from the working tree by harness/tables/sighash.py on every run; do not edit.\n'
            'import BtcVerif.Spec.Sighash\n\nnamespace BtcVerif.Generated\nopen BtcVerif.Spec.Sighash\n\n'
            'def sighashTable : SighashTable :=\n'
            '  { sighashAll := %d, sighashNone := %d, sighashSingle := %d, sighashAnyoneCanPay := %d,\n'
            '    sigversionBase := %d, sigversionWitnessV0 := %d, opCodeSeparator := %d,\n'
            '    hashOne := %s }\n\nend BtcVerif.Generated\n'
            % (int(S.SIGHASH_ALL), int(S.SIGHASH_NONE), int(S.SIGHASH_SINGLE), int(S.SIGHASH_ANYONECANPAY),
               int(S.SIGVERSION_BASE), int(S.SIGVERSION_WITNESS_V0), int(S.OP_CODESEPARATOR), list(h1)))
