"""T1: per-chain parameters of the working tree -> lean/BtcVerif/Generated/Chain.lean"""


def dump(repo):
    import bitcoin
    import bitcoin.core
    saved = bitcoin.params.NAME
    rows = []
    try:
        for name in ('mainnet', 'testnet', 'signet', 'regtest'):
            bitcoin.SelectParams(name)
            p = bitcoin.params
            cp = bitcoin.core.coreparams
            # consensus fields are read where the consensus code reads them (bitcoin.core.coreparams), network and
            # address fields where the network / wallet code reads them (bitcoin.params); whether the two are one
            # object is not a property of the library
            rows.append('''  { name := %s, messageStart := %s,
    pubkeyAddr := %d, scriptAddr := %d, secretKey := %d, bech32Hrp := %s,
    maxMoney := %d, powLimit := %d }''' % (
                _s(p.NAME), list(p.MESSAGE_START),
                p.BASE58_PREFIXES['PUBKEY_ADDR'], p.BASE58_PREFIXES['SCRIPT_ADDR'], p.BASE58_PREFIXES['SECRET_KEY'],
                _s(p.BECH32_HRP), cp.MAX_MONEY, cp.PROOF_OF_WORK_LIMIT))
    finally:
        bitcoin.SelectParams(saved)
    return ('-- GENERATED from the working tree by harness/tables/chain.py on every run; do not edit.\n'
            'import BtcVerif.Spec.Chain\n\nnamespace BtcVerif.Generated\nopen BtcVerif.Spec\n\n'
            'def chainTable : List ChainParams := [\n' + ',\n'.join(rows) + ' ]\n\nend BtcVerif.Generated\n')


def _s(x):
    return '"' + str(x).replace('\\', '\\\\').replace('"', '\\"') + '"'
