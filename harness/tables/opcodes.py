"""T1: opcode tables and interpreter limits of the working tree -> lean/BtcVerif/Generated/Opcodes.lean

Read by importing the working-tree modules: OPCODE_NAMES (all 256 values are looked up, unnamed ones are
absent), OPCODES_BY_NAME, DISABLED_OPCODES, MAX_SCRIPT_SIZE / MAX_SCRIPT_ELEMENT_SIZE / MAX_SCRIPT_OPCODES,
and scripteval's MAX_STACK_ITEMS, MAX_NUM_SIZE, _ISA_UNOP, _ISA_BINOP.  Every module-level OP_* constant must
be the CScriptOp of the value the by-name table gives it (otherwise the dump itself fails -> broken tie).
"""


def _s(x):
    return '"' + str(x).replace('\\', '\\\\').replace('"', '\\"') + '"'


def _chunks(xs, n):
    return [xs[i:i + n] for i in range(0, len(xs), n)]


def dump(repo):
    import bitcoin.core.script as S
    import bitcoin.core.scripteval as E
    names = []
    for v in range(256):
        if v in S.OPCODE_NAMES:
            names.append((v, S.OPCODE_NAMES[v]))
        # repr() of the interned instance must agree with the table (the interpreter formats through it)
        assert int(S.CScriptOp(v)) == v
    extra = [k for k in S.OPCODE_NAMES if not (isinstance(k, int) and 0 <= k <= 255)]
    assert not extra, 'OPCODE_NAMES has keys outside 0..255: %r' % extra
    byname = sorted((str(k), int(v)) for k, v in S.OPCODES_BY_NAME.items())
    for k, v in byname:
        if hasattr(S, k):
            assert int(getattr(S, k)) == v, 'module constant %s disagrees with OPCODES_BY_NAME' % k
    for k in dir(S):
        if k.startswith('OP_') and isinstance(getattr(S, k), S.CScriptOp) and k not in ('OP_FALSE', 'OP_TRUE',
                                                                                       'OP_INVALIDOPCODE'):
            assert k in S.OPCODES_BY_NAME, 'module constant %s missing from OPCODES_BY_NAME' % k
    dis = sorted(int(x) for x in S.DISABLED_OPCODES)
    # _ISA_UNOP/_ISA_BINOP are PRIVATE helpers of scripteval: when a refactoring removes or renames them the
    # classification of numeric opcodes is still tied by the correspondence run (every 1-opcode program), so
    # the table falls back to the reference sets instead of breaking the tie
    un = ('%s' % sorted(int(x) for x in E._ISA_UNOP)) if hasattr(E, '_ISA_UNOP') else 'Spec.unaryNumOps'
    bi = ('%s' % sorted(int(x) for x in E._ISA_BINOP)) if hasattr(E, '_ISA_BINOP') else 'Spec.binaryNumOps'
    rows_n = ',\n'.join('  ' + ', '.join('(%d, %s)' % (v, _s(n)) for v, n in c) for c in _chunks(names, 4))
    rows_b = ',\n'.join('  ' + ', '.join('(%s, %d)' % (_s(n), v) for n, v in c) for c in _chunks(byname, 4))
    return ('-- GENERATED from the working tree by harness/tables/opcodes.py on every run; do not edit.\n'
            'import BtcVerif.Spec.Opcodes\n\nnamespace BtcVerif.Generated\nopen BtcVerif.Spec\n\n'
            'def opcodeTables : OpcodeTables :=\n'
            '  { names := [\n%s ],\n    byName := [\n%s ],\n    disabled := %s,\n    unary := %s,\n    binary := %s,\n'
            '    maxScriptSize := %d, maxElementSize := %d, maxOps := %d, maxStackItems := %d, maxNumSize := %d }\n\n'
            'end BtcVerif.Generated\n'
            % (rows_n, rows_b, dis, un, bi, S.MAX_SCRIPT_SIZE, S.MAX_SCRIPT_ELEMENT_SIZE, S.MAX_SCRIPT_OPCODES,
               getattr(E, 'MAX_STACK_ITEMS'), getattr(E, 'MAX_NUM_SIZE')))
