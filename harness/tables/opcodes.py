"""T1: opcode VALUES and interpreter limits of the working tree -> lean/BtcVerif/Generated/Opcodes.lean

What the properties name and the obligations of Tables/Opcodes.lean therefore pin (blocking):
  * the VALUE of every opcode constant the reference knows (`OP_DUP` is 0x76, ...): read from the public module
    constants `bitcoin.core.script.OP_*` and from OPCODES_BY_NAME — the table may contain MORE (aliases, new names);
  * DISABLED_OPCODES; the five limits (MAX_SCRIPT_SIZE, MAX_SCRIPT_ELEMENT_SIZE, MAX_SCRIPT_OPCODES and scripteval's
    MAX_STACK_ITEMS, MAX_NUM_SIZE);
  * the unary / binary numeric opcode sets when scripteval exposes them (private helpers: fall back to the reference
    sets when a refactoring removes or renames them — the classification is tied by the correspondence run anyway).
NOT pinned (evidence only, audit 3 / A9): display NAMES (OPCODE_NAMES: repr and message texts).  The dump still lists
them (`names`) so that a reader sees them, no obligation mentions that field.  Nothing here asserts: a table that cannot
be read shows up as a missing entry in the generated file, i.e. as a failed obligation, not as a crash of the dumper.
"""


def _s(x):
    return '"' + str(x).replace('\\', '\\\\').replace('"', '\\"') + '"'


def _chunks(xs, n):
    return [xs[i:i + n] for i in range(0, len(xs), n)]


def dump(repo):
    import bitcoin.core.script as S
    import bitcoin.core.scripteval as E
    names = []
    table = getattr(S, 'OPCODE_NAMES', {})
    for v in range(256):
        if v in table:
            names.append((v, table[v]))
    byname = {}
    for k, v in getattr(S, 'OPCODES_BY_NAME', {}).items():
        try:
            byname[str(k)] = int(v)
        except (TypeError, ValueError):
            pass
    # the public module constants win: they are what scripteval and every caller use
    for k in dir(S):
        if k.startswith('OP_'):
            v = getattr(S, k)
            if isinstance(v, int) and not isinstance(v, bool):
                byname[k] = int(v)
    byname = sorted(byname.items())
    dis = sorted(int(x) for x in S.DISABLED_OPCODES)
    # _ISA_UNOP/_ISA_BINOP are PRIVATE helpers of scripteval: when a refactoring removes or renames them the
    # classification of numeric opcodes is still tied by the correspondence run (every 1-opcode program), so
    # the table falls back to the reference sets instead of breaking the tie
    un = ('%s' % sorted(int(x) for x in E._ISA_UNOP)) if hasattr(E, '_ISA_UNOP') else 'Spec.unaryNumOps'
    bi = ('%s' % sorted(int(x) for x in E._ISA_BINOP)) if hasattr(E, '_ISA_BINOP') else 'Spec.binaryNumOps'
    rows_n = ',\n'.join('  ' + ', '.join('(%d, %s)' % (v, _s(n)) for v, n in c) for c in _chunks(names, 4))
    rows_b = ',\n'.join('  ' + ', '.join('(%s, %d)' % (_s(n), v) for n, v in c) for c in _chunks(byname, 4))
    return ('-- GENERATED from the working tree by harness/tables/opcodes.py on every run; do not edit.\n'
            'import BtcVerif.Spec.Opcodes\n\nnamespace BtcVerif.Generated\nopen BtcVerif.Spec\n\n'
            'def opcodeTables : OpcodeTables :=\n'
            '  { names := [\n%s ],\n    byName := [\n%s ],\n    disabled := %s,\n    unary := %s,\n    binary := %s,\n'
            '    maxScriptSize := %d, maxElementSize := %d, maxOps := %d, maxStackItems := %d, maxNumSize := %d }\n\n'
            'end BtcVerif.Generated\n'
            % (rows_n, rows_b, dis, un, bi, S.MAX_SCRIPT_SIZE, S.MAX_SCRIPT_ELEMENT_SIZE, S.MAX_SCRIPT_OPCODES,
               getattr(E, 'MAX_STACK_ITEMS'), getattr(E, 'MAX_NUM_SIZE')))
