"""T1: consensus limits of the working tree -> lean/BtcVerif/Generated/Limits.lean"""


def dump(repo):
    import bitcoin.core as C
    import bitcoin.core.serialize as S
    sig = C.MAX_BLOCK_SIGOPS
    # MAX_BLOCK_SIGOPS is written MAX_BLOCK_SIZE/50 (a float); only an integral value has a Nat image
    if sig != int(sig):
        raise ValueError('MAX_BLOCK_SIGOPS is not integral: %r' % (sig,))
    magic = bytes(C.WITNESS_COINBASE_SCRIPTPUBKEY_MAGIC)
    for name in ('COIN', 'MAX_BLOCK_SIZE', 'MAX_BLOCK_WEIGHT'):
        v = getattr(C, name)
        if not isinstance(v, int) or isinstance(v, bool) or v < 0:
            raise ValueError('%s is not a non-negative int: %r' % (name, v))
    return ('-- GENERATED from the working tree by harness/tables/limits.py on every run; do not edit.\n'
            'import BtcVerif.Spec.Limits\n\nnamespace BtcVerif.Generated\nopen BtcVerif.Spec\n\n'
            'def limits : Limits :=\n'
            '  { coin := %d, maxBlockSize := %d, maxBlockWeight := %d, maxBlockSigops := %d,\n'
            '    witnessCommitMagic := %s, maxSize := %d }\n\nend BtcVerif.Generated\n'
            % (C.COIN, C.MAX_BLOCK_SIZE, C.MAX_BLOCK_WEIGHT, int(sig), list(magic), S.MAX_SIZE))
