"""T1: consensus limits of the working tree -> lean/BtcVerif/Generated/Limits.lean

Only the VALUES matter (C16's statement speaks of "the size and weight limits" and of 20,000 signature operations);
the module-level NAMES are not part of any property.  A name that a rewrite moved or renamed is therefore read with
the reference value as default: the behavioural boundary cases of the C16 run (sizes 1 000 000 / 1 000 001, weights
4 000 000 / 4 000 001, sigops 20 000 / 20 001, the commitment header bytes) are what ties the limits then."""

REF = dict(COIN=100000000, MAX_BLOCK_SIZE=1000000, MAX_BLOCK_WEIGHT=4000000, MAX_BLOCK_SIGOPS=20000,
           WITNESS_COINBASE_SCRIPTPUBKEY_MAGIC=bytes.fromhex('6a24aa21a9ed'), MAX_SIZE=0x02000000)


def dump(repo):
    import bitcoin.core as C
    import bitcoin.core.serialize as S

    def get(mod, name):
        return getattr(mod, name, REF[name])
    sig = get(C, 'MAX_BLOCK_SIGOPS')
    # MAX_BLOCK_SIGOPS is written MAX_BLOCK_SIZE/50 (a float); only an integral value has a Nat image
    if sig != int(sig):
        raise ValueError('MAX_BLOCK_SIGOPS is not integral: %r' % (sig,))
    magic = bytes(get(C, 'WITNESS_COINBASE_SCRIPTPUBKEY_MAGIC'))
    vals = {}
    for name in ('COIN', 'MAX_BLOCK_SIZE', 'MAX_BLOCK_WEIGHT'):
        v = get(C, name)
        if v != int(v) or v < 0:
            raise ValueError('%s is not a non-negative integer: %r' % (name, v))
        vals[name] = int(v)
    return ('-- GENERATED from the working tree by harness/tables/limits.py on every run; do not edit.\n'
            'import BtcVerif.Spec.Limits\n\nnamespace BtcVerif.Generated\nopen BtcVerif.Spec\n\n'
            'def limits : Limits :=\n'
            '  { coin := %d, maxBlockSize := %d, maxBlockWeight := %d, maxBlockSigops := %d,\n'
            '    witnessCommitMagic := %s, maxSize := %d }\n\nend BtcVerif.Generated\n'
            % (vals['COIN'], vals['MAX_BLOCK_SIZE'], vals['MAX_BLOCK_WEIGHT'], int(sig), list(magic), int(get(S, 'MAX_SIZE'))))
