"""T1: wire-format constants of the working tree -> lean/BtcVerif/Generated/Wire.lean"""


def dump(repo):
    import bitcoin.core.serialize as S
    v = S.MAX_SIZE
    assert isinstance(v, int) and not isinstance(v, bool), 'MAX_SIZE must be an int'
    return ('-- GENERATED from the working tree by harness/tables/wire.py on every run; do not edit.\n'
            'namespace BtcVerif.Generated.Wire\n\n'
            'def maxSize : Int := %d\n\nend BtcVerif.Generated.Wire\n' % v)
