"""T1: JSON-RPC error code -> exception class table and COIN of the working tree
   -> lean/BtcVerif/Generated/Rpc.lean"""


def dump(repo):
    import bitcoin.core
    import bitcoin.rpc as R
    tbl = R.JSONRPCError.SUBCLS_BY_CODE
    rows = []
    for code in sorted(tbl, reverse=True):
        cls = tbl[code]
        assert isinstance(code, int) and not isinstance(code, bool), code
        assert issubclass(cls, R.JSONRPCError) and cls.RPC_ERROR_CODE == code, (code, cls)
        rows.append('(%d, "%s")' % (code, cls.__name__))
    coin = bitcoin.core.COIN
    assert isinstance(coin, int) and coin > 0
    return ('-- GENERATED from the working tree by harness/tables/rpc.py on every run; do not edit.\n'
            'namespace BtcVerif.Generated\n\n'
            'def rpcBaseClass : String := "%s"\n\n'
            'def rpcErrorClasses : List (Int × String) :=\n  [ %s ]\n\n'
            'def rpcCoin : Nat := %d\n\n'
            'end BtcVerif.Generated\n' % (R.JSONRPCError.__name__, ',\n    '.join(rows), coin))
