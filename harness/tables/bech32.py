"""T1: bech32 data tables of the working tree -> lean/BtcVerif/Generated/Bech32.lean

CHARSET is module-level data (read by import).  The generator constants are a function-local literal
inside `bech32_polymod`: they are read from the AST (assignment to the name `generator` inside that
function).  If the literal cannot be located this raises and the framework reports a broken tie.
"""
import ast
import os


def _generator(repo):
    path = os.path.join(repo, 'bitcoin', 'segwit_addr.py')
    tree = ast.parse(open(path).read())
    fn = None
    for n in ast.walk(tree):
        if isinstance(n, ast.FunctionDef) and n.name == 'bech32_polymod':
            fn = n
            break
    if fn is None:
        raise LookupError('function bech32_polymod not found in bitcoin/segwit_addr.py')
    found = []
    for n in ast.walk(fn):
        if isinstance(n, ast.Assign) and any(isinstance(t, ast.Name) and t.id == 'generator' for t in n.targets):
            found.append(n.value)
        if isinstance(n, ast.AnnAssign) and isinstance(n.target, ast.Name) and n.target.id == 'generator' \
                and n.value is not None:
            found.append(n.value)
    if len(found) != 1:
        raise LookupError('expected exactly one assignment to `generator` inside bech32_polymod, found %d' % len(found))
    try:
        val = ast.literal_eval(found[0])
    except ValueError as e:
        raise LookupError('`generator` in bech32_polymod is not a literal: %s' % e)
    if not isinstance(val, (list, tuple)) or not all(isinstance(x, int) and not isinstance(x, bool) and x >= 0
                                                     for x in val):
        raise LookupError('`generator` in bech32_polymod is not a list of non-negative integers')
    return list(val)


def dump(repo):
    import bitcoin.segwit_addr as SA
    cs = SA.CHARSET
    if not isinstance(cs, str):
        raise LookupError('bitcoin.segwit_addr.CHARSET is not a str')
    gen = _generator(repo)
    return ('-- GENERATED from the working tree by harness/tables/bech32.py on every run; do not edit.\n'
            'namespace BtcVerif.Generated.Bech32\n\n'
            '/-- bitcoin.segwit_addr.CHARSET (code points) -/\n'
            'def charset : List Char := [' + ', '.join('Char.ofNat %d' % ord(c) for c in cs) + ']\n\n'
            '/-- the literal assigned to `generator` inside bech32_polymod (from the AST) -/\n'
            'def generator : List Nat := [' + ', '.join(str(g) for g in gen) + ']\n\n'
            'end BtcVerif.Generated.Bech32\n')
