"""T1: bech32 data tables of the working tree -> lean/BtcVerif/Generated/Bech32.lean

Both tables are read BEHAVIOURALLY and only through `bitcoin.segwit_addr.encode` — the property's own observation
point — so that a refactoring that moves, renames or inlines the literals or the internal BIP173 helper functions
(`bech32_polymod`, `bech32_create_checksum`, `bech32_encode`, CHARSET, the `generator` list) does not break the
tie, while any change of a table VALUE does:

* charset: the 20-byte program whose 5-bit groups are 0,1,…,31 is encoded under the prefix "a" with version 0;
  data character number 1+v of the result is the character of the value v.
* generator: the checksum is an affine function of the data values; changing the LAST 5-bit group of the program
  (the one followed by exactly the six checksum positions) by e changes the 30-bit checksum by
  T⁶(e) = xor of generator[i] over the bits i of e  (T = one polymod step; T⁵(e) = e·2²⁵ has top = e, rest 0).
  Hence generator[i] = checksum(last group = 2^i) xor checksum(last group = 0).

If `encode` is missing or does not answer strings of the BIP173 shape this raises and the framework reports a
broken tie (then searches for a failing input).
"""


def _addr(SA, last):
    prog = int(''.join('{:05b}'.format(v) for v in range(31)) + '{:05b}'.format(last), 2).to_bytes(20, 'big')
    s = SA.encode('a', 0, prog)
    if not isinstance(s, str) or len(s) != 2 + 1 + 32 + 6 or s[:2] != 'a1':
        raise LookupError('encode("a", 0, <20 bytes>) does not have the BIP173 shape: %r' % (s,))
    return s


def dump(repo):
    import bitcoin.segwit_addr as SA
    pang = _addr(SA, 31)                       # groups 0..31
    cs = pang[3:3 + 32]
    if len(set(cs)) != 32:
        raise LookupError('the 32 data values do not map to 32 distinct characters: %r' % cs)
    val = {c: i for i, c in enumerate(cs)}

    def cks(s):
        n = 0
        for c in s[-6:]:
            if c not in val:
                raise LookupError('checksum character %r is not a data character' % c)
            n = n * 32 + val[c]
        return n
    base = cks(_addr(SA, 0))
    gen = [cks(_addr(SA, 1 << i)) ^ base for i in range(5)]
    return ('-- GENERATED from the working tree by harness/tables/bech32.py on every run; do not edit.\n'
            'namespace BtcVerif.Generated.Bech32\n\n'
            '/-- the character `encode` writes for each data value 0..31 (code points) -/\n'
            'def charset : List Char := [' + ', '.join('Char.ofNat %d' % ord(c) for c in cs) + ']\n\n'
            '/-- the generator constants, read off the checksums `encode` appends (see harness/tables/bech32.py) -/\n'
            'def generator : List Nat := [' + ', '.join(str(g) for g in gen) + ']\n\n'
            'end BtcVerif.Generated.Bech32\n')
