"""T1: bech32 data tables of the working tree -> lean/BtcVerif/Generated/Bech32.lean

Both tables are read BEHAVIOURALLY from the public functions, so that a refactoring that moves or renames the
literals (hoisting the generator out of `bech32_polymod`, renaming CHARSET) does not break the tie, while any
change of a value does:

* generator: `bech32_polymod` is the affine map  s ↦ T(s) xor v  iterated from s = 1, with T linear over GF(2)
  and T(2^(25+i)) = generator[i].  Feeding [2^i, 0, 0, 0, 0, 0, 0] reaches the state T(GEN[0]) xor GEN[i] and
  feeding seven zeros reaches T(GEN[0])  (for i = 0: [1,0,…] gives T(GEN[0]) xor GEN[0], and six zeros give GEN[0]
  directly), hence  GEN[i] = polymod([2^i]+[0]*6) xor polymod([0]*7).
* charset: character number v is what `bech32_encode` writes for the data value v (first data character).

If a function is missing or does not answer integers/strings of the expected shape this raises and the
framework reports a broken tie (then searches for a failing input).
"""


def _generator(SA):
    P = SA.bech32_polymod
    base = P([0] * 7)
    gen = [P([1 << i] + [0] * 6) ^ base for i in range(5)]
    if P([0] * 6) != gen[0]:
        raise LookupError('bech32_polymod is not of the BIP173 shape (six zeros must reach generator[0])')
    if not all(isinstance(g, int) and not isinstance(g, bool) and 0 <= g < (1 << 30) for g in gen):
        raise LookupError('bech32_polymod does not produce 30-bit integers')
    return gen


def _charset(SA):
    out = []
    for v in range(32):
        s = SA.bech32_encode('a', [v])
        if not isinstance(s, str) or len(s) != 2 + 1 + 6 or s[:2] != 'a1':
            raise LookupError('bech32_encode("a", [%d]) does not have the BIP173 shape: %r' % (v, s))
        out.append(s[2])
    return ''.join(out)


def dump(repo):
    import bitcoin.segwit_addr as SA
    cs = _charset(SA)
    gen = _generator(SA)
    return ('-- GENERATED from the working tree by harness/tables/bech32.py on every run; do not edit.\n'
            'namespace BtcVerif.Generated.Bech32\n\n'
            '/-- the character `bech32_encode` writes for each data value 0..31 (code points) -/\n'
            'def charset : List Char := [' + ', '.join('Char.ofNat %d' % ord(c) for c in cs) + ']\n\n'
            '/-- the generator constants, read off `bech32_polymod` by linear algebra (see harness/tables/bech32.py) -/\n'
            'def generator : List Nat := [' + ', '.join(str(g) for g in gen) + ']\n\n'
            'end BtcVerif.Generated.Bech32\n')
