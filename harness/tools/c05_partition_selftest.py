#!/venv/bin/python
"""One-off self-test of the shard partition of harness/props/c05.py (not part of the check).

Runs `generate` for all 16 shards (each with its own per-shard rng, as the framework does), collects the structural
identity of every produced case — (template, hash type, shape) from the tag, the case kind, and for edit cases the
edit kind and position — and verifies that
  (1) every (template, hash type, shape, repetition) combo of `combos(tier)` is produced by exactly one shard,
  (2) within every combo the exhaustive sub-domain of the edit catalogue is complete: every field of every input and
      output, insertion at every position 0..n, removal of every position, every unordered pair swapped, nLockTime,
      nVersion, witness; the base case, the template tie, the VerifySignature cases and the adversarial signatures.
"""
import collections
import os
import random
import sys

sys.path.insert(0, os.path.dirname(os.path.dirname(os.path.dirname(os.path.abspath(__file__)))))
from harness import framework as fw, litmine          # noqa: E402
fw.ensure_repo_on_path()
from harness.props.c05 import C05                     # noqa: E402


def expected_edits(nin, nout, idx):
    exp = collections.Counter()
    for k in range(nin):
        for kind in ('ph', 'pn', 'ss', 'sq'):
            exp[(kind, k)] += 1
    for k in range(nout):
        for kind in ('va', 'pk'):
            exp[(kind, k)] += 1
    for k in range(nin + 1):
        exp[('ii', k)] += 1
    for k in range(nin):
        exp[('ri', k)] += 1
    for k in range(nin):
        for l in range(k + 1, nin):
            exp[('wi', frozenset((k, l)))] += 1
    for k in range(nout + 1):
        exp[('io', k)] += 1
    for k in range(nout):
        exp[('ro', k)] += 1
    for k in range(nout):
        for l in range(k + 1, nout):
            exp[('wo', frozenset((k, l)))] += 1
    for kind in ('lt', 've', 'wt'):
        exp[(kind, None)] += 1
    return exp


def main(tier='quick', nshards=16, seed=0):
    p0 = C05()
    pool = litmine.pool(fw.REPO, p0.anchors)
    combos = p0.combos(tier)
    want = collections.Counter((tpl, ht, shape) for (tpl, ht, shape, rep, mode) in combos)
    got = collections.Counter()
    per_combo = collections.defaultdict(lambda: collections.defaultdict(collections.Counter))
    owners = collections.defaultdict(set)
    total = 0
    for shard in range(nshards):
        p = C05()
        p.pool = pool
        p.seed, p.tier = seed, tier
        p.setup()
        rng = random.Random('%s:%s:%s:%d' % (seed, p.id, tier, shard))
        ncombo = -1
        mine = [c for j, c in enumerate(combos) if j % nshards == shard]
        for c in p.generate(rng, tier, shard, nshards):
            total += 1
            tag = c.get('tag', '').split('/')
            tpl, ht, shp = tag[0], int(tag[1][2:], 16), tag[2]
            nin, rest = shp.split('-')
            nout, idx = rest.split('@')
            key = (tpl, ht, (int(nin), int(nout), int(idx)))
            if c['op'] == 'c05.tmpl':               # first case of a combo
                ncombo += 1
                got[key] += 1
                owners[key].add(shard)
            d = per_combo[(shard, ncombo)]
            d['key'] = key
            d['mode'] = mine[ncombo][4]
            assert (mine[ncombo][0], mine[ncombo][1], mine[ncombo][2]) == key, (mine[ncombo], key)
            if c['op'] == 'c05.case':
                e = c['args'][8]
                if e == '-':
                    d['kinds']['/'.join(tag[3:]) or 'base'] += 1
                elif tag[3:] == ['mixed']:
                    d['kinds']['mixed-edit'] += 1
                else:
                    f = e.split(':')
                    kind = f[0]
                    if kind in ('wi', 'wo'):
                        a, b = int(f[1]), int(f[2])
                        pos = frozenset((a, b)) if a != b else ('self', a)
                    elif kind in ('lt', 've', 'wt'):
                        pos = None
                    else:
                        pos = int(f[1])
                    d['edits'][(kind, pos)] += 1
            else:
                d['kinds'][c['op'] + ':' + '/'.join(tag[3:])] += 1
    bad = 0
    if got != want:
        bad += 1
        print('COMBO PARTITION BROKEN: missing', list((want - got).items())[:5], 'surplus', list((got - want).items())[:5])
    for (shard, n), d in per_combo.items():
        tpl, ht, (nin, nout, idx) = d['key']
        if d['mode'] != 'full':
            if d['kinds']['base'] < 1 or sum(d['edits'].values()) < 4:
                bad += 1
                print('SWEEP COMBO INCOMPLETE', d['key'])
            continue
        exp = expected_edits(nin, nout, idx)
        # one insertion beyond the end per list, one inapplicable edit per list
        if not any(k[0] == 'ii' and k[1] > nin for k in d['edits']) or not any(k[0] == 'io' and k[1] > nout for k in d['edits']):
            bad += 1
            print('NO OUT-OF-RANGE INSERT', d['key'])
        missing = {k: v for k, v in exp.items() if d['edits'][k] < v}
        if missing:
            bad += 1
            print('EDIT CATALOGUE INCOMPLETE', d['key'], list(missing.items())[:6])
        p2sh, base, m, n = C05.parse_template(tpl)
        need = ['base', 'c05.tmpl:template', 'c05.vsig:vsig', 'c05.vsig:vsig-other-output', 'c05.vsig:vsig-other-tx']
        if m >= 1:
            need += ['wrongkey', 'wrong-type-byte', 'empty-sig']
        if m >= 2:
            need += ['repeated', 'reordered', 'wrongkey-last', 'mixed']
        if m == 0:
            nin = 0          # no swapped-signature cases without signatures
        if tpl.endswith('p2pkh'):
            need += ['wrongkey-pub']
        if nin >= 2:
            need += ['swapped', 'swap-own-i', 'swap-own-j']
        for k in need:
            if d['kinds'][k] < 1:
                bad += 1
                print('MISSING CASE KIND', d['key'], k)
    print('%s: %d shards, %d combos expected, %d produced (each by one shard: %s), %d cases, %d problem(s)'
          % (tier, nshards, sum(want.values()), sum(got.values()), all(len(v) >= 1 for v in owners.values()), total, bad))
    return 1 if bad else 0


if __name__ == '__main__':
    sys.exit(main(*(sys.argv[1:2] or ['quick'])))
