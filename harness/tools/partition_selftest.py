#!/venv/bin/python
"""One-off self-test of the shard partition of harness/props/c10.py and c12.py (not part of any check).

For each property and tier: run generate() once with nshards=1 (the full enumeration) and once per shard with
nshards=16 and the per-shard rng the framework would hand out.  Cases tagged `bulk-*` are generated independently
per shard (no index partition) and are left out.  Required:
  (a) the multiset of structured cases produced by the 16 shards equals the full enumeration (nothing lost, nothing twice);
  (b) sub-domains computed here directly are contained in the union (all byte strings <= 2, all alphabet strings <= 3,
      all 256 version bytes, 4 chains x 4 templates, 256 base58 versions x 4 chains, witness versions 0..17 ...).
usage: harness/tools/partition_selftest.py [quick|thorough] [C10 C12]
"""
import collections
import itertools
import os
import random
import sys

sys.path.insert(0, os.path.dirname(os.path.dirname(os.path.dirname(os.path.abspath(__file__)))))
from harness import framework as fw, litmine  # noqa: E402

NSH = 16


def run(pid, tier, seed=0):
    mod = __import__('harness.props.' + pid.lower(), fromlist=['x'])
    prop = getattr(mod, pid)()
    prop.pool = litmine.pool(fw.REPO, prop.anchors)
    prop.seed, prop.tier = seed, tier
    prop.setup()

    def gen(shard, nsh):
        rng = random.Random('%s:%s:%s:%d' % (seed, prop.id, tier, shard))
        return [c for c in prop.generate(rng, tier, shard, nsh) if not c.get('tag', '').startswith('bulk-')]

    full = gen(0, 1)
    shards = [gen(s, NSH) for s in range(NSH)]
    cf = collections.Counter(c.line for c in full)
    cu = collections.Counter(c.line for sh in shards for c in sh)
    lost = cf - cu
    extra = cu - cf
    tags_f = collections.Counter(c.get('tag', '') for c in full)
    tags_u = collections.Counter(c.get('tag', '') for sh in shards for c in sh)
    print('%s %s: full enumeration %d cases; union of %d shards %d cases; lost %d, extra/duplicated %d'
          % (pid, tier, len(full), NSH, sum(len(s) for s in shards), sum(lost.values()), sum(extra.values())))
    for t in sorted(set(tags_f) | set(tags_u)):
        if tags_f[t] != tags_u[t]:
            print('   tag %-16s full %7d  shards %7d' % (t, tags_f[t], tags_u[t]))
    ok = not lost and not extra
    union = set(cu)
    ucases = [c for sh in shards for c in sh]
    for item in expected(pid, tier):
        name, exp = item[0], item[1]
        if len(item) == 3:          # a projection of the cases instead of the full request line
            have = {item[2](c) for c in ucases}
            miss = [repr(e) for e in exp if e not in have]
        else:
            miss = [e for e in exp if e not in union]
        print('   sub-domain %-44s %7d expected, %d missing%s' % (name, len(exp), len(miss), (' e.g. ' + miss[0][:80]) if miss else ''))
        ok = ok and not miss
    return ok


def expected(pid, tier):
    if pid == 'C10':
        A = '123456789ABCDEFGHJKLMNPQRSTUVWXYZabcdefghijkmnopqrstuvwxyz'
        yield 'all byte strings <= 2 (encode)', (['c10.encode\t'] + ['c10.encode\t%02x' % a for a in range(256)]
                                                  + ['c10.encode\t%04x' % a for a in range(65536)])
        yield 'all alphabet strings <= 3 (decode)', ['c10.decode\t' + ''.join(t).encode().hex()
                                                     for n in range(4) for t in itertools.product(A, repeat=n)]
        yield 'from_bytes of all 256 versions', ['c10.frombytes\t%d\t%s' % (v, ('%02x' % v) * 3) for v in range(256)]
        yield 'str of all 256 versions, empty payload', ['c10.str\t%d\t' % v for v in range(256)]
        yield 'all-1 strings of length 0..40', ['c10.decode\t' + ('1' * n).encode().hex() for n in range(41)]
    if pid == 'C12':
        import re
        yield 'select: every single name', ['c12.select\t' + n for n in
                                            ('mainnet', 'testnet', 'signet', 'regtest', 'main', 'MAINNET', 'testnet3')]
        CH = ('mainnet', 'testnet', 'signet', 'regtest')
        T = ('P2PKH', 'P2SH', 'P2WPKH', 'P2WSH')

        def last_chain(h):
            v = [n for n in h.split(',') if n in CH]
            return v[-1] if v else 'mainnet'

        def b58ver(c):
            if c.get('tag') != 'b58-version':
                return None
            import bitcoin.base58 as B
            return (c['args'][0], B.decode(bytes.fromhex(c['args'][1]).decode())[0])
        yield ('base58check texts: 4 chains x 256 version bytes', [(ch, v) for ch in CH for v in range(256)], b58ver)
        yield ('conversions: 4 chains x 4 templates x all-zero/all-ff payload',
               [(ch, t, x) for ch in CH for t in T for x in ('00', 'ff')],
               lambda c: (last_chain(c['args'][0]), c['args'][1], c['args'][2][:2])
               if c['op'] == 'c12.conv' and len(set(c['args'][2][i:i + 2] for i in range(0, len(c['args'][2]), 2))) == 1 else None)
        yield ('segwit texts: witness versions 0..17 under every chain (programs of 20 bytes)',
               [(ch, 'segwit-v%d' % v) for ch in CH for v in range(18)],
               lambda c: (c['args'][0], c.get('tag')) if c.get('tag', '').startswith('segwit-v') else None)
        yield ('cross-chain: every (issuing chain text, parsing chain) pair',
               [(t, ch) for t in ('cross', 'own') for ch in CH],
               lambda c: (c.get('tag'), last_chain(c['args'][0])) if c.get('tag') in ('cross', 'own') else None)
        yield ('stale objects: 4 x 5 selections x 4 templates', [(a, b2) for a in CH for b2 in CH + ('main',)],
               lambda c: (c['args'][0], c['args'][2]) if c.get('tag') == 'stale' else None)
        yield ('P2PKH converter: four flag settings on the standard P2PKH script frame',
               [('1', '1'), ('1', '0'), ('0', '1'), ('0', '0')],
               lambda c: (c['args'][2], c['args'][3]) if c['op'] == 'c12.p2pkh' and c['args'][1].startswith('76a914') and len(c['args'][1]) == 50 else None)


if __name__ == '__main__':
    tier = sys.argv[1] if len(sys.argv) > 1 else 'quick'
    pids = sys.argv[2:] or ['C10', 'C12']
    allok = True
    for pid in pids:
        allok = run(pid, tier) and allok
    print('PARTITION SELFTEST', 'OK' if allok else 'FAILED')
    sys.exit(0 if allok else 1)
