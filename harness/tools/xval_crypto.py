"""Cross-validation of the Lean reference primitives (lean/BtcVerif/Crypto/*) against Python:
hashlib (sha1, sha256, ripemd160), bitcoin.core.contrib.ripemd160, bitcoin.bloom.MurmurHash3 and
OpenSSL through bitcoin.core.key.  Usage (after `lake build btcmodel`):

    /venv/bin/python harness/tools/xval_crypto.py [seed]
"""
import sys, os, random, hashlib, subprocess, time
HERE = os.path.dirname(os.path.abspath(__file__))
sys.path.insert(0, os.environ.get('REPO_ROOT', '/repo'))
from bitcoin.core.contrib.ripemd160 import ripemd160
from bitcoin.bloom import MurmurHash3
from bitcoin.core.key import CECKey, CPubKey
import bitcoin.core.key as K
from bitcoin.signature import DERSignature

DRV = os.path.join(HERE, '..', '..', 'lean', '.lake', 'build', 'bin', 'btcmodel')
def ask(lines):
    p = subprocess.run([DRV], input=('\n'.join(lines) + '\n').encode(), stdout=subprocess.PIPE)
    out = p.stdout.decode().split('\n')[:-1]
    assert len(out) == len(lines), (len(out), len(lines))
    return out

rng = random.Random(int(sys.argv[1]) if len(sys.argv) > 1 else 1)
N = 0xFFFFFFFFFFFFFFFFFFFFFFFFFFFFFFFEBAAEDCE6AF48A03BBFD25E8CD0364141
P = 2**256 - 2**32 - 977
stats = {}
def check(name, reqs, exps):
    t = time.time()
    got = ask(reqs)
    dt = time.time() - t
    bad = [(r, g, e) for r, g, e in zip(reqs, got, exps) if g != e]
    stats[name] = (len(reqs), len(bad), dt)
    print('%-12s %6d cases  %d mismatches  %.2fs (%.3f ms/case)' % (name, len(reqs), len(bad), dt, 1000*dt/max(1,len(reqs))))
    for b in bad[:3]:
        print('   MISMATCH', b)

# ---- hashes
msgs = []
for L in range(0, 201):
    for _ in range(6):
        msgs.append(bytes(rng.randrange(256) for _ in range(L)))
    msgs.append(b'\x00' * L); msgs.append(b'\xff' * L)
for L in (247, 248, 255, 256, 257, 1000, 4096, 65536+3):
    msgs.append(bytes(rng.randrange(256) for _ in range(L)))
check('sha1', ['c13.sha1\t' + m.hex() for m in msgs], [hashlib.sha1(m).hexdigest() for m in msgs])
check('sha256', ['c13.sha256\t' + m.hex() for m in msgs], [hashlib.sha256(m).hexdigest() for m in msgs])
check('ripemd160', ['c13.ripemd160\t' + m.hex() for m in msgs], [ripemd160(m).hex() for m in msgs])
try:
    hl = [hashlib.new('ripemd160', m).hexdigest() for m in msgs]
    check('rmd-hashlib', ['c13.ripemd160\t' + m.hex() for m in msgs], hl)
except Exception as e:
    print('hashlib ripemd160 unavailable:', e)
check('hash160', ['c13.hash160\t' + m.hex() for m in msgs], [ripemd160(hashlib.sha256(m).digest()).hex() for m in msgs])
seeds = [0, 1, 0xffffffff, 0xfba4c795, 0x80000000, 0x7fffffff]
mm = []
for m in msgs[:-3]:
    for s in (rng.choice(seeds), rng.randrange(2**32)):
        mm.append((s, m))
check('murmur3', ['c13.murmur3\t%d\t%s' % (s, m.hex()) for s, m in mm], [str(MurmurHash3(s, m)) for s, m in mm])

# ---- keys
def pub_of(secret, compressed):
    k = CECKey(); k.set_secretbytes(secret.to_bytes(32, 'big')); k.set_compressed(compressed)
    return k.get_pubkey(), k
secrets = [1, 2, 3, N-1, N-2, N-3, (N-1)//2, (N+1)//2, 2**255, 2**128, 2**32, 0xff, 2**248-1] + \
          [rng.randrange(1, N) for _ in range(1200)] + [rng.randrange(1, 2**(8*rng.randrange(1,32))) for _ in range(300)]
reqs, exps = [], []
for s in secrets:
    for c in (True, False):
        reqs.append('c13.pubkey\t%d\t%d' % (s, c)); exps.append(pub_of(s, c)[0].hex())
check('pubkey', reqs, exps)

# ---- decode: valid / invalid points
reqs, exps = [], []
def add_dec(pk):
    reqs.append('c13.decode\t%s\t0' % pk.hex())
    v = CPubKey(pk)
    if v.is_fullyvalid:
        k = CECKey(); k.set_pubkey(pk); k.set_compressed(False)
        exps.append(k.get_pubkey().hex())
    else:
        exps.append('none')
for s in secrets[:400]:
    pc, _ = pub_of(s, True); pu, _ = pub_of(s, False)
    add_dec(pc); add_dec(pu)
    x = pu[1:33]; y = pu[33:]
    yodd = y[-1] & 1
    add_dec(bytes([6 + yodd]) + x + y)           # correct hybrid
    add_dec(bytes([7 - yodd]) + x + y)           # wrong-parity hybrid
    add_dec(bytes([4]) + x + (P - int.from_bytes(y, 'big')).to_bytes(32, 'big'))  # negated: valid
    add_dec(bytes([4]) + x + ((int.from_bytes(y, 'big') + 1) % P).to_bytes(32, 'big'))  # off curve
    add_dec(bytes([5]) + x + y); add_dec(bytes([2]) + x + y); add_dec(bytes([4]) + x)
    add_dec(pc[:-1]); add_dec(pc + b'\x00'); add_dec(pu + b'\x00')
for _ in range(600):
    x = rng.randrange(P)
    add_dec(bytes([rng.choice([2, 3])]) + x.to_bytes(32, 'big'))       # ~half have no y
    add_dec(bytes([rng.choice([4, 6, 7])]) + x.to_bytes(32, 'big') + rng.randrange(P).to_bytes(32, 'big'))
for x in (0, 1, P-1, P, P+1, 2**256-1, N):
    for t in (2, 3):
        add_dec(bytes([t]) + x.to_bytes(32, 'big'))
    add_dec(bytes([4]) + x.to_bytes(32, 'big') + (7).to_bytes(32, 'big'))
add_dec(b''); add_dec(b'\x02'); add_dec(b'\x04')
check('decode', reqs, exps)

# ---- sign (python/openssl) -> lean verify ; lean sign -> openssl verify
reqs, exps = [], []
sigs = []
digs = [b'\x00'*32, b'\xff'*32, N.to_bytes(32,'big'), (N+1).to_bytes(32,'big'), (N-1).to_bytes(32,'big'), (1).to_bytes(32,'big')]
for s in secrets[:700]:
    c = rng.random() < .5
    pk, key = pub_of(s, c)
    h = rng.choice(digs) if rng.random() < .3 else bytes(rng.randrange(256) for _ in range(32))
    sig = key.sign(h)
    d = DERSignature.deserialize(sig)
    r = int.from_bytes(d.r, 'big'); sv = int.from_bytes(d.s, 'big')
    sigs.append((s, c, pk, h, r, sv, sig))
    reqs.append('c13.verify\t%s\t%s\t%d\t%d' % (pk.hex(), h.hex(), r, sv)); exps.append('1')
    reqs.append('c13.verifyDer\t%s\t%s\t%s' % (pk.hex(), h.hex(), sig.hex())); exps.append('1')
    reqs.append('c13.lowS\t%d' % sv); exps.append('1')
    reqs.append('c13.derEncode\t%d\t%d' % (r, sv)); exps.append(sig.hex())
    reqs.append('c13.derDecode\t%s' % sig.hex()); exps.append('%d,%d' % (r, sv))
check('ossl-sign', reqs, exps)

def der(r, s):
    def i(v):
        b = v.to_bytes((v.bit_length() + 7) // 8 or 1, 'big')
        if b[0] & 0x80: b = b'\x00' + b
        return b'\x02' + bytes([len(b)]) + b
    c = i(r) + i(s)
    return b'\x30' + bytes([len(c)]) + c

# verification matrix: openssl verdict vs lean verdict
reqs, exps = [], []
for (s, c, pk, h, r, sv, sig) in sigs:
    pub = CPubKey(pk)
    h2 = bytes(rng.randrange(256) for _ in range(32))
    cands = [(h, r, sv), (h2, r, sv), (h, r, N - sv), (h, 0, sv), (h, r, 0), (h, N, sv), (h, r, N), (h, r + N if r + N < 2**256 else r, sv),
             (h, sv, r), (h, rng.randrange(1, N), rng.randrange(1, N)), (h, r, sv + 1), (h, r + 1, sv), (h, N - r, sv)]
    # digest congruent mod n (only possible for small h)
    for (hh, rr, ss) in cands:
        reqs.append('c13.verify\t%s\t%s\t%d\t%d' % (pk.hex(), hh.hex(), rr, ss))
        exps.append('1' if pub.verify(hh, der(rr, ss)) else '0')
check('verify-mat', reqs, exps)

# lean sign -> openssl verify; lean recover == pub; python sign_compact recid == lean recid
reqs = []
meta = []
for (s, c, pk, h, r, sv, sig) in sigs[:500]:
    k = rng.choice([1, 2, N-1, N-2]) if rng.random() < .1 else rng.randrange(1, N)
    reqs.append('c13.signLowS\t%d\t%s\t%d' % (s, h.hex(), k)); meta.append((s, c, pk, h))
t = time.time(); got = ask(reqs); dt = time.time() - t
bad = 0
reqs2, exps2 = [], []
for g, (s, c, pk, h) in zip(got, meta):
    if g == 'none':
        print('  sign none', s); continue
    r, sv, recid = map(int, g.split(','))
    if not CPubKey(pk).verify(h, der(r, sv)) or sv > N // 2:
        bad += 1; print('  MISMATCH lean sign not verified by openssl', s, h.hex(), g)
    reqs2.append('c13.recover\t%s\t%d\t%d\t%d\t%d' % (h.hex(), r, sv, recid, c)); exps2.append(pk.hex())
    # python recover_compact on lean signature
    comp = bytes([27 + recid + (4 if c else 0)]) + r.to_bytes(32, 'big') + sv.to_bytes(32, 'big')
    rec = CPubKey.recover_compact(h, comp)
    if rec is False or bytes(rec) != pk:
        bad += 1; print('  MISMATCH python recover_compact of lean signature', s)
print('%-12s %6d cases  %d mismatches  %.2fs' % ('lean-sign', len(reqs), bad, dt)); stats['lean-sign'] = (len(reqs), bad, dt)
check('recover', reqs2, exps2)

# python sign_compact -> lean recover for all 4 recids must match python's recover
reqs, exps = [], []
for (s, c, pk, h, r, sv, sig) in sigs[:300]:
    _, key = pub_of(s, c)
    cs, recid = key.sign_compact(h)
    rr = int.from_bytes(cs[:32], 'big'); ss = int.from_bytes(cs[32:], 'big')
    reqs.append('c13.recover\t%s\t%d\t%d\t%d\t%d' % (h.hex(), rr, ss, recid, c)); exps.append(pk.hex())
    for rid in range(4):
        comp = bytes([27 + rid + (4 if c else 0)]) + cs
        rec = CPubKey.recover_compact(h, comp)
        reqs.append('c13.recover\t%s\t%d\t%d\t%d\t%d' % (h.hex(), rr, ss, rid, c))
        exps.append('none' if rec is False else bytes(rec).hex())
check('recover4', reqs, exps)

# generic mul / add vs openssl via ECDH? use k*(s*G) = (k*s mod n)*G
reqs, exps = [], []
for s in secrets[:300]:
    k = rng.choice([0, 1, 2, N-1, N, N+1]) if rng.random() < .1 else rng.randrange(N)
    pk, _ = pub_of(s, True)
    ks = k * s % N
    reqs.append('c13.mul\t%d\t%s\t1' % (k, pk.hex()))
    exps.append('00' if ks == 0 else pub_of(ks, True)[0].hex())
    t = rng.choice([s, N - s, rng.randrange(1, N)])
    pk2, _ = pub_of(t, False)
    reqs.append('c13.add\t%s\t%s\t0' % (pk.hex(), pk2.hex()))
    exps.append('00' if (s + t) % N == 0 else pub_of((s + t) % N, False)[0].hex())
check('mul/add', reqs, exps)

tot = sum(v[0] for v in stats.values()); badt = sum(v[1] for v in stats.values())
print('TOTAL %d cases, %d mismatches' % (tot, badt))
sys.exit(1 if badt else 0)
