"""one-off self-test: run generate() for all 16 shards and check that every case of the boundary / exhaustive
sub-domains (expected set computed directly) is produced by at least one shard"""
import sys, random, collections
import os; sys.path.insert(0, os.path.join(os.path.dirname(os.path.abspath(__file__)), '..', '..'))
from harness import litmine
from harness.framework import REPO
import importlib

def collect(modname, cls, tier='quick', seed=0, nsh=16):
    mod = importlib.import_module(modname)
    by_tag = collections.defaultdict(collections.Counter)
    for sh in range(nsh):
        p = getattr(mod, cls)()
        p.pool = litmine.pool(REPO, p.anchors)
        p.seed, p.tier = seed, tier
        p.setup()
        rng = random.Random('%s:%s:%s:%d' % (seed, p.id, tier, sh))
        for c in p.generate(rng, tier, sh, nsh):
            by_tag[c.get('tag', '')][c.line] += 1
    return mod, by_tag

mod, tags = collect('harness.props.c13', 'C13')
print('C13 cases per tag:', {t: (sum(v.values()), len(v)) for t, v in sorted(tags.items())})
from harness.props.c13 import der, HALF, N
# expected structural members of lowder-malformed that do not depend on a random r: they are defined relative to `base`;
# every shard must use the SAME base, and every mutation of it must be produced by some shard
mal = tags['lowder-malformed']
import random as _r

bases = set()
for line in mal:
    b = bytes.fromhex(line.split('\t')[1]) if '\t' in line and line.split('\t')[1] else b''
    if len(b) in (70, 71) and b[:1] == b'\x30' and b.endswith(HALF.to_bytes(32, 'big')) and b[1] == len(b) - 2:
        pass
# reconstruct base: the longest truncation + 1 byte
truncs = sorted((bytes.fromhex(l.split('\t')[1]) for l in mal if len(l.split('\t')) > 1 and l.split('\t')[1]), key=len)
cands = [t for t in truncs if t[:1] == b'\x30' and len(t) >= 60 and t[1] == len(t) - 1]   # base[:-1]
print('candidate bases (should be exactly 1):', len({c for c in cands}))
if cands:
    pre = cands[0]
    lr = pre[3]
    # expected: every strict prefix of base
    full = [t for t in truncs if t[:len(pre)] == pre and len(t) == len(pre) + 2]  # base + b'\x00'
    base = full[0][:-1] if full else None
    if base:
        exp = {base[:k] for k in range(len(base))} | {base + b'\x00', base[:5 + lr] + b'\x00',
               base[:5 + lr] + b'\x21' + base[6 + lr:], base[:5 + lr] + b'\x1f' + base[6 + lr:],
               base[:3] + bytes([lr + 1]) + base[4:], base[:3] + bytes([lr - 1]) + base[4:], base[:3] + b'\xff' + base[4:]}
        got = {bytes.fromhex(l.split('\t')[1]) if l.split('\t')[1:] and l.split('\t')[1] else b'' for l in mal}
        print('structural malformed expected %d, missing %d' % (len(exp), len(exp - got)))
# boundary S values of isLowDer
svals = [0, 1, 2, 0x7f, 0x80, 0xff, 0x100, HALF - 1, HALF, HALF + 1, HALF + 2, N - 1, N - 2, N, 2 ** 255,
         2 ** 255 - 1, 2 ** 256 - 1]
def s_of(sig):
    lr = sig[3]; ls = sig[5 + lr]; return int.from_bytes(sig[6 + lr:6 + lr + ls], 'big')
gotS = {s_of(bytes.fromhex(l.split('\t')[1])) for l in tags['lowder']}
print('boundary S values missing from lowder:', [hex(s) for s in svals if s not in gotS])
# cmpBE fixed pairs
lists = [b'', b'\x00', b'\x01', b'\x00\x00', b'\x00\x01', b'\x01\x00', b'\xff', b'\x00\xff', b'\x7f\xff',
         b'\x80\x00', b'\x00\x00\x00', b'\x00\x80\x00']
exp = {'c13.cmpBE\t%s\t%s' % (a.hex(), b.hex()) for a in lists for b in lists}
print('cmpBE fixed pairs expected %d, missing %d' % (len(exp), len(exp - set(tags['cmpbe']))))
# keys: every secret of the shared list x both compressions
print('keys: distinct secrets', len({l.split('\t')[2] for l in tags['key']}), 'sign:', len({l.split('\t')[1] for l in tags['sign']}))
dup = sum(1 for t in ('lowder', 'lowder-malformed', 'cmpbe', 'key', 'wif') for l, n in tags[t].items() if n > 1)
print('cases produced by more than one shard in partitioned domains:', dup)

mod, tags = collect('harness.props.c14', 'C14')
print('C14 cases per tag:', {t: (sum(v.values()), len(v)) for t, v in sorted(tags.items())})
lens = set()
for l in tags['digest']:
    t = l.split('\t')[2]
    txt = '' if not t else ''.join(chr(int(x)) for x in t.split(','))
    lens.add(len(txt.encode('utf-8')))
print('digest lengths 0..300 missing:', [L for L in list(range(301)) + [65535, 65536, 65537] if L not in lens])
print('header cases:', len(tags['header']), ' digest-char:', len(tags['digest-char']))
