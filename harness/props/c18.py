"""C18 — P2P messages: framing, payload layout and stream parsing exact and invertible.

Text form of a message (mirror: lean/Driver/C18.lean), fields separated by one space:
    version <ver> <services> <time> <addr> <addr|-> <nonce|-> <subverhex|-> <height|-> <relay>
    verack | getaddr | mempool
    addr <addr,addr,...>                  addr := protover:time:services:iphex:port
    alert <msghex> <sighex>
    inv|getdata|notfound <inv,inv,...>    inv  := type:hashhex
    getblocks|getheaders <ver> <hash,hash,...> <hashstophex>
    headers <header/header/...>           header, tx, block as in harness/txfmt.py
    tx <tx>      block <block>
    ping|pong <nonce>
    reject <messagehex> <ccodehex> <reasonhex>

Ops (first argument is always the chain name):
    c18.frame  <chain> <msg> <variant>   build the object, SelectParams(chain), to_bytes()      (variant: how IP
                                         strings are presented to CAddress; the model does not see it)
    c18.parse  <chain> <hexstream>       loop MsgSerializable.stream_deserialize(BytesIO) until the stream is
                                         exhausted: `pos@msg@reframe~...~eof | err:<family>@pos`
    c18.frombytes <chain> <hex>          MsgSerializable.from_bytes
    c18.hist   <step> <step> ...         one HISTORY on live objects in one process (harness/props/c18_hist.py): the
                                         same message object framed, edited in place (every field kind), framed again,
                                         parsed back, the parsed object edited and re-framed; SelectParams between
                                         steps (every chain directly after every other); one BytesIO read by several
                                         calls with frames of other types/chains in between; two objects of one type
                                         alive at once.  The model evaluates each step on the current field values under
                                         the current chain.  bitcoin.* is re-imported before each history so that a
                                         history's outcome (and its shrunk replay) depends on that history alone.
"""
import contextlib
import multiprocessing as mp
import random
import re
import sys
import hashlib
import io
import socket
import struct

from ..framework import Prop, mk, guarded, ensure_repo_on_path, exc_family
from .. import txfmt
from . import c18_hist as H

CHAINS = ('mainnet', 'testnet', 'signet', 'regtest')
MAGIC = dict(mainnet=bytes.fromhex('f9beb4d9'), testnet=bytes.fromhex('0b110907'),
             signet=bytes.fromhex('0a03cf40'), regtest=bytes.fromhex('fabfb5da'))
IPV4_COMPAT = b'\x00' * 10 + b'\xff' * 2
MAX_SIZE = 0x02000000

U16E = [0, 1, 0xff, 0x100, 8333, 0xfffe, 0xffff]
U32E = [0, 1, 0x7fffffff, 0x80000000, 0xfffffffe, 0xffffffff]
U64E = [0, 1, 0x7fffffffffffffff, 0x8000000000000000, 0xffffffffffffffff]
I32E = [0, 1, -1, 2, 0x7fffffff, -0x80000000, 60002, 70001]
I64E = [0, 1, -1, 0x7fffffffffffffff, -0x8000000000000000, 1700000000]
COUNTS = [0, 1, 2, 3, 0xfc, 0xfd, 0xfe, 300]
LENS = [0, 1, 2, 0x4b, 0xfc, 0xfd, 0xfe, 0x100, 300]
VERSIONS = [70001, 70002, 70015, 70016, 0x7fffffff, 70000, 60002, 31402, 10300, 300, 209, 208, 106, 105, 1, 0, -1,
            -0x80000000]
NAMES = ('version', 'verack', 'addr', 'alert', 'inv', 'getdata', 'notfound', 'getblocks', 'getheaders', 'headers',
         'tx', 'block', 'getaddr', 'ping', 'pong', 'reject', 'mempool')


# ---- text form ---------------------------------------------------------------------------------

def show_addr(a):
    return '%d:%d:%d:%s:%d' % (a[0], a[1], a[2], bytes(a[3]).hex(), a[4])


def parse_addr(s):
    pv, t, sv, ip, port = s.split(':')
    return (int(pv), int(t), int(sv), bytes.fromhex(ip), int(port))


def _opt(f, x):
    return '-' if x is None else f(x)


def _popt(f, s):
    return None if s == '-' else f(s)


def show_msg(m):
    k = m[0]
    if k == 'version':
        (_, ver, sv, t, to, fr, nonce, sub, height, relay) = m
        return 'version %d %d %d %s %s %s %s %s %d' % (
            ver, sv, t, show_addr(to), _opt(show_addr, fr), _opt(str, nonce), _opt(lambda b: bytes(b).hex(), sub),
            _opt(str, height), relay)
    if k in ('verack', 'getaddr', 'mempool'):
        return k
    if k == 'addr':
        return 'addr ' + ','.join(show_addr(a) for a in m[1])
    if k == 'alert':
        return 'alert %s %s' % (bytes(m[1]).hex(), bytes(m[2]).hex())
    if k in ('inv', 'getdata', 'notfound'):
        return k + ' ' + ','.join('%d:%s' % (t, bytes(h).hex()) for (t, h) in m[1])
    if k in ('getblocks', 'getheaders'):
        return '%s %d %s %s' % (k, m[1], ','.join(bytes(h).hex() for h in m[2]), bytes(m[3]).hex())
    if k == 'headers':
        return 'headers ' + '/'.join(txfmt.show_header(h) for h in m[1])
    if k == 'tx':
        return 'tx ' + txfmt.show_tx(m[1])
    if k == 'block':
        return 'block ' + txfmt.show_block(m[1])
    if k in ('ping', 'pong'):
        return '%s %d' % (k, m[1])
    if k == 'reject':
        return 'reject %s %s %s' % (bytes(m[1]).hex(), bytes(m[2]).hex(), bytes(m[3]).hex())
    raise ValueError(k)


def parse_msg(s):
    p = s.split(' ')
    k = p[0]
    hx = bytes.fromhex
    if k == 'version':
        return ('version', int(p[1]), int(p[2]), int(p[3]), parse_addr(p[4]), _popt(parse_addr, p[5]),
                _popt(int, p[6]), _popt(hx, p[7]), _popt(int, p[8]), int(p[9]))
    if k in ('verack', 'getaddr', 'mempool'):
        return (k,)
    if k == 'addr':
        return ('addr', [parse_addr(a) for a in p[1].split(',')] if p[1] else [])
    if k == 'alert':
        return ('alert', hx(p[1]), hx(p[2]))
    if k in ('inv', 'getdata', 'notfound'):
        out = []
        for x in (p[1].split(',') if p[1] else []):
            t, h = x.split(':')
            out.append((int(t), hx(h)))
        return (k, out)
    if k in ('getblocks', 'getheaders'):
        return (k, int(p[1]), [hx(h) for h in p[2].split(',')] if p[2] else [], hx(p[3]))
    if k == 'headers':
        return ('headers', [txfmt.parse_header(h) for h in p[1].split('/')] if p[1] else [])
    if k == 'tx':
        return ('tx', txfmt.parse_tx(p[1]))
    if k == 'block':
        return ('block', txfmt.parse_block(p[1]))
    if k in ('ping', 'pong'):
        return (k, int(p[1]))
    if k == 'reject':
        return ('reject', hx(p[1]), hx(p[2]), hx(p[3]))
    raise ValueError(k)


def py_frame(magic, command, payload, length=None, checksum=None):
    """independent framing helper for building malformed streams"""
    if length is None:
        length = len(payload)
    if checksum is None:
        checksum = hashlib.sha256(hashlib.sha256(payload).digest()).digest()[:4]
    return magic + command + b'\x00' * (12 - len(command)) + struct.pack('<I', length) + checksum + payload


# ---- generators of field values -----------------------------------------------------------------

def pick(rng, edges, bits, p_edge=0.6):
    if rng.random() < p_edge:
        return rng.choice(edges)
    return rng.getrandbits(bits)


def pick_int(rng, edges, bits):
    if rng.random() < 0.6:
        return rng.choice(edges)
    return rng.getrandbits(bits) - (1 << (bits - 1))


def gen_ip(rng):
    r = rng.random()
    if r < 0.4:
        return IPV4_COMPAT + rng.randbytes(4)
    if r < 0.7:
        return rng.randbytes(16)
    return rng.choice([b'\x00' * 16, b'\x00' * 15 + b'\x01', b'\x00' * 12 + rng.randbytes(4),
                       b'\x00' * 10 + b'\xff\xfe' + rng.randbytes(4), b'\xff' * 16,
                       IPV4_COMPAT + b'\x00' * 4, IPV4_COMPAT + b'\xff' * 4,
                       bytes.fromhex('20010db8') + b'\x00' * 8 + rng.randbytes(4),
                       b'\x00' * 9 + b'\x01\xff\xff' + rng.randbytes(4)])


def gen_addr(rng, notime=False, wild=False):
    pv = 60002
    if wild and rng.random() < 0.3:
        pv = rng.choice([31401, 31402, 31403, 0, 70015])
    t = 0 if notime else pick(rng, U32E, 32)
    sv = pick(rng, U64E, 64)
    port = pick(rng, U16E, 16)
    if wild and rng.random() < 0.15:
        which = rng.randrange(3)
        if which == 0:
            t = rng.choice([1 << 32, (1 << 32) + 1])
        elif which == 1:
            sv = 1 << 64
        else:
            port = rng.choice([1 << 16, (1 << 16) + 1])
    return (pv, t, sv, gen_ip(rng), port)


def gen_header(rng):
    return dict(ver=pick_int(rng, I32E, 32), prev=rng.randbytes(32), merkle=rng.randbytes(32),
                time=pick(rng, U32E, 32), bits=pick(rng, U32E + [0x1d00ffff, 0x207fffff], 32),
                nonce=pick(rng, U32E, 32))


def gen_tx(rng, allow_noinput=False):
    nin = rng.choice([1, 1, 1, 2, 3])
    if allow_noinput and rng.random() < 0.1:
        nin = 0
    nout = rng.choice([0, 1, 1, 2, 3])
    vin = [(rng.randbytes(32), pick(rng, U32E, 32), rng.randbytes(rng.choice([0, 1, 2, 25, 107, 0xfd])),
            pick(rng, U32E, 32)) for _ in range(nin)]
    vout = [(pick_int(rng, I64E + [2100000000000000], 64), rng.randbytes(rng.choice([0, 1, 22, 25, 34])))
            for _ in range(nout)]
    mode = rng.randrange(5)
    if mode == 0 or nin == 0:
        wit = None
    elif mode == 1:
        wit = [[] for _ in range(nin)]
    elif mode == 2:
        wit = [[] for _ in range(nin)]
        wit[rng.randrange(nin)] = [rng.randbytes(rng.choice([0, 1, 33, 72]))]
    else:
        wit = [[rng.randbytes(rng.choice([0, 1, 33, 72, 0xfd])) for _ in range(rng.choice([1, 2, 3]))]
               for _ in range(nin)]
    return dict(ver=pick_int(rng, I32E, 32), lock=pick(rng, U32E, 32), vin=vin, vout=vout, wit=wit)


def shape_version(m):
    """keep exactly the fields the message's protocol version carries (106 / 209 / 70001); relay absent = 1"""
    m = list(m)
    ver = m[1]
    if ver < 106:
        m[5] = m[6] = m[7] = None
    if ver < 209:
        m[8] = None
    if ver < 70001:
        m[9] = 1
    return tuple(m)


LOW_VERSIONS = [70000, 60002, 60001, 31402, 209, 208, 107, 106, 105, 1, 0, -1, -0x80000000]


def gen_count(rng, big_ok=True):
    c = rng.choice(COUNTS) if rng.random() < 0.5 else rng.randrange(0, 8)
    if not big_ok:
        c = min(c, 5)
    return c


def gen_msg(rng, kind, wild=False, small=False, lowver=False):
    """a message of the given type; `wild` allows field values outside the wire ranges and protocol
    versions below 70001; `small` keeps vectors short (frames used for exhaustive corruption)"""
    def cnt():
        return rng.randrange(0, 3) if small else gen_count(rng)

    def blen():
        return rng.choice([0, 1, 5]) if small else rng.choice(LENS)

    if kind == 'version':
        ver = rng.choice(VERSIONS[:5]) if not wild else rng.choice(VERSIONS)
        if rng.random() < 0.2:
            ver = rng.randrange(70001, 1 << 31) if not wild else rng.randrange(-(1 << 31), 1 << 31)
        fr, nonce, sub, height = gen_addr(rng, True, wild), pick(rng, U64E, 64), rng.randbytes(blen()), \
            pick_int(rng, I32E, 32)
        relay = rng.choice([0, 1, 1, 2, 255])
        if wild:
            r = rng.random()
            if r < 0.08:
                fr = None
            elif r < 0.16:
                nonce = None
            elif r < 0.24:
                sub = None
            elif r < 0.32:
                height = None
            elif r < 0.40:
                relay = 256
            elif r < 0.48:
                height = rng.choice([1 << 31, -(1 << 31) - 1])
            elif r < 0.56:
                nonce = 1 << 64
        m = ('version', ver, pick(rng, U64E + ([1 << 64] if wild else []), 64),
             pick_int(rng, I64E + ([1 << 63] if wild else []), 64), gen_addr(rng, True, wild), fr, nonce, sub,
             height, relay)
        if not wild and lowver and rng.random() < 0.4:
            m = shape_version((m[0], rng.choice(LOW_VERSIONS)) + m[2:])
        return m
    if kind in ('verack', 'getaddr', 'mempool'):
        return (kind,)
    if kind == 'addr':
        return ('addr', [gen_addr(rng, False, wild) for _ in range(cnt())])
    if kind == 'alert':
        return ('alert', rng.randbytes(blen()), rng.randbytes(blen()))
    if kind in ('inv', 'getdata', 'notfound'):
        def hl():
            return rng.choice([0, 31, 33]) if wild and rng.random() < 0.1 else 32
        types = [0, 1, 2, 3, 4, (1 << 30) | 1, (1 << 30) | 2, -1, 0x7fffffff, -0x80000000]
        if wild:
            types += [1 << 31, -(1 << 31) - 1]
        return (kind, [(rng.choice(types), rng.randbytes(hl())) for _ in range(cnt())])
    if kind in ('getblocks', 'getheaders'):
        def hl():
            return rng.choice([0, 31, 33]) if wild and rng.random() < 0.1 else 32
        stop = rng.choice([b'\x00' * 32, rng.randbytes(32)])
        if wild and rng.random() < 0.2:
            stop = rng.randbytes(rng.choice([0, 31, 33]))
        ver = pick_int(rng, I32E, 32)
        if wild and rng.random() < 0.1:
            ver = 1 << 31
        return (kind, ver, [rng.randbytes(hl()) for _ in range(cnt())], stop)
    if kind == 'headers':
        return ('headers', [gen_header(rng) for _ in range(cnt())])
    if kind == 'tx':
        return ('tx', gen_tx(rng, allow_noinput=wild))
    if kind == 'block':
        return ('block', dict(hdr=gen_header(rng), vtx=[gen_tx(rng) for _ in range(rng.randrange(0, 3 if small else 5))]))
    if kind in ('ping', 'pong'):
        return (kind, pick(rng, U64E + ([1 << 64] if wild else []), 64))
    if kind == 'reject':
        cc = rng.randbytes(1)
        if wild and rng.random() < 0.3:
            cc = rng.randbytes(rng.choice([0, 2]))
        return ('reject', rng.randbytes(blen()), cc, rng.randbytes(blen()))
    raise ValueError(kind)


def minimal_msg(kind):
    """the smallest well-formed message of each type with recognisable field values"""
    a = (60002, 0, 1, IPV4_COMPAT + bytes([10, 0, 0, 1]), 8333)
    h = dict(ver=2, prev=bytes(range(32)), merkle=bytes(range(32, 64)), time=3, bits=0x207fffff, nonce=4)
    t = dict(ver=1, lock=0, vin=[(bytes(range(64, 96)), 0, b'\x51', 0xffffffff)], vout=[(5, b'\x52')], wit=None)
    return {
        'version': ('version', 70001, 1, 2, a, a, 3, b'/x/', 4, 1),
        'addr': ('addr', [(60002, 7, 1, a[3], 8333)]),
        'alert': ('alert', b'ab', b'c'),
        'inv': ('inv', [(1, bytes(range(32)))]), 'getdata': ('getdata', [(2, bytes(range(32)))]),
        'notfound': ('notfound', [(1, bytes(range(32)))]),
        'getblocks': ('getblocks', 60002, [bytes(range(32))], b'\x00' * 32),
        'getheaders': ('getheaders', 60002, [], b'\x00' * 32),
        'headers': ('headers', [h]), 'tx': ('tx', t), 'block': ('block', dict(hdr=h, vtx=[t])),
        'ping': ('ping', 1), 'pong': ('pong', 2), 'reject': ('reject', b'tx', b'\x10', b'bad'),
    }.get(kind, (kind,))


# ---- known findings D24 / D25: the EXACT wrong answer, derived from the model's conforming one ---------------

def _known_wrong_msg(text, pv):
    """(text the shipped parser is known to return instead of the conforming `text`, ids, truncates)
    D24: nVersion 10300 comes back as 300.
    D25: the `protover` handed to stream_deserialize is dropped: every parsed CAddress is a `cls()`, so it reports
         PROTO_VERSION 60002 instead of `pv`; and an `addr` payload written for pv < 31402 (26-byte entries, no time)
         is read with 30-byte entries: SerializationTruncationError (the payload is always too short)."""
    m = parse_msg(text)
    ids, trunc = set(), False
    if m[0] == 'version':
        m = list(m)
        if m[1] == 10300:
            m[1] = 300
            ids.add('D24-version-10300-read-as-300')
        for i in (4, 5):
            if m[i] is not None and m[i][0] == pv != 60002:
                m[i] = (60002,) + tuple(m[i][1:])
                ids.add('D25-caddress-protover-time-gate-dead')
        m = tuple(m)
    elif m[0] == 'addr' and pv != 60002 and m[1] and all(x[0] == pv for x in m[1]):
        ids.add('D25-caddress-protover-time-gate-dead')
        if pv < 31402:
            trunc = True
        m = ('addr', [(60002,) + tuple(x[1:]) for x in m[1]])
    return show_msg(m), ids, trunc


def known_finding(op, a, io, mo):
    """signature id iff `io` is EXACTLY the known wrong behaviour corresponding to the model's conforming answer
    `mo` (every other entry identical); otherwise None — a different wrong answer is a VIOLATION"""
    try:
        if op == 'c18.frombytes':
            pv = int(a[2]) if len(a) > 2 else 60002
            if not mo.endswith('|W') or mo.startswith(('err:', 'none')):
                return None
            exp, ids, trunc = _known_wrong_msg(mo[:-2], pv)
            exp = 'err:trunc' if trunc else exp
            return sorted(ids)[0] if len(ids) == 1 and io == exp else None
        if op == 'c18.parse':
            pv = int(a[2]) if len(a) > 2 else 60002
            ids, exp = set(), []
            for e in mo.split('~'):
                f = e.split('@')
                if len(f) == 3 and f[2] == 'same' and f[1] != 'none':
                    t, i2, trunc = _known_wrong_msg(f[1], pv)
                    ids |= i2
                    if trunc:
                        exp.append('err:trunc@' + f[0])
                        break
                    re_ = 'diff' if 'D24-version-10300-read-as-300' in i2 else 'same'
                    exp.append('%s@%s@%s' % (f[0], t, re_))
                else:
                    exp.append(e[:-len('@payload')] if e.endswith('@payload') else e)
            return sorted(ids)[0] if len(ids) == 1 and io.split('~') == exp else None
        if op == 'c18.hist':
            psteps = [st.split(' ') for st in a if st[:2] == 'P ']
            outs_i, outs_m = io.split('~'), mo.split('~')
            if len(outs_i) != len(outs_m):
                return None
            # outputs of P steps, in order, are those of the form pos@msg / err:..@pos; map by walking the steps
            kinds = [st[0] for st in a if st[:1] in 'FSAPMZGQX']
            if len(kinds) != len(outs_m):
                return None
            ids, pi = set(), 0
            for k, (x, y) in enumerate(zip(outs_i, outs_m)):
                if kinds[k] != 'P':
                    if x != y:
                        return None
                    continue
                hd = psteps[pi]
                pi += 1
                pv = int(hd[3]) if len(hd) > 3 else 60002
                f = y.split('@')
                if len(f) == 2 and not y.startswith('err:') and f[1] != 'none':
                    t, i2, trunc = _known_wrong_msg(f[1], pv)
                    ids |= i2
                    if x != ('err:trunc@' + f[0] if trunc else f[0] + '@' + t):
                        return None
                elif x != y:
                    return None
            return sorted(ids)[0] if len(ids) == 1 else None
    except Exception:  # noqa: BLE001 - unparsable answer: not the known behaviour
        return None
    return None


class HarnessError(RuntimeError):
    """a bug of this harness (not of the code under test): stops the check with an infrastructure error"""


def harness_fail(msg):
    """exit 2 (infrastructure), never a VIOLATION: in the main process print and stop; inside a worker raise, the
    framework records the case and `signature()` stops the run once it is back in the main process"""
    if mp.parent_process() is None:
        print('INFRA-ERROR: C18 harness bug (not a finding): ' + msg)
        raise SystemExit(2)
    raise HarnessError(msg)


class C18(Prop):
    id = 'C18'
    title = 'P2P messages: framing, payload layout and stream parsing exact and invertible'
    lean_targets = ['BtcVerif.Props.C18']
    table_groups = ['ChainNet', 'Messages']
    theorems = ['BtcVerif.C18.' + t for t in (
        'chain_magic_length', 'payload_eq_spec', 'frame_eq_spec', 'payload_roundtrip', 'parse_frame',
        'reframe_identical', 'parse_reframe', 'fromBytes_frame', 'parse_stream', 'parse_stream_append', 'bad_magic_rejected',
        'bad_checksum_rejected', 'corrupted_payload_rejected', 'accepted_frame_valid', 'truncated_frame_trunc',
        'length_guard', 'position_le_frame_end', 'checksum_len', 'command_eq_spec', 'parse_stream_trace', 'parseAll_eq_trace', 'rejected_before_dispatch',
        'returned_was_accepted')]
    anchors = ([('bitcoin/messages.py', 'MsgSerializable.to_bytes'),
                ('bitcoin/messages.py', 'MsgSerializable.stream_deserialize'),
                ('bitcoin/messages.py', 'MsgSerializable.from_bytes')] +
               [('bitcoin/messages.py', 'msg_%s.%s' % (n, f)) for n in NAMES for f in ('msg_ser', 'msg_deser')] +
               [('bitcoin/net.py', '%s.%s' % (c, f)) for c in ('CAddress', 'CInv', 'CBlockLocator', 'CAlert')
                for f in ('stream_serialize', 'stream_deserialize')] +
               [('bitcoin/core/serialize.py', 'ser_read'),
                ('bitcoin/core/serialize.py', 'VarIntSerializer.stream_serialize'),
                ('bitcoin/core/serialize.py', 'VarIntSerializer.stream_deserialize'),
                ('bitcoin/core/serialize.py', 'VectorSerializer.stream_deserialize'),
                ('bitcoin/core/serialize.py', 'uint256VectorSerializer.stream_serialize'),
                ('bitcoin/core/serialize.py', 'uint256VectorSerializer.stream_deserialize'),
                ('bitcoin/core/serialize.py', 'VarStringSerializer.stream_deserialize')])
    trusted_base = ['Spec.Msg.* transcribes the P2P protocol documentation (message header, 17 payload layouts)',
                    'btcmodel executable = compiled Model.* (Lean compiler)',
                    'socket.inet_pton/inet_ntop are modelled as the identity on the 16 packed address bytes '
                    '(validated by the correspondence run)',
                    'Crypto.hash256 = hashlib SHA-256 applied twice, 32 bytes long (validated by every compared frame)']
    assumptions = ['a corrupted payload is detected unless its 32-bit checksum collides (the run compares the real '
                   'checksums, so a collision would show as agreement, not as an alarm)']
    rule = ('HISTORIES on live objects (frame / in-place edit of every field kind / re-frame / parse back / edit the '
            'parsed object / SelectParams tour over all 12 ordered chain pairs / one BytesIO read repeatedly / two '
            'objects of a type alive at once), each step compared with the model on the current values; and, '
            'statelessly: all 17 message types x generated field values (int edges, IPv4/IPv6, vectors 0..300, headers/tx/blocks) '
            'x 4 chains: to_bytes vs model; streams of 1..6 model-built frames parsed with stream_deserialize, '
            'position after every call and re-framing compared; for small frames every single-byte corruption and '
            'every truncation point; length fields 0, exact, +-1, MAX_SIZE, MAX_SIZE+1, 2^31-1, 2^31, 2^32-1 with '
            'unchanged / recomputed checksum; unknown and NUL-tailed commands, foreign magic, payload-level '
            'malformations.  Strict comparison (bytes, field values, position, exception family) on frames of in-domain '
            'messages and on the four fault classes; where the property is silent (out-of-range field values, '
            'non-canonical frames, unknown commands, errors inside msg_deser of a well-framed payload) the model marks '
            'the entry and a difference there is not an alarm.  non-trivial = not an argument-free message; distinct '
            'by canonical request line')

    # ---- real code ------------------------------------------------------------------------------
    def setup(self):
        ensure_repo_on_path()
        import bitcoin
        import bitcoin.messages as M
        import bitcoin.net as N
        from bitcoin.messages import msg_notfound, msg_reject  # not in __all__ (O6)
        self.bitcoin, self.M, self.N = bitcoin, M, N
        self.cls = {n: getattr(M, 'msg_' + n) for n in NAMES}
        assert self.cls['notfound'] is msg_notfound and self.cls['reject'] is msg_reject
        self.by_cls = {v: k for k, v in self.cls.items()}
        self.devnull = io.StringIO()

    def to_caddr(self, a, variant):
        c = self.N.CAddress()
        c.protover, c.nTime, c.nServices, c.port = a[0], a[1], a[2], a[4]
        ip = bytes(a[3])
        if len(ip) != 16:
            raise ValueError('harness: ip must be 16 bytes')
        if ip[:12] == IPV4_COMPAT:
            if variant & 1:
                c.ip = '::ffff:' + socket.inet_ntop(socket.AF_INET, ip[12:])
            else:
                c.ip = socket.inet_ntop(socket.AF_INET, ip[12:])
        elif variant & 2:
            c.pchReserved = ip[:12]
            c.ip = socket.inet_ntop(socket.AF_INET, ip[12:])
        else:
            c.ip = socket.inet_ntop(socket.AF_INET6, ip)
        return c

    def from_caddr(self, c):
        if ':' in c.ip:
            ip = socket.inet_pton(socket.AF_INET6, c.ip)
        else:
            ip = bytes(c.pchReserved) + socket.inet_pton(socket.AF_INET, c.ip)
        return (c.protover, c.nTime, c.nServices, ip, c.port)

    def to_obj(self, m, variant=0):
        k = m[0]
        o = self.cls[k]()
        if k == 'version':
            (_, o.nVersion, o.nServices, o.nTime, to, fr, o.nNonce, o.strSubVer, o.nStartingHeight, o.fRelay) = m
            o.addrTo = self.to_caddr(to, variant)
            o.addrFrom = None if fr is None else self.to_caddr(fr, variant >> 2)
        elif k == 'addr':
            new = [self.to_caddr(a, variant >> (2 * (i % 3))) for i, a in enumerate(m[1])]
            if variant & 64:
                o.addrs.extend(new)      # fill the list the constructor made (a shared default would show)
            else:
                o.addrs = new
        elif k == 'alert':
            o.alert.vchMsg, o.alert.vchSig = m[1], m[2]
        elif k in ('inv', 'getdata', 'notfound'):
            if not variant & 64:
                o.inv = []
            for (t, h) in m[1]:
                i = self.N.CInv()
                i.type, i.hash = t, h
                o.inv.append(i)
        elif k in ('getblocks', 'getheaders'):
            o.locator.nVersion, o.hashstop = m[1], m[3]
            if variant & 64:
                o.locator.vHave.extend(m[2])
            else:
                o.locator.vHave = list(m[2])
        elif k == 'headers':
            if variant & 64:
                o.headers.extend(txfmt.to_header(h) for h in m[1])
            else:
                o.headers = [txfmt.to_header(h) for h in m[1]]
        elif k == 'tx':
            o.tx = txfmt.to_tx(m[1])
        elif k == 'block':
            o.block = txfmt.to_block(m[1])
        elif k in ('ping', 'pong'):
            o.nonce = m[1]
        elif k == 'reject':
            o.message, o.ccode, o.reason = m[1], m[2], m[3]
        return o

    def from_obj(self, o):
        if o is None:
            return None
        k = self.by_cls[type(o)]
        if k == 'version':
            return ('version', o.nVersion, o.nServices, o.nTime, self.from_caddr(o.addrTo),
                    None if o.addrFrom is None else self.from_caddr(o.addrFrom), o.nNonce, o.strSubVer,
                    o.nStartingHeight, int(o.fRelay))
        if k == 'addr':
            return ('addr', [self.from_caddr(a) for a in o.addrs])
        if k == 'alert':
            return ('alert', o.alert.vchMsg, o.alert.vchSig)
        if k in ('inv', 'getdata', 'notfound'):
            return (k, [(i.type, i.hash) for i in o.inv])
        if k in ('getblocks', 'getheaders'):
            return (k, o.locator.nVersion, list(o.locator.vHave), o.hashstop)
        if k == 'headers':
            return ('headers', [txfmt.from_header(h) for h in o.headers])
        if k == 'tx':
            return ('tx', txfmt.from_tx(o.tx))
        if k == 'block':
            return ('block', txfmt.from_block(o.block))
        if k in ('ping', 'pong'):
            return (k, o.nonce)
        if k == 'reject':
            return ('reject', o.message, o.ccode, o.reason)
        return (k,)

    def _with_chain(self, chain, fn):
        self.bitcoin.SelectParams(chain)
        try:
            return fn()
        finally:
            self.bitcoin.SelectParams('mainnet')

    def impl(self, c):
        op, a = c['op'], c['args']
        if op == 'c18.frame':
            def f():
                o = self.to_obj(parse_msg(a[1]), int(a[2]) if len(a) > 2 else 0)
                return self._with_chain(a[0], lambda: o.to_bytes().hex())
            return guarded(f)
        kw = dict(protover=int(a[2])) if op in ('c18.parse', 'c18.frombytes') and len(a) > 2 else {}
        if op == 'c18.parse':
            return self._with_chain(a[0], lambda: self.parse_stream(bytes.fromhex(a[1]), kw))
        if op == 'c18.frombytes':
            def f():
                with contextlib.redirect_stdout(self.devnull):
                    o = self.M.MsgSerializable.from_bytes(bytes.fromhex(a[1]), **kw)
                return 'none' if o is None else show_msg(self.from_obj(o))
            return self._with_chain(a[0], lambda: guarded(f))
        if op == 'c18.hist':
            return self.run_hist(a)
        raise ValueError(op)

    # ---- histories on live objects (harness/props/c18_hist.py) -----------------------------------------
    def live_conv(self, kind, text):
        if kind == 'int':
            return int(text)
        if kind in ('hex', 'hash'):
            return bytes.fromhex(text)
        if kind == 'ip':
            ip = bytes.fromhex(text)
            txt = (socket.inet_ntop(socket.AF_INET, ip[12:]) if ip[:12] == IPV4_COMPAT
                   else socket.inet_ntop(socket.AF_INET6, ip))

            def patch(a):
                a.ip = txt
                a.pchReserved = IPV4_COMPAT
            return patch
        if kind == 'addr':
            return self.to_caddr(parse_addr(text), 0)
        if kind == 'inv':
            t, h = text.split(':')
            i = self.N.CInv()
            i.type, i.hash = int(t), bytes.fromhex(h)
            return i
        if kind == 'hdr':
            return txfmt.to_header(txfmt.parse_header(text))
        if kind == 'tx':
            return txfmt.to_tx(txfmt.parse_tx(text))
        if kind == 'block':
            return txfmt.to_block(txfmt.parse_block(text))
        raise ValueError(kind)

    def fresh_import(self):
        """Drop every bitcoin.* module and import the working tree again: whatever the library memoised (per class,
        per module, in default arguments) during earlier cases of this process is gone, so a history's outcome
        depends on that history alone — which is what makes its shrunk replay reproduce in a fresh process."""
        for m in list(sys.modules):
            if m == 'bitcoin' or m.startswith('bitcoin.'):
                del sys.modules[m]
        self.setup()

    def same_values(self, obj, text):
        """the live object's field values in text form equal `text` (bool fRelay counts as its integer)"""
        try:
            return show_msg(self.from_obj(obj)) == text
        except Exception:  # noqa: BLE001 - unreadable object (a mutated tree may do anything): not a shadow bug
            return True

    def run_hist(self, steps):
        self.fresh_import()
        regs, streams, out = {}, {}, []

        def frame(r):
            return regs[r].to_bytes()

        self.bitcoin.SelectParams('mainnet')
        try:
            for st in steps:
                parts = st.split('#')
                hd = parts[0].split(' ')
                if hd[0] == 'C':
                    self.bitcoin.SelectParams(hd[1])
                elif hd[0] == 'N':
                    regs[hd[1]] = self.to_obj(parse_msg(parts[1]), int(parts[2]))
                    if not self.same_values(regs[hd[1]], parts[1]):
                        return 'harness:field-values-differ after ' + st[:60]
                elif hd[0] == 'E':
                    if hd[1] not in regs:
                        continue
                    try:
                        H.apply_edit(regs[hd[1]], parts[1], self.live_conv)
                    except Exception as e:  # noqa: BLE001 - an edit the live object refuses is an observation
                        out.append('editerr:' + exc_family(e))
                        continue
                    # the live object must now carry exactly the field values the model is asked about: a
                    # difference here is a bug of the generator's value tracking, never a finding
                    if not self.same_values(regs[hd[1]], parts[2]):
                        return 'harness:field-values-differ after ' + st[:60]
                elif hd[0] == 'F':
                    out.append(guarded(lambda: frame(hd[1]).hex()) if hd[1] in regs else 'noreg')
                elif hd[0] in ('M', 'Z', 'G'):
                    # other observers of the same live object: msg_ser into a stream, serialize(), GetHash()
                    def observe(o=regs.get(hd[1]), how=hd[0]):
                        if how == 'M':
                            g = io.BytesIO()
                            o.msg_ser(g)
                            return g.getvalue().hex()
                        return (o.serialize() if how == 'Z' else o.GetHash()).hex()
                    out.append(guarded(observe) if hd[1] in regs else 'noreg')
                elif hd[0] == 'R':
                    try:                       # only that repr() ran on the object; its text is not constrained
                        repr(regs.get(hd[1]))
                    except Exception:  # noqa: BLE001
                        pass
                elif hd[0] == 'Q':
                    if hd[1] in regs and hd[2] in regs:
                        out.append(guarded(lambda: 'eq' if regs[hd[1]] == regs[hd[2]] else 'ne'))
                    else:
                        out.append('noreg')
                elif hd[0] == 'X':
                    b = bytes.fromhex(hd[2])
                    streams[hd[1]] = io.BytesIO(b)
                    out.append('len=%d' % len(b))
                elif hd[0] == 'S':
                    bs = []
                    for r in hd[2:]:
                        try:
                            bs.append(frame(r))
                        except Exception:  # noqa: BLE001
                            pass
                    streams[hd[1]] = io.BytesIO(b''.join(bs))
                    out.append('len=%d' % sum(len(b) for b in bs))
                elif hd[0] == 'A':
                    f = streams.get(hd[1])
                    try:
                        b = frame(hd[2]) if f is not None else b''
                    except Exception:  # noqa: BLE001
                        b = b''
                    if f is not None:
                        pos = f.tell()
                        f.seek(0, 2)
                        f.write(b)
                        f.seek(pos)
                    out.append('len=%d' % len(b))
                elif hd[0] == 'P':
                    f = streams.get(hd[1])
                    if f is None:
                        out.append('nostream')
                        continue
                    pkw = dict(protover=int(hd[3])) if len(hd) > 3 else {}
                    try:
                        with contextlib.redirect_stdout(self.devnull):
                            o = self.M.MsgSerializable.stream_deserialize(f, **pkw)
                    except RecursionError:
                        out.append('err:py:RecursionError@%d' % f.tell())
                        continue
                    except Exception as e:  # noqa: BLE001
                        out.append('err:%s@%d' % (exc_family(e), f.tell()))
                        continue
                    if o is None:
                        out.append('%d@none' % f.tell())
                    else:
                        regs[hd[2]] = o
                        out.append('%d@%s' % (f.tell(), guarded(lambda: show_msg(self.from_obj(o)))))
                else:
                    raise ValueError('harness: bad history step ' + st[:40])
        finally:
            self.bitcoin.SelectParams('mainnet')
        return '~'.join(out)

    def parse_stream(self, data, kw={}):
        f = io.BytesIO(data)
        out = []
        while f.tell() < len(data):
            start = f.tell()
            try:
                with contextlib.redirect_stdout(self.devnull):
                    o = self.M.MsgSerializable.stream_deserialize(f, **kw)
            except RecursionError:
                out.append('err:py:RecursionError@%d' % f.tell())
                return '~'.join(out)
            except Exception as e:  # noqa: BLE001 - every escaping exception is an observation
                out.append('err:%s@%d' % (exc_family(e), f.tell()))
                return '~'.join(out)
            pos = f.tell()
            if o is None:
                out.append('%d@none@-' % pos)
                continue

            def reframe():
                return 'same' if o.to_bytes() == data[start:pos] else 'diff'
            out.append('%d@%s@%s' % (pos, show_msg(self.from_obj(o)), guarded(reframe)))
        out.append('eof')
        return '~'.join(out)

    def model_line(self, c):
        if c['op'] == 'c18.frame':
            return '\t'.join([c['op']] + list(c['args'][:2]))
        return c.line

    def agree(self, c, io, mo):
        """Strict equality on what the property constrains; a difference is tolerated only where the property is
        silent.  The model marks that itself:
          frame      tag `|O` = field values outside the wire ranges / the protocol version (WFMsg false);
          parse      an entry that is not the canonical frame of the message returned (re-framing differs: bytes
                     after the NUL of the command, left-over payload bytes, non-canonical counts), an unknown
                     command (`none`), or an error raised inside msg_deser for a payload whose header, length and
                     checksum were accepted (`@payload`).
        Frames of in-domain messages, wrong magic, wrong checksum, truncation and impossible lengths are always
        compared strictly, entry by entry, including the stream position."""
        op = c['op']
        if io.startswith('harness:'):
            # the generator's value tracking disagrees with the live object: an infrastructure error.  Inside a
            # worker the case is recorded (signature() then stops the run in the main process with exit 2); in the
            # main process (replay) raise at once.  Never a VIOLATION.
            if mp.parent_process() is None:
                harness_fail(io + ' | ' + c.line[:300])
            return False
        if op == 'c18.hist':
            return io == mo          # every step is compared strictly
        if op in ('c18.frame', 'c18.frombytes'):
            # the domain tag is the LAST thing in the model's answer: anything else there is a malformed answer
            if mo[-2:] not in ('|W', '|O'):
                return False
            return io == mo[:-2] or mo[-2:] == '|O'
        ii, mm = io.split('~'), mo.split('~')
        # the model's answer must be well-formed to its end (a tolerated difference further up must not hide a
        # damaged answer): it closes with `eof` or with an error at a position inside the stream
        fin = re.fullmatch(r'err:[A-Za-z0-9_:]+@(\d+)(@payload)?', mm[-1])
        if not (mm[-1] == 'eof' or (fin and int(fin.group(1)) <= len(c['args'][1]) // 2)):
            return False
        for k in range(max(len(ii), len(mm))):
            a = ii[k] if k < len(ii) else ''
            b = mm[k] if k < len(mm) else ''
            strict = not (b.endswith('@payload') or b.endswith('@none@-') or b.endswith('@diff') or
                          '@err:' in b)
            if b.endswith('@payload'):
                b = b[:-len('@payload')]
            if a != b:
                return not strict
        return True

    # ---- generation -----------------------------------------------------------------------------
    def model_frames(self, items):
        """[(chain, msg)] -> [bytes | None] through the model's to_bytes; for a sample of in-domain messages the
        executable Spec (independent oracle, `frame_eq_spec`) must give the same bytes"""
        outs = self.ask(['c18.frame\t%s\t%s' % (ch, show_msg(m)) for ch, m in items])
        sample = [i for i, o in enumerate(outs) if o.endswith('|W')][:40]
        spec = self.ask(['c18.spec.frame\t%s\t%s' % (items[i][0], show_msg(items[i][1])) for i in sample])
        for i, sp in zip(sample, spec):
            if outs[i][:-2] != sp:
                raise RuntimeError('model and Spec disagree on an in-domain frame: ' + show_msg(items[i][1])[:200])
        return [None if o.startswith(('err:', 'bad-')) else bytes.fromhex(o[:-2]) for o in outs]

    def generate(self, rng, tier, shard, nshards):
        big = tier == 'thorough'
        # (h) histories on live objects: state surviving across calls (see c18_hist.py); every type in every tier
        hrng = random.Random(rng.getrandbits(64))
        kinds = [k for i, k in enumerate(NAMES) if i % nshards == shard] if not big else list(NAMES)
        for tag, steps in H.histories(hrng, sys.modules[__name__], kinds, big, known=(shard == 0)):
            yield mk('c18.hist', *steps, tag=tag)
        # (a) framing: every type x generated values (in and out of range) x chains
        per_type = max(3, (1200 if big else 12) * 16 // nshards // 4)
        wf = []
        for kind in NAMES:
            for j in range(per_type * (3 if kind in ('version', 'addr') else 1)):
                wild = (j % 3 == 2)
                m = gen_msg(rng, kind, wild=wild, lowver=True)
                ch = CHAINS[(j + shard) % 4]
                yield mk('c18.frame', ch, show_msg(m), rng.randrange(64), tag='frame:' + kind)
                if not wild or kind == 'version':
                    wf.append((ch, m))
        # version boundary versions with all fields present: what a node of that version would parse
        for vi, ver in enumerate(sorted(set(VERSIONS) | {v for v in self.pool if -(1 << 31) <= v < (1 << 31)})):
            if vi % nshards == shard or big:
                m = list(gen_msg(rng, 'version'))
                m[1] = ver
                m = shape_version(tuple(m)) if rng.random() < 0.7 else tuple(m)
                yield mk('c18.frame', rng.choice(CHAINS), show_msg(m), rng.randrange(64), tag='frame:version-boundary')
                wf.append((rng.choice(CHAINS), m))
        # addresses of another protocol version, read back by a reader that is told that version
        # (stream_deserialize(f, protover=pv)); below 31402 an addr entry has no time field.  KNOWN finding D25:
        # the shipped parser ignores `protover`.  (Fixed enumeration, partitioned by index.)
        wf_pv = []
        for pi, (kind, pv) in enumerate((k, v) for k in ('addr', 'version')
                                        for v in (0, 209, 31401, 31402, 31403, 60001, 70015)):
            if pi % nshards != shard and not big:
                continue

            def old(a, pv=pv):
                return (pv, 0 if pv < 31402 or kind == 'version' else a[1]) + tuple(a[2:])
            if kind == 'addr':
                m = ('addr', [old(gen_addr(rng)) for _ in range(rng.choice([1, 2, 3, 0xfd]))])
            else:
                m = list(gen_msg(rng, 'version'))
                m[4], m[5] = old(m[4]), old(m[5])
                m = tuple(m)
            ch = rng.choice(CHAINS)
            yield mk('c18.frame', ch, show_msg(m), rng.randrange(64), tag='frame:protover')
            wf_pv.append((ch, m, pv))
        for (ch, m, pv), b in zip(wf_pv, self.model_frames([(c2, m2) for c2, m2, _ in wf_pv])):
            if b is None:
                continue
            yield mk('c18.parse', ch, b.hex(), pv, tag='roundtrip-protover:' + m[0])
            yield mk('c18.frombytes', ch, b.hex(), pv, tag='frombytes-protover')
            yield mk('c18.parse', ch, (py_frame(MAGIC[ch], b'ping', b'\x07' * 8) + b).hex(), pv,
                     tag='stream-protover')
            yield mk('c18.parse', ch, b.hex(), tag='protover-frame-read-as-60002')
        # CompactSize switch points 0xffff/0x10000 on a byte string (and, thorough, on a vector count)
        if shard == 1 % nshards:
            for ln in (0xffff, 0x10000, 0x10001):
                m = ('alert', rng.randbytes(ln), b'x')
                yield mk('c18.frame', 'mainnet', show_msg(m), 0, tag='frame:alert-long')
                wf.append(('mainnet', m))
        if big and shard == 2 % nshards:
            m = ('inv', [(1, rng.randbytes(32))] * 0x10000)
            # framing only: the shared model's ser_read takes the length of the remaining stream on every call,
            # so parsing 65536 entries is quadratic in the driver (11 min); the 0xfe branch of the parser is
            # covered by the 0x10000-byte strings above
            yield mk('c18.frame', 'regtest', show_msg(m), 0, tag='frame:inv-65536')

        # (b) round trips and streams built from the model's frames
        frames = [(ch, m, b) for (ch, m), b in zip(wf, self.model_frames(wf)) if b is not None]
        by_chain = {ch: [b for c2, _, b in frames if c2 == ch] for ch in CHAINS}
        for ch, m, b in frames:
            yield mk('c18.parse', ch, b.hex(), tag='roundtrip:' + m[0])
            if rng.random() < 0.3:
                yield mk('c18.frombytes', ch, (b + rng.randbytes(rng.choice([0, 1, 30]))).hex(), tag='frombytes')
        for _ in range(len(frames) // 2 + 1):
            ch = rng.choice(CHAINS)
            pool = [b for b in by_chain[ch] if len(b) < 4000] or [py_frame(MAGIC[ch], b'verack', b'')]
            k = rng.randrange(1, 7)
            stream = b''.join(rng.choice(pool) for _ in range(k))
            yield mk('c18.parse', ch, stream.hex(), tag='stream:%d' % k)
            # a stream read under another chain's magic
            if rng.random() < 0.2:
                yield mk('c18.parse', rng.choice(CHAINS), stream.hex(), tag='foreign-magic')
            # trailing partial frame
            cut = rng.randrange(1, len(stream) + 1)
            yield mk('c18.parse', ch, (stream + stream[:cut][:rng.choice([1, 23, 24, 25, 4000])]).hex(),
                     tag='stream-trailing-partial')

        # (c) exhaustive corruption / truncation / length fields on small frames.  The enumeration that is
        # partitioned by `idx % nshards` (minimal frames x chains x positions / cut points / one length-field
        # block per frame) is fixed data: nothing drawn from the per-shard rng influences its order or size, so
        # every shard assigns the same index to the same member (checked by harness/selftests/c18_shards.py).
        # The rng only picks the replacement values at a position that this shard owns.
        small = []
        for i, kind in enumerate(NAMES):
            for ci, ch in enumerate(CHAINS):
                small.append((ch, minimal_msg(kind)))
        # per-shard random small frames (no index partition applies to them); argument-free types would only
        # repeat the minimal frames above in every shard
        extra = [(rng.choice(CHAINS), gen_msg(rng, kind, small=True)) for kind in NAMES
                 if kind not in ('verack', 'getaddr', 'mempool') for _ in range(30 if big else 1)]
        sm = [(ch, m, b) for (ch, m), b in zip(small + extra, self.model_frames(small + extra)) if b is not None]
        idx = 0
        for si, (ch, m, b) in enumerate(sm):
            fixed = si < len(small)
            tail = py_frame(MAGIC[ch], b'verack', b'')
            if len(b) > 400:
                continue
            # minimal frames: chains other than the first get every position only in the thorough tier
            if fixed and not big and (si % 4) != (si // 4) % 4:
                positions = list(range(24))
            else:
                positions = list(range(len(b)))
            for pos in positions:
                if fixed:
                    idx += 1
                    if idx % nshards != shard:
                        continue
                vals = {b[pos] ^ 0x01, b[pos] ^ 0x80, rng.randrange(256), 0, 0xff}
                if big and fixed and len(b) <= 130:
                    vals = set(range(256))
                vals.discard(b[pos])
                if not big:
                    vals = set(sorted(vals)[:3]) if pos >= 24 else vals
                for v in sorted(vals):
                    mut = b[:pos] + bytes([v]) + b[pos + 1:]
                    yield mk('c18.parse', ch, (mut + (tail if v & 1 else b'')).hex(), tag='corrupt:%s' % m[0])
            for cut in range(len(b)):
                if fixed:
                    idx += 1
                    if idx % nshards != shard:
                        continue
                yield mk('c18.parse', ch, b[:cut].hex(), tag='truncate:%s' % m[0])
                if cut and rng.random() < 0.1:
                    yield mk('c18.parse', ch, (tail + b[:cut]).hex(), tag='truncate-second:%s' % m[0])
            if fixed:
                idx += 1
                if idx % nshards != shard:
                    continue
            payload = b[24:]
            cmd = b[4:16].split(b'\x00', 1)[0]
            n = len(payload)
            lens = {0, n, n + 1, max(n - 1, 0), n + len(tail), n + len(tail) + 1, MAX_SIZE - 1, MAX_SIZE, MAX_SIZE + 1,
                    (1 << 31) - 1, 1 << 31, (1 << 31) + 1, (1 << 32) - 1, (1 << 32) - 2, (1 << 32) - 24,
                    (1 << 32) - 25, (1 << 32) - 30, rng.randrange(1 << 32)}
            lens |= {v for v in self.pool if 0 <= v < (1 << 32) and rng.random() < 0.3}
            empty_ck = hashlib.sha256(hashlib.sha256(b'').digest()).digest()[:4]
            for ln in sorted(lens):
                for follow in (b'', tail, tail + b[:30]):
                    body = payload + follow
                    # checksum as framed / of nothing / of the bytes the declared length would cover
                    cks = {b[20:24], empty_ck}
                    if ln <= len(body):
                        cks.add(hashlib.sha256(hashlib.sha256(body[:ln]).digest()).digest()[:4])
                    for ck in sorted(cks):
                        s = py_frame(MAGIC[ch], cmd, body, length=ln, checksum=ck)
                        yield mk('c18.parse', ch, s.hex(), tag='length-field')

        # (d) header-level and payload-level malformations with a correct checksum
        for _ in range((12000 if big else 60) * 16 // nshards // 4 + 1):
            ch = rng.choice(CHAINS)
            pool = [x for x in frames if len(x[2]) < 3000]
            if not pool:
                break
            _, m, b = rng.choice(pool)
            payload = b[24:]
            cmd = b[4:16].split(b'\x00', 1)[0]
            tail = py_frame(MAGIC[ch], b'ping', struct.pack('<Q', rng.getrandbits(64)))
            r = rng.randrange(8)
            if r == 0:      # unknown / altered command
                c2 = rng.choice([b'', b'x', b'verac', b'veracks', b'VERACK', b'abcdefghijkl', cmd + b'x',
                                 cmd[:-1], b'filterload', b'sendheaders', b'\xff' * 12])[:12]
                s = py_frame(MAGIC[ch], c2, payload)
            elif r == 1:    # bytes after the NUL inside the command field
                fld = (cmd + b'\x00' + rng.randbytes(12))[:12]
                s = MAGIC[ch] + fld + b[16:]
            elif r == 2:    # payload cut short, header consistent with the shorter payload
                cut = rng.randrange(0, len(payload) + 1)
                s = py_frame(MAGIC[ch], cmd, payload[:cut])
            elif r == 3:    # payload extended
                s = py_frame(MAGIC[ch], cmd, payload + rng.randbytes(rng.choice([1, 2, 9, 80])))
            elif r == 4:    # payload byte changed, checksum recomputed
                if payload:
                    p = rng.randrange(len(payload))
                    payload = payload[:p] + bytes([rng.randrange(256)]) + payload[p + 1:]
                s = py_frame(MAGIC[ch], cmd, payload)
            elif r == 5:    # payload of one type under the command of another
                s = py_frame(MAGIC[ch], rng.choice(NAMES).encode(), payload)
            elif r == 6:    # leading count replaced by a larger / non-canonical CompactSize
                lead = rng.choice([b'\xfd\x01\x00', b'\xfe\x01\x00\x00\x00', b'\xff' + b'\x01' + b'\x00' * 7,
                                   b'\xff' * 9, b'\xfe\xff\xff\xff\x7f', b'\xfd\xff\xff', bytes([rng.randrange(256)])])
                s = py_frame(MAGIC[ch], cmd, lead + payload[1:])
            else:           # random payload under a known command
                s = py_frame(MAGIC[ch], rng.choice(NAMES).encode(), rng.randbytes(rng.choice([0, 1, 8, 30, 81, 200])))
            yield mk('c18.parse', ch, (s + tail).hex(), tag='malformed:%d' % r)

    # ---- bookkeeping ----------------------------------------------------------------------------
    def nontrivial(self, c, io):
        if c['op'] == 'c18.hist':
            return True
        if c['op'] == 'c18.frame':
            return ' ' in c['args'][1]
        return len(c['args'][1]) > 48

    def shrink_candidates(self, c):
        op, a = c['op'], c['args']
        if op == 'c18.hist':
            # prefixes only: dropping a step from the middle would desynchronise the recorded field values
            for k in range(2, len(a)):
                if a[k - 1][:1] in 'FSAPMZGQX':
                    yield mk(op, *a[:k], tag=c.get('tag', ''))
            return
        if op == 'c18.frame':
            try:
                m = parse_msg(a[1])
            except Exception:  # noqa: BLE001
                return
            if a[0] != 'mainnet':
                yield mk(op, 'mainnet', a[1], a[2], tag=c.get('tag', ''))
            if a[2] != '0':
                yield mk(op, a[0], a[1], 0, tag=c.get('tag', ''))
            if m[0] in ('addr', 'inv', 'getdata', 'notfound', 'headers') and len(m[1]) > 1:
                for sub in (m[1][:len(m[1]) // 2], m[1][len(m[1]) // 2:], m[1][:-1], m[1][1:]):
                    yield mk(op, a[0], show_msg((m[0], sub)), a[2], tag=c.get('tag', ''))
            if m[0] in ('getblocks', 'getheaders') and len(m[2]) > 0:
                yield mk(op, a[0], show_msg((m[0], m[1], m[2][:len(m[2]) // 2], m[3])), a[2], tag=c.get('tag', ''))
        elif op == 'c18.parse':
            data = bytes.fromhex(a[1])
            # drop whole leading / trailing well-formed frames
            frames, pos = [], 0
            magic = MAGIC.get(a[0], b'')
            while pos + 24 <= len(data) and data[pos:pos + 4] == magic:
                ln = struct.unpack('<I', data[pos + 16:pos + 20])[0]
                if pos + 24 + ln > len(data):
                    break
                frames.append((pos, pos + 24 + ln))
                pos += 24 + ln
            if len(frames) > 1 or (frames and pos < len(data)):
                for (s, e) in frames:
                    yield mk(op, a[0], (data[:s] + data[e:]).hex(), tag=c.get('tag', ''))
            if frames and pos < len(data):
                yield mk(op, a[0], data[:pos].hex(), tag=c.get('tag', ''))
            if a[0] != 'mainnet' and data[:4] == magic:
                d2 = data
                for (s, e) in frames:
                    d2 = d2[:s] + MAGIC['mainnet'] + d2[s + 4:]
                yield mk(op, 'mainnet', d2.hex(), tag=c.get('tag', ''))

    def signature(self, c, io, mo):
        op, a = c['op'], c['args']
        if not io.startswith('harness:'):
            kf = known_finding(op, a, io, mo)
            if kf:
                return kf
        def low_version(txt):
            f = txt.split(' ')
            return f[0] == 'version' and int(f[1]) < 70001
        if op == 'c18.hist':
            for st in a:
                parts = st.split('#')
                if len(parts) == 3 and low_version(parts[1] if st[0] == 'N' else parts[2]):
                    return 'D20-version-ser-ungated'
            return None
        if op == 'c18.frame':
            if a[1].startswith('headers ') and len(a[1]) > len('headers '):
                return 'D15-headers-missing-txcount'
            if low_version(a[1]):
                return 'D20-version-ser-ungated'
            return None
        data = bytes.fromhex(a[1])
        # D14: the model stops at a header whose length field is >= 2^31 (MAX_SIZE guard, 24 bytes consumed)
        last = mo.split('~')[-1]
        if last.startswith('err:sererr@'):
            pos = int(last.split('@')[1])
            if pos >= 24 and struct.unpack('<I', data[pos - 8:pos - 4])[0] >= (1 << 31):
                return 'D14-msglen-signed'
        if op == 'c18.frombytes' and mo == 'err:sererr|W' and len(data) >= 24 and \
                struct.unpack('<I', data[16:20])[0] >= (1 << 31):
            return 'D14-msglen-signed'
        # D15: the first entry on which the two sides differ is a `headers` frame
        ii, mm = io.split('~'), mo.split('~')
        for k in range(min(len(ii), len(mm))):
            if ii[k] != mm[k]:
                start = 0 if k == 0 else int(mm[k - 1].split('@')[0])
                if data[start + 4:start + 12] == b'headers\x00' and not data[start + 24:start + 25] in (b'\x00', b''):
                    return 'D15-headers-missing-txcount'
                if data[start + 4:start + 12] == b'version\x00' and len(data) >= start + 28 and \
                        struct.unpack('<i', data[start + 24:start + 28])[0] < 70001:
                    return 'D20-version-ser-ungated'
                break
        if op == 'c18.frombytes' and data[4:12] == b'headers\x00':
            return 'D15-headers-missing-txcount'
        return None
