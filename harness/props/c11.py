"""C11 — Bech32 segwit addresses: BIP173 codec and guaranteed corruption detection."""
from ..framework import Prop, mk, guarded, ensure_repo_on_path

CHAINS = ('mainnet', 'testnet', 'signet', 'regtest')
CHARSET = 'qpzry9x8gf2tvdw0s3jn54khce6mua7l'        # BIP173 (the harness' own copy: used to *build* corruptions)
NON_CHARSET = 'b1iO'                                  # 'b','i','o'/'O' and '1' are excluded from the data alphabet
SUBST = CHARSET + NON_CHARSET

# BIP173 test vectors (the BIP text, not the repository's copies)
BIP173_VALID_BECH32 = [
    'A12UEL5L', 'a12uel5l',
    'an83characterlonghumanreadablepartthatcontainsthenumber1andtheexcludedcharactersbio1tt5tgs',
    'abcdef1qpzry9x8gf2tvdw0s3jn54khce6mua7lmqqqxw',
    '11qqqqqqqqqqqqqqqqqqqqqqqqqqqqqqqqqqqqqqqqqqqqqqqqqqqqqqqqqqqqqqqqqqqqqqqqqqqqqqqqqqc8247j',
    'split1checkupstagehandshakeupstreamerranterredcaperred2y9e3w', '?1ezyfcl',
]
BIP173_INVALID_BECH32 = [
    '\x201nwldj5', '\x7f1axkwrx', '\x801eym55h',
    'an84characterslonghumanreadablepartthatcontainsthenumber1andtheexcludedcharactersbio1569pvx',
    'pzry9x0s0muk', '1pzry9x0s0muk', 'x1b4n0q5v', 'li1dgmt3', 'de1lg7wt\xff', 'A1G7SGD8', '10a06t8', '1qzzfhee',
]
BIP173_VALID_ADDR = [
    ('bc', 'BC1QW508D6QEJXTDG4Y5R3ZARVARY0C5XW7KV8F3T4'),
    ('tb', 'tb1qrp33g0q5c5txsp9arysrx4k6zdkfs4nce4xj0gdcccefvpysxf3q0sl5k7'),
    ('bc', 'bc1pw508d6qejxtdg4y5r3zarvary0c5xw7kw508d6qejxtdg4y5r3zarvary0c5xw7k7grplx'),
    ('bc', 'BC1SW50QA3JX3S'),
    ('bc', 'bc1zw508d6qejxtdg4y5r3zarvaryvg6kdaj'),
    ('tb', 'tb1qqqqqp399et2xygdj5xreqhjjvcmzhxw4aywxecjdzew6hylgvsesrxh6hy'),
]
BIP173_INVALID_ADDR = [
    'tc1qw508d6qejxtdg4y5r3zarvary0c5xw7kg3g4ty', 'bc1qw508d6qejxtdg4y5r3zarvary0c5xw7kv8f3t5',
    'BC13W508D6QEJXTDG4Y5R3ZARVARY0C5XW7KN40WF2', 'bc1rw5uspcuh',
    'bc10w508d6qejxtdg4y5r3zarvary0c5xw7kw508d6qejxtdg4y5r3zarvary0c5xw7kw5rljs90',
    'BC1QR508D6QEJXTDG4Y5R3ZARVARYV98GJ9P', 'tb1qrp33g0q5c5txsp9arysrx4k6zdkfs4nce4xj0gdcccefvpysxf3q0sL5k7',
    'bc1zw508d6qejxtdg4y5r3zarvaryvqyzf3du', 'tb1qrp33g0q5c5txsp9arysrx4k6zdkfs4nce4xj0gdcccefvpysxf3pjxtptv',
    'bc1gmk9yu',
]


def cps(s):
    """a Python str on the line protocol: comma-separated decimal code points"""
    return ','.join(str(ord(ch)) for ch in s)


def uncps(a):
    return ''.join(chr(int(x)) for x in a.split(',')) if a else ''


def nats(l):
    return ','.join(str(x) for x in l)


def unnats(a):
    return [int(x) for x in a.split(',')] if a else []


def show_dec(r):
    v, p = r
    if v is None and p is None:
        return 'none'
    return '%d:%s' % (v, bytes(p).hex())


class C11(Prop):
    id = 'C11'
    title = 'Bech32 segwit addresses: BIP173 codec and guaranteed corruption detection'
    lean_targets = ['BtcVerif.Model.Bech32']
    table_groups = []
    theorems = []
    anchors = [('bitcoin/segwit_addr.py', f) for f in (
        'bech32_polymod', 'bech32_hrp_expand', 'bech32_verify_checksum', 'bech32_create_checksum',
        'bech32_encode', 'bech32_decode', 'convertbits', 'decode', 'encode')] + [
        ('bitcoin/bech32.py', 'CBech32Data.__new__'), ('bitcoin/bech32.py', 'CBech32Data.from_bytes'),
        ('bitcoin/bech32.py', 'CBech32Data.__str__')]
    trusted_base = ['Spec.Bech32.ValidSegwit is my transcription of the BIP173 rules',
                    'btcmodel executable = compiled Model.Bech32 (Lean compiler)',
                    'Python str.lower/upper on strings of code points 33..126 = ASCII case mapping; '
                    'int bit operations on non-negative ints = Nat bit operations (validated by the correspondence run)']
    assumptions = []
    rule = ('BIP173 vectors; hrps bc/tb/bcrt + random valid hrps (1..83 chars of 33..126) x programs 20/32 (v0) and every '
            'length 2..40 x versions 1..16 (+ out-of-range combinations) through encode/decode; per valid address every '
            'single substitution (36 symbols x every position), sampled/exhaustive double, sampled triple/quadruple '
            'substitutions, case-flip classes, every truncation/extension; CBech32Data(str)/str() under each chain; '
            'non-trivial = an input other than the empty string; distinct by canonical request line')

    def setup(self):
        ensure_repo_on_path()
        import bitcoin
        import bitcoin.segwit_addr as SA
        import bitcoin.bech32 as B32
        self.bitcoin, self.SA, self.B32 = bitcoin, SA, B32

    # ---- generators -------------------------------------------------------------------------
    def _hrps(self, rng, n):
        out = ['bc', 'tb', 'bcrt']
        lowers = [chr(c) for c in range(33, 127) if not ('A' <= chr(c) <= 'Z')]
        for _ in range(n):
            ln = rng.choice([1, 2, 3, 4, 5, 10, 20, 30, 44, 45, 46, 50, 51, 52, 82, 83, 84, rng.randrange(1, 84)])
            kind = rng.randrange(6)
            if kind == 0:
                out.append(''.join(rng.choice('1' + CHARSET[:4]) for _ in range(ln)))     # many '1's
            elif kind == 1:
                out.append(''.join(rng.choice('0123456789!?~') for _ in range(ln)))       # no letters at all
            else:
                out.append(''.join(rng.choice(lowers) for _ in range(ln)))
        return out

    def _progs(self, rng, big):
        """(witver, program bytes) — valid combinations first, then the out-of-range ones"""
        out = []
        for ln in (20, 32):
            for _ in range(6 if big else 2):
                out.append((0, rng.randbytes(ln)))
            out.append((0, bytes(ln)))
            out.append((0, b'\xff' * ln))
        for ln in range(2, 41):
            vs = range(1, 17) if big else {1, 16, rng.randrange(1, 17), rng.randrange(1, 17)}
            for v in vs:
                out.append((v, rng.randbytes(ln)))
        return out

    def _bad_progs(self, rng):
        out = []
        for ln in (0, 1, 2, 19, 21, 31, 33, 40, 41, 42, 50, 60):
            out.append((0, rng.randbytes(ln)))
        for v in (1, 16, 17, 31, 32, 33, 100):
            for ln in (0, 1, 2, 20, 32, 40, 41, 42, 47, 48, 64):
                out.append((v, rng.randbytes(ln)))
        return out

    def generate(self, rng, tier, shard, nshards):
        big = tier == 'thorough'
        SA = self.SA
        cnt = [0]

        def mine():
            cnt[0] += 1
            return cnt[0] % nshards == shard

        # (0) BIP173 vectors
        for s in BIP173_VALID_BECH32 + BIP173_INVALID_BECH32 + [a for _, a in BIP173_VALID_ADDR] + BIP173_INVALID_ADDR:
            if mine():
                yield mk('c11.b32dec', cps(s), tag='bip173-bech32')
                for h in ('bc', 'tb', 'bcrt', 'BC'):
                    yield mk('c11.decode', cps(h), cps(s), tag='bip173-addr')
                for ch in CHAINS:
                    yield mk('c11.new', ch, cps(s), tag='bip173-new')

        # (1) building blocks: polymod / checksum / convertbits on boundary-directed values
        for _ in range(3000 if big else 300):
            if not mine():
                continue
            ln = rng.choice([0, 1, 2, 5, 6, 7, 8, 20, 32, 40, 41, rng.randrange(0, 90)])
            vs = [rng.randrange(32) for _ in range(ln)]
            yield mk('c11.polymod', nats(vs), tag='polymod')
            h = rng.choice(['bc', 'tb', 'bcrt', 'A', '~', '1', 'x' * 83])
            yield mk('c11.createChecksum', cps(h), nats(vs), tag='checksum')
            for (f, t, p) in ((8, 5, 1), (5, 8, 0), (5, 8, 1), (8, 5, 0)):
                m = 1 << f
                ds = [rng.choice([0, 1, m - 1, m - 2, rng.randrange(m)]) for _ in range(ln)]
                if rng.randrange(8) == 0 and ds:
                    ds[rng.randrange(len(ds))] = rng.choice([m, m + 1, 255, 256, 1 << 20])
                yield mk('c11.convertbits', nats(ds), f, t, p, tag='convertbits')
            # the 5->8 padding rules: tails with 0..7 spare bits, zero and non-zero
            ds = [rng.randrange(32) for _ in range(ln)] + [rng.choice([0, 1, 2, 4, 8, 16, 3, 24, 28, 30])]
            yield mk('c11.convertbits', nats(ds), 5, 8, 0, tag='convertbits-pad')

        # (2) encode / decode round trips
        hrps = self._hrps(rng, 60 if big else 12)
        valid = []
        for h in hrps:
            for (v, p) in self._progs(rng, big) if h in ('bc', 'tb', 'bcrt') else self._progs(rng, False)[::7]:
                if not mine():
                    continue
                yield mk('c11.encode', cps(h), v, p.hex(), tag='encode')
                a = SA.encode(h, v, p)
                if a is not None:
                    valid.append((h, a))
                    yield mk('c11.decode', cps(h), cps(a), tag='decode-valid')
                    yield mk('c11.decode', cps(h), cps(a.upper()), tag='decode-upper')
            for (v, p) in self._bad_progs(rng):
                if mine():
                    yield mk('c11.encode', cps(h), v, p.hex(), tag='encode-bad')
        for h in ('Bc', 'BC', 'b c', 'b\tc', '', 'bc\x7f', 'é', '€', 'x' * 84, 'x' * 100):
            for (v, p) in ((0, bytes(20)), (1, bytes(2)), (16, bytes(40))):
                if mine():
                    yield mk('c11.encode', cps(h), v, p.hex(), tag='encode-badhrp')

        # (3) corruptions of valid addresses
        rng.shuffle(valid)
        picks = [x for x in valid if x[0] in ('bc', 'tb', 'bcrt')][:(12 if big else 4)] + \
                [x for x in valid if x[0] not in ('bc', 'tb', 'bcrt')][:(12 if big else 3)]
        for (h, a) in picks:
            n = len(a)
            sep = a.rfind('1')
            # every single substitution at every position of the string
            for i in range(n):
                for ch in SUBST:
                    if ch != a[i]:
                        yield mk('c11.decode', cps(h), cps(a[:i] + ch + a[i + 1:]), tag='sub1')
            # sampled double / triple / quadruple substitutions inside the data part
            for k, cntk in ((2, 20000 if not big else 60000), (3, 3000 if not big else 30000),
                            (4, 3000 if not big else 30000)):
                for _ in range(cntk // max(1, len(picks))):
                    pos = rng.sample(range(sep + 1, n), k)
                    b = list(a)
                    for i in pos:
                        b[i] = rng.choice([c for c in (SUBST if rng.randrange(10) == 0 else CHARSET) if c != a[i]])
                    yield mk('c11.decode', cps(h), cps(''.join(b)), tag='sub%d' % k)
            # case-flip classes
            flips = [a.upper(), a.lower(), a[:sep].upper() + a[sep:], a[:sep] + a[sep:].upper()]
            for i in range(n):
                flips.append(a[:i] + a[i].upper() + a[i + 1:])
                flips.append(a.upper()[:i] + a[i] + a.upper()[i + 1:])
            for _ in range(20):
                flips.append(''.join(c.upper() if rng.randrange(2) else c for c in a))
            for f in flips:
                yield mk('c11.decode', cps(h), cps(f), tag='caseflip')
            # truncations / extensions
            for i in range(n + 1):
                yield mk('c11.decode', cps(h), cps(a[:i]), tag='trunc')
                yield mk('c11.decode', cps(h), cps(a[i:]), tag='trunc')
                if i < n:
                    yield mk('c11.decode', cps(h), cps(a[:i] + a[i + 1:]), tag='delete')
                for ch in 'q1l' + rng.choice(SUBST):
                    yield mk('c11.decode', cps(h), cps(a[:i] + ch + a[i:]), tag='insert')
            for ch in SUBST + ' \t\n\x00\x7fé':
                yield mk('c11.decode', cps(h), cps(a + ch), tag='extend')
                yield mk('c11.decode', cps(h), cps(ch + a), tag='extend')

        # (4) thorough: every double substitution of one P2WPKH mainnet address (shard-partitioned)
        if big:
            a = SA.encode('bc', 0, bytes(range(1, 21)))
            sep = a.rfind('1')
            idx = 0
            for i in range(sep + 1, len(a)):
                for j in range(i + 1, len(a)):
                    idx += 1
                    if idx % nshards != shard:
                        continue
                    for c1 in CHARSET:
                        if c1 == a[i]:
                            continue
                        for c2 in CHARSET:
                            if c2 != a[j]:
                                yield mk('c11.decode', '98,99', cps(a[:i] + c1 + a[i + 1:j] + c2 + a[j + 1:]), tag='sub2-all')

        # (5) CBech32Data under each chain's HRP
        for ch in CHAINS:
            for (v, p) in self._progs(rng, False)[::3] + self._bad_progs(rng)[::5]:
                if not mine():
                    continue
                yield mk('c11.str', ch, v, p.hex(), tag='str')
                for h in ('bc', 'tb', 'bcrt'):
                    a = SA.encode(h, v, p) if v < 32 else None
                    if a is not None:
                        yield mk('c11.new', ch, cps(a), tag='new')
                        yield mk('c11.new', ch, cps(a.upper()), tag='new')
                        i = rng.randrange(len(a))
                        yield mk('c11.new', ch, cps(a[:i] + rng.choice(SUBST) + a[i + 1:]), tag='new-corrupt')

    # ---- the real code ------------------------------------------------------------------------
    def impl(self, c):
        SA = self.SA
        op, a = c['op'], c['args']
        if op == 'c11.decode':
            return guarded(lambda: show_dec(SA.decode(uncps(a[0]), uncps(a[1]))))
        if op == 'c11.encode':
            def f():
                r = SA.encode(uncps(a[0]), int(a[1]), bytes.fromhex(a[2]))
                return 'none' if r is None else r
            return guarded(f)
        if op == 'c11.b32dec':
            def f():
                h, d = SA.bech32_decode(uncps(a[0]))
                return 'none' if h is None and d is None else cps(h) + ';' + nats(d)
            return guarded(f)
        if op == 'c11.b32enc':
            return guarded(lambda: 's:' + cps(SA.bech32_encode(uncps(a[0]), unnats(a[1]))))
        if op == 'c11.polymod':
            return guarded(lambda: str(SA.bech32_polymod(unnats(a[0]))))
        if op == 'c11.createChecksum':
            return guarded(lambda: nats(SA.bech32_create_checksum(uncps(a[0]), unnats(a[1]))))
        if op == 'c11.convertbits':
            def f():
                r = SA.convertbits(unnats(a[0]), int(a[1]), int(a[2]), bool(int(a[3])))
                return 'none' if r is None else '[' + nats(r) + ']'
            return guarded(f)
        if op in ('c11.new', 'c11.str'):
            def f():
                self.bitcoin.SelectParams(a[0])
                try:
                    if op == 'c11.new':
                        o = self.B32.CBech32Data(uncps(a[1]))
                        return '%d:%s' % (o.witver, bytes(o).hex())
                    return str(self.B32.CBech32Data.from_bytes(int(a[1]), bytes.fromhex(a[2])))
                finally:
                    self.bitcoin.SelectParams('mainnet')
            return guarded(f)
        raise ValueError(op)

    def nontrivial(self, c, io):
        return any(x not in ('', '0') for x in c['args'])

    def shrink_candidates(self, c):
        if c['op'] == 'c11.decode':
            h, s = c['args']
            if h != '98,99':
                return
        return
        yield

    def signature(self, c, io, mo):
        return None
